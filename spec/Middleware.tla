----------------------------- MODULE Middleware -----------------------------
(* Request-ID, trace and response-capture middlewares of goa (property C19).

   One *case* is a configuration (cfg) plus a short history of top-level
   requests (reqs).  Every request travels through a chain of cfg.depth servers
   ("hops"); each server runs   RequestID -> Trace -> (Log/ResponseCapture) ->
   handler, and the handler of hop i < depth calls hop i+1 through a traced
   client (HTTP: WrapDoer, gRPC: Unary/StreamClientTrace).  The same
   specification is bound to three transports (cfg.transport): the HTTP
   middlewares, the gRPC unary interceptors and the gRPC stream interceptors.

   Steps (one action per step of the code):
     Arrive          the environment sends request q (inbound headers/metadata)
     RidTrusted      middleware.GenerateRequestID: trusted inbound value, truncated
     RidFresh        ... or a fresh identifier
     TraceKeep       Trace/withTrace: inbound trace id kept, fresh span, parent = caller span
     TraceSample     no inbound trace, not discarded, sampler says yes: new trace + span
     TraceSkip       no inbound trace and (discarded or sampler says no)
     Handler         the wrapped handler observes its context          (observation "hop")
     TracedClient    tracedDoer.Do / setTrace: headers for the next hop (observation "forward")
     CapWriteHeader, CapWrite, CapFlush   the handler writes through ResponseCapture (HTTP)
     CapDone         handler returns; Log reads the capture            (observation "capture")
     Return          gRPC: handler returns

   Identifiers are abstract tokens.  Trace/span ids come from the injected
   TraceIDFunc/SpanIDFunc counters: "t<k>", "s<k>"; the inbound ones are "T0"/"P0";
   "none" = absent.  A request id is [kind, n, len]: a prefix of length len of the
   inbound value (kind "inbound") or of the n-th freshly generated id (kind "fresh").

   Option LISTS.  Options are given to the middlewares as a list; what the design promises about a list:
     - DiscardFromTrace accumulates: cfg.discards patterns, and a request is discarded iff ANY of them
       matches its path / full method, whatever the position of the matching pattern.  A request says which
       positions match it (req.dmatch, one boolean per pattern); the same path travels down the chain.
     - every other option is a setter: the LAST instance of a kind decides, instances of different kinds
       are independent of each other and of their order (SamplingPercent and MaxSamplingRate are documented
       as mutually exclusive and never given together).  cfg.layout says how the lists are written:
       "plain" each option once (id functions, sampling, discards), "rev" the other way round (discards,
       SampleSize before MaxSamplingRate, id functions last), "dup" every setter twice - first an instance
       with ANOTHER value that the later one overrides - with the discard patterns spread between them.
       Nothing in the design depends on the layout.

   Where the documentation leaves a choice the specification is nondeterministic:
   0 < percent < 100, the adaptive sampler once the sample size has been reached,
   a ParentSpanID header on a request without TraceID, the captured status of a
   handler that wrote nothing at all. *)
EXTENDS Integers, Sequences, FiniteSets, TLC

CONSTANTS Deviations,   \* named departures of the code from the design
          Mode,         \* "rid" | "trace" | "capture" | "trace_log": which slice of the option space Init enumerates
          MaxHops, MaxReq, LimitMax, MaxScript,
          MaxDiscards,  \* number of DiscardFromTrace patterns explored by the trace slice (0..MaxDiscards)
          Layouts,      \* ways of writing the option lists explored by the rid and trace slices
          OptHops       \* ... for chains of up to OptHops servers (longer chains: "plain")

FreshLen == 8           \* shortID(): 6 random bytes, base64 raw url encoding

---------------------------------------------------------------------------
\* values
NoRid       == [kind |-> "none", n |-> 0, len |-> 0]
InRid(l)    == [kind |-> "inbound", n |-> 0, len |-> l]
FreshRid(k) == [kind |-> "fresh", n |-> k, len |-> FreshLen]
Usable(v)   == v.kind # "none" /\ v.len > 0          \* Header.Get / MetadataValue return "" for absent and for empty
Tok(p, k)   == p \o ToString(k)

EmptyCtx == [rid |-> NoRid, trace |-> "none", span |-> "none", parent |-> "none"]
NoWire   == [rid |-> NoRid, ridc |-> NoRid, trace |-> "none", parent |-> "none", dmatch |-> <<>>]

Op(o, v) == [op |-> o, v |-> v]
Ops == {Op("wh", 200), Op("wh", 404), Op("wh", 500), Op("w", 0), Op("w", 1), Op("w", 3), Op("fl", 0)}
Scripts(n) == UNION {[1..k -> Ops] : k \in 0..n}
\* what handlers write in the slices that are not about the capture (HTTP only)
PlainScript == <<Op("wh", 200), Op("w", 1)>>

\* request-id options.  on = UseRequestIDOption(true); off = UseRequestIDOption(false);
\* custom = RequestIDHeaderOption("Custom-Id"); on_custom = on then custom; custom_off = custom then off
TrustModes(tr) == IF tr = "http" THEN {"none", "on", "off", "custom", "on_custom", "custom_off"} ELSE {"none", "on", "off"}
TrustedHeader(c) == IF c.trust = "on" THEN "std"
                    ELSE IF c.trust \in {"custom", "on_custom"} THEN "custom"
                    ELSE "none"
\* the header under which a forwarding handler passes its request id on
ForwardHeader(c) == IF TrustedHeader(c) = "custom" THEN "custom" ELSE "std"

Transports == {"http", "grpc_unary", "grpc_stream"}

\* forward: the handler passes its request id on under the header the next server trusts;
\* fwdmd:   the handler forwards what it received on its outgoing call before the traced client runs
\*          (gRPC: NewOutgoingContext(ctx, incoming metadata); HTTP: the inbound TraceID / ParentSpanID
\*          headers copied onto the outgoing request)
\* hname:   how the NAME given to RequestIDHeaderOption is spelled: "canon" X-Correlation-Id, "lower"
\*          x-correlation-id, "mixed" X-Correlation-ID.  HTTP header names are case-insensitive (and gRPC
\*          metadata keys are lower-cased by grpc), so nothing in the design depends on it, nor on the
\*          spelling the sender used (req.ridSpell).
\* layout:  how the option lists are written (see the header).  The values a "dup" layout gives first and
\*          overrides: SamplingPercent(OtherPct(pct)), SampleSize(another size: 1, or 2 when ssize = 1), RequestIDLimitOption(limit + 1),
\*          UseRequestIDOption(the opposite), RequestIDHeaderOption(a header no request carries), id functions
\*          that return tokens no prediction contains.
\* dmatch:  one boolean per DiscardFromTrace pattern, in the order the patterns were given: does pattern i
\*          match the path (HTTP) / full method (gRPC) of this request
Spellings == {"canon", "lower", "mixed"}
AllLayouts == {"plain", "rev", "dup"}
OtherPct(p) == IF p = 100 THEN 0 ELSE 100
Cfg(tr, trust, lim, sm, pct, ss, nd, d, fw, fm, hn, lay) ==
  [transport |-> tr, trust |-> trust, limit |-> lim, smode |-> sm, pct |-> pct, ssize |-> ss,
   discards |-> nd, depth |-> d, forward |-> fw, fwdmd |-> fm, hname |-> hn, layout |-> lay]
Req(at, l, sp, t, p, dm, sc) ==
  [ridAt |-> at, ridLen |-> l, ridSpell |-> sp, trace |-> t, parent |-> p, dmatch |-> dm, script |-> sc]
Matches(n) == IF n = 0 THEN {<<>>} ELSE [1..n -> BOOLEAN]
AnyMatch(m) == \E i \in 1..Len(m) : m[i]

---------------------------------------------------------------------------
VARIABLES cfg, reqs,          \* the case
          q, hop, pc,         \* current request, current hop, control
          wire,               \* headers / metadata of the request in flight to the current hop
          ctx,                \* per-hop context of the current request
          scount,             \* per-hop sampler: number of Sample() calls (saturates at ssize)
          nR, nT, nS,         \* fresh request ids / trace ids / span ids generated so far
          k, cap, rec,        \* script position, ResponseCapture fields, what the underlying writer got
          hops, fwds, caps    \* observations (history)
vars == <<cfg, reqs, q, hop, pc, wire, ctx, scount, nR, nT, nS, k, cap, rec, hops, fwds, caps>>

Hops == 1..MaxHops
Cap0 == [st |-> 0, by |-> 0]
Rec0 == [st |-> 200, by |-> 0, wrote |-> FALSE]      \* a response without explicit status is a 200

\* ---- case spaces ----
SamplingSpace ==
  {<<"default", 100, 1>>, <<"percent", 0, 1>>, <<"percent", 50, 1>>, <<"percent", 100, 1>>}
  \cup {<<"adaptive", 100, s>> : s \in 1..3}

\* slice "rid": every request-id option x inbound value x chain depth, one request
RidReq(tr, at, l, sp, t) == Req(at, l, sp, t, FALSE, <<>>, IF tr = "http" THEN PlainScript ELSE <<>>)
CustomTrust == {"custom", "on_custom", "custom_off"}
InitRid ==
  \E tr \in Transports : \E trust \in TrustModes(tr) : \E lim \in 0..LimitMax : \E d \in 1..MaxHops :
  \E fw \in (IF d = 1 THEN {FALSE} ELSE BOOLEAN) : \E at \in {"none", "std", "custom"} :
  \E l \in (IF at = "none" THEN {0} ELSE 0..(LimitMax + 1)) : \E t \in BOOLEAN :
  \* spellings matter (if at all) where the inbound value sits in the header the options name
  \E hn \in (IF trust \in CustomTrust /\ at = "custom" THEN Spellings ELSE {"canon"}) :
  \E sp \in (IF l > 0 /\ ((at = "custom" /\ trust \in CustomTrust) \/ (at = "std" /\ trust = "on")) THEN Spellings ELSE {"canon"}) :
  \* the order of request-id options carries meaning (on_custom / custom_off), so there is no "rev" here
  \E lay \in (IF d <= OptHops THEN {"plain"} \cup (Layouts \ {"rev"}) ELSE {"plain"}) :
    /\ cfg = Cfg(tr, trust, lim, "default", 100, 1, 0, d, fw, FALSE, hn, lay)
    /\ reqs = <<RidReq(tr, at, l, sp, t)>>

\* slice "trace": sampling options x discards x chain depth x histories of 1..MaxReq requests
\* every subset of the pattern positions matches some request: first only, last only, a middle one, none, several
TraceReqsWith(sc, nd) == {Req("none", 0, "canon", t, p, dm, sc) : t \in BOOLEAN, p \in BOOLEAN, dm \in Matches(nd)}
InitTrace ==
  \E tr \in Transports : \E s \in SamplingSpace : \E nd \in 0..MaxDiscards : \E d \in 1..MaxHops : \E n \in 1..MaxReq :
  \E fm \in (IF d = 1 THEN {FALSE} ELSE BOOLEAN) :
  \E lay \in (IF d <= OptHops THEN {"plain"} \cup Layouts ELSE {"plain"}) :
  \E r \in [1..n -> TraceReqsWith(IF tr = "http" THEN PlainScript ELSE <<>>, nd)] :
    /\ cfg = Cfg(tr, "none", 0, s[1], s[2], s[3], nd, d, FALSE, fm, "canon", lay)
    /\ reqs = r

\* slice "capture": every handler script up to MaxScript operations (HTTP)
InitCapture ==
  \E d \in 1..(IF MaxHops > 2 THEN 2 ELSE MaxHops) : \E sc \in Scripts(MaxScript) :
    /\ cfg = Cfg("http", "none", 0, "default", 100, 1, 0, d, FALSE, FALSE, "canon", "plain")
    /\ reqs = <<Req("none", 0, "canon", FALSE, FALSE, <<>>, sc)>>

Idle == /\ q = 0 /\ hop = 0 /\ wire = NoWire
        /\ ctx = [h \in Hops |-> EmptyCtx] /\ scount = [h \in Hops |-> 0]
        /\ nR = 0 /\ nT = 0 /\ nS = 0 /\ k = 1 /\ cap = Cap0 /\ rec = Rec0
        /\ hops = <<>> /\ fwds = <<>> /\ caps = <<>>

Init == /\ \/ Mode = "rid" /\ InitRid
           \/ Mode = "trace" /\ InitTrace
           \/ Mode = "capture" /\ InitCapture
        /\ pc = "idle" /\ Idle

---------------------------------------------------------------------------
\* the environment
InboundWire(r) ==
  [rid |-> IF r.ridAt = "std" THEN InRid(r.ridLen) ELSE NoRid,
   ridc |-> IF r.ridAt = "custom" THEN InRid(r.ridLen) ELSE NoRid,
   trace |-> IF r.trace THEN "T0" ELSE "none",
   parent |-> IF r.parent THEN "P0" ELSE "none",
   dmatch |-> r.dmatch]

Arrive == /\ pc = "idle" /\ q < Len(reqs)
          /\ q' = q + 1 /\ hop' = 1 /\ pc' = "rid"
          /\ wire' = InboundWire(reqs[q + 1])
          /\ ctx' = [h \in Hops |-> EmptyCtx]
          /\ UNCHANGED <<cfg, reqs, scount, nR, nT, nS, k, cap, rec, hops, fwds, caps>>

\* ---- request id middleware ----
TrustedInbound ==
  LET th == TrustedHeader(cfg) IN
  IF "rid.trusts_header_when_disabled" \in Deviations /\ th = "none" THEN wire.rid
  \* the lookup is case-insensitive: the spelling of the configured name and of the sender's header do not matter
  ELSE IF "rid.custom_header_case_sensitive" \in Deviations /\ th = "custom" /\ cfg.hname # "canon" THEN NoRid
  ELSE IF th = "std" THEN wire.rid ELSE IF th = "custom" THEN wire.ridc ELSE NoRid
\* the hypothetical slip "the first instance of a setter decides" (layout "dup" gives another value first)
FirstWins == cfg.layout = "dup" /\ "options.first_setter_wins" \in Deviations
Truncate(v, lim) ==
  LET cut == IF "rid.truncate_off_by_one" \in Deviations \/ FirstWins THEN lim + 1 ELSE lim IN
  IF lim > 0 /\ v.len > cut THEN [v EXCEPT !.len = cut] ELSE v

RidTrusted == /\ pc = "rid" /\ Usable(TrustedInbound)
              /\ ctx' = [ctx EXCEPT ![hop].rid = Truncate(TrustedInbound, cfg.limit)]
              /\ pc' = "trace"
              /\ UNCHANGED <<cfg, reqs, q, hop, wire, scount, nR, nT, nS, k, cap, rec, hops, fwds, caps>>
RidFresh   == /\ pc = "rid" /\ ~Usable(TrustedInbound)
              /\ nR' = nR + 1
              /\ ctx' = [ctx EXCEPT ![hop].rid = IF "rid.empty_when_untrusted" \in Deviations THEN NoRid ELSE FreshRid(nR + 1)]
              /\ pc' = "trace"
              /\ UNCHANGED <<cfg, reqs, q, hop, wire, scount, nT, nS, k, cap, rec, hops, fwds, caps>>

\* ---- trace middleware ----
\* discarded iff ANY pattern matches; the named slips let one position decide
Discarded == LET m == wire.dmatch IN
             IF "trace.last_discard_pattern_wins" \in Deviations THEN Len(m) > 0 /\ m[Len(m)]
             ELSE IF "trace.first_discard_pattern_only" \in Deviations THEN Len(m) > 0 /\ m[1]
             ELSE AnyMatch(m)
EffPct == IF FirstWins THEN OtherPct(cfg.pct) ELSE cfg.pct
Bump == scount' = [scount EXCEPT ![hop] = IF @ < cfg.ssize THEN @ + 1 ELSE @]
MaySample == CASE cfg.smode = "default"  -> TRUE
               [] cfg.smode = "percent"  -> EffPct > 0
               [] cfg.smode = "adaptive" -> TRUE
MaySkip   == CASE cfg.smode = "default"  -> FALSE
               [] cfg.smode = "percent"  -> EffPct < 100 \/ "sampler.random_at_100" \in Deviations
               [] cfg.smode = "adaptive" -> scount[hop] + 1 >= cfg.ssize \/ "sampler.adaptive_skips_early" \in Deviations     \* every request sampled until the sample size is reached

TraceKeep == /\ pc = "trace" /\ wire.trace # "none"
             /\ ~("trace.new_trace_despite_inbound" \in Deviations)
             /\ nS' = nS + 1
             /\ ctx' = [ctx EXCEPT ![hop].trace = wire.trace, ![hop].parent = wire.parent,
                                   ![hop].span = IF "trace.span_reused" \in Deviations /\ nS > 0 THEN Tok("s", nS) ELSE Tok("s", nS + 1)]
             /\ pc' = "handler"
             /\ UNCHANGED <<cfg, reqs, q, hop, wire, scount, nR, nT, k, cap, rec, hops, fwds, caps>>
TraceSample == /\ pc = "trace"
               /\ (wire.trace = "none" \/ "trace.new_trace_despite_inbound" \in Deviations)
               /\ ~Discarded /\ MaySample
               /\ Bump
               /\ nT' = nT + 1 /\ nS' = nS + 1
               \* ParentSpanID without TraceID: undocumented, either ignored or recorded
               /\ \E p \in {"none", wire.parent} :
                    ctx' = [ctx EXCEPT ![hop].trace = Tok("t", nT + 1), ![hop].span = Tok("s", nS + 1), ![hop].parent = p]
               /\ pc' = "handler"
               /\ UNCHANGED <<cfg, reqs, q, hop, wire, nR, k, cap, rec, hops, fwds, caps>>
TraceSkip == /\ pc = "trace" /\ wire.trace = "none"
             /\ \/ Discarded /\ UNCHANGED scount
                \/ ~Discarded /\ MaySkip /\ Bump
             /\ ctx' = IF "trace.stale_parent_when_untraced" \in Deviations THEN [ctx EXCEPT ![hop].parent = wire.parent] ELSE ctx
             /\ pc' = "handler"
             /\ UNCHANGED <<cfg, reqs, q, hop, wire, nR, nT, nS, k, cap, rec, hops, fwds, caps>>

\* ---- handler and traced client ----
HopObs == [q |-> q, hop |-> hop, in |-> wire, rid |-> ctx[hop].rid,
           md |-> IF cfg.transport = "http" THEN NoRid
                 ELSE IF "grpc.metadata_not_rewritten" \in Deviations THEN wire.rid ELSE ctx[hop].rid,   \* gRPC: x-request-id metadata rewritten
           trace |-> ctx[hop].trace, span |-> ctx[hop].span, parent |-> ctx[hop].parent]
Handler == /\ pc = "handler"
           /\ hops' = Append(hops, HopObs)
           /\ pc' = IF hop < cfg.depth THEN "client" ELSE "respond"
           /\ k' = 1 /\ cap' = Cap0 /\ rec' = Rec0
           /\ UNCHANGED <<cfg, reqs, q, hop, wire, ctx, scount, nR, nT, nS, fwds, caps>>

\* what the handler puts on its outgoing call before the traced client runs
Forwarded ==
  LET c == ctx[hop]
      fh == ForwardHeader(cfg)
      allmd == cfg.fwdmd /\ cfg.transport # "http" IN     \* gRPC: the whole incoming metadata (x-request-id was rewritten)
  [rid |-> IF (cfg.forward /\ fh = "std") \/ allmd THEN c.rid ELSE NoRid,
   ridc |-> IF cfg.forward /\ fh = "custom" THEN c.rid ELSE IF allmd THEN wire.ridc ELSE NoRid,
   trace |-> IF cfg.fwdmd THEN wire.trace ELSE "none",
   parent |-> IF cfg.fwdmd THEN wire.parent ELSE "none",
   dmatch |-> wire.dmatch]       \* the same path / method is called downstream
\* tracedDoer.Do / setTrace: the CURRENT trace and span replace whatever is there
Outgoing ==
  LET c == ctx[hop]
      f == Forwarded
      traced == c.trace # "none"
      mine == IF "client.forwards_parent_not_span" \in Deviations THEN c.parent ELSE c.span
      keep == "client.appends_to_forwarded_metadata" \in Deviations    \* appended after the forwarded values: the first one wins
  IN
  [f EXCEPT !.trace = IF "client.drops_trace" \in Deviations THEN "none"
                      ELSE IF ~traced \/ (keep /\ f.trace # "none") THEN f.trace ELSE c.trace,
            !.parent = IF ~traced \/ (keep /\ f.parent # "none") THEN f.parent ELSE mine]
TracedClient == /\ pc = "client"
                /\ wire' = Outgoing
                /\ fwds' = Append(fwds, [q |-> q, hop |-> hop, out |-> Outgoing])
                /\ hop' = hop + 1 /\ pc' = "rid"
                /\ UNCHANGED <<cfg, reqs, q, ctx, scount, nR, nT, nS, k, cap, rec, hops, caps>>

\* ---- response capture (HTTP) ----
Script == reqs[q].script
InScript == pc = "respond" /\ cfg.transport = "http" /\ k <= Len(Script)
RecHeader(code) == IF rec.wrote THEN rec ELSE [rec EXCEPT !.st = code, !.wrote = TRUE]

CapWriteHeader == /\ InScript /\ Script[k].op = "wh"
                  /\ cap' = IF rec.wrote /\ ~("capture.status_follows_last_writeheader" \in Deviations)
                            THEN cap ELSE [cap EXCEPT !.st = Script[k].v]
                  /\ rec' = RecHeader(Script[k].v)
                  /\ k' = k + 1
                  /\ UNCHANGED <<cfg, reqs, q, hop, pc, wire, ctx, scount, nR, nT, nS, hops, fwds, caps>>
CapWrite == /\ InScript /\ Script[k].op = "w"
            /\ cap' = [st |-> IF rec.wrote \/ "capture.status_zero_without_writeheader" \in Deviations THEN cap.st ELSE 200,
                       by |-> cap.by + Script[k].v]
            /\ rec' = [RecHeader(200) EXCEPT !.by = @ + Script[k].v]
            /\ k' = k + 1
            /\ UNCHANGED <<cfg, reqs, q, hop, pc, wire, ctx, scount, nR, nT, nS, hops, fwds, caps>>
CapFlush == /\ InScript /\ Script[k].op = "fl"
            /\ cap' = [cap EXCEPT !.st = IF rec.wrote \/ "capture.status_zero_without_writeheader" \in Deviations THEN @ ELSE 200]
            /\ rec' = RecHeader(200)
            /\ k' = k + 1
            /\ UNCHANGED <<cfg, reqs, q, hop, pc, wire, ctx, scount, nR, nT, nS, hops, fwds, caps>>

Unwind == IF hop > 1 THEN /\ hop' = hop - 1 /\ pc' = "respond" /\ UNCHANGED q
          ELSE /\ hop' = 0 /\ UNCHANGED q
               /\ pc' = IF q = Len(reqs) THEN "done" ELSE "idle"
CapDone == /\ pc = "respond" /\ cfg.transport = "http" /\ k > Len(Script)
           \* nothing written at all: the status "actually written" is not determined yet
           /\ \E st \in (IF rec.wrote THEN {cap.st} ELSE {0, 200}) :
                caps' = Append(caps, [q |-> q, hop |-> hop, st |-> st, by |-> cap.by,
                                      lst |-> st, lby |-> cap.by,          \* what the Log middleware reports
                                      rst |-> rec.st, rby |-> rec.by, wrote |-> rec.wrote,
                                      logid |-> IF "log.own_request_id" \in Deviations THEN FreshRid(nR + 1) ELSE ctx[hop].rid])
           /\ Unwind
           /\ k' = 1 /\ cap' = Cap0 /\ rec' = Rec0
           /\ UNCHANGED <<cfg, reqs, wire, ctx, scount, nR, nT, nS, hops, fwds>>
Return  == /\ pc = "respond" /\ cfg.transport # "http"
           /\ Unwind
           /\ UNCHANGED <<cfg, reqs, wire, ctx, scount, nR, nT, nS, k, cap, rec, hops, fwds, caps>>

Next == Arrive \/ RidTrusted \/ RidFresh \/ TraceKeep \/ TraceSample \/ TraceSkip \/ Handler \/ TracedClient
        \/ CapWriteHeader \/ CapWrite \/ CapFlush \/ CapDone \/ Return
Spec == Init /\ [][Next]_vars

---------------------------------------------------------------------------
\* properties (over the observations)
Min(a, b) == IF a < b THEN a ELSE b
HopIdx == 1..Len(hops)
Traced(h) == h.trace # "none"
\* the value the request-id middleware is configured to trust, as it arrived at that hop
Trusted(h) == LET th == TrustedHeader(cfg) IN
              IF th = "std" THEN h.in.rid ELSE IF th = "custom" THEN h.in.ridc ELSE NoRid

RequestIDNonEmpty == \A i \in HopIdx : hops[i].rid.kind # "none" /\ hops[i].rid.len > 0

TrustAndTruncate == \A i \in HopIdx :
  LET h == hops[i]
      v == Trusted(h) IN
  IF Usable(v)
  THEN /\ h.rid.kind = v.kind /\ h.rid.n = v.n                                  \* same value ...
       /\ h.rid.len = IF cfg.limit > 0 THEN Min(v.len, cfg.limit) ELSE v.len      \* ... cut at the limit (0 = no limit)
  ELSE /\ h.rid.kind = "fresh" /\ h.rid.len = FreshLen                          \* a fresh identifier
       /\ \A j \in 1..(i - 1) : hops[j].rid.kind = "fresh" => hops[j].rid.n # h.rid.n
\* gRPC: the metadata seen by the handler carries the request id
MetadataCarriesRequestID == \A i \in HopIdx : cfg.transport # "http" => hops[i].md = hops[i].rid

KeepsInboundTrace == \A i \in HopIdx : hops[i].in.trace # "none" => hops[i].trace = hops[i].in.trace
ParentIsCallerSpan ==
  /\ \A i \in HopIdx : hops[i].in.trace # "none" => hops[i].parent = hops[i].in.parent
  /\ \A i \in HopIdx : \A j \in HopIdx :
       (hops[i].q = hops[j].q /\ hops[j].hop = hops[i].hop + 1 /\ Traced(hops[i])) => hops[j].parent = hops[i].span
FreshSpan == \A i \in HopIdx : Traced(hops[i]) =>
  /\ hops[i].span \notin {"none", "T0", "P0"}
  /\ hops[i].span # hops[i].parent
  /\ \A j \in 1..(i - 1) : hops[j].span # hops[i].span
OneTracePerChain == \A i \in HopIdx : \A j \in HopIdx :
  (hops[i].q = hops[j].q /\ hops[i].hop < hops[j].hop /\ Traced(hops[i])) => hops[j].trace = hops[i].trace
UntracedIsClean == \A i \in HopIdx : ~Traced(hops[i]) => hops[i].span = "none" /\ hops[i].parent = "none"
\* sampling decisions: h was decided by the sampler iff no trace id arrived
Sampling0And100Exact == \A i \in HopIdx :
  LET h == hops[i]
      disc == AnyMatch(h.in.dmatch) IN
  h.in.trace = "none" =>
    /\ (cfg.smode = "percent" /\ cfg.pct = 0 => ~Traced(h))
    /\ ((cfg.smode = "default" \/ (cfg.smode = "percent" /\ cfg.pct = 100)) /\ ~disc => Traced(h))
    /\ (disc => ~Traced(h))
    /\ (Traced(h) => h.trace \notin {"T0", "P0"} /\ \A j \in 1..(i - 1) : hops[j].in.trace = "none" /\ hops[j].q # h.q => hops[j].trace # h.trace)
\* adaptive sampling: a server samples everything until its sampler has been consulted sample-size times
\* a request without trace id is discarded iff at least one pattern matches it - whichever one
DiscardAnyPattern == \A i \in HopIdx :
  LET h == hops[i] IN
  /\ Len(h.in.dmatch) = cfg.discards
  /\ (h.in.trace = "none" /\ AnyMatch(h.in.dmatch)) => ~Traced(h)
Consulted(h) == h.in.trace = "none" /\ ~AnyMatch(h.in.dmatch)
AdaptiveWarmup == \A i \in HopIdx :
  LET h == hops[i] IN
  (cfg.smode = "adaptive" /\ Consulted(h)
     /\ Cardinality({j \in 1..i : hops[j].hop = h.hop /\ Consulted(hops[j])}) < cfg.ssize)
  => Traced(h)
ForwardMatchesContext == \A i \in 1..Len(fwds) :
  LET f == fwds[i]
      hs == {j \in HopIdx : hops[j].q = f.q /\ hops[j].hop = f.hop} IN
  \A j \in hs : /\ f.out.trace = hops[j].trace
                /\ f.out.parent = IF Traced(hops[j]) THEN hops[j].span
                                  ELSE IF cfg.fwdmd THEN hops[j].in.parent ELSE "none"
CaptureMatchesWritten == \A i \in 1..Len(caps) :
  /\ caps[i].by = caps[i].rby /\ caps[i].lby = caps[i].rby
  /\ (caps[i].wrote => caps[i].st = caps[i].rst /\ caps[i].lst = caps[i].rst)
LogCarriesRequestID == \A i \in 1..Len(caps) : \A j \in HopIdx :
  (hops[j].q = caps[i].q /\ hops[j].hop = caps[i].hop) => caps[i].logid = hops[j].rid

TypeOK == /\ pc \in {"idle", "rid", "trace", "handler", "client", "respond", "done"}
          /\ hop \in 0..MaxHops /\ q \in 0..Len(reqs)
          /\ nR \in 0..(MaxHops * MaxReq) /\ nT \in 0..(MaxHops * MaxReq) /\ nS \in 0..(MaxHops * MaxReq)
===========================================================================
