------------------------------- MODULE Eval -------------------------------
(* eval.RunDSL (goa DSL engine): registered roots, dependency order, four global
   phases.  Property C11.

   A case (cfg) is a set of DSL roots:
     reg    roots registered before RunDSL, in registration order
     late   roots registered *while the DSL executes* (by "reg" expressions), in
            the order in which they get registered
     deps   DependsOn() of every root (no self loops)
     beh    the behaviours of the initial expressions of the root's first set
   Every root walks two expression sets (like goa's own roots walk "declared"
   then "generated" expressions): set 1 starts with the expressions of `beh`,
   set 2 starts empty.  Behaviours of an expression when its DSL executes:
     plain       nothing
     append      appends a (plain) expression to set 2 of its root, a set that is
                 walked later
     appendsame  appends a (plain) expression to set 1, the set being executed
     reg         registers the next not yet registered late root (eval.Register)
     err         eval.ReportError
     verr        nothing in the DSL; its Validate() returns an error
   The observable is the sequence of user callbacks <<phase, root, set, index>>
   (set 0, index 0 = the root expression itself, which is prepared, validated
   and finalized before its sets) and what RunDSL returns.

   Named deviations (what the code does / did instead of the design):
     eval.late_roots_ignored            RunDSL takes the list of roots once; roots
                                        registered while the DSL executes are never
                                        executed, prepared, validated, finalized
     eval.same_set_append_not_executed  runSet iterates over its by-value copy of
                                        the set: expressions appended to the set
                                        being executed never have their DSL run
                                        (they are prepared, validated, finalized) *)
EXTENDS Integers, Sequences, FiniteSets, TLC

CONSTANTS Roots,        \* universe of root names
          MaxExprs,     \* initial expressions per root: 1..MaxExprs
          MaxLate,      \* at most this many late roots
          Space,        \* which configuration space Init draws from (see SpaceParams)
          Canonical,    \* TRUE: Roots() picks one fixed admissible order (vector generation)
          Deviations    \* named departures of the code from the design

Behaviours == {"plain", "append", "appendsame", "reg", "err", "verr"}
PhaseSeq == <<"dsl", "prepare", "validate", "finalize">>
LaterPhases == {"prepare", "validate", "finalize"}

VARIABLES cfg,        \* the case (see above)
          registered, \* Context.roots: sequence of registered roots (grows on "reg")
          sets,       \* [Roots -> <<set 1, set 2>>], each a sequence of behaviours (grow on append)
          order,      \* the working list of RunDSL: roots in processing order
          phase,      \* "order" | "dsl" | "prepare" | "validate" | "finalize" | "done"
          ri, si, ei, \* cursor: index in order, set (0 = the root itself), expression
          log,        \* sequence of callbacks <<phase, root, set, index>>
          errs,       \* Context.Errors as a set of callbacks that reported an error
          result      \* "none" | "ok" | "error" | "cycle"
vars == <<cfg, registered, sets, order, phase, ri, si, ei, log, errs, result>>

Range(s) == {s[i] : i \in 1..Len(s)}
Min(a, b) == IF a < b THEN a ELSE b
RECURSIVE Reach(_, _, _)
Reach(d, S, n) == IF n = 0 THEN S ELSE Reach(d, S \cup UNION {d[r] : r \in S}, n - 1)
TransDeps(d, r) == Reach(d, d[r], Cardinality(Roots))
Cyclic(d, S) == \E r \in S : r \in TransDeps(d, r)
\* every sequence of the roots S in which each root follows all roots of S it depends on
\* (built constructively: repeatedly take any root whose dependencies are no longer waiting)
RECURSIVE TopoOrders(_, _)
TopoOrders(d, S) ==
  IF S = {} THEN {<<>>}
  ELSE UNION {{<<r>> \o t : t \in TopoOrders(d, S \ {r})} : r \in {x \in S : d[x] \cap S = {}}}
PickOrders(d, S) == IF Canonical THEN {CHOOSE p \in TopoOrders(d, S) : TRUE} ELSE TopoOrders(d, S)

---------------------------------------------------------------------------
\* configuration spaces, built constructively
RECURSIVE DepFns(_, _)
DepFns(S, dom) ==   \* all functions f on S with f[r] \in dom[r]
  IF S = {} THEN {<<>>}
  ELSE LET r == CHOOSE x \in S : TRUE IN {(r :> v) @@ f : v \in dom[r], f \in DepFns(S \ {r}, dom)}
RECURSIVE Seqs1(_, _)
Seqs1(S, n) ==      \* repetition-free sequences over S of length <= n
  IF n = 0 \/ S = {} THEN {<<>>}
  ELSE {<<>>} \cup UNION {{<<r>> \o t : t \in Seqs1(S \ {r}, n - 1)} : r \in S}
BehSeqs(B, n) == UNION {[1..k -> B] : k \in 1..n}
Count(s, b) == Cardinality({i \in 1..Len(s) : s[i] = b})
RECURSIVE SumOver(_, _, _)
SumOver(S, f, b) == IF S = {} THEN 0 ELSE LET r == CHOOSE x \in S : TRUE IN Count(f[r], b) + SumOver(S \ {r}, f, b)

\* Envelope (DESIGN C11): no self loops; an initially registered root depends only on initially
\* registered roots; late root i may depend on late root j only if j is certainly registered by
\* the time i is picked up: j < i, or both are registered in the first round (by "reg"
\* expressions of initial roots).  No order can satisfy the property otherwise.
AllowedEdges(rg, lt, bh) ==
  LET R0 == Range(rg)
      k0 == Min(SumOver(R0, bh, "reg"), Len(lt))
  IN {e \in R0 \X R0 : e[1] # e[2]}
     \cup {<<lt[i], r>> : i \in 1..Len(lt), r \in R0}
     \cup {<<lt[e[1]], lt[e[2]]>> : e \in {x \in (1..Len(lt)) \X (1..Len(lt)) :
                                             x[1] # x[2] /\ (x[2] < x[1] \/ (x[1] <= k0 /\ x[2] <= k0))}}
DepFn(E) == [r \in Roots |-> {e[2] : e \in {x \in E : x[1] = r}}]

\* a configuration space: which registration sequences, how many late roots, which behaviours
\* (and how many expressions) for initial and late roots, how many roots may be non-plain
AllRegSeqs == Seqs1(Roots, Cardinality(Roots)) \ {<<>>}
SP(regs, nLate, regB, regN, lateB, lateN, maxNP) ==
  [regs |-> regs, nLate |-> nLate, regB |-> regB, regN |-> regN, lateB |-> lateB, lateN |-> lateN, maxNP |-> maxNP]
SpaceParams ==
  CASE Space = "full"  -> SP(AllRegSeqs, 0..MaxLate, Behaviours, MaxExprs, Behaviours, MaxExprs, Cardinality(Roots))
    [] Space = "one"   -> SP(AllRegSeqs, 0..MaxLate, Behaviours, MaxExprs, Behaviours, MaxExprs, 1)
    [] Space = "late"  -> SP({s \in AllRegSeqs : Len(s) = 1}, {2}, {"plain", "reg", "err"}, MaxExprs,
                             {"plain", "reg", "err", "verr"}, 1, Cardinality(Roots))
    [] Space = "plain" -> SP(AllRegSeqs, {0}, {"plain"}, 1, {"plain"}, 1, 0)
    [] Space = "none"  -> SP({}, {0}, {"plain"}, 1, {"plain"}, 1, 0)   \* trace validation: cases come from the trace
LateSeqs(P, rg) == {s \in Seqs1(Roots \ Range(rg), MaxLate) : Len(s) \in P.nLate}
BehFns(P, rg, lt) ==
  {f \in DepFns(Roots, [r \in Roots |-> IF r \in Range(rg) THEN BehSeqs(P.regB, P.regN)
                                         ELSE IF r \in Range(lt) THEN BehSeqs(P.lateB, P.lateN)
                                         ELSE {<<"plain">>}]) :
      /\ Cardinality({r \in Roots : f[r] # <<"plain">>}) <= P.maxNP
      \* "reg" expressions exist exactly when there is something to register
      /\ (Len(lt) > 0) = (SumOver(Range(rg), f, "reg") > 0)
      /\ (Len(lt) < 2 => SumOver(Range(lt), f, "reg") = 0)}
MkCfg(rg, lt, bh, E) == [reg |-> rg, late |-> lt, beh |-> bh, deps |-> DepFn(E)]
\* The space is  { MkCfg(rg, lt, bh, E) : rg \in P.regs, lt \in LateSeqs(P, rg), bh \in BehFns(P, rg, lt),
\*                   E \in SUBSET AllowedEdges(rg, lt, bh) };  Init enumerates it with nested quantifiers (a
\* constant definition holding the whole set is evaluated by TLC once per worker, tens of seconds).

---------------------------------------------------------------------------
Init == /\ \E rg \in SpaceParams.regs : \E lt \in LateSeqs(SpaceParams, rg) : \E bh \in BehFns(SpaceParams, rg, lt) :
             \E E \in SUBSET AllowedEdges(rg, lt, bh) : cfg = MkCfg(rg, lt, bh, E)
        /\ registered = cfg.reg
        /\ sets = [r \in Roots |-> <<cfg.beh[r], <<>> >>]
        /\ order = <<>> /\ phase = "order" /\ ri = 1 /\ si = 1 /\ ei = 1
        /\ log = <<>> /\ errs = {} /\ result = "none"

\* Context.Roots(): cycle error, or the registered roots in dependency order
ComputeOrder ==
  /\ phase = "order"
  /\ IF Cyclic(cfg.deps, Range(registered))
     THEN /\ result' = "cycle" /\ phase' = "done" /\ UNCHANGED order
     ELSE /\ order' \in PickOrders(cfg.deps, Range(registered))
          /\ phase' = "dsl" /\ UNCHANGED result
  /\ UNCHANGED <<cfg, registered, sets, ri, si, ei, log, errs>>

CurRoot == order[ri]
CurSet == sets[CurRoot][si]
\* how far runSet goes in the set it was given
Limit == IF si = 1 /\ "eval.same_set_append_not_executed" \in Deviations
         THEN Len(cfg.beh[CurRoot])      \* the length of set 1 when runSet received it
         ELSE Len(CurSet)                \* expressions appended meanwhile included
NextLate == LET un == {i \in 1..Len(cfg.late) : cfg.late[i] \notin Range(registered)}
            IN IF un = {} THEN <<>> ELSE <<cfg.late[CHOOSE i \in un : \A j \in un : i <= j]>>

\* eval.Execute of one expression's DSL
ExecExpr ==
  /\ phase = "dsl" /\ ri <= Len(order) /\ ei <= Limit
  /\ LET b == CurSet[ei] IN
     /\ log' = Append(log, <<"dsl", CurRoot, si, ei>>)
     /\ sets' = CASE b = "append"     -> [sets EXCEPT ![CurRoot][2] = Append(@, "plain")]
                  [] b = "appendsame" -> [sets EXCEPT ![CurRoot][1] = Append(@, "plain")]
                  [] OTHER -> sets
     /\ registered' = IF b = "reg" THEN registered \o NextLate ELSE registered
     /\ errs' = IF b = "err" THEN errs \cup {<<"dsl", CurRoot, si, ei>>} ELSE errs
  /\ ei' = ei + 1
  /\ UNCHANGED <<cfg, order, phase, ri, si, result>>
\* runSet returns; WalkSets hands over the next set
NextSetDSL ==
  /\ phase = "dsl" /\ ri <= Len(order) /\ ei > Limit /\ si = 1
  /\ si' = 2 /\ ei' = 1
  /\ UNCHANGED <<cfg, registered, sets, order, phase, ri, log, errs, result>>
NextRootDSL ==
  /\ phase = "dsl" /\ ri <= Len(order) /\ ei > Limit /\ si = 2
  /\ ri' = ri + 1 /\ si' = 1 /\ ei' = 1
  /\ UNCHANGED <<cfg, registered, sets, order, phase, log, errs, result>>
\* all roots of the working list executed: pick up the roots registered meanwhile (dependency
\* sorted; a cycle among them is an error), else leave the phase.  (When the DSL also reported
\* errors the statement does not say which error is returned: see Outcomes.)
EndDSL ==
  /\ phase = "dsl" /\ ri > Len(order)
  /\ LET new == Range(registered) \ Range(order) IN
     IF new # {} /\ "eval.late_roots_ignored" \notin Deviations
     THEN IF Cyclic(cfg.deps, Range(registered))
          THEN /\ result' = "cycle" /\ phase' = "done" /\ UNCHANGED <<order, ri, si, ei>>
          ELSE /\ \E p \in PickOrders(cfg.deps, new) : order' = order \o p
               /\ UNCHANGED <<phase, result, ri, si, ei>>
     ELSE /\ IF errs # {} THEN result' = "error" /\ phase' = "done"
                          ELSE result' = result /\ phase' = "prepare"
          /\ ri' = 1 /\ si' = 0 /\ ei' = 0 /\ UNCHANGED order
  /\ UNCHANGED <<cfg, registered, sets, log, errs>>

\* prepare / validate / finalize: the root itself (set 0), then every expression of set 1, set 2
StepLen == IF si = 0 THEN 0 ELSE Len(CurSet)
StepExpr(p) ==
  /\ phase = p /\ ri <= Len(order) /\ ei <= StepLen
  /\ log' = Append(log, <<p, CurRoot, si, ei>>)
  /\ errs' = IF p = "validate" /\ si > 0 /\ CurSet[ei] = "verr"
             THEN errs \cup {<<p, CurRoot, si, ei>>} ELSE errs
  /\ ei' = ei + 1
  /\ UNCHANGED <<cfg, registered, sets, order, phase, ri, si, result>>
NextSet(p) ==
  /\ phase = p /\ ri <= Len(order) /\ ei > StepLen /\ si < 2
  /\ si' = si + 1 /\ ei' = 1
  /\ UNCHANGED <<cfg, registered, sets, order, phase, ri, log, errs, result>>
NextRoot(p) ==
  /\ phase = p /\ ri <= Len(order) /\ ei > StepLen /\ si = 2
  /\ ri' = ri + 1 /\ si' = 0 /\ ei' = 0
  /\ UNCHANGED <<cfg, registered, sets, order, phase, log, errs, result>>
EndPhase(p, q) ==
  /\ phase = p /\ ri > Len(order)
  /\ IF p = "validate" /\ errs # {}
     THEN result' = "error" /\ phase' = "done"
     ELSE IF q = "done" THEN result' = "ok" /\ phase' = "done"
          ELSE result' = result /\ phase' = q
  /\ ri' = 1 /\ si' = 0 /\ ei' = 0
  /\ UNCHANGED <<cfg, registered, sets, order, log, errs>>

Internal == \/ NextSetDSL \/ NextRootDSL
            \/ \E p \in LaterPhases : NextSet(p) \/ NextRoot(p)
            \/ EndPhase("prepare", "validate") \/ EndPhase("validate", "finalize") \/ EndPhase("finalize", "done")
Callback == ExecExpr \/ \E p \in LaterPhases : StepExpr(p)
Next == ComputeOrder \/ EndDSL \/ Callback \/ Internal
Spec == Init /\ [][Next]_vars /\ WF_vars(Next)

---------------------------------------------------------------------------
\* what RunDSL returns: the admissible (kind, errors) pairs of a finished run
Outcomes == IF result = "cycle"
            THEN {[kind |-> "cycle", errs |-> {}]} \cup (IF errs # {} THEN {[kind |-> "error", errs |-> errs]} ELSE {})
            ELSE {[kind |-> result, errs |-> errs]}

---------------------------------------------------------------------------
\* the property
PhaseIdx(p) == CHOOSE i \in 1..4 : PhaseSeq[i] = p
\* no callback of a phase before every callback of the previous phases
\* (log and errs only grow and the order properties are prefix closed: it is enough, and much cheaper,
\* to evaluate them on finished runs; Terminates shows that every run finishes)
Done == phase = "done"
PhaseBarrier == Done => \A i, j \in 1..Len(log) : i < j => PhaseIdx(log[i][1]) <= PhaseIdx(log[j][1])
\* within a phase, everything a root depends on comes before it
DepOrder == Done => \A i, j \in 1..Len(log) :
              (log[i][1] = log[j][1] /\ log[j][2] \in TransDeps(cfg.deps, log[i][2])) => j < i
\* expression sets are processed in order: root, set 1, set 2, each by increasing index
SetOrder == Done => \A i, j \in 1..Len(log) :
              (i < j /\ log[i][1] = log[j][1] /\ log[i][2] = log[j][2]) =>
                 (log[i][3] < log[j][3] \/ (log[i][3] = log[j][3] /\ log[i][4] < log[j][4]))
CycleReported ==
  /\ Cyclic(cfg.deps, Range(cfg.reg)) => (phase = "done" => result = "cycle" /\ log = <<>>)
  /\ (phase = "done" /\ Cyclic(cfg.deps, Range(registered))) => result = "cycle"
  /\ result = "cycle" => Cyclic(cfg.deps, Range(registered))
NoFinalizeAfterError ==
  /\ \A i \in 1..Len(log) : log[i][1] = "finalize" => errs = {}
  /\ result \in {"error", "cycle"} => \A i \in 1..Len(log) : log[i][1] # "finalize"
\* every expression of every registered root: which callbacks the design owes it
Slots == {t \in Roots \X {1, 2} \X (1..(2 * MaxExprs)) : t[1] \in Range(registered) /\ t[3] <= Len(sets[t[1]][t[2]])}
Times(x) == Cardinality({i \in 1..Len(log) : log[i] = x})
Complete(p) == /\ \A t \in Slots : Times(<<p, t[1], t[2], t[3]>>) = 1
               /\ p # "dsl" => \A r \in Range(registered) : Times(<<p, r, 0, 0>>) = 1
\* on success everything registered or appended by then went through all four phases exactly once
AllPhasesForAll == result = "ok" => \A p \in Range(PhaseSeq) : Complete(p)
\* a failed run completed the phases before the failing one
CompleteBeforeError == result = "error" =>
   /\ Complete("dsl")
   /\ (\E e \in errs : e[1] = "validate") => Complete("prepare") /\ Complete("validate")
With(b) == {t \in Slots : sets[t[1]][t[2]][t[3]] = b}
\* all errors of the failing phase are returned together
ErrorsTogether == result = "error" =>
   \/ errs # {} /\ errs = {<<"dsl", t[1], t[2], t[3]>> : t \in With("err")}
   \/ errs # {} /\ With("err") = {} /\ errs = {<<"validate", t[1], t[2], t[3]>> : t \in With("verr")}
OkMeansNoErrors == result = "ok" => errs = {} /\ With("err") = {} /\ With("verr") = {}
\* a root registered while the DSL executes is executed, prepared, validated and finalized
LateRootsRun == result = "ok" => \A r \in Range(registered) \ Range(cfg.reg) :
                   \A p \in LaterPhases : \E i \in 1..Len(log) : log[i] = <<p, r, 0, 0>>
TypeOK == /\ phase \in {"order", "dsl", "prepare", "validate", "finalize", "done"}
          /\ result \in {"none", "ok", "error", "cycle"}
          /\ (phase = "done") = (result # "none")
          /\ Range(order) \subseteq Range(registered)
Terminates == <>(phase = "done")
===========================================================================
