------------------------------- MODULE Eval -------------------------------
(* eval.RunDSL (goa DSL engine): registered roots, dependency order, four global
   phases.  Property C11.

   A case (cfg) is a set of DSL roots:
     reg    roots registered before RunDSL, in registration order
     late   roots registered *while the DSL executes* (by "reg" expressions), in
            the order in which they get registered
     deps   DependsOn() of every root (no self loops)
     beh    the behaviours of the initial expressions of the root's first set (may be empty)
     beh2   the behaviours of the initial expressions of the root's second set (may be empty)
     rb     the behaviour of the root expression itself
   Every root walks two expression sets (like goa's own roots walk "declared"
   then "generated" expressions): set 1 starts with the expressions of `beh`,
   set 2 with those of `beh2`.  A behaviour says which of the interfaces Source /
   Preparer / Validator / Finalizer the expression implements (Ifc: the engine calls
   nothing else) and WHERE and HOW it reports an error.  Expressions implementing
   all four:
     plain       nothing
     append      DSL appends a (plain) expression to set 2 of its root, a set that is
                 walked later
     appendsame  DSL appends a (plain) expression to set 1, the set being executed
     reg         DSL registers the next not yet registered late root (eval.Register)
     err         DSL calls eval.ReportError
     perr        Prepare() calls eval.ReportError (the only way a Preparer can fail)
     verr        Validate() returns a *ValidationErrors holding one error
     vrec        Validate() records an error (eval.Context.Record) and returns nil
     vboth       Validate() records an error AND returns a *ValidationErrors
     vempty      Validate() returns a non-nil *ValidationErrors holding no error: no error
     vnil        Validate() returns a nil *ValidationErrors (non-nil error interface): no error
     ferr        Finalize() calls eval.ReportError
   Other interface sets (prefix = the interfaces: s Source, p Preparer, v Validator,
   f Finalizer; suffix = the error behaviour above):
     nil  (a nil entry of the set: nothing is called)   s  s-err   pvf  pvf-perr  pvf-vrec
     pvf-verr  pvf-ferr   v  v-verr  v-vrec  v-vboth  v-vempty   p-perr   f-ferr
   Root expressions (rb) are Preparer+Validator+Finalizer with plain / perr / vrec / verr /
   vboth / vempty / vnil / ferr, or "bare" (none of the three interfaces).
   The observable is the sequence of user callbacks <<phase, root, set, index>>
   (set 0, index 0 = the root expression itself, which is prepared, validated
   and finalized before its sets) and what RunDSL returns.  An error is identified by
   <<tag, root, set, index>>, tag = dsl | prepare | vrec (recorded while validating) |
   validate (returned by Validate) | finalize.

   Errors (statement: "all errors of a phase are returned together, and finalization never
   runs on a design that failed execution or validation"; quantifier: errors in any phase):
   every callback of the phase still runs after an error of that phase; RunDSL returns after
   the DSL phase when it reported errors; errors of the finalize phase are returned when the
   phase is over.  The statement is silent on what follows an error recorded while
   *preparing*: modelled as the code does - the validate phase still runs, the errors of both
   phases are returned together, finalize does not run.

   Named deviations (what the code does / did instead of the design):
     eval.late_roots_ignored            RunDSL takes the list of roots once; roots
                                        registered while the DSL executes are never
                                        executed, prepared, validated, finalized
     eval.same_set_append_not_executed  runSet iterates over its by-value copy of
                                        the set: expressions appended to the set
                                        being executed never have their DSL run
                                        (they are prepared, validated, finalized)
     eval.finalize_errors_dropped       RunDSL returns nil after the finalize phase whatever
                                        was recorded: errors reported from Finalize() are
                                        never returned
     eval.typed_nil_validation_panics   a Validate() returning a nil *ValidationErrors makes
                                        validateSet dereference it: RunDSL panics *)
EXTENDS Integers, Sequences, FiniteSets, TLC

CONSTANTS Roots,        \* universe of root names
          MaxExprs,     \* initial expressions per root: 1..MaxExprs
          MaxLate,      \* at most this many late roots
          Space,        \* which configuration space Init draws from (see SpaceParams)
          Canonical,    \* TRUE: Roots() picks one fixed admissible order (vector generation)
          Deviations    \* named departures of the code from the design

Behaviours == {"plain", "append", "appendsame", "reg", "err", "verr"}      \* the spaces full / one / late
FullToks == Behaviours \cup {"perr", "vrec", "vboth", "vempty", "vnil", "ferr"}
SrcToks  == {"s", "s-err"}
PVFToks  == {"pvf", "pvf-perr", "pvf-vrec", "pvf-verr", "pvf-ferr"}
ValToks  == {"v", "v-verr", "v-vrec", "v-vboth", "v-vempty"}
AllToks  == FullToks \cup SrcToks \cup PVFToks \cup ValToks \cup {"p-perr", "f-ferr", "nil"}
RootToks == {"plain", "perr", "vrec", "verr", "vboth", "vempty", "vnil", "ferr", "bare"}
\* which phases call the expression (the interfaces it implements)
Ifc(b) == CASE b \in FullToks -> {"dsl", "prepare", "validate", "finalize"}
            [] b \in SrcToks  -> {"dsl"}
            [] b \in PVFToks  -> {"prepare", "validate", "finalize"}
            [] b \in ValToks  -> {"validate"}
            [] b = "p-perr"   -> {"prepare"}
            [] b = "f-ferr"   -> {"finalize"}
            [] OTHER          -> {}
RIfc(b) == IF b = "bare" THEN {} ELSE {"prepare", "validate", "finalize"}
\* the error tags a callback of phase p produces for an expression of behaviour b
ErrTags(p, b) ==
  CASE p = "dsl"      -> IF b \in {"err", "s-err"} THEN {"dsl"} ELSE {}
    [] p = "prepare"  -> IF b \in {"perr", "pvf-perr", "p-perr"} THEN {"prepare"} ELSE {}
    [] p = "validate" -> (IF b \in {"vrec", "vboth", "pvf-vrec", "v-vrec", "v-vboth"} THEN {"vrec"} ELSE {})
                         \cup (IF b \in {"verr", "vboth", "pvf-verr", "v-verr", "v-vboth"} THEN {"validate"} ELSE {})
    [] p = "finalize" -> IF b \in {"ferr", "pvf-ferr", "f-ferr"} THEN {"finalize"} ELSE {}
TagPhase(t) == IF t = "vrec" THEN "validate" ELSE t
PhaseSeq == <<"dsl", "prepare", "validate", "finalize">>
LaterPhases == {"prepare", "validate", "finalize"}

VARIABLES cfg,        \* the case (see above)
          registered, \* Context.roots: sequence of registered roots (grows on "reg")
          sets,       \* [Roots -> <<set 1, set 2>>], each a sequence of behaviours (grow on append)
          order,      \* the working list of RunDSL: roots in processing order
          phase,      \* "order" | "dsl" | "prepare" | "validate" | "finalize" | "done"
          ri, si, ei, \* cursor: index in order, set (0 = the root itself), expression
          log,        \* sequence of callbacks <<phase, root, set, index>>
          errs,       \* Context.Errors as a set of callbacks that reported an error
          result      \* "none" | "ok" | "error" | "cycle" | "panic"
vars == <<cfg, registered, sets, order, phase, ri, si, ei, log, errs, result>>

Range(s) == {s[i] : i \in 1..Len(s)}
Min(a, b) == IF a < b THEN a ELSE b
RECURSIVE Reach(_, _, _)
Reach(d, S, n) == IF n = 0 THEN S ELSE Reach(d, S \cup UNION {d[r] : r \in S}, n - 1)
TransDeps(d, r) == Reach(d, d[r], Cardinality(Roots))
Cyclic(d, S) == \E r \in S : r \in TransDeps(d, r)
\* every sequence of the roots S in which each root follows all roots of S it depends on
\* (built constructively: repeatedly take any root whose dependencies are no longer waiting)
RECURSIVE TopoOrders(_, _)
TopoOrders(d, S) ==
  IF S = {} THEN {<<>>}
  ELSE UNION {{<<r>> \o t : t \in TopoOrders(d, S \ {r})} : r \in {x \in S : d[x] \cap S = {}}}
PickOrders(d, S) == IF Canonical THEN {CHOOSE p \in TopoOrders(d, S) : TRUE} ELSE TopoOrders(d, S)

---------------------------------------------------------------------------
\* configuration spaces, built constructively
RECURSIVE DepFns(_, _)
DepFns(S, dom) ==   \* all functions f on S with f[r] \in dom[r]
  IF S = {} THEN {<<>>}
  ELSE LET r == CHOOSE x \in S : TRUE IN {(r :> v) @@ f : v \in dom[r], f \in DepFns(S \ {r}, dom)}
RECURSIVE Seqs1(_, _)
Seqs1(S, n) ==      \* repetition-free sequences over S of length <= n
  IF n = 0 \/ S = {} THEN {<<>>}
  ELSE {<<>>} \cup UNION {{<<r>> \o t : t \in Seqs1(S \ {r}, n - 1)} : r \in S}
BehSeqs(B, n) == UNION {[1..k -> B] : k \in 1..n}
Count(s, b) == Cardinality({i \in 1..Len(s) : s[i] = b})
RECURSIVE SumOver(_, _, _)
SumOver(S, f, b) == IF S = {} THEN 0 ELSE LET r == CHOOSE x \in S : TRUE IN Count(f[r], b) + SumOver(S \ {r}, f, b)

\* Envelope (DESIGN C11): no self loops; an initially registered root depends only on initially
\* registered roots; late root i may depend on late root j only if j is certainly registered by
\* the time i is picked up: j < i, or both are registered in the first round (by "reg"
\* expressions of initial roots).  No order can satisfy the property otherwise.
AllowedEdges(rg, lt, bh) ==
  LET R0 == Range(rg)
      k0 == Min(SumOver(R0, bh, "reg"), Len(lt))
  IN {e \in R0 \X R0 : e[1] # e[2]}
     \cup {<<lt[i], r>> : i \in 1..Len(lt), r \in R0}
     \cup {<<lt[e[1]], lt[e[2]]>> : e \in {x \in (1..Len(lt)) \X (1..Len(lt)) :
                                             x[1] # x[2] /\ (x[2] < x[1] \/ (x[1] <= k0 /\ x[2] <= k0))}}
DepFn(E) == [r \in Roots |-> {e[2] : e \in {x \in E : x[1] = r}}]

\* a configuration space: which registration sequences, how many late roots, which behaviours
\* (and how many expressions) for initial and late roots, how many roots may be non-plain
AllRegSeqs == Seqs1(Roots, Cardinality(Roots)) \ {<<>>}
SP(regs, nLate, regB, regN, lateB, lateN, maxNP) ==
  [regs |-> regs, nLate |-> nLate, regB |-> regB, regN |-> regN, lateB |-> lateB, lateN |-> lateN, maxNP |-> maxNP]
SpaceParams ==
  CASE Space = "full"  -> SP(AllRegSeqs, 0..MaxLate, Behaviours, MaxExprs, Behaviours, MaxExprs, Cardinality(Roots))
    [] Space = "one"   -> SP(AllRegSeqs, 0..MaxLate, Behaviours, MaxExprs, Behaviours, MaxExprs, 1)
    [] Space = "late"  -> SP({s \in AllRegSeqs : Len(s) = 1}, {2}, {"plain", "reg", "err"}, MaxExprs,
                             {"plain", "reg", "err", "verr"}, 1, Cardinality(Roots))
    [] Space = "plain" -> SP(AllRegSeqs, {0}, {"plain"}, 1, {"plain"}, 1, 0)
    [] Space = "none"  -> SP({}, {0}, {"plain"}, 1, {"plain"}, 1, 0)   \* trace validation: cases come from the trace
LateSeqs(P, rg) == {s \in Seqs1(Roots \ Range(rg), MaxLate) : Len(s) \in P.nLate}
BehFns(P, rg, lt) ==
  {f \in DepFns(Roots, [r \in Roots |-> IF r \in Range(rg) THEN BehSeqs(P.regB, P.regN)
                                         ELSE IF r \in Range(lt) THEN BehSeqs(P.lateB, P.lateN)
                                         ELSE {<<"plain">>}]) :
      /\ Cardinality({r \in Roots : f[r] # <<"plain">>}) <= P.maxNP
      \* "reg" expressions exist exactly when there is something to register
      /\ (Len(lt) > 0) = (SumOver(Range(rg), f, "reg") > 0)
      /\ (Len(lt) < 2 => SumOver(Range(lt), f, "reg") = 0)}
NoSet2 == [r \in Roots |-> <<>>]
PlainRoots == [r \in Roots |-> "plain"]
MkCfg(rg, lt, bh, E) == [reg |-> rg, late |-> lt, beh |-> bh, beh2 |-> NoSet2, rb |-> PlainRoots, deps |-> DepFn(E)]
\* The space is  { MkCfg(rg, lt, bh, E) : rg \in P.regs, lt \in LateSeqs(P, rg), bh \in BehFns(P, rg, lt),
\*                   E \in SUBSET AllowedEdges(rg, lt, bh) };  Init enumerates it with nested quantifiers (a
\* constant definition holding the whole set is evaluated by TLC once per worker, tens of seconds).

\* The spaces "errs" / "errsq": WHERE and HOW an error is reported.  One or two registered roots (no late
\* roots); every root has three sites: the root itself (0), its first set (1), its second set (2).  At most
\* two sites hold a non-plain behaviour, of which - when there are two - at least one is an error of the
\* interaction set; with two roots the two sites are of different roots (same-root pairs are those of the
\* one-root cases).  The other sets are all empty or all one plain expression.
ErrToks   == AllToks \ {"plain", "append", "appendsame", "reg"}
InterToks == IF Space = "errs" THEN {"err", "perr", "verr", "vrec", "ferr"} ELSE {"perr", "verr", "ferr"}
ErrRegs   == LET p == CHOOSE q \in AllRegSeqs : Len(q) = Cardinality(Roots) IN {SubSeq(p, 1, k) : k \in 1..Len(p)}
SiteRoot(rg, i) == rg[((i - 1) \div 3) + 1]
SiteKind(i)     == (i - 1) % 3
SiteToks(i)     == IF SiteKind(i) = 0 THEN RootToks \ {"plain"} ELSE ErrToks
\* an assignment: a function from at most two sites to behaviours
Assigns(rg) ==
  LET n == 3 * Len(rg)
      pairs == {x \in (1..n) \X (1..n) : x[1] < x[2] /\ (Len(rg) > 1 => SiteRoot(rg, x[1]) # SiteRoot(rg, x[2]))}
      two(i, j) == UNION {{(i :> t) @@ (j :> u) : u \in {y \in SiteToks(j) : t \in InterToks \/ y \in InterToks}} : t \in SiteToks(i)}
  IN {<<>>}
     \cup UNION {{(i :> t) : t \in SiteToks(i)} : i \in 1..n}
     \cup UNION {two(x[1], x[2]) : x \in pairs}
ErrDeps(rg) == IF Len(rg) = 2 /\ Space = "errs" THEN {{}, {<<rg[1], rg[2]>>}} ELSE {{}}
ErrCfg(rg, A, fill, E) ==
  LET site(r, k) == CHOOSE i \in 1..(3 * Len(rg)) : SiteRoot(rg, i) = r /\ SiteKind(i) = k
      setOf(r, k) == IF r \notin Range(rg) THEN (IF k = 1 THEN <<"plain">> ELSE <<>>)
                     ELSE IF site(r, k) \in DOMAIN A THEN <<A[site(r, k)]>> ELSE fill
  IN [reg |-> rg, late |-> <<>>, deps |-> DepFn(E),
      beh  |-> [r \in Roots |-> setOf(r, 1)],
      beh2 |-> [r \in Roots |-> setOf(r, 2)],
      rb   |-> [r \in Roots |-> IF r \in Range(rg) /\ site(r, 0) \in DOMAIN A THEN A[site(r, 0)] ELSE "plain"]]

---------------------------------------------------------------------------
Init == /\ IF Space \in {"errs", "errsq"}
           THEN \E rg \in ErrRegs : \E A \in Assigns(rg) : \E fill \in {<<>>, <<"plain">>} : \E E \in ErrDeps(rg) :
                   cfg = ErrCfg(rg, A, fill, E)
           ELSE \E rg \in SpaceParams.regs : \E lt \in LateSeqs(SpaceParams, rg) : \E bh \in BehFns(SpaceParams, rg, lt) :
                   \E E \in SUBSET AllowedEdges(rg, lt, bh) : cfg = MkCfg(rg, lt, bh, E)
        /\ registered = cfg.reg
        /\ sets = [r \in Roots |-> <<cfg.beh[r], cfg.beh2[r]>>]
        /\ order = <<>> /\ phase = "order" /\ ri = 1 /\ si = 1 /\ ei = 1
        /\ log = <<>> /\ errs = {} /\ result = "none"

\* Context.Roots(): cycle error, or the registered roots in dependency order
ComputeOrder ==
  /\ phase = "order"
  /\ IF Cyclic(cfg.deps, Range(registered))
     THEN /\ result' = "cycle" /\ phase' = "done" /\ UNCHANGED order
     ELSE /\ order' \in PickOrders(cfg.deps, Range(registered))
          /\ phase' = "dsl" /\ UNCHANGED result
  /\ UNCHANGED <<cfg, registered, sets, ri, si, ei, log, errs>>

CurRoot == order[ri]
CurSet == sets[CurRoot][si]
\* how far runSet goes in the set it was given
Limit == IF si = 1 /\ "eval.same_set_append_not_executed" \in Deviations
         THEN Len(cfg.beh[CurRoot])      \* the length of set 1 when runSet received it
         ELSE Len(CurSet)                \* expressions appended meanwhile included
NextLate == LET un == {i \in 1..Len(cfg.late) : cfg.late[i] \notin Range(registered)}
            IN IF un = {} THEN <<>> ELSE <<cfg.late[CHOOSE i \in un : \A j \in un : i <= j]>>

\* eval.Execute of one expression's DSL (runSet skips nil entries and expressions that are not a Source)
ExecExpr ==
  /\ phase = "dsl" /\ ri <= Len(order) /\ ei <= Limit /\ "dsl" \in Ifc(CurSet[ei])
  /\ LET b == CurSet[ei] IN
     /\ log' = Append(log, <<"dsl", CurRoot, si, ei>>)
     /\ sets' = CASE b = "append"     -> [sets EXCEPT ![CurRoot][2] = Append(@, "plain")]
                  [] b = "appendsame" -> [sets EXCEPT ![CurRoot][1] = Append(@, "plain")]
                  [] OTHER -> sets
     /\ registered' = IF b = "reg" THEN registered \o NextLate ELSE registered
     /\ errs' = errs \cup {<<t, CurRoot, si, ei>> : t \in ErrTags("dsl", b)}
  /\ ei' = ei + 1
  /\ UNCHANGED <<cfg, order, phase, ri, si, result>>
SkipExec ==
  /\ phase = "dsl" /\ ri <= Len(order) /\ ei <= Limit /\ "dsl" \notin Ifc(CurSet[ei])
  /\ ei' = ei + 1
  /\ UNCHANGED <<cfg, registered, sets, order, phase, ri, si, log, errs, result>>
\* runSet returns; WalkSets hands over the next set
NextSetDSL ==
  /\ phase = "dsl" /\ ri <= Len(order) /\ ei > Limit /\ si = 1
  /\ si' = 2 /\ ei' = 1
  /\ UNCHANGED <<cfg, registered, sets, order, phase, ri, log, errs, result>>
NextRootDSL ==
  /\ phase = "dsl" /\ ri <= Len(order) /\ ei > Limit /\ si = 2
  /\ ri' = ri + 1 /\ si' = 1 /\ ei' = 1
  /\ UNCHANGED <<cfg, registered, sets, order, phase, log, errs, result>>
\* all roots of the working list executed: pick up the roots registered meanwhile (dependency
\* sorted; a cycle among them is an error), else leave the phase.  (When the DSL also reported
\* errors the statement does not say which error is returned: see Outcomes.)
EndDSL ==
  /\ phase = "dsl" /\ ri > Len(order)
  /\ LET new == Range(registered) \ Range(order) IN
     IF new # {} /\ "eval.late_roots_ignored" \notin Deviations
     THEN IF Cyclic(cfg.deps, Range(registered))
          THEN /\ result' = "cycle" /\ phase' = "done" /\ UNCHANGED <<order, ri, si, ei>>
          ELSE /\ \E p \in PickOrders(cfg.deps, new) : order' = order \o p
               /\ UNCHANGED <<phase, result, ri, si, ei>>
     ELSE /\ IF errs # {} THEN result' = "error" /\ phase' = "done"
                          ELSE result' = result /\ phase' = "prepare"
          /\ ri' = 1 /\ si' = 0 /\ ei' = 0 /\ UNCHANGED order
  /\ UNCHANGED <<cfg, registered, sets, log, errs>>

\* prepare / validate / finalize: the root itself (set 0), then every expression of set 1, set 2;
\* only the expressions implementing the interface of the phase are called
StepLen == IF si = 0 THEN 0 ELSE Len(CurSet)
CurBeh == IF si = 0 THEN cfg.rb[CurRoot] ELSE CurSet[ei]
Called(p) == IF si = 0 THEN p \in RIfc(CurBeh) ELSE p \in Ifc(CurBeh)
\* validateSet dereferences the nil *ValidationErrors
Panics(p) == p = "validate" /\ CurBeh = "vnil" /\ "eval.typed_nil_validation_panics" \in Deviations
StepExpr(p) ==
  /\ phase = p /\ ri <= Len(order) /\ ei <= StepLen /\ Called(p)
  /\ log' = Append(log, <<p, CurRoot, si, ei>>)
  /\ errs' = errs \cup {<<t, CurRoot, si, ei>> : t \in ErrTags(p, CurBeh)}
  /\ IF Panics(p) THEN result' = "panic" /\ phase' = "done" /\ ei' = ei
                  ELSE ei' = ei + 1 /\ UNCHANGED <<phase, result>>
  /\ UNCHANGED <<cfg, registered, sets, order, ri, si>>
SkipStep(p) ==
  /\ phase = p /\ ri <= Len(order) /\ ei <= StepLen /\ ~Called(p)
  /\ ei' = ei + 1
  /\ UNCHANGED <<cfg, registered, sets, order, phase, ri, si, log, errs, result>>
NextSet(p) ==
  /\ phase = p /\ ri <= Len(order) /\ ei > StepLen /\ si < 2
  /\ si' = si + 1 /\ ei' = 1
  /\ UNCHANGED <<cfg, registered, sets, order, phase, ri, log, errs, result>>
NextRoot(p) ==
  /\ phase = p /\ ri <= Len(order) /\ ei > StepLen /\ si = 2
  /\ ri' = ri + 1 /\ si' = 0 /\ ei' = 0
  /\ UNCHANGED <<cfg, registered, sets, order, phase, log, errs, result>>
\* the phase is over.  Prepare: RunDSL goes on to validate whatever was recorded (see the head comment);
\* validate: any error recorded so far (while preparing or validating, or returned by a Validate) is returned
\* and finalize does not run; finalize: the errors recorded while finalizing are returned
EndPhase(p, q) ==
  /\ phase = p /\ ri > Len(order)
  /\ IF p = "validate" /\ errs # {}
     THEN result' = "error" /\ phase' = "done"
     ELSE IF q = "done"
          THEN /\ result' = IF errs # {} /\ "eval.finalize_errors_dropped" \notin Deviations THEN "error" ELSE "ok"
               /\ phase' = "done"
          ELSE result' = result /\ phase' = q
  /\ ri' = 1 /\ si' = 0 /\ ei' = 0
  /\ UNCHANGED <<cfg, registered, sets, order, log, errs>>

Internal == \/ NextSetDSL \/ NextRootDSL \/ SkipExec
            \/ \E p \in LaterPhases : NextSet(p) \/ NextRoot(p) \/ SkipStep(p)
            \/ EndPhase("prepare", "validate") \/ EndPhase("validate", "finalize") \/ EndPhase("finalize", "done")
Callback == ExecExpr \/ \E p \in LaterPhases : StepExpr(p)
Next == ComputeOrder \/ EndDSL \/ Callback \/ Internal
Spec == Init /\ [][Next]_vars /\ WF_vars(Next)

---------------------------------------------------------------------------
\* what RunDSL returns: the admissible (kind, errors) pairs of a finished run
Outcomes == CASE result = "cycle" ->
                   {[kind |-> "cycle", errs |-> {}]} \cup (IF errs # {} THEN {[kind |-> "error", errs |-> errs]} ELSE {})
              [] result = "error" -> {[kind |-> "error", errs |-> errs]}
              [] OTHER -> {[kind |-> result, errs |-> {}]}       \* ok (nil) / panic: no error value

---------------------------------------------------------------------------
\* the property
PhaseIdx(p) == CHOOSE i \in 1..4 : PhaseSeq[i] = p
\* no callback of a phase before every callback of the previous phases
\* (log and errs only grow and the order properties are prefix closed: it is enough, and much cheaper,
\* to evaluate them on finished runs; Terminates shows that every run finishes)
Done == phase = "done"
PhaseBarrier == Done => \A i, j \in 1..Len(log) : i < j => PhaseIdx(log[i][1]) <= PhaseIdx(log[j][1])
\* within a phase, everything a root depends on comes before it
DepOrder == Done => \A i, j \in 1..Len(log) :
              (log[i][1] = log[j][1] /\ log[j][2] \in TransDeps(cfg.deps, log[i][2])) => j < i
\* expression sets are processed in order: root, set 1, set 2, each by increasing index
SetOrder == Done => \A i, j \in 1..Len(log) :
              (i < j /\ log[i][1] = log[j][1] /\ log[i][2] = log[j][2]) =>
                 (log[i][3] < log[j][3] \/ (log[i][3] = log[j][3] /\ log[i][4] < log[j][4]))
CycleReported ==
  /\ Cyclic(cfg.deps, Range(cfg.reg)) => (phase = "done" => result = "cycle" /\ log = <<>>)
  /\ (phase = "done" /\ Cyclic(cfg.deps, Range(registered))) => result = "cycle"
  /\ result = "cycle" => Cyclic(cfg.deps, Range(registered))
\* finalize never runs after an error, wherever and however it was reported (the only errors there can be
\* once a Finalize() has been called are those of the finalize phase itself), and those are not lost
NoFinalizeAfterError ==
  /\ (\E i \in 1..Len(log) : log[i][1] = "finalize") => \A e \in errs : e[1] = "finalize"
  /\ result = "cycle" => \A i \in 1..Len(log) : log[i][1] # "finalize"
  /\ result = "ok" => errs = {}
\* every expression of every registered root: which callbacks the design owes it
Slots == {t \in Roots \X {1, 2} \X (1..(2 * MaxExprs)) : t[1] \in Range(registered) /\ t[3] <= Len(sets[t[1]][t[2]])}
BehOf(t) == sets[t[1]][t[2]][t[3]]
Times(x) == Cardinality({i \in 1..Len(log) : log[i] = x})
Complete(p) == /\ \A t \in Slots : Times(<<p, t[1], t[2], t[3]>>) = IF p \in Ifc(BehOf(t)) THEN 1 ELSE 0
               /\ \A r \in Range(registered) : Times(<<p, r, 0, 0>>) = IF p \in RIfc(cfg.rb[r]) THEN 1 ELSE 0
\* on success everything registered or appended by then went through all four phases exactly once
AllPhasesForAll == result = "ok" => \A p \in Range(PhaseSeq) : Complete(p)
\* a failed run completed the phases before the failing one, and the failing one
CompleteBeforeError == result = "error" =>
   /\ Complete("dsl")
   /\ (\E e \in errs : e[1] # "dsl") => Complete("prepare") /\ Complete("validate")
   /\ (\E e \in errs : e[1] = "finalize") => Complete("finalize")
\* the errors the expressions of the case report in phase p (from the configuration alone)
RootOwed(p) == UNION {{<<g, r, 0, 0>> : g \in ErrTags(p, cfg.rb[r])} : r \in Range(registered)}
PhaseErrs(p) == (IF p = "dsl" THEN {} ELSE RootOwed(p)) \cup UNION {{<<g, t[1], t[2], t[3]>> : g \in ErrTags(p, BehOf(t))} : t \in Slots}
\* all errors of the failing phase are returned together (prepare and validate: see the head comment)
ErrorsTogether == result = "error" =>
   /\ errs # {}
   /\ IF PhaseErrs("dsl") # {} THEN errs = PhaseErrs("dsl")
      ELSE IF PhaseErrs("prepare") \cup PhaseErrs("validate") # {} THEN errs = PhaseErrs("prepare") \cup PhaseErrs("validate")
      ELSE errs = PhaseErrs("finalize")
OkMeansNoErrors == result = "ok" => errs = {} /\ \A p \in Range(PhaseSeq) : PhaseErrs(p) = {}
\* a root registered while the DSL executes is executed, prepared, validated and finalized
LateRootsRun == result = "ok" => \A r \in Range(registered) \ Range(cfg.reg) :
                   /\ \A p \in LaterPhases \cap RIfc(cfg.rb[r]) : \E i \in 1..Len(log) : log[i] = <<p, r, 0, 0>>
                   /\ \A k \in 1..Len(cfg.beh[r]) : "dsl" \in Ifc(cfg.beh[r][k]) => \E i \in 1..Len(log) : log[i] = <<"dsl", r, 1, k>>
TypeOK == /\ phase \in {"order", "dsl", "prepare", "validate", "finalize", "done"}
          /\ result \in {"none", "ok", "error", "cycle", "panic"}
          /\ (phase = "done") = (result # "none")
          /\ Range(order) \subseteq Range(registered)
\* RunDSL returns (nil, the errors, the cycle error): no callback makes the engine itself crash
RunReturns == result # "panic"
Terminates == <>(phase = "done")
===========================================================================
