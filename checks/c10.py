"""C10 - gRPC definitions are well formed and messages round-trip payloads.
(M) GRPCTransport.tla model-checked (request, response and well-formedness families) + one vacuity run per
named deviation; (G) every (method shape, value) TLC emits is packed into goa designs, generated with the
protoc stand-in (fakeprotoc: own proto3 parser + protodesc.NewFile as descriptor oracle), compiled and run in
process (generated client -> stand-in transport -> generated server -> recording stub) and judged against the
oracle sets the model computed; (J) the parsed field tables, rpc declarations and recorded exchanges are
validated as traces by TLC (Trace_GRPCTransport)."""
import json, os, collections
from vlib import core, httpgen as hg, grpc_gen as gg, grpc_check as gc


FOCUS = {"eval": ["accepted"], "wf": ["accepted", "table", "descok"], "run": ["accepted", "descok", "invoked", "delivered", "cerr", "returned"]}


def judge(ctx, fam, cases, ex, nontrivial, stats):
    pending = []
    for c in cases:
        v = c["v"]
        al = v["allow"]
        ctx.cov["evaluations"] += 1
        a = v["pa"] if fam != "res" else v["ra"]
        val = v["pv"] if fam != "res" else v["rv"]
        if fam == "wf" or a["loc"] != "message" or a["nest"] != "direct" or a["mode"] != "required" or a["rule"] != "none":
            nontrivial.add(core.canon([fam, gg.shape_of(v), v["pv"], v["rv"]]))
        problems = []
        if c["unusable"] and c["accepted"] and c["gen"] == "ok":
            stats["unusable"] += 1
            continue
        if c["accepted"] != al["accept"]:
            if c["accepted"]:
                problems.append(("eval/accepted-unnumbered-design", "design with tagmode %s accepted" % v["tagmode"]))
            else:
                problems.append(("eval/refused-valid-design", "eval errors: %s" % json.dumps(c["evalErrors"])[:300]))
        if c["accepted"] and c["gen"] != "ok" and c["table"] is None:
            # the generator itself failed before the protocol buffer compiler was reached: C01's business
            stats["generator_failed"][gc.attr_tag(a)] = "%s: %s" % (c["gen"], (c["genDetail"] or "").split("\n")[0][:200])
            continue
        if c["accepted"]:
            problems += gc.table_problems(c)
            if c["uncompilable"]:
                stats["uncompilable"][gc.attr_tag(a)] = c["uncompilable"]
            elif c["obs"] is not None:
                stats["ran"] += 1
                problems += gc.run_problems(c, fam)
        if problems:
            pending.append((c, problems))
        elif ctx.cov["evaluations"] % 2500 == 1:
            ctx.sample({"fam": fam, "shape": gg.shape_of(v), "pv": v["pv"], "rv": v["rv"], "table": c["table"], "observed": {k: (c["obs"] or {}).get(k) for k in ("where", "delivered", "invoked", "errname", "rwhere", "returned", "cerr")}})
    ex.prepare([c["v"] for c, _ in pending])
    for c, problems in pending:
        v = c["v"]
        a = v["pa"] if fam != "res" else v["ra"]
        val = v["pv"] if fam != "res" else v["rv"]
        for what, detail in problems:
            dev = ex.explain(c, focus=FOCUS["eval" if what.startswith("eval/") else ("wf" if what.startswith("wf/") else "run")])
            key = dev or "C10/%s/%s/%s/%s" % (fam, gc.attr_tag(a), gc.val_tag(val).rsplit(":", 2)[0], what)
            ctx.violation(key, ("[explained by deviation %s] " % dev if dev else "") + "%s attribute %s value %s (tagmode %s, stream %s): %s %s" % (
                fam, gc.attr_tag(a), gc.val_tag(val), v["tagmode"], v["stream"], what, detail), gc.short_case(c))


def run(ctx):
    quick = ctx.quick()
    ctx.cov["rule"] = ("cases = (method shape, payload value, result value) triples enumerated by TLC from GRPCTransport.tla; non-trivial = well-formedness "
                       "family, or the attribute under test is not a plain required unvalidated message field; distinct = canonical JSON of (family, shape, values)")
    nontrivial = set()
    stats = {"unusable": 0, "ran": 0, "uncompilable": {}, "generator_failed": {}}
    frac = float(os.environ.get("VERIF_FRAC") or (0.12 if quick else 1.0))
    fams = (os.environ.get("VERIF_FAMS") or "wf,req,res").split(",")
    for fam in fams:
        vectors = gc.gen_vectors(ctx, fam)
        if fam != "wf":
            vectors = gc.sample_shapes(vectors, frac, ctx.seed)
        cases, pl = gc.run_family(ctx, fam, vectors)
        for i, f in sorted(pl.failed.items()):
            ctx.notes.append("%s design d%d not usable: %s" % (fam, i, str(f)[:300]))
        judge(ctx, fam, cases, gc.Explainer(ctx, fam), nontrivial, stats)
        ctx.cov["designs_" + fam] = len(pl.designs)
        ctx.cov["designs_failed_" + fam] = len(pl.failed)
    ctx.cov["distinct_nontrivial"] = len(nontrivial)
    ctx.cov["cases_run_in_process"] = stats["ran"]
    ctx.cov["c01_class_uncompilable_shapes"] = stats["uncompilable"]
    ctx.cov["c01_class_generator_failures"] = stats["generator_failed"]


def replay(ctx, rp):
    print(json.dumps(rp["case"].get("vector"), indent=1)[:3000])
    return 0
