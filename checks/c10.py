"""C10 - gRPC definitions are well formed and messages round-trip payloads.
(M) GRPCTransport.tla model-checked (request, response and well-formedness families; the Gen configurations
check the invariants while emitting) + one vacuity run per named deviation; (G) every (method shape, value)
TLC emits is packed into goa designs, generated with the protoc stand-in (fakeprotoc: own proto3 parser +
protodesc.NewFile as descriptor oracle), compiled and run in process (generated client -> stand-in transport
-> generated server -> recording stub) and judged against the oracle sets the model computed; (J) the parsed
field tables, rpc declarations and recorded exchanges - of the enumerated cases and of randomly concretised
ones - are validated as traces by TLC (Trace_GRPCTransport).
Nestings compose (a.path in GRPCTransport.tla): the well-formedness family holds every path of up to PathDepth
steps (2 in the quick tier, 3 in the thorough one) - OneOf members of alias / message / list / map type, aliases
of aliases, lists and maps of aliases and messages, messages holding OneOfs, one user type serving request and
response - and the round-trip families every two-step path whose values the value classes can describe; a tier
that samples method shapes keeps at least one shape of every such path."""
import json, os, random
from vlib import core, httpgen as hg, grpc_gen as gg, grpc_check as gc

FOCUS = {"eval": ["accepted"], "wf": ["accepted", "table", "rpcs", "descok"],
         "run": ["accepted", "descok", "where", "invoked", "delivered", "rwhere", "cerr", "returned"]}


def under_test(v, fam):
    return (v["ra"], v["rv"]) if fam == "res" else (v["pa"], v["pv"])


def judge(ctx, fam, cases, ex, nontrivial, stats, also=()):
    """Oracle judgement (what the design promises) of every case; mismatches are named after the recorded
    deviation that reproduces them exactly, else after the failing case.  `also`: vectors the explainer will be
    asked about later (trace validation) - handed to the same TLC run."""
    pending = []
    for c in cases:
        v = c["v"]
        al = v["allow"]
        ctx.cov["evaluations"] += 1
        a, val = under_test(v, fam)
        if fam in ("wf", "xm") or a["loc"] != "message" or a["nest"] != "direct" or a["mode"] != "required" or a["rule"] != "none":
            nontrivial.add(core.canon([fam, gg.shape_of(v), v["pv"], v["rv"], c.get("sent"), c.get("rsent")]))
        problems = []
        if c["accepted"] != al["accept"]:
            if c["accepted"] and (gg.inexpressible(v["pa"]) or gg.inexpressible(v["ra"])):
                problems.append(("eval/accepted-inexpressible-design", "a design with a list / map as OneOf member (no proto3 counterpart) was accepted"))
            elif c["accepted"]:
                problems.append(("eval/accepted-unnumbered-design", "design with tagmode %s accepted" % v["tagmode"]))
            else:
                problems.append(("eval/refused-valid-design", "eval errors: %s" % json.dumps(c["evalErrors"])[:300]))
        if c["accepted"] and c["gen"] != "ok" and c["table"] is None:
            # the generator itself failed before the protocol buffer compiler was reached: C01's business
            stats["generator_failed"][gc.attr_tag(a)] = "%s: %s" % (c["gen"], (c["genDetail"] or "").split("\n")[0][:200])
        elif c["accepted"]:
            problems += gc.table_problems(c)
            if c["uncompilable"]:
                stats["uncompilable"][gc.attr_tag(a)] = c["uncompilable"]
            elif c["obs"] is not None:
                stats["ran"] += 1
                stats["ran_by_loc"][a["loc"]] = stats["ran_by_loc"].get(a["loc"], 0) + 1
                problems += gc.run_problems(c, fam)
            elif fam != "wf" and c["descriptorOK"]:
                stats["unusable"] += 1
        if problems:
            pending.append((c, problems))
        elif ctx.cov["evaluations"] % 2500 == 1:
            ctx.sample({"fam": fam, "shape": gg.shape_of(v), "pv": v["pv"], "rv": v["rv"], "table": c["table"],
                        "observed": {k: (c["obs"] or {}).get(k) for k in ("where", "delivered", "invoked", "errname", "rwhere", "returned", "cerr")}})
    ex.prepare([c["v"] for c, _ in pending] + list(also))
    for c, problems in pending:
        v = c["v"]
        a, val = under_test(v, fam)
        for what, detail in problems:
            dev = ex.explain(c, focus=FOCUS["eval" if what.startswith("eval/") else ("wf" if what.startswith("wf/") else "run")])
            key = dev or "C10/%s/%s/%s/%s" % (fam, gc.attr_tag(a), gc.val_tag(val).rsplit(":", 2)[0], what)
            ctx.violation(key, ("[explained by deviation %s] " % dev if dev else "") + "%s attribute %s value %s (tagmode %s, metadata companion %s, explicit message %s, raw request %s, stream %s): %s %s" % (
                fam, gc.attr_tag(a), gc.val_tag(val), v["tagmode"], v["withmd"], v.get("explicit", False), v.get("raw", False), v["stream"], what, detail), gc.short_case(c))


def known_deviations(ctx):
    out = set()
    for k in ctx.known:
        for d in k.split("+"):
            if d in gc.DEVIATIONS:
                out.add(d)
    return sorted(out)


def trace_need(cases):
    """the cases in which the real code did not do what the mechanism of the model does without any deviation"""
    need = []
    for c in cases:
        if gc.trace_events(c, []) is None:
            continue
        want = gc.obs_sig(c)
        base = gc.mech_sig(c["v"])
        if any(base.get(k) != want.get(k) for k in set(base) | set(want)):
            need.append(c)
    return need


def validate_traces(ctx, fam, cases, ex, label, selftest=False, depth="2"):
    """(J) the cases as one batch trace. Each case declares the deviations under which the mechanism of the model
    does exactly what was recorded ([] for almost all); the trace specification only lets recorded findings be declared."""
    need = trace_need(cases)
    ex.prepare([c["v"] for c in need])
    needed = {c["id"] for c in need}
    lines, owner = [], []
    for c in cases:
        devs = []
        if c["id"] in needed:
            d = ex.explain(c)
            devs = d.split("+") if d else ["unexplained"]
        evs = gc.trace_events(c, devs)
        if evs is None:
            continue
        for e in evs:
            lines.append(json.dumps(e, sort_keys=True))
            owner.append(c)
    if not lines:
        return 0
    d = ctx.subdir("trace-" + label)
    path = os.path.join(d, "trace.ndjson")
    open(path, "w").write("\n".join(lines) + "\n")
    known = known_deviations(ctx)
    consts = {"Family": '"%s"' % fam, "Deviations": "{" + ", ".join('"%s"' % k for k in known) + "}", "PathDepth": depth}
    ok, hwm, r = ctx.trace_validate("trace/Trace_GRPCTransport", "trace/Trace_GRPCTransport.cfg", path, consts=consts, label="trace " + label, timeout=1500)
    ntr = sum(1 for ln in lines if '"ev": "reset"' in ln)
    ctx.log("TRACE %-20s %6d events %5d cases  accepted=%s hwm=%s  %.1fs" % (label, len(lines), ntr, ok, hwm, r.wall))
    if not ok:
        if r.violated:
            raise core.Infra("trace specification violated its own invariant %s on %s (the model contradicts itself)" % (r.violated, label))
        if hwm is None or hwm > len(lines):
            raise core.Infra("trace validation of %s failed without a high-water mark: %s" % (label, (r.error or r.stdout[-800:])))
        c = owner[hwm - 1]
        a, val = under_test(c["v"], fam)
        ev = json.loads(lines[hwm - 1])
        what = "declares-unrecorded-deviation:" + "+".join(ev["devs"]) if ev["ev"] == "reset" else ev["ev"]
        ctx.violation("C10/trace/%s/%s/%s/%s" % (fam, gc.attr_tag(a), gc.val_tag(val).rsplit(":", 2)[0], what),
                      "trace rejected at line %d of %s (%s): the recorded event is not a step of GRPCTransport.tla: %s" % (hwm, label, c["id"], lines[hwm - 1][:300]),
                      dict(gc.short_case(c), trace_line=hwm, event=ev))
    else:
        ctx.cov["traces_validated_against_impl"] += ntr
    if selftest and ok:
        selftest_trace(ctx, fam, lines, consts, label)
    return ntr


def selftest_trace(ctx, fam, lines, consts, label):
    """Binding demonstration: one corrupted field in the middle of an accepted trace must be rejected at exactly that line."""
    rng = random.Random(ctx.seed)
    fields = [i for i, ln in enumerate(lines) if '"ev": "proto_field"' in ln]
    decodes = [i for i, ln in enumerate(lines) if '"ev": "server_decode"' in ln or '"ev": "client_decode"' in ln]
    picks = ([fields[len(fields) // 2]] if fields else []) + ([rng.choice(decodes)] if decodes else ([rng.choice(fields)] if fields else []))
    for pick in picks:
        e = json.loads(lines[pick])
        if e["ev"] == "proto_field":
            e["number"] = e["number"] + 1
        elif e["ev"] == "server_decode":
            e["kind"], e["errname"] = ("error", "invalid_range") if e["kind"] == "payload" else ("payload", "x")
            e["class"] = "sent"
        else:
            e["class"] = "other" if e.get("class") != "other" else "sent"
            if e["kind"] != "result":
                e["kind"] = "result"
        bad = list(lines)
        bad[pick] = json.dumps(e, sort_keys=True)
        d = ctx.subdir("trace-selftest")
        path = os.path.join(d, "trace.ndjson")
        open(path, "w").write("\n".join(bad) + "\n")
        ok, hwm, r = ctx.trace_validate("trace/Trace_GRPCTransport", "trace/Trace_GRPCTransport.cfg", path, consts=consts, label="selftest " + label)
        ctx.cov.setdefault("trace_selftests", []).append({"family": fam, "corrupted_line": pick + 1, "event": e["ev"], "rejected": not ok, "hwm": hwm})
        if ok or hwm != pick + 1:
            raise core.Infra("self-test failed: corrupted %s event at line %d of %s was %s (hwm %s)" % (e["ev"], pick + 1, label, "accepted" if ok else "rejected elsewhere", hwm))
    ctx.log("self-test: corrupted trace lines rejected at exactly the corrupted line (%s)" % label)


def run(ctx):
    quick = ctx.quick()
    ctx.cov["rule"] = ("cases = (method shape, payload value, result value) triples enumerated by TLC from GRPCTransport.tla (plus randomly concretised members of "
                       "the same classes); non-trivial = well-formedness family, or the attribute under test is not a plain required unvalidated message field; "
                       "distinct = canonical JSON of (family, shape, abstract values, concrete data)")
    ctx.assumptions += ["the .pb.go files are fakeprotoc stand-ins with protoc-gen-go naming: no protobuf wire encoding takes part (out of scope, not goa's code)",
                        "protodesc.NewFile on the descriptor built by fakeprotoc's parser stands for protoc's acceptance of the file",
                        "stream Send/Recv conversions are not executed (rpc declarations of the four streaming kinds are checked)"]
    nontrivial = set()
    stats = {"unusable": 0, "ran": 0, "ran_by_loc": {}, "uncompilable": {}, "generator_failed": {}}
    frac = float(os.environ.get("VERIF_FRAC") or (0.09 if quick else 1.0))
    fams = (os.environ.get("VERIF_FAMS") or "wf,xm,req,res").split(",")
    selftest = ctx.selftest or not quick
    depth = os.environ.get("VERIF_PATHDEPTH") or ("2" if quick else "3")      # PathDepth of GRPCTransport.tla
    # (M) vacuity: with each named deviation the model violates the property (independent TLC runs, side by side)
    import concurrent.futures as cf
    with cf.ThreadPoolExecutor(max_workers=4) as pool:
        for f in [pool.submit(ctx.mc_expect_violation, "mc/MC_GRPCTransport", consts={"Deviations": '{"%s"}' % d, "Family": '"%s"' % gc.DEV_FAMILY[d], "PathDepth": depth},
                              label="MC dev " + d, workers=2) for d in gc.DEVIATIONS]:
            f.result()
    for fam in fams:
        # (M)+(G): one TLC run checks the invariants over the whole family and emits the cases
        vectors = gc.gen_vectors(ctx, fam, depth=depth)
        if fam in ("req", "res"):
            vectors = gc.sample_shapes(vectors, frac, ctx.seed)
        family = gc.Family(ctx, fam, vectors)
        cases, pl = family.run(vectors), family.pl
        for i, f in sorted(pl.failed.items())[:20]:
            if f[0] not in ("eval",):
                ctx.notes.append("%s design d%d not usable: %s" % (fam, i, str(f)[:200]))
        # one explainer per family: a case is put to TLC once, whoever asks about it (judgement, trace validation, random mode)
        ex = gc.Explainer(ctx, fam, depth=depth)
        tr = cases if len(cases) <= 2500 else random.Random(ctx.seed).sample(cases, 2500)
        judge(ctx, fam, cases, ex, nontrivial, stats, also=[c["v"] for c in trace_need(tr)])
        # (J) trace validation of what was recorded
        validate_traces(ctx, fam, tr, ex, fam, selftest=selftest and fam in ("wf", "xm", "req"), depth=depth)
        ctx.cov["designs_" + fam] = len(pl.designs)
        ctx.cov["designs_failed_" + fam] = len(pl.failed)
        # (J) random mode: other members of the value classes, judged by the oracle and validated as a trace
        if fam in ("req", "res"):
            rng = random.Random(ctx.seed * 7919 + len(fam))
            n = 500 if quick else 5000
            pool = [v for v in vectors if not hg.is_absent(under_test(v, fam)[1])]
            rv = rng.sample(pool, min(n, len(pool)))
            rcases = family.run(rv, rng=rng, prefix="r")
            judge(ctx, fam, rcases, ex, nontrivial, stats, also=[c["v"] for c in trace_need(rcases)])
            validate_traces(ctx, fam, rcases, ex, fam + "-random", depth=depth)
    ctx.cov["distinct_nontrivial"] = len(nontrivial)
    ctx.cov["cases_run_in_process"] = stats["ran"]
    ctx.cov["cases_run_by_location"] = stats["ran_by_loc"]
    ctx.cov["cases_accepted_but_not_runnable"] = stats["unusable"]
    ctx.cov["c01_class_uncompilable_shapes"] = stats["uncompilable"]
    ctx.cov["c01_class_generator_failures"] = stats["generator_failed"]
    if stats["uncompilable"] or stats["generator_failed"]:
        ctx.notes.append("C01-class: %d attribute shapes generate code that does not compile and %d make the generator panic; their methods were set aside "
                         "(see c01_class_* in the coverage)" % (len(stats["uncompilable"]), len(stats["generator_failed"])))


def replay(ctx, rp):
    """Re-run the single recorded case on the repo under test and print verdict lines."""
    case = rp["case"]
    v = case["vector"]
    fam = v["fam"]
    cases, pl = gc.run_family(ctx, fam, [v], label="replay")
    c = cases[0]
    probs = []
    if c["accepted"] != v["allow"]["accept"]:
        probs.append(("eval", "accepted=%s" % c["accepted"]))
    if c["accepted"]:
        probs += gc.table_problems(c)
        if c["obs"] is not None:
            probs += gc.run_problems(c, fam)
    print(json.dumps(gc.short_case(c), indent=1, default=str)[:6000])
    for what, detail in probs:
        print("REPRODUCED: %s %s" % (what, detail))
    if not probs:
        print("not reproduced on %s" % ctx.repo)
    return 1 if probs else 0
