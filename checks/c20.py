"""C20 - generated servers and runtime helpers are safe under concurrent requests.
(M) Concurrency.tla: K request processes x handler regions x shared objects, NoConflict / Echo / Termination
model-checked for every interleaving of gate passes; (G) every schedule TLC emits for K=2 (a sample for K=3)
is replayed on the real generated server: K goroutines gated at the decoder factory, the stub service and the
encoder factory, released in the emitted order so that their segments overlap, built with -race;
(J) the replayed schedules are validated as traces (gates passed in handler order, race reports = 0, echo);
plus load: 32-64 goroutines of mixed requests on one mounted server, and direct concurrent use of
ErrorEncoder, ResponseEncoder, muxer, ValidatePattern, samplers."""
import json, os, re, glob, subprocess
from vlib import core, httpgen as hg

KINDS = ["ok", "invalid", "declared", "undeclared", "plain"]
REPO_ROOTS = ["/repo"]


def design():
    return {"api": {"name": "conc"}, "services": [{"name": "s1", "errors": [{"name": "e1"}], "methods": [{
        "name": "m1",
        "payload": {"attrs": [
            {"name": "a1", "type": {"kind": "int"}, "required": True, "val": {"min": 2}},
            {"name": "a2", "type": {"kind": "string"}, "val": {"pattern": "^[a-z]+$"}},
            {"name": "a3", "type": {"kind": "string"}, "required": True, "val": {"minLen": 2}}]},
        "result": {"attrs": [{"name": "r1", "type": {"kind": "int"}, "required": True}, {"name": "r2", "type": {"kind": "string"}}]},
        "http": {"routes": [{"verb": "POST", "path": "/m1/{a1}"}], "params": {"a2": "qa2"},
                 "responses": [{"status": 200, "headers": {"r2": "X-R2"}}], "errors": [{"name": "e1", "status": 409}]}}]}]}


ACCEPTS = {1: "application/json; q=0.9", 2: "application/xml; q=0.8", 3: "application/gob; q=0.7"}


def scenarios():
    out = []
    for p in (1, 2, 3):
        tag = "x" * p
        # each process negotiates a different response format, through an Accept value that needs parsing
        base = {"service": "s1", "method": "M1", "accept": ACCEPTS[p]}
        out.append(dict(base, id="ok#%d" % p, payload={"a1": 10 + p, "a2": "ab" + tag, "a3": "body" + tag},
                        outcome={"kind": "result", "value": {"r1": 100 + p, "r2": "hdr" + tag}}))
        out.append(dict(base, id="invalid#%d" % p, payload={"a1": 1 - p, "a2": "ab" + tag, "a3": "body" + tag}))
        out.append(dict(base, id="declared#%d" % p, payload={"a1": 20 + p, "a3": "body" + tag},
                        outcome={"kind": "error", "errKind": "make", "errName": "e1", "msg": "declared" + tag}))
        out.append(dict(base, id="undeclared#%d" % p, payload={"a1": 30 + p, "a3": "body" + tag},
                        outcome={"kind": "error", "errKind": "service", "errName": "zz", "msg": "undeclared" + tag, "flags": [False, True, False]}))
        out.append(dict(base, id="plain#%d" % p, payload={"a1": 40 + p, "a3": "body" + tag},
                        outcome={"kind": "error", "errKind": "plain", "msg": "plain" + tag}))
    return out


def scrub(x):
    """drop what legitimately differs between two runs of one scenario: error instance identifiers"""
    if isinstance(x, dict):
        return {k: scrub(v) for k, v in x.items() if k not in ("id",)}
    if isinstance(x, list):
        return [scrub(v) for v in x]
    if isinstance(x, str):
        x = re.sub(r'\\?"id\\?":\\?"[A-Za-z0-9_-]{8}\\?"', '"id":"*"', x)
        return re.sub(r"<id>[A-Za-z0-9_-]{8}</id>", "<id>*</id>", x)
    return x


def signature(events):
    """what must be identical between a request served alone and the same request served among others"""
    evs = [e for e in events if e.get("ev") in ("client_call", "wire_req", "mw_lookup", "invoke", "service_return", "wire_resp", "client_return")]
    gob = any(e.get("ev") == "wire_resp" and "gob" in " ".join((e.get("headers") or {}).get("Content-Type", [])) for e in evs)
    if gob:
        # a gob body carries the error instance id in binary (also inside the client's "invalid response" text):
        # compare everything but those bytes
        out = []
        for e in evs:
            e = dict(e)
            if e["ev"] == "wire_resp":
                e.pop("body", None)
            if e["ev"] == "client_return" and isinstance(e.get("err"), dict):
                err = {k: v for k, v in e["err"].items() if k not in ("message", "fields")}
                if isinstance(err.get("client"), dict):
                    err["client"] = {k: v for k, v in err["client"].items() if k != "message"}
                e["err"] = err
            out.append(e)
        evs = out
    return core.canon(scrub(evs))


def race_reports(prefix):
    n, tops = 0, []
    for f in glob.glob(prefix + "*"):
        txt = open(f, errors="replace").read()
        for block in txt.split("WARNING: DATA RACE")[1:]:
            n += 1
            m = re.search(r"\n  ([^\n]+)\(\)\n\s+(/[^\s:]+\.go):(\d+)", block)
            if m:
                f = m.group(2)
                for root in REPO_ROOTS:
                    if f.startswith(root + "/"):
                        f = f[len(root) + 1:]
                tops.append("%s@%s:%s" % (m.group(1).strip(), f, m.group(3)))
            else:
                tops.append("unknown")
    return n, tops


def run_bin(ctx, binp, cwd, args, tag):
    prefix = os.path.join(cwd, "race-" + tag)
    env = dict(ctx.goenv(), GORACE="log_path=%s exitcode=0 halt_on_error=0" % prefix)
    p = subprocess.run([binp] + args, cwd=cwd, env=env, stdout=subprocess.PIPE, stderr=subprocess.PIPE, text=True, timeout=1500, errors="replace")
    if p.returncode != 0:
        raise core.Infra("runner failed (%d): %s" % (p.returncode, p.stderr[-3000:]))
    return race_reports(prefix)


def run(ctx):
    quick = ctx.quick()
    REPO_ROOTS.append(ctx.repo)
    ctx.cov["rule"] = ("cases = schedules (order in which K gated request goroutines pass decode/invoke/encode) x request kinds enumerated by TLC from "
                       "Concurrency.tla, replayed under the race detector, plus load batches; non-trivial = a schedule with at least one preemption between two "
                       "requests' steps; distinct = canonical JSON of (kinds, order)")
    ctx.assumptions += ["absence of data races is judged by the Go race detector on the executed schedules (external oracle)",
                        "gates exist only where the caller injects code (decoder/encoder factories, stub service, Auther): finer interleavings are left to the Go scheduler under load"]
    ctx.mc("mc/MC_Concurrency", consts={"K": 2}, label="MC K=2")
    if not quick:
        ctx.mc("mc/MC_Concurrency", consts={"K": 3}, label="MC K=3", timeout=1500)
    ctx.mc_expect_violation("mc/MC_Concurrency", consts={"Deviations": '{"errorencoder.formatter_assigned_per_request"}'}, label="MC dev race")
    ctx.mc_expect_violation("mc/MC_Concurrency", consts={"Deviations": '{"handler.shared_error_var"}'}, label="MC dev echo")
    vectors = ctx.gen("mc/MC_Concurrency", "gen/Gen_Concurrency.cfg", consts={"K": 2}, workers=1, label="Gen K=2").vectors
    if not quick:
        v3 = ctx.gen("mc/MC_Concurrency", "gen/Gen_Concurrency.cfg", consts={"K": 3}, workers=1, label="Gen K=3", timeout=1500).vectors
        import random
        rnd = random.Random(ctx.seed)
        rnd.shuffle(v3)
        vectors += v3[:4000]
    # real code
    d = design()
    pl = hg.Pipeline(ctx, "gen-conc")
    pl.prepare([d])
    if pl.failed or pl.bad_methods:
        raise core.Infra("the concurrency design does not generate/compile: %s %s" % (pl.failed, pl.bad_methods))
    bins = pl.build_runners([d], race=True)
    if 0 not in bins:
        raise core.Infra("race build failed: %s" % pl.failed)
    binp, cwd = bins[0], os.path.join(pl.root, "d0")
    scns = scenarios()
    open(os.path.join(cwd, "scn.ndjson"), "w").write("".join(json.dumps(s) + "\n" for s in scns))
    # 1. sequential baseline
    run_bin(ctx, binp, cwd, ["-mwlookup", "-in", "scn.ndjson", "-out", "base.ndjson"], "base")
    base = {}
    for l in open(os.path.join(cwd, "base.ndjson")):
        o = json.loads(l)
        base[o["id"]] = signature(o["events"])
    # 2. schedule replay
    scheds = []
    for n, v in enumerate(vectors):
        kinds = v["kinds"]
        scheds.append({"id": "s%d" % n, "procs": ["%s#%d" % (k, i + 1) for i, k in enumerate(kinds)], "order": v["order"]})
    open(os.path.join(cwd, "sched.ndjson"), "w").write("".join(json.dumps(s) + "\n" for s in scheds))
    nrace, tops = run_bin(ctx, binp, cwd, ["-mwlookup", "-in", "scn.ndjson", "-out", "sched-out.ndjson", "-schedules", "sched.ndjson"], "sched")
    ctx.log("replayed %d schedules under -race: %d race report(s)" % (len(scheds), nrace))
    trace, nontrivial, echo_bad, mism = [], set(), 0, 0
    byid = {s["id"]: s for s in scheds}
    for l in open(os.path.join(cwd, "sched-out.ndjson")):
        o = json.loads(l)
        s = byid[o["schedule"]]
        v = vectors[int(o["schedule"][1:])]
        ctx.cov["evaluations"] += 1
        order = v["order"]
        if any(order[i][0] != order[i + 1][0] for i in range(len(order) - 1)):
            nontrivial.add(core.canon([v["kinds"], order]))
        echo = True
        for pr in o["procs"]:
            if signature(pr["events"]) != base[pr["id"]]:
                echo = False
                echo_bad += 1
                ctx.violation("C20/echo/" + pr["id"].split("#")[0], "response of %s under schedule %s differs from the response to the same request in isolation" % (pr["id"], s["order"]),
                              {"schedule": s, "events": pr["events"], "kinds": v["kinds"]})
        if o["mismatch"]:
            mism += 1
            ctx.violation("C20/schedule-not-followed", "the real handler did not reach the gates in the order the model allows: %s" % o["mismatch"][:3], {"schedule": s, "mismatch": o["mismatch"]})
        trace.append({"ev": "sched", "kinds": v["kinds"]})
        for p, g in order:
            trace.append({"ev": "pass", "p": p, "gate": g})
        trace.append({"ev": "end", "races": 0, "echo": echo})
    for t in sorted(set(tops)):
        ctx.violation("C20/race/" + t.split("@")[-1], "data race reported by the race detector during schedule replay (%d reports in total)" % nrace, {"top_frame": t, "phase": "schedule replay"})
    # races are per run, not per schedule: the trace carries them on the last schedule
    if trace:
        trace[-1]["races"] = nrace
    tp = os.path.join(ctx.subdir("trace"), "trace.ndjson")
    open(tp, "w").write("".join(json.dumps(t) + "\n" for t in trace))
    ok, hwm, r = ctx.trace_validate("trace/Trace_Concurrency", "trace/Trace_Concurrency.cfg", tp)
    ctx.cov["traces_validated_against_impl"] += len(scheds)
    if not ok and not ctx.violations:
        bad = trace[hwm - 1] if hwm else None
        ctx.violation("C20/trace-rejected", "Trace_Concurrency rejected line %s: %s" % (hwm, bad), {"line": bad})
    ctx.sample({"schedule": scheds[len(scheds) // 2], "kinds": vectors[len(scheds) // 2]["kinds"]})
    # 3. load
    par, rounds = (32, 40) if quick else (64, 400)
    nrace2, tops2 = run_bin(ctx, binp, cwd, ["-mwlookup", "-in", "scn.ndjson", "-out", "load.ndjson", "-parallel", str(par), "-rounds", str(rounds)], "load")
    nload = 0
    for l in open(os.path.join(cwd, "load.ndjson")):
        o = json.loads(l)
        nload += 1
        if signature(o["events"]) != base[o["id"]]:
            ctx.violation("C20/echo-under-load/" + o["id"].split("#")[0], "response of %s under load (%d goroutines) differs from the response in isolation" % (o["id"], par), {"events": o["events"]})
    ctx.cov["evaluations"] += nload
    ctx.log("load: %d requests from %d goroutines: %d race report(s)" % (nload, par, nrace2))
    for t in sorted(set(tops2)):
        ctx.violation("C20/race/" + t.split("@")[-1], "data race reported by the race detector under load (%d reports)" % nrace2, {"top_frame": t, "phase": "load"})
    # 4. runtime helpers used directly
    cb = ctx.gobuild("drivers/conc", race=True)
    dd = ctx.subdir("conc")
    prefix = os.path.join(dd, "race-conc")
    env = dict(ctx.goenv(), GORACE="log_path=%s exitcode=0 halt_on_error=0" % prefix)
    p = subprocess.run([cb, "-out", os.path.join(dd, "out.ndjson"), "-goroutines", "16" if quick else "64", "-iters", "150" if quick else "1500"],
                       cwd=dd, env=env, stdout=subprocess.PIPE, stderr=subprocess.PIPE, text=True, timeout=1500)
    if p.returncode != 0:
        raise core.Infra("conc driver failed: %s" % p.stderr[-2000:])
    nrace3, tops3 = race_reports(prefix)
    for l in open(os.path.join(dd, "out.ndjson")):
        o = json.loads(l)
        ctx.cov["evaluations"] += o["ops"]
        if o["echo_failures"]:
            ctx.violation("C20/helpers/echo/" + o["area"], "%d of %d concurrent calls got an answer not computed from their own input" % (o["echo_failures"], o["ops"]), o)
        ctx.sample(o, limit=9)
    for t in sorted(set(tops3)):
        ctx.violation("C20/race/" + t.split("@")[-1], "data race reported by the race detector in direct concurrent use of the runtime helpers (%d reports)" % nrace3, {"top_frame": t, "phase": "helpers"})
    # 5. goa.SkipResponseWriter (adapter shared by the handler goroutine and a writer goroutine)
    ctx.mc("mc/MC_SkipWriter", label="MC SkipWriter (safety + NoLeak)")
    ctx.mc_expect_violation("mc/MC_SkipWriter", consts={"Deviations": '{"skipwriter.writer_never_unblocked"}'}, label="MC dev SkipWriter")
    sb = ctx.gobuild("drivers/skipwriter", race=True)
    sd = ctx.subdir("skipwriter")
    sprefix = os.path.join(sd, "race-skw")
    env = dict(ctx.goenv(), GORACE="log_path=%s exitcode=0 halt_on_error=0" % sprefix)
    tp2 = os.path.join(sd, "trace.ndjson")
    p = subprocess.run([sb, "-out", tp2, "-seed", str(ctx.seed), "-random", "300" if quick else "3000"], cwd=sd, env=env,
                       stdout=subprocess.PIPE, stderr=subprocess.PIPE, text=True, timeout=900)
    if p.returncode != 0:
        raise core.Infra("skipwriter driver failed: %s" % p.stderr[-2000:])
    nrace4, tops4 = race_reports(sprefix)
    ok, hwm, r = ctx.trace_validate("trace/Trace_SkipWriter", "trace/Trace_SkipWriter.cfg", tp2, label="trace-skipwriter")
    lines2 = [json.loads(l) for l in open(tp2)]
    nsc = sum(1 for l in lines2 if l["ev"] == "reset")
    ctx.cov["traces_validated_against_impl"] += nsc
    ctx.cov["evaluations"] += nsc
    if not ok:
        bad = lines2[hwm - 1] if hwm else None
        ctx.violation("C20/skipwriter/trace-rejected/%s" % (bad or {}).get("ev"), "Trace_SkipWriter rejected line %s: %s" % (hwm, bad),
                      {"line": bad, "context": lines2[max(0, (hwm or 1) - 8):(hwm or 1)]})
    for t in sorted(set(tops4)):
        ctx.violation("C20/race/" + t.split("@")[-1], "data race reported by the race detector in SkipResponseWriter use (%d reports)" % nrace4, {"top_frame": t, "phase": "skipwriter"})
    ctx.cov["race_reports"] = {"schedules": nrace, "load": nrace2, "helpers": nrace3, "skipwriter": nrace4}
    ctx.cov["distinct_nontrivial"] = len(nontrivial)
    if ctx.selftest or not quick:
        selftest(ctx, trace)


def selftest(ctx, trace):
    """a trace claiming one race report, or passing the encode gate before the decode gate, must be rejected"""
    ls = [dict(t) for t in trace[:40]]
    end = next(i for i, t in enumerate(ls) if t["ev"] == "end")
    ls[end]["races"] = 1
    d = ctx.subdir("selftest")
    p = os.path.join(d, "trace.ndjson")
    open(p, "w").write("".join(json.dumps(t) + "\n" for t in ls))
    ok, hwm, _ = ctx.trace_validate("trace/Trace_Concurrency", "trace/Trace_Concurrency.cfg", p, label="selftest")
    res = {"corrupted_line": end + 1, "rejected_at": hwm, "ok": (not ok and hwm == end + 1)}
    ctx.cov.setdefault("trace_selftests", []).append(res)
    if not res["ok"]:
        raise core.Infra("trace self-test failed: %s" % res)


def replay(ctx, rp):
    print(json.dumps(rp["case"], indent=1)[:3000])
    return 0
