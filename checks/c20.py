"""C20 - generated servers and runtime helpers are safe under concurrent requests.
(M) Concurrency.tla: K request processes x handler regions x shared objects; a request is (kind, content type class,
body kind); NoConflict / Echo (the payload a handler reads and the reply a client gets are computed from their own
request only) / Termination model-checked for every interleaving of gate passes and region completions, in the free
and in the serial replay mode; three named deviations must each yield a counterexample.
(G) every schedule TLC emits for K=2 (samples of the larger families) is replayed on the real generated server: K
goroutines gated at the decoder factory, the stub service and the encoder factory, released in the emitted order -
free (segments overlap, race detector) or serial (one region at a time: request A held after decoding, B served
from start to finish, A continues).  Requests come from generated clients (JSON) and from raw clients choosing
Content-Type and Accept per request (json, xml, gob, text/plain, text/html, suffix and parameter forms) for
methods whose body is an object, a string, a byte string or a list and which answer with their own payload.
(J) the replayed schedules are validated as traces (gates passed in handler order, race reports = 0, payload seen
and reply computed from the own request); every exchange is compared with the same exchange served alone;
plus load: 32-64 goroutines of mixed requests with pairwise distinct payloads of many sizes on one mounted server,
and direct concurrent use of RequestDecoder/ResponseEncoder/ResponseDecoder/RequestEncoder (whole codec matrix),
ErrorEncoder, muxer, ValidatePattern, samplers."""
import base64, json, os, re, glob, random, subprocess
from xml.sax.saxutils import escape as xesc
from vlib import core, httpgen as hg

KINDS = ["ok", "invalid", "declared", "undeclared", "plain"]
REPO_ROOTS = ["/repo"]


def design():
    s1 = {"name": "s1", "errors": [{"name": "e1"}], "methods": [{
        "name": "m1",
        "payload": {"attrs": [
            {"name": "a1", "type": {"kind": "int"}, "required": True, "val": {"min": 2}},
            {"name": "a2", "type": {"kind": "string"}, "val": {"pattern": "^[a-z]+$"}},
            {"name": "a3", "type": {"kind": "string"}, "required": True, "val": {"minLen": 2}}]},
        "result": {"attrs": [{"name": "r1", "type": {"kind": "int"}, "required": True}, {"name": "r2", "type": {"kind": "string"}}]},
        "http": {"routes": [{"verb": "POST", "path": "/m1/{a1}"}], "params": {"a2": "qa2"},
                 "responses": [{"status": 200, "headers": {"r2": "X-R2"}}], "errors": [{"name": "e1", "status": 409}]}}]}

    # the codec service: methods that answer with their own payload, one per body kind (+ designed content types)
    def echo(name, t, path, ct=None):
        resp = {"status": 200}
        if ct:
            resp["contentType"] = ct
        return {"name": name, "payload": {"type": t}, "result": {"type": t}, "http": {"routes": [{"verb": "POST", "path": path}], "responses": [resp]}}
    obj = {"name": "Obj", "kind": "object", "attrs": [
        {"name": "s", "type": {"kind": "string"}, "required": True}, {"name": "b", "type": {"kind": "bytes"}},
        {"name": "n", "type": {"kind": "int"}}, {"name": "l", "type": {"kind": "array", "elem": {"kind": "string"}}}]}
    strs = {"kind": "array", "elem": {"kind": "string"}}
    cx = {"name": "cx", "methods": [
        echo("m1", {"kind": "bytes"}, "/cx/bytes"),
        echo("m2", {"kind": "string"}, "/cx/string"),
        echo("m3", {"kind": "user", "ref": "Obj"}, "/cx/object"),
        echo("m4", strs, "/cx/list"),
        echo("m5", {"kind": "user", "ref": "Obj"}, "/cx/vjson", ct="application/vnd.verif.obj+json"),
        echo("m6", {"kind": "user", "ref": "Obj"}, "/cx/vxml", ct="application/vnd.verif.obj+xml"),
        echo("m7", {"kind": "bytes"}, "/cx/tbytes", ct="text/plain"),
        # Body("data") naming a Bytes attribute
        {"name": "m8", "payload": {"attrs": [{"name": "id", "type": {"kind": "string"}, "required": True}, {"name": "data", "type": {"kind": "bytes"}, "required": True}]},
         "result": {"type": {"kind": "bytes"}},
         "http": {"routes": [{"verb": "POST", "path": "/cx/attr/{id}"}], "body": "data", "responses": [{"status": 200}]}}]}
    return {"api": {"name": "conc"}, "types": [obj], "services": [s1, cx]}


ACCEPTS = {1: "application/json; q=0.9", 2: "application/xml; q=0.8", 3: "application/gob; q=0.7"}


def scenarios():
    out = []
    for p in (1, 2, 3):
        tag = "x" * p
        # each process negotiates a different response format, through an Accept value that needs parsing
        base = {"service": "s1", "method": "M1", "accept": ACCEPTS[p]}
        out.append(dict(base, id="ok#%d" % p, payload={"a1": 10 + p, "a2": "ab" + tag, "a3": "body" + tag},
                        outcome={"kind": "result", "value": {"r1": 100 + p, "r2": "hdr" + tag}}))
        out.append(dict(base, id="invalid#%d" % p, payload={"a1": 1 - p, "a2": "ab" + tag, "a3": "body" + tag}))
        out.append(dict(base, id="declared#%d" % p, payload={"a1": 20 + p, "a3": "body" + tag},
                        outcome={"kind": "error", "errKind": "make", "errName": "e1", "msg": "declared" + tag}))
        out.append(dict(base, id="undeclared#%d" % p, payload={"a1": 30 + p, "a3": "body" + tag},
                        outcome={"kind": "error", "errKind": "service", "errName": "zz", "msg": "undeclared" + tag, "flags": [False, True, False]}))
        out.append(dict(base, id="plain#%d" % p, payload={"a1": 40 + p, "a3": "body" + tag},
                        outcome={"kind": "error", "errKind": "plain", "msg": "plain" + tag}))
    return out


# ---------------------------------------------------------------------------------------------- the codec family
# concrete content types of a class of the specification: (key, Content-Type header or None, client)
CT_VARIANTS = {
    "json": [("json", "application/json", "raw"), ("gen", "application/json", "gen"), ("jsonp", "application/json; charset=utf-8", "raw"), ("none", None, "raw")],
    "xml": [("xml", "application/xml", "raw"), ("xmlp", "application/xml; charset=utf-8", "raw")],
    "gob": [("gob", "application/gob", "raw")],
    "text": [("plain", "text/plain", "raw"), ("html", "text/html; charset=utf-8", "raw"), ("plainp", "text/plain; charset=utf-8", "raw")],
    "unsup": [("vjson", "application/vnd.verif.obj+json", "raw"), ("vxml", "application/vnd.verif.obj+xml", "raw"), ("form", "application/x-www-form-urlencoded", "raw")],
}
CX_METHODS = {"bytes": ["M1", "M7", "M8"], "string": ["M2"], "object": ["M3", "M5", "M6"], "list": ["M4"]}
CX_PATH = {"M1": "/cx/bytes", "M2": "/cx/string", "M3": "/cx/object", "M4": "/cx/list", "M5": "/cx/vjson", "M6": "/cx/vxml", "M7": "/cx/tbytes", "M8": "/cx/attr/"}
CX_ACCEPTS = [None, "application/json", "application/xml", "application/gob", "text/plain", "text/html", "application/xml; q=0.8", "application/json; q=0.9", "*/*"]
# body sizes on both sides of the growth steps of the buffers involved (bytes.Buffer 64 / MinRead 512, io.ReadAll 512.., bufio 4096)
SIZES = [1, 7, 63, 64, 65, 200, 511, 512, 513, 1023, 1024, 1025, 1536, 2047, 2048, 2049, 4095, 4096, 4097, 9000]
BIG_SIZES = [33000, 70000]


def fill(marker, size):
    s = marker * (size // len(marker) + 1)
    return s[:max(size, len(marker))]      # the marker is always whole: a payload says whose it is


def b64(s):
    return base64.b64encode(s.encode()).decode()


class Codec:
    """builds the requests of the codec family; gob bodies are encoded by the raw gob client of drivers/conc"""

    def __init__(self):
        self.scns = {}
        self.gob = []
        self.meta = {}

    def make(self, sid, ctv, method, accept, size, marker, inbound=False):
        if sid in self.scns:
            return sid
        key, ct, client = ctv
        cls = next(c for c, vs in CT_VARIANTS.items() if ctv in vs)
        body = next(b for b, ms in CX_METHODS.items() if method in ms)
        text = fill(marker, size)
        lst = ["%s#%d/%s" % (marker, i, fill(marker, size // 3)) for i in range(1 + size % 3)]
        ol = [marker, "l:" + fill(marker, size // 4)]
        self.meta[sid] = {"class": cls, "ct": key, "body": body, "method": method, "accept": accept, "size": size, "marker": marker, "client": client}
        if method == "M8":
            outcome = {"kind": "result", "value": {"$bytes": b64("r:" + text)}}
        else:
            outcome = {"kind": "echo"}
        if client == "gen":
            payload = {"bytes": {"$bytes": b64(text)}, "string": text, "list": lst,
                       "object": {"s": text, "b": {"$bytes": b64("b:" + text)}, "n": size, "l": ol}}[body]
            if method == "M8":
                payload = {"id": "i" + marker.strip("~"), "data": {"$bytes": b64(text)}}
            scn = {"id": sid, "service": "cx", "method": method, "payload": payload, "outcome": outcome}
            if accept:
                scn["accept"] = accept
            self.scns[sid] = scn
            return sid
        uri = CX_PATH[method] + ("i" + marker.strip("~") if method == "M8" else "")
        headers = {}
        if ct:
            headers["Content-Type"] = [ct]
        if accept:
            headers["Accept"] = [accept]
        if inbound:     # a caller that is traced already and names its request
            headers.update({"TraceID": ["t-" + sid], "ParentSpanID": ["p-" + sid], "X-Request-Id": ["r-%s-0123456789abcdefghij0123" % sid]})
        raw = {"method": "POST", "uri": uri, "headers": headers}
        if cls in ("json", "unsup"):
            raw["body"] = json.dumps({"bytes": b64(text), "string": text, "list": lst, "object": {"s": text, "b": b64("b:" + text), "n": size, "l": ol}}[body])
        elif cls == "xml":
            if body == "object":
                raw["body"] = "<Obj><s>%s</s><b>%s</b><n>%d</n>%s</Obj>" % (xesc(text), xesc("b:" + text), size, "".join("<l>%s</l>" % xesc(x) for x in ol))
            else:
                raw["body"] = "<v>%s</v>" % xesc(lst[0] if body == "list" else text)
        elif cls == "text":
            raw["body"] = text if body in ("string", "bytes") else "not text: " + text
        elif cls == "gob":
            self.gob.append({"id": sid, "kind": body, "s": text, "l": ol if body == "object" else lst, "n": size})
        self.scns[sid] = {"id": sid, "raw": raw, "outcome": outcome}
        return sid

    def encode_gob(self, ctx, binp, d):
        if not self.gob:
            return
        inp, outp = os.path.join(d, "gob-in.ndjson"), os.path.join(d, "gob-out.ndjson")
        open(inp, "w").write("".join(json.dumps(g) + "\n" for g in self.gob))
        p = subprocess.run([binp, "-gob", inp, "-out", outp], cwd=d, env=ctx.goenv(), stdout=subprocess.PIPE, stderr=subprocess.PIPE, text=True, timeout=300)
        if p.returncode != 0:
            raise core.Infra("raw gob client failed: %s" % p.stderr[-2000:])
        for l in open(outp):
            o = json.loads(l)
            self.scns[o["id"]]["raw"]["bodyB64"] = o["b64"]
        self.gob = []


def pick_variant(rnd, codec, body):
    ctv = rnd.choice(CT_VARIANTS[codec])
    method = rnd.choice(CX_METHODS[body])
    return ctv, method, rnd.choice(CX_ACCEPTS)


def is_hold(order):
    """one process is let through some of its gates, then the other one runs from start to finish, then the first continues"""
    ps = [s[0] for s in order]
    for inner in (1, 2):
        at = [i for i, p in enumerate(ps) if p == inner]
        if at and at == list(range(at[0], at[0] + len(at))) and 0 < at[0] and at[-1] < len(ps) - 1:
            return True
    return False


def scrub(x):
    """drop what legitimately differs between two runs of one scenario: error instance identifiers"""
    if isinstance(x, dict):
        return {k: scrub(v) for k, v in x.items() if k not in ("id",)}
    if isinstance(x, list):
        return [scrub(v) for v in x]
    if isinstance(x, str):
        x = re.sub(r'\\?"id\\?":\\?"[A-Za-z0-9_-]{8}\\?"', '"id":"*"', x)
        return re.sub(r"<id>[A-Za-z0-9_-]{8}</id>", "<id>*</id>", x)
    return x


SIG_EVENTS = ("client_call", "wire_req", "mw_lookup", "invoke", "service_return", "wire_resp", "client_return", "errhandler", "server_panic", "client_panic", "wire_req_error")


def signature(events, only=None):
    """what must be identical between a request served alone and the same request served among others"""
    evs = [e for e in events if e.get("ev") in (only or SIG_EVENTS)]
    goberr = any(e.get("ev") == "wire_resp" and (e.get("status") or 0) >= 400 and "gob" in " ".join((e.get("headers") or {}).get("Content-Type", [])) for e in evs)
    if goberr:
        # a gob error body carries the error instance id in binary (also inside the client's "invalid response" text):
        # compare everything but those bytes
        out = []
        for e in evs:
            e = dict(e)
            if e["ev"] == "wire_resp":
                e.pop("body", None)
            if e["ev"] == "client_return" and isinstance(e.get("err"), dict):
                err = {k: v for k, v in e["err"].items() if k not in ("message", "fields")}
                if isinstance(err.get("client"), dict):
                    err["client"] = {k: v for k, v in err["client"].items() if k != "message"}
                e["err"] = err
            out.append(e)
        evs = out
    out = []
    for e in evs:
        if e.get("ev") == "wire_resp" and (e.get("status") or 0) < 400 and "gob" in " ".join((e.get("headers") or {}).get("Content-Type", [])) and isinstance(e.get("body"), str):
            # encoding/gob numbers (and names) the types it describes on the wire from a registry of the whole process:
            # the bytes around the values depend on what the process encoded before.  What must be the request's own
            # is the values: the markers of the payload, in order (a raw client cannot compare more; generated
            # clients decode the reply and their result is compared as a value)
            e = dict(e, body={"gob_values": re.findall(r"~[A-Za-z0-9]+~(?:#\d+/)?|[blr]:(?=~)", e["body"])})
        out.append(e)
    return core.canon(scrub(out))


def flat(x):
    """every piece of text inside a recorded value (byte strings decoded), for looking up whose payload it is"""
    if isinstance(x, dict):
        if set(x) == {"$bytes"}:
            try:
                return base64.b64decode(x["$bytes"]).decode("latin-1")
            except Exception:
                return ""
        return " ".join(flat(v) for v in x.values())
    if isinstance(x, list):
        return " ".join(flat(v) for v in x)
    if isinstance(x, str):
        out = x
        for m in re.findall(r"[A-Za-z0-9+/]{12,}={0,2}", x):     # byte strings inside JSON bodies
            try:
                out += " " + base64.b64decode(m + "=" * (-len(m) % 4)).decode("latin-1")
            except Exception:
                pass
        return out
    return ""


def whose(events, only, own, others, base_sig):
    """own index if these events are what the request produces alone, the index of the other request whose
    payload shows up instead, -1 for something that belongs to nobody we know"""
    if signature(events, only) == base_sig:
        return own
    text = flat([e for e in events if e.get("ev") in only])
    for q, marker in others:
        if marker and marker in text:
            return q
    return -1


RID_LIMIT = 24


class MwJudge:
    """what the shared-state middlewares in front of the handlers (rt -mwstate) did for every request under load:
    the identifiers in the request context are the request's own (the inbound ones where present, else fresh ones no
    other request was given), the adaptive sampler whose maximum rate is out of reach sampled every request, the
    Debug record and the log entries filed under the request id describe this very exchange"""

    def __init__(self, ctx, scns):
        self.ctx, self.scns = ctx, scns
        self.owner = {}          # generated identifier -> execution it was given to
        self.nexec = 0
        self.per_scn = {}        # scenario id -> [executions, debug records, log entries]
        self.counts = {"requests": 0, "with_inbound_ids": 0, "sampled_by_unreachable_rate_sampler": 0, "resampled_inside": 0, "debug_records": 0, "log_entries": 0}

    def bad(self, check, desc, o, extra=None):
        self.ctx.violation("C20/mw/" + check, desc, {"request": o["id"], "observed": extra, "events": [e for e in o["events"] if e.get("ev", "").startswith("mw_")][:8]})

    def own(self, kind, ident, ex, o):
        k = (kind, ident)
        if self.owner.setdefault(k, ex) != ex:
            self.bad("id-shared/" + kind, "the %s %r was given to two requests (%s and %s)" % (kind, ident, self.owner[k][0], ex[0]), o, ident)

    def execution(self, o):
        self.nexec += 1
        ex = (o["id"], self.nexec)
        evs = o["events"]
        scn = self.scns[o["id"]]
        hdr = {k.lower(): v[0] for k, v in ((scn.get("raw") or {}).get("headers") or {}).items()}
        states = {e["at"]: e for e in evs if e.get("ev") == "mw_state"}
        self.counts["requests"] += 1
        if set(states) != {"outer", "inner"} or sum(1 for e in evs if e.get("ev") == "mw_state") != 2:
            self.bad("chain", "the middleware chain was not run once around request %s" % o["id"], o)
            return
        outer, inner = states["outer"], states["inner"]
        in_trace, in_parent, in_rid = hdr.get("traceid"), hdr.get("parentspanid"), hdr.get("x-request-id")
        if in_trace:
            self.counts["with_inbound_ids"] += 1
        # request id
        for st in (outer, inner):
            if in_rid:
                if st["rid"] != in_rid[:RID_LIMIT]:
                    self.bad("request-id", "request %s carries the request id %r, not the inbound one" % (o["id"], st["rid"]), o)
            elif not st["rid"] or st["rid"] != outer["rid"]:
                self.bad("request-id", "request %s has no stable request id of its own" % o["id"], o)
        if not in_rid:
            self.own("request id", outer["rid"], ex, o)
        # trace
        if in_trace:
            for st in (outer, inner):
                if st["trace"] != in_trace or st["parent"] != in_parent:
                    self.bad("trace", "request %s is traced as %r/%r, not under the inbound trace" % (o["id"], st["trace"], st["parent"]), o)
        else:
            if outer["trace"]:
                self.counts["sampled_by_unreachable_rate_sampler"] += 1
            else:
                self.bad("sampler-bound", "request %s was not sampled although the maximum sampling rate is out of reach (every request must be)" % o["id"], o)
            for st in (outer, inner):
                if st["parent"]:
                    self.bad("trace", "request %s has the parent span %r of some other request" % (o["id"], st["parent"]), o)
            if inner["trace"] != outer["trace"]:
                self.counts["resampled_inside"] += 1
            for tid in {outer["trace"], inner["trace"]} - {""}:
                self.own("trace id", tid, ex, o)
        for sp in {outer["span"], inner["span"]} - {""}:
            self.own("span id", sp, ex, o)
        if (outer["trace"] and not outer["span"]) or not inner["trace"] and outer["trace"]:
            self.bad("trace", "request %s lost its trace or span on the way in" % o["id"], o)
        # Debug and Log
        wreq = next((e for e in evs if e.get("ev") == "wire_req"), {})
        wresp = next((e for e in evs if e.get("ev") == "wire_resp"), {})
        gob = "gob" in json.dumps(wreq.get("headers", {}).get("Content-Type", "")) or "gob" in json.dumps(wresp.get("headers", {}).get("Content-Type", ""))
        per = self.per_scn.setdefault(o["id"], [0, 0, 0])
        per[0] += 1
        for e in evs:
            if e.get("ev") == "mw_debug":
                per[1] += 1
                self.counts["debug_records"] += 1
                ok = not e["mixed"] and e["rid"] == outer["rid"] and e["request"] == "%s %s" % (wreq.get("method"), wreq.get("uri"))
                if ok and not gob:
                    ok = e["reqBody"] == wreq.get("body", "") and e["respBody"] == wresp.get("body", "")
                if not ok:
                    self.bad("debug-record", "the Debug record filed under the request id of %s is not about this exchange" % o["id"], o, e)
            if e.get("ev") == "mw_log":
                per[2] += 1
                self.counts["log_entries"] += 1
                ok = e.get("id") == outer["rid"]
                if "req" in e:
                    ok = ok and e["req"] == "%s %s" % (wreq.get("method"), wreq.get("uri"))
                else:
                    ok = ok and e.get("status") == str(wresp.get("status")) and (gob or e.get("bytes") == str(len(wresp.get("body", "").encode())))
                if not ok:
                    self.bad("log-entry", "a log entry filed under the request id of %s is not about this exchange" % o["id"], o, e)

    def finish(self):
        # two executions of one scenario that carry the same inbound request id may file under either of them
        for sid, (n, nd, nl) in self.per_scn.items():
            if nd != n or nl != 2 * n:
                self.ctx.violation("C20/mw/records-count", "%d executions of request %s left %d Debug records and %d log entries (one and two per execution expected)" % (n, sid, nd, nl),
                                   {"request": sid})


def race_reports(prefix):
    n, tops = 0, []
    for f in glob.glob(prefix + "*"):
        txt = open(f, errors="replace").read()
        for block in txt.split("WARNING: DATA RACE")[1:]:
            n += 1
            # the first frame inside goa or generated code names the report (a race that never touches goa code,
            # e.g. inside the harness, is "unknown")
            top = None
            for m in re.finditer(r"\n  ([^\n]+)\(\)\n\s+(/[^\s:]+\.go):(\d+)", block):
                f = m.group(2)
                for root in REPO_ROOTS:
                    if f.startswith(root + "/"):
                        top = "%s@%s:%s" % (m.group(1).strip(), f[len(root) + 1:], m.group(3))
                        break
                if top or "/gen/" in f:
                    top = top or "%s@%s:%s" % (m.group(1).strip(), "gen/" + f.split("/gen/", 1)[1], m.group(3))
                    break
            if not top:
                # no frame in goa or in generated code: the harness (or the Go runtime) raced with itself - not a verdict
                m = re.search(r"\n  ([^\n]+)\(\)\n\s+(/[^\s:]+\.go):(\d+)", block)
                raise core.Infra("race report without a frame in goa or generated code (%s): %s" % (m.group(0).strip() if m else "?", block[:1500]))
            tops.append(top)
    return n, tops


def run_bin(ctx, binp, cwd, args, tag, env=None):
    prefix = os.path.join(cwd, "race-" + tag)
    env = dict(ctx.goenv(), GORACE="log_path=%s exitcode=0 halt_on_error=0" % prefix, **(env or {}))
    p = subprocess.run([binp] + args, cwd=cwd, env=env, stdout=subprocess.PIPE, stderr=subprocess.PIPE, text=True, timeout=1500, errors="replace")
    if p.returncode != 0:
        raise core.Infra("runner failed (%d): %s" % (p.returncode, p.stderr[-3000:]))
    return race_reports(prefix)


def report_races(ctx, tops, n, phase, what):
    for t in sorted(set(tops)):
        ctx.violation("C20/race/" + t.split("@")[-1], "data race reported by the race detector %s (%d reports in total)" % (what, n), {"top_frame": t, "phase": phase})


MC_CFG = """SPECIFICATION Spec
CONSTANTS
  K = 2
  Deviations = {}
  KindSet = {"ok", "invalid", "declared", "undeclared", "plain"}
  CodecSet = {"json", "text"}
  BodySet = {"object", "bytes"}
  SerialSet = {TRUE, FALSE}
INVARIANTS %s
CHECK_DEADLOCK FALSE
"""


def run(ctx):
    quick = ctx.quick()
    REPO_ROOTS.append(ctx.repo)
    rnd = random.Random(ctx.seed)
    ctx.cov["rule"] = ("cases = schedules (order in which K gated request goroutines pass decode/invoke/encode, free or serial) x requests (kind x content type "
                       "class x body kind) enumerated by TLC from Concurrency.tla, replayed under the race detector, plus load batches and the codec matrix of "
                       "the runtime helpers; non-trivial = a schedule with at least one preemption between two requests' steps; distinct = canonical JSON of "
                       "(kinds, codecs, bodies, serial, order)")
    ctx.assumptions += ["absence of data races is judged by the Go race detector on the executed schedules (external oracle)",
                        "gates exist only where the caller injects code (decoder/encoder factories, stub service, Auther): finer interleavings are left to the Go scheduler under load",
                        "gob replies read by raw clients are compared by the values they carry, not byte for byte: encoding/gob numbers and names wire types from a registry of the whole process",
                        "the reply a request gets when it is served alone is F(payload) of the echo statement; in the serial mode the runner has one P, so that per-P caches are shared by consecutive regions"]
    ctx.mc("mc/MC_Concurrency", consts={"K": 2}, label="MC K=2")
    if not quick:
        big = (MC_CFG % "NoConflict Echo").replace("CHECK_DEADLOCK", "VIEW NoHist\nCHECK_DEADLOCK")
        ctx.mc("mc/MC_Concurrency", cfg_text=big, consts={"K": 3}, label="MC K=3 (safety, states without the schedule)", timeout=1500)
        ctx.mc("mc/MC_Concurrency", cfg_text=big, consts={"KindSet": '{"ok", "invalid"}', "CodecSet": '{"json", "xml", "gob", "text", "unsup"}', "BodySet": '{"object", "string", "bytes", "list"}'},
               label="MC K=2 all codecs", timeout=1500)
    # vacuity: each named deviation is caught by the invariant that speaks about it
    for dev, inv, serial in (("errorencoder.formatter_assigned_per_request", "NoConflict", "{FALSE}"), ("handler.shared_error_var", "Echo", "{TRUE, FALSE}"),
                             ("decoder.pooled_buffer_aliased", "Echo", "{TRUE}"), ("decoder.pooled_buffer_aliased", "NoConflict", "{FALSE}")):
        ctx.mc_expect_violation("mc/MC_Concurrency", cfg_text=MC_CFG % inv, consts={"Deviations": '{"%s"}' % dev, "SerialSet": serial},
                                label="MC dev %s %s" % (dev.split(".")[0], inv))
    ctx.mc_expect_violation("mc/MC_Concurrency", cfg_text=MC_CFG % "NoConflict", consts={"Deviations": '{"sampler.adjust_unlocked"}'}, label="MC dev sampler NoConflict")
    # the adaptive sampler in detail: its rate adjustment is a critical section although the counter is reset before it
    for size in ((2,) if quick else (1, 2, 4)):
        ctx.mc("mc/MC_Sampler", consts={"SampleSize": size}, label="MC Sampler size=%d" % size)
        ctx.mc_expect_violation("mc/MC_Sampler", consts={"SampleSize": size, "Deviations": '{"sampler.adjust_unlocked"}'}, label="MC dev Sampler size=%d" % size)
    if not quick:
        ctx.mc("mc/MC_Sampler", consts={"SampleSize": 4, "N": 4, "Calls": 3}, label="MC Sampler size=4 N=4", timeout=1500)
    vectors = ctx.gen("mc/MC_Concurrency", "gen/Gen_Concurrency.cfg", consts={"K": 2}, workers=1, label="Gen K=2").vectors
    cvec = ctx.gen("mc/MC_Concurrency", "gen/Gen_Concurrency_Codec.cfg", workers=1, label="Gen K=2 codecs", timeout=1500).vectors
    for v in vectors:
        v["fam"] = "kinds"      # the handler kinds family: ok / invalid / declared / undeclared / plain on one JSON method
    for v in cvec:
        v["fam"] = "codec"      # the codec family: content type class x body kind, echo methods
    if quick:
        # always: every pair of requests with one of them held at each of its gates while the other is served from
        # start to finish (serial); a seeded sample of everything else (both modes)
        hold = [v for v in cvec if v["serial"] and is_hold(v["order"])]
        rest = [v for v in cvec if not (v["serial"] and is_hold(v["order"]))]
        rnd.shuffle(rest)
        vectors += hold + rest[:500]
    else:
        vectors += cvec
        v3 = ctx.gen("mc/MC_Concurrency", "gen/Gen_Concurrency.cfg", consts={"K": 3}, workers=1, label="Gen K=3", timeout=1500).vectors
        for v in v3:
            v["fam"] = "kinds"
        rnd.shuffle(v3)
        vectors += v3[:4000]
        c3 = ctx.gen("mc/MC_Concurrency", "gen/Gen_Concurrency_Codec.cfg", consts={"K": 3, "CodecSet": '{"json", "text"}', "BodySet": '{"string", "bytes"}', "SerialSet": "{TRUE}"},
                     workers=1, label="Gen K=3 codecs", timeout=1500).vectors
        for v in c3:
            v["fam"] = "codec"
        rnd.shuffle(c3)
        vectors += c3[:3000]
    # real code
    d = design()
    pl = hg.Pipeline(ctx, "gen-conc")
    pl.prepare([d])
    if pl.failed or pl.bad_methods:
        raise core.Infra("the concurrency design does not generate/compile: %s %s" % (pl.failed, pl.bad_methods))
    bins = pl.build_runners([d], race=True)
    if 0 not in bins:
        raise core.Infra("race build failed: %s" % pl.failed)
    binp, cwd = bins[0], os.path.join(pl.root, "d0")
    cb = ctx.gobuild("drivers/conc", race=True)
    # schedules -> scenarios
    cx = Codec()
    scns = {s["id"]: s for s in scenarios()}
    scheds = []
    pos_size = {1: 700, 2: 90, 3: 1500}
    for n, v in enumerate(vectors):
        kinds, procs = v["kinds"], []
        for i, k in enumerate(kinds):
            codec, body = v["codecs"][i], v["bodies"][i]
            if v["fam"] == "kinds":
                procs.append("%s#%d" % (k, i + 1))     # the handler kinds family: generated client, validated object payload
                continue
            ctv, method, accept = pick_variant(rnd, codec, body)
            size = pos_size[i + 1] + rnd.choice(SIZES[:8])
            sid = "c.%s.%s.%s.%d#%d" % (ctv[0], method, CX_ACCEPTS.index(accept), size, i + 1)
            cx.make(sid, ctv, method, accept, size, "~p%dv%d~" % (i + 1, len(cx.scns)))
            procs.append(sid)
        scheds.append({"id": "s%d" % n, "procs": procs, "order": v["order"], "serial": bool(v["serial"])})
    cx.encode_gob(ctx, cb, cwd)
    scns.update(cx.scns)
    open(os.path.join(cwd, "scn.ndjson"), "w").write("".join(json.dumps(s) + "\n" for s in scns.values()))
    # 1. sequential baseline: every request served alone
    run_bin(ctx, binp, cwd, ["-mwlookup", "-mwstate", "-in", "scn.ndjson", "-out", "base.ndjson"], "base")
    base, base_ev = {}, {}
    for l in open(os.path.join(cwd, "base.ndjson")):
        o = json.loads(l)
        base[o["id"]] = signature(o["events"])
        base_ev[o["id"]] = o["events"]
    # the requests must be what the specification takes them for (a decode failure exactly where it says so): this is
    # about the scenarios, not about goa
    for sid, m in cx.meta.items():
        invoked = any(e.get("ev") == "invoke" for e in base_ev[sid])
        fails = m["class"] == "unsup" or (m["class"] == "text" and m["body"] in ("object", "list"))
        if invoked == fails:
            raise core.Infra("codec scenario %s (%s) is %sinvoked when served alone: the request classes of Concurrency.tla do not describe it" % (sid, m, "" if invoked else "not "))
        if invoked and m["marker"] not in flat([e for e in base_ev[sid] if e.get("ev") == "invoke"]):
            raise core.Infra("codec scenario %s: the payload delivered alone does not carry the marker of the request" % sid)
    # 2. schedule replay: free schedules on all Ps, serial schedules on one P
    free = [s for s in scheds if not s["serial"]]
    ser = [s for s in scheds if s["serial"]]
    open(os.path.join(cwd, "sched-free.ndjson"), "w").write("".join(json.dumps(s) + "\n" for s in free))
    open(os.path.join(cwd, "sched-serial.ndjson"), "w").write("".join(json.dumps(s) + "\n" for s in ser))
    nrace, tops = run_bin(ctx, binp, cwd, ["-mwlookup", "-mwstate", "-in", "scn.ndjson", "-out", "sched-free-out.ndjson", "-schedules", "sched-free.ndjson"], "sched")
    nr2, tops_s = run_bin(ctx, binp, cwd, ["-mwlookup", "-mwstate", "-in", "scn.ndjson", "-out", "sched-serial-out.ndjson", "-schedules", "sched-serial.ndjson"], "sched-serial",
                          env={"GOMAXPROCS": "1"})
    nrace, tops = nrace + nr2, tops + tops_s
    ctx.log("replayed %d free and %d serial schedules under -race: %d race report(s)" % (len(free), len(ser), nrace))
    trace, nontrivial, echo_bad, mism = [], set(), 0, 0
    byid = {s["id"]: s for s in scheds}
    cells = {}
    outs = [json.loads(l) for f in ("sched-free-out.ndjson", "sched-serial-out.ndjson") for l in open(os.path.join(cwd, f))]
    if len(outs) != len(scheds):
        raise core.Infra("%d schedules replayed, %d expected" % (len(outs), len(scheds)))
    for o in outs:
        s = byid[o["schedule"]]
        v = vectors[int(o["schedule"][1:])]
        ctx.cov["evaluations"] += 1
        order = v["order"]
        if o.get("stuck"):
            raise core.Infra("schedule %s: %s (a request goroutine did not show up within the controller's patience: machinery, not a verdict)" % (s, o["stuck"]))
        if any("never reached" in m for m in o["mismatch"]):
            raise core.Infra("schedule %s: %s (timeout: machinery, not a verdict)" % (s, o["mismatch"]))
        if any(order[i][0] != order[i + 1][0] for i in range(len(order) - 1)):
            nontrivial.add(core.canon([v["kinds"], v["codecs"], v["bodies"], v["serial"], order]))
        seen, frm = [], []
        markers = [(i + 1, (cx.meta.get(pid) or {}).get("marker")) for i, pid in enumerate(s["procs"])]
        for i, pr in enumerate(o["procs"]):
            own, others = i + 1, [m for m in markers if m[0] != i + 1]
            bev = base_ev[pr["id"]]
            if any(e.get("ev") == "invoke" for e in bev) or any(e.get("ev") == "invoke" for e in pr["events"]):
                seen.append(whose(pr["events"], ("invoke",), own, others, signature(bev, ("invoke",))))
            else:
                seen.append(0)
            rest = tuple(e for e in SIG_EVENTS if e != "invoke")
            frm.append(whose(pr["events"], rest, own, others, signature(bev, rest)))
            m = cx.meta.get(pr["id"])
            cell = "%s/%s" % (m["ct"], m["body"]) if m else "gen/object"
            cells[cell] = cells.get(cell, 0) + 1
            if seen[-1] not in (0, own) or frm[-1] != own:
                echo_bad += 1
                what = "the payload delivered to its handler" if seen[-1] not in (0, own) else "the reply"
                src = seen[-1] if seen[-1] not in (0, own) else frm[-1]
                ctx.violation("C20/echo/" + (("%s/%s" % (m["class"], m["body"])) if m else pr["id"].split("#")[0]),
                              "%s of request %s under the %s schedule %s is not the one the same request gets when served alone: %s"
                              % (what, pr["id"], "serial" if s["serial"] else "free", s["order"],
                                 "it carries the payload of request %s" % s["procs"][src - 1] if src > 0 else "it belongs to no request of the schedule"),
                              {"schedule": s, "request": scns[pr["id"]] if len(json.dumps(scns[pr["id"]])) < 4000 else pr["id"], "events": pr["events"][:12], "alone": base_ev[pr["id"]][:12], "kinds": v["kinds"]})
        if o["mismatch"]:
            mism += 1
            ctx.violation("C20/schedule-not-followed", "the real handler did not reach the gates in the order the model allows: %s" % o["mismatch"][:3], {"schedule": s, "mismatch": o["mismatch"]})
        trace.append({"ev": "sched", "kinds": v["kinds"], "codecs": v["codecs"], "bodies": v["bodies"], "serial": bool(v["serial"])})
        for p, g in order:
            trace.append({"ev": "pass", "p": p, "gate": g})
        trace.append({"ev": "end", "races": 0, "seen": seen, "from": frm})
    report_races(ctx, tops, nrace, "schedule replay", "during schedule replay")
    # races are per run, not per schedule: the trace carries them on the last schedule
    if trace:
        trace[-1]["races"] = nrace
    tp = os.path.join(ctx.subdir("trace"), "trace.ndjson")
    open(tp, "w").write("".join(json.dumps(t) + "\n" for t in trace))
    ok, hwm, r = ctx.trace_validate("trace/Trace_Concurrency", "trace/Trace_Concurrency.cfg", tp, timeout=1500)
    ctx.cov["traces_validated_against_impl"] += len(scheds)
    if not ok and not ctx.violations:
        bad = trace[hwm - 1] if hwm else None
        ctx.violation("C20/trace-rejected", "Trace_Concurrency rejected line %s: %s" % (hwm, bad), {"line": bad})
    if ok and (echo_bad or nrace):
        raise core.Infra("Trace_Concurrency accepted a trace with %d foreign payloads/replies and %d race reports" % (echo_bad, nrace))
    ctx.sample({"schedule": scheds[len(scheds) // 2], "kinds": vectors[len(scheds) // 2]["kinds"]})
    ctx.sample({"schedule": ser[len(ser) // 2]})
    # 3. load: the handler kinds family and a stream of codec requests, every one with a payload of its own
    lx = Codec()
    nreq = 1200 if quick else 8000
    variants = [(ctv, m, a) for c in CT_VARIANTS for ctv in CT_VARIANTS[c] for b in CX_METHODS for m in CX_METHODS[b] for a in CX_ACCEPTS]
    rnd.shuffle(variants)
    for i in range(nreq):
        ctv, m, a = variants[i % len(variants)]
        size = rnd.choice(BIG_SIZES) if i % 97 == 96 else rnd.choice(SIZES)
        lx.make("L%d" % i, ctv, m, a, size, "~L%d~" % i, inbound=(i % 3 == 0))
    lx.encode_gob(ctx, cb, cwd)
    lscn = scenarios() + list(lx.scns.values())
    rnd.shuffle(lscn)
    open(os.path.join(cwd, "load-scn.ndjson"), "w").write("".join(json.dumps(s) + "\n" for s in lscn))
    run_bin(ctx, binp, cwd, ["-mwlookup", "-mwstate", "-in", "load-scn.ndjson", "-out", "load-base.ndjson"], "load-base")
    lbase = {}
    for l in open(os.path.join(cwd, "load-base.ndjson")):
        o = json.loads(l)
        lbase[o["id"]] = signature(o["events"])
    par, rounds = (32, 2) if quick else (64, 6)
    nrace2, tops2 = run_bin(ctx, binp, cwd, ["-mwlookup", "-mwstate", "-in", "load-scn.ndjson", "-out", "load.ndjson", "-parallel", str(par), "-rounds", str(rounds)], "load")
    nload, lcells = 0, {}
    mw = MwJudge(ctx, {s_["id"]: s_ for s_ in lscn})
    for l in open(os.path.join(cwd, "load.ndjson")):
        o = json.loads(l)
        nload += 1
        mw.execution(o)
        m = lx.meta.get(o["id"])
        cell = "%s/%s" % (m["ct"], m["body"]) if m else "gen/object"
        lcells[cell] = lcells.get(cell, 0) + 1
        if signature(o["events"]) != lbase[o["id"]]:
            ctx.violation("C20/echo-under-load/" + (("%s/%s" % (m["class"], m["body"])) if m else o["id"].split("#")[0]),
                          "what request %s gets under load (%d goroutines) differs from what it gets when served alone" % (o["id"], par),
                          {"request": m or o["id"], "events": o["events"][:12]})
    if nload != len(lscn) * rounds:
        raise core.Infra("load: %d of %d requests came back" % (nload, len(lscn) * rounds))
    ctx.cov["evaluations"] += nload
    ctx.log("load: %d requests (%d distinct, %d content type x body cells) from %d goroutines: %d race report(s)" % (nload, len(lscn), len(lcells), par, nrace2))
    report_races(ctx, tops2, nrace2, "load", "under load")
    mw.finish()
    ctx.cov["middlewares_under_load"] = mw.counts
    # 4. runtime helpers used directly (codec matrix included)
    dd = ctx.subdir("conc")
    prefix = os.path.join(dd, "race-conc")
    env = dict(ctx.goenv(), GORACE="log_path=%s exitcode=0 halt_on_error=0" % prefix)
    p = subprocess.run([cb, "-out", os.path.join(dd, "out.ndjson"), "-seed", str(ctx.seed), "-goroutines", "16" if quick else "64", "-iters", "150" if quick else "1500",
                        "-codec", "150" if quick else "1200", "-mw", "60" if quick else "600"],
                       cwd=dd, env=env, stdout=subprocess.PIPE, stderr=subprocess.PIPE, text=True, timeout=1500)
    if p.returncode != 0:
        raise core.Infra("conc driver failed: %s" % p.stderr[-2000:])
    nrace3, tops3 = race_reports(prefix)
    hcells = {}
    for l in open(os.path.join(dd, "out.ndjson")):
        o = json.loads(l)
        ctx.cov["evaluations"] += o["ops"]
        if o["area"].startswith("codec/"):
            hcells[o["area"][6:]] = o["ops"]
            if not o["ops"]:
                raise core.Infra("codec matrix: cell %s was never exercised" % o["area"])
        if o["echo_failures"]:
            ctx.violation("C20/helpers/echo/" + o["area"], "%d of %d concurrent calls got an answer not computed from their own input" % (o["echo_failures"], o["ops"]), o)
        if not o["area"].startswith("codec/") or o["area"] in ("codec/text-plain/bytes", "codec/gob/object"):
            ctx.sample(o, limit=12)
    report_races(ctx, tops3, nrace3, "helpers", "in direct concurrent use of the runtime helpers")
    ctx.cov["codec_matrix"] = {"rule": "requests per request content type x body kind (each cell with every response negotiation: Accept json/xml/gob/text/parameterised/none and designed +json/+xml/text types)",
                               "schedules": cells, "load": lcells, "helpers": hcells}
    # 5. goa.SkipResponseWriter (adapter shared by the handler goroutine and a writer goroutine)
    ctx.mc("mc/MC_SkipWriter", label="MC SkipWriter (safety + NoLeak)")
    ctx.mc_expect_violation("mc/MC_SkipWriter", consts={"Deviations": '{"skipwriter.writer_never_unblocked"}'}, label="MC dev SkipWriter")
    sb = ctx.gobuild("drivers/skipwriter", race=True)
    sd = ctx.subdir("skipwriter")
    sprefix = os.path.join(sd, "race-skw")
    env = dict(ctx.goenv(), GORACE="log_path=%s exitcode=0 halt_on_error=0" % sprefix)
    tp2 = os.path.join(sd, "trace.ndjson")
    p = subprocess.run([sb, "-out", tp2, "-seed", str(ctx.seed), "-random", "300" if quick else "3000"], cwd=sd, env=env,
                       stdout=subprocess.PIPE, stderr=subprocess.PIPE, text=True, timeout=900)
    if p.returncode != 0:
        raise core.Infra("skipwriter driver failed: %s" % p.stderr[-2000:])
    nrace4, tops4 = race_reports(sprefix)
    ok, hwm, r = ctx.trace_validate("trace/Trace_SkipWriter", "trace/Trace_SkipWriter.cfg", tp2, label="trace-skipwriter")
    lines2 = [json.loads(l) for l in open(tp2)]
    nsc = sum(1 for l in lines2 if l["ev"] == "reset")
    ctx.cov["traces_validated_against_impl"] += nsc
    ctx.cov["evaluations"] += nsc
    if not ok:
        bad = lines2[hwm - 1] if hwm else None
        ctx.violation("C20/skipwriter/trace-rejected/%s" % (bad or {}).get("ev"), "Trace_SkipWriter rejected line %s: %s" % (hwm, bad),
                      {"line": bad, "context": lines2[max(0, (hwm or 1) - 8):(hwm or 1)]})
    report_races(ctx, tops4, nrace4, "skipwriter", "in SkipResponseWriter use")
    ctx.cov["race_reports"] = {"schedules": nrace, "load": nrace2, "helpers": nrace3, "skipwriter": nrace4}
    ctx.cov["distinct_nontrivial"] = len(nontrivial)
    if ctx.selftest or not quick:
        selftest(ctx, trace)


def selftest(ctx, trace):
    """a trace claiming one race report, or a reply computed from the other request, must be rejected"""
    ls = [dict(t) for t in trace[:40]]
    end = next(i for i, t in enumerate(ls) if t["ev"] == "end")
    ls = ls[:end + 1]
    for what in ("races", "from", "seen"):
        cs = [dict(t) for t in ls]
        if what == "races":
            cs[end]["races"] = 1
        else:
            cs[end][what] = [2] + list(cs[end][what][1:])
        d = ctx.subdir("selftest-" + what)
        p = os.path.join(d, "trace.ndjson")
        open(p, "w").write("".join(json.dumps(t) + "\n" for t in cs))
        ok, hwm, _ = ctx.trace_validate("trace/Trace_Concurrency", "trace/Trace_Concurrency.cfg", p, label="selftest-" + what)
        res = {"corrupted": what, "corrupted_line": end + 1, "rejected_at": hwm, "ok": (not ok and hwm == end + 1)}
        ctx.cov.setdefault("trace_selftests", []).append(res)
        if not res["ok"]:
            raise core.Infra("trace self-test failed: %s" % res)


def replay(ctx, rp):
    print(json.dumps(rp["case"], indent=1)[:3000])
    return 0
