"""C07 - OpenAPI documents are valid and list exactly the server's operations.
(M) OpenAPIOps.tla model-checked per design family (paths, verbs, params, resps, sec, files); every named
deviation must break an invariant.  (G) every design TLC enumerates is packed into goa designs, generated
by the REAL goa, compiled, mounted behind a recording muxer and probed with plain HTTP requests; the four
emitted documents are read by the openapi driver (kin-openapi + structural rules + JSON/YAML equality); the
observed tables are compared with what TLC computes for the same design.  (J) larger random designs drawn by
TLC in simulation mode go the same way; all recorded tables are validated by TLC as traces of the spec."""
import json, os, random
from vlib import core, openapi_check as oc, openapi_gen as og

LEVEL = "model_checking"


def classify(item, obs, pred):
    """Finding key from the failing item only (table, kind of difference, feature)."""
    tb, k, f = item
    if tb == "verdicts":
        return "C07/verdict/%s" % k
    if tb == "mounts":
        return "C07/mounts/%s/%s" % ("unexpected" if obs else "missing", k[0])
    feat = k[0]
    segs = [kind for kind, _ in k[1]]
    if "wild" in segs:
        feat += "/wildcard"
    if f == "present":
        return "C07/%s/%s/%s" % (tb, "unexpected-op" if obs else "missing-op", feat)
    if f == "params" and obs is not None and pred is not None:
        extra, miss = obs - pred, pred - obs
        what = sorted({"+%s.%s" % (p[1], "req" if p[2] else "opt") for p in extra} | {"-%s.%s" % (p[1], "req" if p[2] else "opt") for p in miss})
        return "C07/%s/params/%s" % (tb, ",".join(what))
    return "C07/%s/%s" % (tb, f)


def judge(ctx, designs, evals, res, known, nontrivial, tag):
    """Compare every usable design's observed tables with the mechanism's under the recorded findings; attribute
    every difference with the oracle to a named deviation when one explains it."""
    K = frozenset(known)
    for i, d in enumerate(designs):
        if i in res.unusable:
            ctx.notes.append("%s design %d not usable: %s" % (tag, i, str(res.unusable[i])[:300]))
            continue
        obs = oc.observed_tables(res, i)
        ideal = oc.predicted_tables(evals[(d["id"], frozenset())])
        predK = oc.predicted_tables(evals[(d["id"], K)])
        nops = len(obs["srvOps"]) + len(obs["doc3"]) + len(obs["doc2"])
        ctx.cov["evaluations"] += nops + len(obs["mounts"]) + len(obs["verdicts"])
        for s in d["svcs"]:
            for m in s["meths"]:
                nontrivial.add(core.canon([d["apiPath"], d["apiSec"], [x for x in s["path"] if x["k"] != "lit"], s["sec"], s["errs"], len(s["files"]),
                                           {k: m[k] for k in m if k not in ("name", "routes")}, [[r["verb"], [x["k"] for x in r["path"]]] for r in m["routes"]]]))
            for f in s["files"]:
                nontrivial.add(core.canon([d["apiPath"], d["apiSec"], len(s["path"]), "file", f["dir"]]))
        for rid, what, detail in res.anomalies.get(i, []):
            ctx.violation("C07/server/%s" % what.split(":")[0], "design %s route %s: %s %s" % (d["id"], rid, what, detail or ""),
                          {"design": d, "probe": rid, "what": what})
        diffs = oc.diff_tables(obs, ideal)
        if len(ctx.cov["samples"]) < 4:
            ctx.sample({"design": d["id"], "ops": len(obs["srvOps"]), "doc3": len(obs["doc3"]), "doc2": len(obs["doc2"]), "verdicts": obs["verdicts"]})
        # one further deviation that accounts for the whole design (the usual case when a single defect is present)
        whole = None
        if diffs and oc.diff_tables(obs, predK):
            whole = next((dv for dv in oc.DEVIATIONS if dv not in K and not oc.diff_tables(obs, oc.predicted_tables(evals[(d["id"], K | {dv})]))), None)
        for tb, k, f, o, p in diffs:
            item = (tb, k, f)
            keys = []
            if oc.item_of(predK, item) == o:
                # explained by the recorded findings: name every one that matters for this item
                keys = [dv for dv in sorted(K) if oc.item_of(oc.predicted_tables(evals[(d["id"], K - {dv})]), item) != o]
                if not keys:      # several recorded findings each suffice
                    keys = [dv for dv in sorted(K) if oc.item_of(oc.predicted_tables(evals[(d["id"], frozenset([dv]))]), item) == o][:1] or sorted(K)[:1]
            elif whole:
                keys = [whole]
            else:
                for dv in oc.DEVIATIONS:
                    if dv not in K and oc.item_of(oc.predicted_tables(evals[(d["id"], K | {dv})]), item) == o:
                        keys = [dv]
                        break
                if not keys:
                    for a, b in oc.INTERACT:
                        if oc.item_of(oc.predicted_tables(evals[(d["id"], K | {a, b})]), item) == o:
                            keys = [x for x in (a, b) if x not in K][:1]
                            break
                if not keys:
                    for dv in oc.DEVIATIONS:
                        if oc.item_of(oc.predicted_tables(evals[(d["id"], frozenset([dv]))]), item) == o:
                            keys = [dv]
                            break
            show = og.show_key(k) if tb != "verdicts" else k
            desc = "%s design %s, table %s, %s, %s: observed %s, design says %s" % (tag, d["id"], tb, show, f, fmt(o), fmt(p))
            for key in keys or [None]:
                ctx.violation(key or classify(item, o, p), ("[named deviation] " if key else "") + desc,
                              {"design": d, "table": tb, "item": show, "field": f, "observed": fmt(o), "expected": fmt(p)})


def extra_known(ctx):
    """Testing aid: VERIF_KNOWN_EXTRA names a file in the known_findings.txt format whose `known:` lines for this
    property are honoured in addition (to try proposed lines before they are recorded)."""
    p = os.environ.get("VERIF_KNOWN_EXTRA")
    if p and os.path.exists(p):
        import re
        for line in open(p):
            m = re.match(r"known:\s+property=(\S+)\s+key=(\S+)\s*(.*)$", line.strip())
            if m and m.group(1) == ctx.prop:
                ctx.known[m.group(2)] = m.group(3)


def fmt(x):
    if isinstance(x, (set, frozenset)):
        return sorted(map(fmt, x), key=str)
    if isinstance(x, tuple):
        return [fmt(y) for y in x]
    return x


def devsets(known):
    K = frozenset(known)
    sets = {frozenset(), K}
    for d in oc.DEVIATIONS:
        sets.add(frozenset([d]))
        sets.add(K - {d} if d in K else K | {d})
    for a, b in oc.INTERACT:
        sets.add(K | {a, b})
    return sorted(sets, key=lambda s: (len(s), sorted(s)))


def run(ctx):
    quick = ctx.quick()
    ctx.cov["rule"] = ("cases = designs enumerated by TLC from OpenAPIOps.tla (families paths, verbs, params, resps, sec, files; plus random multi-service "
                       "designs drawn in simulation mode), generated by goa, mounted and probed; evaluations = table entries compared (mounts, probed routes, "
                       "documented operations of both versions, validity / rendering verdicts); non-trivial = every method or file-server shape (distinct "
                       "canonical JSON of the shape without names)")
    ctx.assumptions += ["statuses the server produces = statuses of the service outcomes (results and declared errors); 400/401 answers to invalid requests are outside C07",
                        "OpenAPI 3.0.x cannot express CONNECT, 2.0 neither TRACE nor cookie parameters, bearer schemes or scopes outside oauth2: compared modulo these",
                        "an Authorization header is described by the security scheme and not compared as a parameter",
                        "file-server operations are compared through the documented folding (directory = two mounted patterns = one operation)"]
    extra_known(ctx)
    known = [d for d in oc.DEVIATIONS if d in ctx.known]
    # (M) + vacuity guard + (G) enumeration.  The Gen configurations check the invariants of the MC configuration while they
    # emit the designs, so the quick tier does not run the families twice.
    witness = {"schema.exclusive_bound_numeric": "params", "v3.trace_route_dropped": "verbs", "v3.nosecurity_inherits_api_security": "sec",
               "v3.fileserver_documents_api_security": "files", "v3.api_security_scheme_undefined": "sec", "v3.fileserver_wildcard_kept": "files",
               "v3.fileserver_param_without_schema": "files", "v3.allow_empty_value_not_query": "params", "yaml.leading_newline_dropped": "sec",
               "decode.required_cookie_drops_param_errors": "params", "schema.required_with_default_not_required": "params"}
    import concurrent.futures as cf
    with cf.ThreadPoolExecutor(max_workers=6) as ex:
        gens = [ex.submit(oc.enumerate_designs, ctx, fam, 1, 1, None, None, 3) for fam in oc.FAMILIES]
        gs = [ex.submit(ctx.mc_expect_violation, "mc/MC_OpenAPIOps", consts={"OFamily": '"%s"' % witness[d], "Deviations": '{"%s"}' % d}, workers=2,
                        label="MC dev " + d) for d in oc.DEVIATIONS]
        if not quick:
            for fam in oc.FAMILIES:
                gs.append(ex.submit(ctx.mc, "mc/MC_OpenAPIOps", consts={"OFamily": '"%s"' % fam}, label="MC " + fam, workers=3))
            # larger bounds: two services / two methods per service where the levels interact
            for fam, nsvc, nmeth in (("params", 1, 2), ("sec", 2, 1), ("sec", 1, 2), ("paths", 2, 2), ("files", 2, 1), ("resps", 1, 2), ("verbs", 1, 2)):
                gs.append(ex.submit(ctx.mc, "mc/MC_OpenAPIOps", consts={"OFamily": '"%s"' % fam, "NSvc": nsvc, "NMeth": nmeth},
                                    label="MC %s %dx%d" % (fam, nsvc, nmeth), timeout=1500, workers=4))
        for g in gs:
            g.result()
        small = []
        for g in gens:
            small += g.result()
    frac = float(os.environ.get("VERIF_FRAC") or (0.35 if quick else 1.0))
    if frac < 1.0:
        rnd = random.Random(ctx.seed)
        small = [d for d in small if rnd.random() < frac]
    designs = og.pack(small)
    # (J) random larger designs
    nrand = 6 if quick else 120
    rand = []
    for nsvc, nmeth in ((2, 2), (3, 1), (1, 3)):
        rand += oc.enumerate_designs(ctx, "mix", nsvc, nmeth, simulate=nrand // 3, depth=60)
    designs += rand
    for i, d in enumerate(designs):
        d["id"] = "d%d" % i
        d["devs"] = []
    ctx.log("%d enumerated designs packed into %d, %d random designs" % (len(small), len(designs) - len(rand), len(rand)))
    evals = oc.evaluate(ctx, designs, devsets(known))
    effs = [oc.eff_map(d, evals[(d["id"], frozenset())]) for d in designs]
    res = oc.run_designs(ctx, designs, effs)
    nontrivial = set()
    judge(ctx, designs, evals, res, known, nontrivial, "")
    ctx.cov["distinct_nontrivial"] = len(nontrivial)
    ctx.cov["designs"] = len(designs)
    ctx.cov["designs_unusable"] = len(res.unusable)
    # trace validation of every recorded table
    cases = [(d["id"], oc.trace_lines(d, res, i)) for i, d in enumerate(designs) if i not in res.unusable]
    rejected = oc.validate_traces(ctx, cases, known)
    ctx.cov["traces_validated_against_impl"] += sum(len(l) for _, l in cases)
    flagged = {v[2]["design"]["id"] for v in []}
    for cid, n, line in rejected:
        ctx.cov.setdefault("trace_rejections", []).append({"case": cid, "line": n, "ev": line.get("ev")})
        ctx.violation("C07/trace/%s" % line.get("ev"), "trace of design %s rejected by Trace_OpenAPIOps at its line %d (%s)" % (cid, n, json.dumps(line)[:300]),
                      {"design": [d for d in designs if d["id"] == cid][0], "line": line})
    if ctx.selftest or not quick:
        selftest(ctx, cases, known)


def selftest(ctx, cases, known):
    """Binding: corrupt one recorded field of an accepted trace -> TLC must stop exactly there."""
    good = [c for c in cases][:3]
    if not good:
        return
    lines = [json.loads(json.dumps(l)) for _, ls in good for l in ls]
    target = next((n for n, l in enumerate(lines) if l["ev"] == "docop" and l["version"] == 3 and n > len(lines) // 3), None)
    if target is None:
        return
    lines[target]["statuses"] = lines[target]["statuses"] + [299]
    d = ctx.subdir("selftest")
    p = os.path.join(d, "trace.ndjson")
    open(p, "w").write("".join(json.dumps(l) + "\n" for l in lines))
    ok, hwm, _ = ctx.trace_validate("trace/Trace_OpenAPIOps", "trace/Trace_OpenAPIOps.cfg", p, consts={"Deviations": oc.tla_set(known)}, label="selftest")
    r = {"corrupted_line": target + 1, "rejected_at": hwm, "ok": (not ok and hwm == target + 1)}
    ctx.cov.setdefault("trace_selftests", []).append(r)
    if not r["ok"]:
        raise core.Infra("trace self-test failed: corrupted line %d, TLC stopped at %s" % (target + 1, hwm))


def replay(ctx, rp):
    case = rp["case"]
    d = case["design"]
    d["id"], d["devs"] = "d0", []
    extra_known(ctx)
    known = [x for x in oc.DEVIATIONS if x in ctx.known]
    evals = oc.evaluate(ctx, [d], devsets(known))
    res = oc.run_designs(ctx, [d], [oc.eff_map(d, evals[("d0", frozenset())])])
    if 0 in res.unusable:
        print("design not usable:", res.unusable[0])
        return 2
    obs = oc.observed_tables(res, 0)
    diffs = oc.diff_tables(obs, oc.predicted_tables(evals[("d0", frozenset())]))
    for tb, k, f, o, p in diffs:
        print("table %s, %s, %s: observed %s, design says %s" % (tb, og.show_key(k) if tb != "verdicts" else k, f, fmt(o), fmt(p)))
    if diffs:
        print("VIOLATION property=C07 replay=(replayed)")
        return 1
    return 0
