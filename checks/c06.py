"""C06 - secured methods run only after a security requirement is satisfied.
(M) Security.tla model-checked exhaustively: space "flow" (requirement lists at API/service/method level, NoSecurity, every
callback verdict vector) and space "cred" (how the credentials travel: per scheme the location - implicit / explicit
Authorization header, a header of its own, query string -, the form handed over - bare, "Bearer tok", "bearer tok",
another scheme word, two spaces, empty, absent; basic: lower-case scheme word, other scheme, malformed, absent -, the
sender - generated client or raw request -, required / optional credential attributes).
(G) every case is run through the real generated server (request sent by the generated client or written by hand) with a
recording Auther whose verdicts come from the vector; observed wire credentials, callback arguments, scopes and the invoke
flag are judged against the oracle terms TLC printed with the vector (Reading, MustRefuse, the sender's wire form)."""
import base64, hashlib, json, os, threading, urllib.parse
from vlib import core, httpgen as hg

SCHEMES = [{"name": "b", "kind": "basic"}, {"name": "k", "kind": "apikey"},
           {"name": "j", "kind": "jwt", "scopes": ["r", "w"]}, {"name": "o", "kind": "oauth2", "scopes": ["r", "w"]}]
DECLARED = {"b": [], "k": [], "j": ["r", "w"], "o": ["r", "w"]}
KIND = {"b": "basic", "k": "apikey", "j": "jwt", "o": "oauth2"}
# the modelled departures of the code from the design: the first is repaired (2680a7a), the second is recorded
DEVS = ["client.bearer_prefix_on_empty_token", "auth.header_scheme_prefix_stripped"]
# concrete names and values
ATTR = {"k": "key", "j": "tok", "o": "atok"}
SEC = {"k": "apikey:k", "j": "token", "o": "accesstoken"}
HDR = {"k": "X-Key", "j": "X-Tok", "o": "X-Access"}
QRY = {"k": "k", "j": "t", "o": "at"}
CRED = {"k": "key1", "j": "tok1", "o": "at1"}
USER, PASS = "u1", "p 1"
B64 = base64.b64encode(("%s:%s" % (USER, PASS)).encode()).decode()


def text(s, words):
    """the text a sequence of model words stands for"""
    return " ".join({"tok": CRED.get(s, ""), "userpass": B64, "garbage": "!!!"}.get(w, w) for w in words)


def words(s, txt):
    """model words of an observed text"""
    back = {CRED.get(s, "\x00"): "tok", B64: "userpass", "!!!": "garbage"}
    return [back.get(w, w) for w in txt.split(" ")]


def level_design(lv, eff_lists):
    if lv["kind"] == "unset":
        return None, False
    if lv["kind"] == "nosec":
        return None, True
    return [{"schemes": list(r["schemes"]), "scopes": list(r["scopes"])} for r in eff_lists], False


def lvl_effective(c):
    if c["met"]["kind"] != "unset":
        return "met"
    if c["svc"]["kind"] != "unset":
        return "svc"
    return "api"


def wire_name(c, s):
    """(location class, name) of scheme s's credential on the wire"""
    loc = c["loc"][s]
    if s == "b" or loc in ("dflt", "auth"):
        return "header", "Authorization"
    return ("header", HDR[s]) if loc == "hdr" else ("query", QRY[s])


PER_DESIGN = 20


def build(vectors):
    """Group vectors into designs: flow space - one per (api, svc); cred space - PER_DESIGN methods each.  One method per
    distinct (method level, locations of the used schemes, required / optional credentials)."""
    cat = {}
    for v in vectors:
        c = v["cfg"]
        lv = lvl_effective(c)
        if c[lv]["kind"] == "reqs":
            cat[c[lv]["idx"]] = v["eff"]
    designs, index, where, ncred = [], {}, {}, {}
    for n, v in enumerate(vectors):
        c = v["cfg"]
        need = [c[l]["idx"] for l in ("api", "svc", "met") if c[l]["kind"] == "reqs"]
        if any(i not in cat for i in need):
            continue   # a level's list never effective anywhere in this run: cannot render it
        used = set(v["pred"]["used"])
        mkey = core.canon([c["met"], {s: c["loc"][s] for s in sorted(used)}, c["credreq"]])
        if c["space"] == "cred":
            if mkey not in ncred:
                ncred[mkey] = len(ncred) // PER_DESIGN
            dkey = core.canon(["cred", ncred[mkey]])
        else:
            dkey = core.canon([c["api"], c["svc"]])
        if dkey not in index:
            index[dkey] = len(designs)
            apisec, _ = level_design(c["api"], cat.get(c["api"]["idx"]))
            svcsec, svcno = level_design(c["svc"], cat.get(c["svc"]["idx"]))
            d = {"api": {"name": "a%d" % (len(designs) + 1)}, "schemes": SCHEMES,
                 "services": [{"name": "s1", "methods": []}], "_methods": {}}
            if apisec:
                d["api"]["security"] = apisec
            if svcsec:
                d["services"][0]["security"] = svcsec
            if svcno:
                d["services"][0]["noSecurity"] = True
            designs.append(d)
        di = index[dkey]
        d = designs[di]
        if mkey not in d["_methods"]:
            k = len(d["_methods"]) + 1
            req = bool(c["credreq"])
            attrs = [{"name": "a1", "type": {"kind": "int"}, "required": True}]
            http = {"routes": [{"verb": "POST", "path": "/m%d" % k}], "params": {}, "headers": {}, "responses": [{"status": 200}]}
            if "b" in used:     # basic auth owns the Authorization header
                attrs += [{"name": "user", "type": {"kind": "string"}, "required": req, "sec": "username"},
                          {"name": "pass", "type": {"kind": "string"}, "required": req, "sec": "password"}]
            for s in ("k", "j", "o"):
                if s not in used:
                    continue
                attrs.append({"name": ATTR[s], "type": {"kind": "string"}, "required": req, "sec": SEC[s]})
                loc = c["loc"][s]
                if loc == "auth":
                    http["headers"][ATTR[s]] = "Authorization"
                elif loc == "hdr":
                    http["headers"][ATTR[s]] = HDR[s]
                elif loc == "query":
                    http["params"][ATTR[s]] = QRY[s]
                # "dflt": no mapping - goa maps the attribute to the Authorization header by itself
            m = {"name": "m%d" % k, "payload": {"attrs": attrs}, "result": {"attrs": [{"name": "r1", "type": {"kind": "int"}, "required": True}]}, "http": http}
            msec, mno = level_design(c["met"], cat.get(c["met"]["idx"]))
            if msec:
                m["security"] = msec
            if mno:
                m["noSecurity"] = True
            d["services"][0]["methods"].append(m)
            d["_methods"][mkey] = "M%d" % k
        where[n] = (di, d["_methods"][mkey])
    for d in designs:
        del d["_methods"]
    # callers that take every n-th design (C01 quick: every 8th) should meet both spaces: the cred designs follow the 8th
    credkeys = {index[k] for k in index if k.startswith('["cred"')}
    flow = [i for i in range(len(designs)) if i not in credkeys]
    order = flow[:8] + sorted(credkeys) + flow[8:]
    newpos = {old: new for new, old in enumerate(order)}
    designs = [designs[i] for i in order]
    for n, d in enumerate(designs):
        d["api"]["name"] = "a%d" % (n + 1)
    where = {n: (newpos[di], m) for n, (di, m) in where.items()}
    return designs, where


def handed(c, s):
    """what the caller hands over for scheme s: None (nothing) or the text of the form (Security.tla Words)"""
    f = c["form"][s]
    if f == "absent":
        return None
    if s == "b":
        return {"bare": "Basic " + B64, "lower": "basic " + B64, "other": "Bearer " + B64, "malformed": "Basic !!!"}[f]
    return {"bare": "%s", "bearer": "Bearer %s", "lower": "bearer %s", "other": "Token %s", "spaces": "Bearer  %s", "empty": ""}[f].replace("%s", CRED[s])


def scenario(v, sid, meth):
    c = v["cfg"]
    used = sorted(v["pred"]["used"])
    base = {"id": sid, "service": "s1", "method": meth, "auth": {s: v["outcome"][s] for s in v["outcome"]},
            "outcome": {"kind": "result", "value": {"r1": 7}}}
    if c["via"] == "client":
        p = {"a1": 3}
        for s in used:
            if s == "b":
                p.update({"user": USER, "pass": PASS})      # the only form the generated client can produce
            elif handed(c, s) is not None:
                p[ATTR[s]] = handed(c, s)
        base["payload"] = p
        return base
    headers, query = {"Content-Type": ["application/json"]}, []
    for s in used:
        t = handed(c, s)
        if t is None:
            continue
        where, name = wire_name(c, s)
        if where == "header":
            headers[name] = [t]
        else:
            query.append("%s=%s" % (name, urllib.parse.quote(t, safe="")))
    base["raw"] = {"method": "POST", "uri": "/m%s" % meth[1:] + ("?" + "&".join(query) if query else ""), "headers": headers, "body": '{"a1":3}'}
    return base


def observed_wire(c, s, wreq):
    """the credential of scheme s as it reached the server's socket: None or text"""
    where, name = wire_name(c, s)
    vals = (wreq.get("headers") or {}).get(name) if where == "header" else (wreq.get("query") or {}).get(name)
    return None if not vals else vals[0]


def project(v, events):
    """the recorded exchange in the model's terms"""
    c = v["cfg"]
    calls = []
    for e in hg.find(events, "auth"):
        s, cred = e["scheme"], e["cred"]
        if e["kind"] == "basic":
            u, p = cred.get("user"), cred.get("pass")
            w = ["userpass"] if (u, p) == (USER, PASS) else [""] if (u, p) == ("", "") else ["other-user", "other-pass"]
        else:
            w = words(s, cred.get("key") if e["kind"] == "apikey" else cred.get("token"))
        calls.append({"scheme": s, "kind": e["kind"], "cred": w, "scopes": e["scopes"], "required": e["required"], "ok": e["verdict"]})
    wr = hg.find(events, "wire_resp")
    status = wr[0]["status"] if wr else 0
    try:
        ename = json.loads(wr[0]["body"]).get("name") if wr and status >= 400 else None
    except Exception:
        ename = "unparseable"
    wq = hg.find(events, "wire_req")
    wire = {}
    for s in v["pred"]["used"]:
        t = observed_wire(c, s, wq[0]) if wq else None
        wire[s] = {"present": t is not None, "w": words(s, t) if t is not None else [""]}
    return {"calls": calls, "invoked": bool(hg.find(events, "invoke")), "status": status, "errname": ename, "wire": wire,
            "panic": bool(hg.find(events, "server_panic") or hg.find(events, "client_panic")), "sent": bool(wq)}


def req_scopes(s, r):
    return r["scopes"] if s in ("j", "o") else []


def trimmed(ws):
    """header values travel without leading / trailing white space (Security.tla DropLead / DropTrail)"""
    ws = list(ws)
    while len(ws) > 1 and ws[0] == "":
        ws.pop(0)
    while len(ws) > 1 and ws[-1] == "":
        ws.pop()
    return ws


def cred_class(c, s, got):
    """classification of a wrong credential from the case only"""
    sent = words(s, handed(c, s) or "") if s != "b" else None
    if s == "b":
        what = "empty" if got == [""] else "other"
    elif got == sent:
        what = "prefix-kept"
    elif len(sent) > 1 and got == sent[1:]:
        what = "prefix-stripped"
    elif got == [""]:
        what = "empty"
    else:
        what = "other"
    return "%s/%s/%s/%s" % (KIND[s], c["loc"][s], c["form"][s], what)


def judge(v, obs):
    """the oracle of Security.tla (terms printed by TLC with the vector) on one projected exchange -> problem strings"""
    c, eff, pred = v["cfg"], v["eff"], v["pred"]
    calls, invoked, status, ename = obs["calls"], obs["invoked"], obs["status"], obs["errname"]
    problems = []
    if obs["panic"]:
        problems.append("panic")
    if not obs["sent"]:
        problems.append("no-request-on-the-wire")
    used = set(pred["used"])
    if c["via"] == "client":       # ClientWireForm
        for s in sorted(used):
            exp, got = pred["wire"][s], obs["wire"][s]
            expw = trimmed(exp["w"]) if wire_name(c, s)[0] == "header" else exp["w"]
            # an absent value and an empty header value are the same thing to the receiving server
            if (exp["present"] and expw != [""]) != (got["present"] and got["w"] != [""]) or (exp["present"] and expw != [""] and expw != got["w"]):
                problems.append("wire:%s/%s/%s" % (KIND[s], c["loc"][s], c["form"][s]))
    if pred["refuse"]:             # NoCredentialNeverRuns
        if calls:
            problems.append("callback-without-credential")
        if invoked:
            problems.append("invoked-without-credential")
        if not calls and not invoked and status != 400:
            problems.append("refused-with:%s/%s" % (status, ename))
        for cl in calls:
            if cl["scheme"] in used and cl["cred"] not in pred["allowed"][cl["scheme"]]:
                problems.append("credential:" + cred_class(c, cl["scheme"], cl["cred"]))
        return problems
    satisfied = (not eff) or any(all(v["outcome"][s] for s in r["schemes"]) for r in eff)
    if invoked != satisfied:
        problems.append("invoked=%s-but-satisfied=%s" % (invoked, satisfied))
    if not eff and calls:
        problems.append("callback-on-unsecured-method")
    for cl in calls:
        s = cl["scheme"]
        if s not in used:
            problems.append("callback-for-undesigned-scheme:" + s)
            continue
        if cl["cred"] not in pred["allowed"][s]:          # CredentialFromDesignedPlace
            problems.append("credential:" + cred_class(c, s, cl["cred"]))
        if sorted(cl["scopes"]) != sorted(DECLARED[s]):
            problems.append("declared-scopes:%s" % s)
        if not any(s in r["schemes"] and sorted(req_scopes(s, r)) == sorted(cl["required"]) for r in eff):
            problems.append("required-scopes:%s" % s)
        if cl["ok"] != v["outcome"][s]:
            problems.append("harness-verdict-mismatch")
    if invoked and eff:
        if not any(all(any(cl["scheme"] == s and cl["ok"] and sorted(cl["required"]) == sorted(req_scopes(s, r)) for cl in calls) for s in r["schemes"]) for r in eff):
            problems.append("granted-without-a-fully-checked-requirement")
    if not invoked:
        failing = {cl["scheme"] for cl in calls if not cl["ok"]}
        if not (status >= 400 and ename in {"unauthorized_" + s for s in failing}):
            problems.append("denied-with:%s/%s" % (status, ename))
    return problems


def same_as_model(v, obs):
    """the exchange is exactly the run of the model the vector v was printed from (used to recognise named deviations)"""
    c, pred = v["cfg"], v["pred"]
    if obs["panic"] or not obs["sent"]:
        return False
    mine = [{"scheme": cl["scheme"], "cred": cl["cred"], "required": cl["required"], "ok": cl["ok"]} for cl in obs["calls"]]
    if mine != pred["calls"] or obs["invoked"] != pred["invoked"]:
        return False
    if pred["rejected"] != (obs["status"] == 400 and not obs["calls"] and not obs["invoked"]):
        return False
    if c["via"] == "client":
        for s in pred["used"]:
            exp, got = pred["wire"][s], obs["wire"][s]
            expw = trimmed(exp["w"]) if wire_name(c, s)[0] == "header" else exp["w"]
            if (exp["present"] and expw != [""]) != (got["present"] and got["w"] != [""]) or (exp["present"] and expw != [""] and expw != got["w"]):
                return False
    return True


def vkey(v):
    return core.canon([v["cfg"], v["outcome"]])


def quick_pick(vectors, seed):
    """quick tier: a quarter of the cases (by hash of the configuration and the seed), and always every case of the
    single-scheme lists of the cred space and every flow case whose API key contains a space"""
    out = []
    for v in vectors:
        c = v["cfg"]
        if c["space"] == "cred":
            keep = c["met"]["idx"] <= 4
        else:
            keep = c["form"]["k"] == "other"
        if keep or hashlib.sha1((core.canon(c) + str(seed)).encode()).digest()[0] < 64:
            out.append(v)
    return out


def run(ctx):
    quick = ctx.quick()
    ctx.cov["rule"] = ("cases = (requirement lists at API/service/method level incl. NoSecurity, credential location / form / sender / "
                       "required-or-optional per scheme, callback verdict vector) enumerated by TLC from Security.tla; non-trivial = >=2 schemes or "
                       ">=2 requirements or inheritance/override involved or a credential that does not travel bare / a raw request / optional credential attributes; distinct = canonical JSON")
    ctx.assumptions += ["credential locations are the ones goa's DSL documents (Authorization header implicit / explicit, header, query string); "
                        "credentials in the request body or in a cookie are not part of the envelope"]
    # the model runs do not depend on the code under test: side by side with generation and compilation
    mc_err = []
    devruns = {}
    maxodd = 2 if quick else 4     # cred space: how many schemes of one method may travel in a form other than bare

    def dev_vectors(d, spaces):
        """the generator's run with deviation d switched on (Emit as the only invariant): {case key: vector}"""
        import re
        k = (d, tuple(spaces))
        if k not in devruns:
            txt = open(os.path.join(core.SPEC, "gen", "Gen_Security.cfg")).read()
            txt = re.sub(r"(?m)^(\s*Deviations\s*=).*$", lambda m: m.group(1) + ' {"%s"}' % d, txt)
            txt = re.sub(r"(?m)^(\s*Spaces\s*=).*$", lambda m: m.group(1) + " {%s}" % ", ".join('"%s"' % s for s in spaces), txt)
            txt = re.sub(r"(?m)^(\s*MaxOdd\s*=).*$", lambda m: m.group(1) + " %d" % maxodd, txt)
            txt = re.sub(r"(?m)^INVARIANTS.*$", "INVARIANTS Emit", txt)
            rd = ctx.gen("mc/MC_Security", cfg_text=txt, label="Gen Security with " + d)
            devruns[k] = {vkey(x): x for x in rd.vectors}
        return devruns[k]

    def guarded(f, *a, **kw):
        def go():
            try:
                f(*a, **kw)
            except BaseException as e:     # re-raised in the main thread
                mc_err.append(e)
        th = threading.Thread(target=go)
        th.start()
        return th
    side = [guarded(ctx.mc, "mc/MC_Security", consts={"MaxOdd": maxodd}, label="MC Security (all level combinations, credential travel)")]
    for d in DEVS:
        side.append(guarded(ctx.mc_expect_violation, "mc/MC_Security", consts={"Deviations": '{"%s"}' % d, "Spaces": '{"cred"}', "MaxOdd": maxodd}, label="MC dev " + d))
        if d in ctx.known:     # a recorded finding will be met again: have its predictions ready
            side.append(guarded(dev_vectors, d, ["cred"]))
    r = ctx.gen("mc/MC_Security", "gen/Gen_Security.cfg", consts={"MaxOdd": maxodd}, label="Gen Security")
    vectors = r.vectors
    if quick:
        vectors = quick_pick(vectors, ctx.seed)
    designs, where = build(vectors)
    pl = hg.Pipeline(ctx, "gen-sec")
    pl.prepare(designs)
    bins = pl.build_runners(designs)
    ctx.log("%d vectors, %d designs (%d unusable: %s), %d methods set aside" % (len(vectors), len(designs), len(pl.failed), list(pl.failed.items())[:2], len(pl.bad_methods)))
    for i, f in pl.failed.items():
        ctx.notes.append("design %d unusable: %s" % (i, str(f)[:500]))
    for (i, m), why in list(pl.bad_methods.items())[:20]:
        ctx.notes.append("design %d method %s set aside: %s" % (i, m, str(why)[:300]))
    scen, meta = {}, {}
    for n, v in enumerate(vectors):
        if n not in where:
            continue
        di, meth = where[n]
        if di in pl.failed or (di, "m" + meth[1:]) in pl.bad_methods:
            continue
        sid = "c%d" % n
        scen.setdefault(di, []).append(scenario(v, sid, meth))
        meta[sid] = v
    if not meta:
        raise core.Infra("no case could be run")
    events = pl.run_all(bins, scen)
    for th in side:
        th.join()
    if mc_err:
        raise mc_err[0]
    nontrivial = set()
    mismatches = []
    accepted = None
    for sid, v in meta.items():
        ctx.cov["evaluations"] += 1
        eff, c = v["eff"], v["cfg"]
        travel = c["via"] == "raw" or not c["credreq"] or any(c["form"][s] != "bare" for s in v["pred"]["used"])
        if len(eff) >= 2 or any(len(r["schemes"]) >= 2 for r in eff) or c["met"]["kind"] in ("unset", "nosec") or travel:
            nontrivial.add(vkey(v))
        obs = project(v, events[sid])
        problems = judge(v, obs)
        if problems:
            mismatches.append((sid, v, obs, problems))
        else:
            if accepted is None and obs["calls"]:
                accepted = (v, obs)
            if ctx.cov["evaluations"] % 400 == 1:
                ctx.sample({"cfg": c, "eff": eff, "outcome": v["outcome"], "observed": obs})
    # named deviations: a mismatching exchange that is exactly the run of the model with one deviation switched on
    spaces = sorted({m[1]["cfg"]["space"] for m in mismatches})

    def explained_by(v, obs):
        for d in DEVS:
            dv = dev_vectors(d, spaces).get(vkey(v))
            if dv is not None and same_as_model(dv, obs):
                return d
        return None
    for sid, v, obs, problems in mismatches:
        key = explained_by(v, obs)
        for p in problems:
            ctx.violation(key or "C06/%s/%s" % (lvl_effective(v["cfg"]), p), "%s: travel %s requirement list %s verdicts %s -> %s" % (
                p, json.dumps({s: [v["cfg"]["loc"][s], v["cfg"]["form"][s]] for s in v["pred"]["used"]} | {"via": v["cfg"]["via"], "required": v["cfg"]["credreq"]}),
                json.dumps(v["eff"]), json.dumps({s: v["outcome"][s] for s in v["pred"]["used"]}), json.dumps(obs)[:500]),
                {"vector": v, "observed": obs, "events": events[sid]})
    if ctx.selftest or not quick:
        # binding: one field of an accepted exchange corrupted must be rejected
        if accepted is None:
            raise core.Infra("selftest: no accepted exchange with a callback")
        v, obs = accepted
        bad = json.loads(json.dumps(obs))
        bad["calls"][0]["cred"] = ["Bearer"] + bad["calls"][0]["cred"]
        if not judge(v, bad):
            raise core.Infra("selftest: a corrupted credential was accepted")
        bad = json.loads(json.dumps(obs))
        bad["invoked"] = not bad["invoked"]
        if not judge(v, bad):
            raise core.Infra("selftest: a flipped invoke flag was accepted")
        ctx.log("selftest: corrupted observations rejected")
    ctx.cov["distinct_nontrivial"] = len(nontrivial)
    ctx.cov["designs"] = len(designs)


def replay(ctx, rp):
    print(json.dumps(rp["case"].get("vector"), indent=1)[:3000])
    return 0
