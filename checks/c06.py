"""C06 - secured methods run only after a security requirement is satisfied.
(M) Security.tla model-checked exhaustively (requirement lists at API/service/method level, NoSecurity, every
callback verdict vector); (G) every case is run through the real generated client -> server with a recording
Auther whose verdicts come from the vector; observed calls, credentials, scopes and the invoke flag are judged
against the model."""
import json, os
from vlib import core, httpgen as hg

SCHEMES = [{"name": "b", "kind": "basic"}, {"name": "k", "kind": "apikey"},
           {"name": "j", "kind": "jwt", "scopes": ["r", "w"]}, {"name": "o", "kind": "oauth2", "scopes": ["r", "w"]}]
DECLARED = {"b": [], "k": [], "j": ["r", "w"], "o": ["r", "w"]}
DEVS = ["auth.header_scheme_prefix_stripped"]


def level_design(lv, eff_lists):
    if lv["kind"] == "unset":
        return None, False
    if lv["kind"] == "nosec":
        return None, True
    return [{"schemes": list(r["schemes"]), "scopes": list(r["scopes"])} for r in eff_lists], False


def catalogue_entry(vectors, idx):
    """requirement list number idx as TLC printed it (taken from a vector whose method level uses it)"""
    for v in vectors:
        c = v["cfg"]
        for lv in ("met", "svc", "api"):
            if c[lv]["kind"] == "reqs" and c[lv]["idx"] == idx and lvl_effective(c) == lv:
                return v["eff"]
    return None


def lvl_effective(c):
    if c["met"]["kind"] != "unset":
        return "met"
    if c["svc"]["kind"] != "unset":
        return "svc"
    return "api"


def build(vectors):
    """Group vectors into designs: one per (api, svc, keyloc); one method per distinct method level."""
    cat = {}
    for v in vectors:
        c = v["cfg"]
        lv = lvl_effective(c)
        if c[lv]["kind"] == "reqs":
            cat[c[lv]["idx"]] = v["eff"]
    designs, index, where = [], {}, {}
    for n, v in enumerate(vectors):
        c = v["cfg"]
        need = [c[l]["idx"] for l in ("api", "svc", "met") if c[l]["kind"] == "reqs"]
        if any(i not in cat for i in need):
            continue   # a level's list never effective anywhere in this run: cannot render it
        dkey = core.canon([c["api"], c["svc"], c["keyloc"]])
        if dkey not in index:
            index[dkey] = len(designs)
            apisec, _ = level_design(c["api"], cat.get(c["api"]["idx"]))
            svcsec, svcno = level_design(c["svc"], cat.get(c["svc"]["idx"]))
            d = {"api": {"name": "a%d" % (len(designs) + 1)}, "schemes": SCHEMES,
                 "services": [{"name": "s1", "methods": []}], "_methods": {}}
            if apisec:
                d["api"]["security"] = apisec
            if svcsec:
                d["services"][0]["security"] = svcsec
            if svcno:
                d["services"][0]["noSecurity"] = True
            designs.append(d)
        di = index[dkey]
        d = designs[di]
        mkey = core.canon(c["met"])
        if mkey not in d["_methods"]:
            k = len(d["_methods"]) + 1
            used = set(v["pred"]["used"])
            attrs = [{"name": "a1", "type": {"kind": "int"}, "required": True}]
            http = {"routes": [{"verb": "POST", "path": "/m%d" % k}], "params": {}, "headers": {}, "responses": [{"status": 200}]}
            if "b" in used:
                attrs += [{"name": "user", "type": {"kind": "string"}, "required": True, "sec": "username"},
                          {"name": "pass", "type": {"kind": "string"}, "required": True, "sec": "password"}]
            if "k" in used:
                attrs.append({"name": "key", "type": {"kind": "string"}, "required": True, "sec": "apikey:k"})
                if c["keyloc"] == "header":
                    http["headers"]["key"] = "X-Key"
                else:
                    http["params"]["key"] = "k"
            if "j" in used:
                attrs.append({"name": "tok", "type": {"kind": "string"}, "required": True, "sec": "token"})
                http["headers"]["tok"] = "X-Tok" if "b" in used else "Authorization"   # basic auth owns the Authorization header
            if "o" in used:
                attrs.append({"name": "atok", "type": {"kind": "string"}, "required": True, "sec": "accesstoken"})
                http["params"]["atok"] = "at"
            m = {"name": "m%d" % k, "payload": {"attrs": attrs}, "result": {"attrs": [{"name": "r1", "type": {"kind": "int"}, "required": True}]}, "http": http}
            msec, mno = level_design(c["met"], cat.get(c["met"]["idx"]))
            if msec:
                m["security"] = msec
            if mno:
                m["noSecurity"] = True
            d["services"][0]["methods"].append(m)
            d["_methods"][mkey] = "M%d" % k
        where[n] = (di, d["_methods"][mkey])
    for d in designs:
        del d["_methods"]
    return designs, where


def scenario(v, sid, meth):
    c = v["cfg"]
    used = set(v["pred"]["used"])
    p = {"a1": 3}
    if "b" in used:
        p.update({"user": "u1", "pass": "p 1"})
    if "k" in used:
        p["key"] = "my key1" if c["keycred"] == "space" else "key1"
    if "j" in used:
        p["tok"] = "Bearer tok1" if c["tokcred"] == "bearer" else "tok1"
    if "o" in used:
        p["atok"] = "at1"
    return {"id": sid, "service": "s1", "method": meth, "payload": p, "auth": {s: v["outcome"][s] for s in v["outcome"]},
            "outcome": {"kind": "result", "value": {"r1": 7}}}


def project_call(e, v):
    c, cred, s = v["cfg"], e["cred"], e["scheme"]
    sent_key = "my key1" if c["keycred"] == "space" else "key1"
    if e["kind"] == "basic":
        what = "userpass" if cred.get("user") == "u1" and cred.get("pass") == "p 1" else "other:%s" % cred
    elif e["kind"] == "apikey":
        k = cred.get("key")
        what = "key" if k == sent_key else ("key-after-space" if " " in sent_key and k == sent_key.split(" ", 1)[1] else "other:%s" % k)
    elif e["kind"] == "jwt":
        what = "token" if cred.get("token") == "tok1" else "other:%s" % cred.get("token")
    else:
        what = "accesstoken" if cred.get("token") == "at1" else "other:%s" % cred.get("token")
    return {"scheme": s, "cred": what, "scopes": e["scopes"], "required": e["required"], "ok": e["verdict"]}


def req_scopes(s, r):
    return r["scopes"] if s in ("j", "o") else []


def judge(ctx, v, events):
    """returns list of problem strings"""
    eff, pred = v["eff"], v["pred"]
    calls = [project_call(e, v) for e in hg.find(events, "auth")]
    invoked = bool(hg.find(events, "invoke"))
    wr = hg.find(events, "wire_resp")
    status = wr[0]["status"] if wr else 0
    try:
        ename = json.loads(wr[0]["body"]).get("name") if wr and status >= 400 else None
    except Exception:
        ename = "unparseable"
    problems = []
    if hg.find(events, "server_panic") or hg.find(events, "client_panic"):
        problems.append("panic")
    satisfied = (not eff) or any(all(v["outcome"][s] for s in r["schemes"]) for r in eff)
    if invoked != satisfied:
        problems.append("invoked=%s-but-satisfied=%s" % (invoked, satisfied))
    used = set(pred["used"])
    if not eff and calls:
        problems.append("callback-on-unsecured-method")
    for c in calls:
        if c["scheme"] not in used:
            problems.append("callback-for-undesigned-scheme:" + c["scheme"])
            continue
        exp = {"b": "userpass", "k": "key", "j": "token", "o": "accesstoken"}[c["scheme"]]
        if c["cred"] != exp:
            problems.append("credential:%s:%s" % (c["scheme"], c["cred"].split(":")[0]))
        if sorted(c["scopes"]) != sorted(DECLARED[c["scheme"]]):
            problems.append("declared-scopes:%s" % c["scheme"])
        if not any(c["scheme"] in r["schemes"] and sorted(req_scopes(c["scheme"], r)) == sorted(c["required"]) for r in eff):
            problems.append("required-scopes:%s" % c["scheme"])
        if c["ok"] != v["outcome"][c["scheme"]]:
            problems.append("harness-verdict-mismatch")
    if invoked and eff:
        if not any(all(any(c["scheme"] == s and c["ok"] and sorted(c["required"]) == sorted(req_scopes(s, r)) for c in calls) for s in r["schemes"]) for r in eff):
            problems.append("granted-without-a-fully-checked-requirement")
    if not invoked:
        failing = {c["scheme"] for c in calls if not c["ok"]}
        if not (status >= 400 and ename in {"unauthorized_" + s for s in failing}):
            problems.append("denied-with:%s/%s" % (status, ename))
    return problems, {"calls": calls, "invoked": invoked, "status": status, "errname": ename}


def run(ctx):
    quick = ctx.quick()
    ctx.cov["rule"] = ("cases = (requirement lists at API/service/method level incl. NoSecurity, key location, credential class, callback verdict vector) "
                       "enumerated by TLC from Security.tla; non-trivial = >=2 schemes or >=2 requirements or inheritance/override involved; distinct = canonical JSON")
    ctx.mc("mc/MC_Security", label="MC Security (all level combinations)")
    ctx.mc_expect_violation("mc/MC_Security", consts={"Deviations": '{"auth.header_scheme_prefix_stripped"}'}, label="MC dev")
    r = ctx.gen("mc/MC_Security", "gen/Gen_Security.cfg", label="Gen Security")
    vectors = r.vectors
    if quick:
        import hashlib
        vectors = [v for v in vectors if hashlib.sha1((core.canon(v["cfg"]) + str(ctx.seed)).encode()).digest()[0] < 64 or v["cfg"]["keycred"] == "space"]
    designs, where = build(vectors)
    pl = hg.Pipeline(ctx, "gen-sec")
    pl.prepare(designs)
    bins = pl.build_runners(designs)
    ctx.log("%d vectors, %d designs (%d unusable: %s), %d methods set aside" % (len(vectors), len(designs), len(pl.failed), list(pl.failed.items())[:2], len(pl.bad_methods)))
    for i, f in pl.failed.items():
        ctx.notes.append("design %d unusable: %s" % (i, str(f)[:500]))
    scen, meta = {}, {}
    for n, v in enumerate(vectors):
        if n not in where:
            continue
        di, meth = where[n]
        if di in pl.failed or (di, "m" + meth[1:]) in pl.bad_methods:
            continue
        sid = "c%d" % n
        scen.setdefault(di, []).append(scenario(v, sid, meth))
        meta[sid] = v
    events = pl.run_all(bins, scen)
    nontrivial = set()
    dev_vectors = None
    for sid, v in meta.items():
        ctx.cov["evaluations"] += 1
        eff = v["eff"]
        if len(eff) >= 2 or any(len(r["schemes"]) >= 2 for r in eff) or v["cfg"]["met"]["kind"] == "unset" or v["cfg"]["met"]["kind"] == "nosec":
            nontrivial.add(core.canon([v["cfg"], v["outcome"]]))
        problems, obs = judge(ctx, v, events[sid])
        if problems:
            key = None
            # explained by the named deviation?  (the only modelled one changes the API key credential)
            if problems == ["credential:k:key-after-space"] and v["cfg"]["keyloc"] == "header" and v["cfg"]["keycred"] == "space":
                key = "auth.header_scheme_prefix_stripped"
            for p in problems:
                ctx.violation(key or "C06/%s/%s" % (lvl_effective(v["cfg"]), p), "%s: requirement list %s verdicts %s -> %s" % (
                    p, json.dumps(eff), json.dumps({s: v["outcome"][s] for s in v["pred"]["used"]}), json.dumps(obs)[:400]),
                    {"vector": v, "observed": obs, "events": events[sid]})
        elif ctx.cov["evaluations"] % 400 == 1:
            ctx.sample({"cfg": v["cfg"], "eff": eff, "outcome": v["outcome"], "observed": obs})
    ctx.cov["distinct_nontrivial"] = len(nontrivial)
    ctx.cov["designs"] = len(designs)


def replay(ctx, rp):
    print(json.dumps(rp["case"].get("vector"), indent=1)[:3000])
    return 0
