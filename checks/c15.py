"""C15 - response and request bodies are encoded as the Content-Type announces.
(M) Negotiation.tla is model-checked over pools of Accept values x designed content types x pre-set
response headers x value kinds (and request content types x senders); each named deviation must
break an invariant.  (G) every case TLC enumerates is run on the real http.ResponseEncoder /
SetContentType / ResponseDecoder / RequestEncoder / RequestDecoder / ErrorEncoder and the projected
observation must be one the model predicts.  (J) the recorded steps of those cases plus seeded
random cases (random Accept lists, q-values, wildcards, parameters, suffixes, garbage; random
designed types, pre-set headers and request content types) are validated as a trace by TLC."""
import json, os
from vlib import core

MOD, GEN, TRACE = "mc/MC_Negotiation", "gen/Gen_Negotiation.cfg", "trace/Trace_Negotiation"
DRIVER = "drivers/negotiation"
DEVS = ["encoder.nil_on_unparseable_designed_type", "setct.preset_suffix_kept",
        "setct.suffix_appended_after_parameters", "reqdec.unsupported_defaults_to_json"]
# vacuity guard: (deviation, invariant it must break) - every invariant of the property appears once
VACUITY = [(DEVS[0], "EncoderNeverNil"), (DEVS[0], "FallbackJSON"), (DEVS[1], "FormatAgrees"), (DEVS[1], "RoundTrip"),
           (DEVS[2], "FormatAgrees"), (DEVS[3], "Unsupported415")]
SUPPORTED = {"application/json", "application/xml", "application/gob", "text/html", "text/plain"}
KNOWN_SUFFIXES = {"+json", "+xml", "+gob", "+html", "+txt"}
# observation field -> the step of the code (trace event) at which a difference first shows
FIELD_EVENT = {"encnil": "encoder", "body": "body", "dec": "header", "rt": "decoded", "status": "status"}


def devset(ds):
    return "{" + ", ".join('"%s"' % d for d in ds) + "}"


def case_inputs(c):
    keys = ("mode", "accP", "acc", "des", "pre", "kind") if c["mode"] == "response" else ("mode", "rct", "sender", "sfmt", "kind")
    return {k: c[k] for k in keys}


# ----------------------------------------------------------------------------- finding keys
def cls(s, facts):
    """Coarse class of a media type string, from the standard-library facts logged with the case."""
    if s == "":
        return "absent"
    f = next((x for x in facts if x["s"] == s), None)
    if f is None:
        return "nofact"
    if not f["ok"]:
        return "unparseable" if f["mt"] == "" else "badparam"
    if f["mt"] in SUPPORTED:
        base = "supported"
    elif f["suf"] in KNOWN_SUFFIXES:
        base = "suffix_known"
    elif f["suf"]:
        base = "suffix_unknown"
    elif f["plus"]:
        base = "plus_in_params"
    else:
        base = "other"
    return base if f["mt"] == s else base + "_variant"


def classify(case, event, facts):
    """Finding key from the failing case only: mode, the step that departs, the class of the input
    that step depends on."""
    if case["mode"] == "request":
        return "C15/request/%s/rct=%s/sender=%s" % (event, cls(case["rct"], facts), case["sender"])
    if event in ("encoder", "body"):
        dim = "des=" + cls(case["des"], facts) if case["des"] else "acc=" + (cls(case["acc"], facts) if case["accP"] else "nokey")
    else:
        dim = "pre=" + cls(case["pre"], facts)
    return "C15/response/%s/%s" % (event, dim)


def nontrivial(c):
    if c["mode"] == "response":
        return bool(c["des"] or c["pre"] or (c["accP"] and c["acc"] not in SUPPORTED | {""}))
    return c["rct"] not in ("", "application/json")


# ----------------------------------------------------------------------------- (G)
def generate(ctx, rich, devs=(), label=None):
    richv = "TRUE" if rich else "FALSE"
    if devs:
        # predictions of the model with departures switched on: the invariants do not hold there, only emit
        cfg = "SPECIFICATION Spec\nCONSTANTS\n  Rich = %s\n  Deviations = %s\n  Tolerated = {}\nINVARIANTS Emit\nCHECK_DEADLOCK FALSE\n" % (richv, devset(devs))
        r = ctx.gen(MOD, cfg_text=cfg, label=label, timeout=1500, heap="8g")
    else:
        r = ctx.gen(MOD, GEN, consts={"Rich": richv, "Deviations": "{}"}, label=label or ("Gen rich" if rich else "Gen"), timeout=1500, heap="8g")
    facts, cases = [], {}
    for v in r.vectors:
        c = v["case"]
        if c["mode"] in ("fact", "codec"):
            facts.append(c)
        else:
            k = core.canon(c)
            cases.setdefault(k, {"case": c, "preds": []})["preds"].append(v["pred"])
    return facts, cases


def first_diff(pred, obs):
    for k in ("encnil", "body", "dec", "rt", "status"):
        if k in pred and pred.get(k) != obs.get(k):
            return k
    return "other"


def drive_cases(ctx, cases):
    obs, _, _ = ctx.drive(DRIVER, cases)
    if len(obs) != len(cases):
        raise core.Infra("driver returned %d observations for %d cases" % (len(obs), len(cases)))
    return obs


def compare(ctx, rich, nontriv):
    facts, cases = generate(ctx, rich)
    if not facts:
        raise core.Infra("generator emitted no environment facts")
    keys = sorted(cases)
    # the driver first re-checks the fact table against the standard library (exit 3 = Infra on a difference)
    allout = drive_cases(ctx, facts + [cases[k]["case"] for k in keys])
    for f, o in zip(facts, allout[:len(facts)]):
        if o.get("fact") == "goa":        # goa's own ErrorResponse (un)marshalling, not an environment fact
            ctx.violation("C15/codec/%s/%s/does-not-round-trip" % (o.get("kind"), o.get("fmt")), o.get("detail", ""), {"fact": f, "observed": o})
    out = allout[len(facts):]
    good_events, bad = [], []
    for k, o in zip(keys, out):
        g = cases[k]
        ctx.cov["evaluations"] += 1
        if nontrivial(g["case"]):
            nontriv.add(core.canon(g["case"]))
        if o["obs"] in g["preds"]:
            good_events.append(o["events"])
            if ctx.cov["evaluations"] % 997 == 0:
                ctx.sample({"case": g["case"], "predicted": g["preds"], "observed": o["obs"]})
        else:
            bad.append((k, g, o))
    if bad:
        report_mismatches(ctx, rich, bad)
    return good_events


def report_mismatches(ctx, rich, bad):
    """Name each mismatch: the first known deviation whose prediction equals the observation, else a
    classification key."""
    known = [d for d in DEVS if d in ctx.known]
    alt = {}
    for d in known:
        alt[d] = generate(ctx, rich, [d], label="Gen " + d)[1]
    if len(known) > 1:
        alt["*"] = generate(ctx, rich, known, label="Gen all known deviations")[1]
    found = {}           # key -> [description, payload, number of cases]
    def note(key, desc, payload):
        if key in found:
            found[key][2] += 1
        else:
            found[key] = [desc, payload, 1]
    for k, g, o in bad:
        case, obs = g["case"], o["obs"]
        facts = o["events"][0]["facts"]
        field = first_diff(g["preds"][0], obs)
        desc = "%s: model predicts %s; real code: %s (differs at %s)" % (
            json.dumps(case_inputs(case), sort_keys=True), json.dumps(g["preds"], sort_keys=True), json.dumps(obs, sort_keys=True), field)
        payload = {"case": case, "predicted": g["preds"], "observed": obs, "events": o["events"]}
        hit = [d for d in known if obs in alt[d].get(k, {"preds": []})["preds"]]
        if hit:
            note(hit[0], desc, payload)
        elif "*" in alt and obs in alt["*"].get(k, {"preds": []})["preds"]:
            # explained only by several known deviations together: name those that change this case
            for d in known:
                if alt[d][k]["preds"] != g["preds"]:
                    note(d, desc, payload)
        else:
            note(classify(case, FIELD_EVENT.get(field, field), facts), desc, payload)
    # one report (and one replay file) per key, with the number of enumerated cases behind it
    for key, (desc, payload, n) in sorted(found.items()):
        ctx.violation(key, "%s [%d enumerated case(s) with this key]" % (desc, n), dict(payload, cases_with_this_key=n))
    ctx.cov["mismatching_enumerated_cases"] = len(bad)


# ----------------------------------------------------------------------------- (J)
def write_trace(ctx, cases_events, name="trace"):
    d = ctx.subdir(name)
    p = os.path.join(d, "trace.ndjson")
    with open(p, "w") as f:
        for evs in cases_events:
            for e in evs:
                f.write(json.dumps(e, separators=(",", ":")) + "\n")
    return p


def validate(ctx, cases_events, devs=(), label=None, tolerated=()):
    p = write_trace(ctx, cases_events)
    ok, hwm, r = ctx.trace_validate(TRACE, TRACE + ".cfg", p, consts={"Deviations": devset(devs), "Tolerated": devset(tolerated)},
                                    label=label, timeout=1500)
    if not ok and hwm is None:
        raise core.Infra("trace validation produced no high-water mark:\n" + r.stdout[-2000:])
    return ok, hwm


def locate(cases_events, line):
    """(index of the case, index of the event in it) for a 1-based trace line."""
    n = 0
    for i, evs in enumerate(cases_events):
        if line <= n + len(evs):
            return i, line - n - 1
        n += len(evs)
    raise core.Infra("high-water mark %d beyond the trace" % line)


def explain_trace_failure(ctx, evs, j, try_known=True):
    """Finding key for one rejected case of the trace direction."""
    known = [d for d in DEVS if d in ctx.known] if try_known else []
    case = {k: v for k, v in evs[0].items() if k not in ("ev", "facts")}
    desc = "%s: step %s rejected by Trace_Negotiation; steps recorded: %s" % (
        json.dumps(case_inputs(case), sort_keys=True), json.dumps(evs[j], sort_keys=True), json.dumps(evs[1:], sort_keys=True))
    payload = {"case": case, "events": evs, "rejected_event": j}
    for d in known:
        if validate(ctx, [evs], [d], label="explain " + d)[0]:
            ctx.violation(d, desc, payload)
            return
    if len(known) > 1 and validate(ctx, [evs], known, label="explain all known")[0]:
        for d in known:
            ctx.violation(d, desc, payload)
        return
    ctx.violation(classify(case, evs[j]["ev"], evs[0]["facts"]), desc, payload)


def validate_all(ctx, cases_events, maxfail):
    """Batch validation.  Phase 1 judges against the design: every rejected case is named (known deviation
    or classification key) and skipped, up to maxfail.  When that budget is used up and known findings
    exist, phase 2 validates what is left with the known deviations tolerated (each step may or may not
    show them), so that only behaviour outside design + known findings is reported there."""
    known = [d for d in DEVS if d in ctx.known]
    rest, validated = list(cases_events), 0
    for phase, tolerated in ((1, []), (2, known)):
        fails = 0
        while rest and fails < maxfail:
            ok, hwm = validate(ctx, rest, tolerated=tolerated, label="trace phase %d" % phase)
            if ok:
                validated += len(rest)
                rest = []
                break
            i, j = locate(rest, hwm)
            validated += i
            explain_trace_failure(ctx, rest[i], j, try_known=(phase == 1))
            fails += 1
            rest = rest[i + 1:]
        if not rest or not known:
            break
        if phase == 1:
            ctx.notes.append("trace validation against the design stopped after %d rejected cases; the remaining %d cases "
                             "were validated with the known deviations tolerated" % (fails, len(rest)))
    if rest:
        ctx.notes.append("trace validation stopped after too many rejected cases; %d cases left unvalidated" % len(rest))
    return validated


def selftest(ctx, cases_events):
    """Binding demonstrated: one corrupted field of an accepted trace must be rejected at exactly that line."""
    resp = [evs for evs in cases_events if evs[0]["mode"] == "response"][:30]
    # request cases answered 415 whose type has no structured suffix (for those the model allows two answers,
    # so a corrupted decode result would only be caught one line later, at the status)
    req = [evs for evs in cases_events if evs[0]["mode"] == "request" and any(e["ev"] == "status" and e["code"] == 415 for e in evs)
           and not cls(evs[0]["rct"], evs[0]["facts"]).startswith("suffix_known")][:30]
    prefix = [list(map(dict, evs)) for pair in zip(resp, req) for evs in pair]
    muts = [("decoder", "fmt", lambda v: "xml" if v != "xml" else "json"),
            ("body", "fmt", lambda v: "gob" if v != "gob" else "json"),
            ("encoder", "nil", lambda v: not v),
            ("status", "code", lambda v: 400 if v == 415 else 415),
            ("reqdecoded", "rt", lambda v: "equal" if v == "error" else "error")]
    done = 0
    for evname, field, f in muts:
        line, target = 0, None
        for ci, evs in enumerate(prefix):
            for ei, e in enumerate(evs):
                line += 1
                if target is None and ci >= 3 and e["ev"] == evname:
                    target = (ci, ei, line)
        if target is None:
            continue
        ci, ei, line = target
        mutated = [list(map(dict, evs)) for evs in prefix]
        mutated[ci][ei][field] = f(mutated[ci][ei][field])
        ok, hwm = validate(ctx, mutated, label="selftest " + evname)
        res = {"corrupted_event": evname, "corrupted_line": line, "rejected_at": hwm, "ok": (not ok and hwm == line)}
        ctx.cov.setdefault("trace_selftests", []).append(res)
        if not res["ok"]:
            raise core.Infra("trace self-test failed: corrupted %s at line %d, TLC stopped at %s" % (evname, line, hwm))
        done += 1
    if done < 3:
        raise core.Infra("trace self-test found too few events to corrupt (%d)" % done)


# ----------------------------------------------------------------------------- entry points
def run(ctx):
    quick = ctx.quick()
    ctx.cov["rule"] = ("cases = every (Accept, designed content type, pre-set response header, value kind) and every (request "
                       "Content-Type, sender, body format, value kind) enumerated by TLC from MC_Negotiation.tla, plus seeded random "
                       "cases; non-trivial = a response case with a designed type, a pre-set header or an Accept value that is not "
                       "literally one of the five supported types, or a request case whose Content-Type is neither absent nor "
                       "application/json; distinct = canonical JSON of the case inputs")
    ctx.assumptions += [
        "an Accept value counts as recognised when it is one of the five supported types after mime.ParseMediaType "
        "normalisation (documentation of ResponseEncoder); lists, wildcards and suffixed types fall back to JSON",
        "for requests a structured-suffix type (application/vnd.api+json) may be answered with 415 or decoded per its suffix: "
        "the statement does not say which; decoding it as anything else is rejected",
        "goa's RequestEncoder is JSON-only by documentation: under a pre-set request Content-Type announcing another format "
        "it mislabels the body like any dishonest client; the model follows that behaviour but claims nothing about it "
        "(the statement quantifies over pre-set response headers only)",
        "the exact text of the Content-Type header is not compared, only the format it announces to the library's decoder",
        "standard-library facts (mime.ParseMediaType results, what encoding/json|xml|gob can carry) are tabled in the model "
        "and re-checked by the driver on every run",
    ]
    # (M) vacuity guard: each named deviation breaks an invariant of the model
    for d, inv in VACUITY:
        cfg = ("SPECIFICATION Spec\nCONSTANTS\n  Rich = FALSE\n  Deviations = %s\n  Tolerated = {}\nINVARIANTS %s\nCHECK_DEADLOCK FALSE\n" % (devset([d]), inv))
        r = ctx.mc_expect_violation(MOD, cfg_text=cfg, label="MC %s breaks %s" % (d, inv), timeout=600, workers=4)
        if r.violated != inv:
            raise core.Infra("vacuity guard: expected %s to break %s, TLC reported %s" % (d, inv, r.violated))
    # (M)+(G) the Gen configuration checks every invariant while it emits the cases
    nontriv = set()
    good = compare(ctx, not quick, nontriv)
    # (J) random cases judged by trace validation, together with the recorded steps of the enumerated cases
    nrand = 3000 if quick else 100000
    robs, _, _ = ctx.drive(DRIVER, [], args=["-random", str(nrand)])
    for o in robs:
        ctx.cov["evaluations"] += 1
        if nontrivial(o["case"]):
            nontriv.add(core.canon(case_inputs(o["case"])))
    ctx.sample({"random_case": case_inputs(robs[0]["case"]), "observed": robs[0]["obs"]})
    ctx.sample({"trace_events": [{k: v for k, v in e.items() if k != "facts"} for e in robs[1]["events"]]})
    all_events = [o["events"] for o in robs] + good
    validated = validate_all(ctx, all_events, maxfail=4 if quick else 12)
    ctx.cov["traces_validated_against_impl"] += validated
    ctx.cov["random_cases"] = len(robs)
    ctx.cov["distinct_nontrivial"] = len(nontriv)
    if ctx.selftest or not quick:
        accepted = good if good else [o["events"] for o in robs]
        selftest(ctx, accepted)


def replay(ctx, rp):
    """Re-run the recorded case on the real code and let the specification judge its steps."""
    case = case_inputs(rp["case"]["case"])
    out = drive_cases(ctx, [case])[0]
    ok, hwm = validate(ctx, [out["events"]], label="replay")
    print("case:    ", json.dumps(case, sort_keys=True))
    print("observed:", json.dumps(out["obs"], sort_keys=True))
    print("steps:   ", json.dumps([{k: v for k, v in e.items() if k != "facts"} for e in out["events"][1:]], sort_keys=True))
    if "predicted" in rp["case"]:
        print("predicted:", json.dumps(rp["case"]["predicted"], sort_keys=True))
    if not ok:
        print("VIOLATION property=C15 replay=(replayed)")
        print("  step %s is not a step of Negotiation.tla" % json.dumps(out["events"][hwm - 1], sort_keys=True))
        return 1
    print("accepted by Trace_Negotiation")
    return 0
