"""C11 - DSL evaluation runs in global phases and dependency order.
(M) Eval.tla model-checked over every configuration of the bounded spaces (any admissible root
    order), liveness Terminates under WF; vacuity guard per named deviation.
(G) TLC emits every case with the predicted return value and the set of callbacks owed; the real
    eval.RunDSL runs each case on recording roots/expressions (drivers/eval); the summaries are
    compared and the recorded callback sequence of every case is validated by Trace_Eval.tla, which
    binds the one free choice of the model (the dependency order actually used).
(J) seeded random 5-6-root cases run on the real code, validated by Trace_Eval.tla.
The error dimension (spaces errs / errsq of Eval.tla): WHERE an error is reported (the root itself, its first or
second set, with the other sets empty or not; DSL / Prepare / Validate / Finalize) and HOW (eval.ReportError,
Context.Record, a returned *ValidationErrors, both, an empty or nil *ValidationErrors), by expressions implementing
any subset of Source / Preparer / Validator / Finalizer."""
import glob, itertools, json, os, re
from concurrent.futures import ThreadPoolExecutor
from vlib import core

DEVS = ["eval.late_roots_ignored", "eval.same_set_append_not_executed",
        "eval.finalize_errors_dropped", "eval.typed_nil_validation_panics"]
# the configuration (of mc/) in which the deviation can show
DEV_CFG = {"eval.late_roots_ignored": ("mc/MC_Eval_2.cfg", {"MaxExprs": 1}),
           "eval.same_set_append_not_executed": ("mc/MC_Eval_2.cfg", {"MaxExprs": 1}),
           "eval.finalize_errors_dropped": ("mc/MC_Eval_errs.cfg", {"Space": '"errsq"'}),
           "eval.typed_nil_validation_panics": ("mc/MC_Eval_errs.cfg", {"Space": '"errsq"'})}
# the behaviours Eval.tla knows (AllToks, RootToks)
TOKS = {"plain", "append", "appendsame", "reg", "err", "verr", "perr", "vrec", "vboth", "vempty", "vnil", "ferr",
        "s", "s-err", "pvf", "pvf-perr", "pvf-vrec", "pvf-verr", "pvf-ferr", "v", "v-verr", "v-vrec", "v-vboth", "v-vempty",
        "p-perr", "f-ferr", "nil"}
ROOT_TOKS = {"plain", "perr", "vrec", "verr", "vboth", "vempty", "vnil", "ferr", "bare"}
ROOTS6 = ["a", "b", "c", "d", "e", "f"]
TRACE = "trace/Trace_Eval"
CHUNK = 1500          # cases per TLC trace-validation run


# ------------------------------------------------------------------ helpers
def pad(cfg):
    """The trace specification runs over the root universe a..f."""
    c = {"reg": cfg["reg"], "late": cfg.get("late", []),
         "deps": {r: sorted(cfg["deps"].get(r, [])) for r in ROOTS6},
         "beh": {r: cfg["beh"].get(r, ["plain"]) for r in ROOTS6},
         "beh2": {r: cfg.get("beh2", {}).get(r, []) for r in ROOTS6},
         "rb": {r: cfg.get("rb", {}).get(r, "plain") for r in ROOTS6}}
    check_tokens(c)
    return c


def check_tokens(cfg):
    """A case must speak the vocabulary of Eval.tla (anything else is our own trouble, not a verdict)."""
    for r in ROOTS6:
        bad = [b for b in cfg["beh"][r] if b not in TOKS] + \
              [b for b in cfg["beh2"][r] if b not in TOKS - {"append", "appendsame", "reg"}] + \
              ([cfg["rb"][r]] if cfg["rb"][r] not in ROOT_TOKS else [])
        if bad:
            raise core.Infra("case uses behaviours unknown to Eval.tla: %s" % bad)


def tokens(cfg):
    used = list(cfg["reg"]) + list(cfg.get("late", []))
    return [b for r in used for b in cfg["beh"].get(r, []) + cfg.get("beh2", {}).get(r, []) + [cfg.get("rb", {}).get(r, "plain")]]


def show(cfg):
    used = list(cfg["reg"]) + list(cfg.get("late", []))
    s = "reg=%s late=%s deps=%s beh=%s" % (cfg["reg"], cfg.get("late", []), {r: d for r, d in cfg["deps"].items() if d},
                                         {r: cfg["beh"][r] for r in used})
    b2 = {r: cfg["beh2"][r] for r in used if cfg.get("beh2", {}).get(r)}
    rb = {r: cfg["rb"][r] for r in used if cfg.get("rb", {}).get(r, "plain") != "plain"}
    return s + (" beh2=%s" % b2 if b2 else "") + (" rootbeh=%s" % rb if rb else "")


def case_lines(cfg, obs):
    ls = [json.dumps({"ev": "reset", "cfg": pad(cfg)}, sort_keys=True)]
    for ph, root, s, i in obs["log"]:
        ls.append(json.dumps({"ev": "cb", "phase": ph, "root": root, "set": s, "idx": i}, sort_keys=True))
    ls.append(json.dumps({"ev": "return", "kind": obs["kind"], "errs": obs["errs"]}, sort_keys=True))
    return ls


def split_cases(lines):
    """ndjson trace lines -> list of cases (each a list of lines starting with its reset event)."""
    cases = []
    for l in lines:
        l = l.strip()
        if not l:
            continue
        if '"ev":"reset"' in l.replace(" ", ""):
            cases.append([])
        if not cases:
            raise core.Infra("trace does not start with a reset event")
        cases[-1].append(l)
    return cases


def case_of(lines):
    cfg = json.loads(lines[0])["cfg"]
    ret = json.loads(lines[-1])
    log = [[e["phase"], e["root"], e["set"], e["idx"]] for e in map(json.loads, lines[1:-1])]
    return cfg, {"kind": ret.get("kind"), "errs": ret.get("errs", []), "log": log}


def devset(ds):
    return "{" + ", ".join('"%s"' % d for d in ds) + "}"


def features(cfg):
    """Classification of a case from the case only (site/feature/value class)."""
    used = set(cfg["reg"]) | set(cfg.get("late", []))
    deps = {r: set(cfg["deps"].get(r, [])) for r in used}
    # cyclic?
    cyc = False
    for r in used:
        seen, todo = set(), list(deps[r])
        while todo:
            x = todo.pop()
            if x == r:
                cyc = True
            if x not in seen:
                seen.add(x)
                todo += list(deps.get(x, []))
    # site / feature class of the case (coarse on purpose: one key per kind of graph and per set of phases in
    # which the expressions of the case report errors, not per behaviour mix)
    toks = tokens(cfg)
    suffix = lambda b: b.split("-")[-1]
    phases = [ph for ph, bs in (("dsl", {"err"}), ("prepare", {"perr"}), ("validate", {"verr", "vrec", "vboth"}), ("finalize", {"ferr"}))
              if any(suffix(b) in bs for b in toks)]
    e = "/errors-in-" + "+".join(phases) if phases else ""
    if cyc:
        return "cyclic-deps" + e
    if cfg.get("late"):
        return "late-roots" + e
    if any(deps.values()):
        return "dag-deps" + e
    return "independent-roots" + e


def nontrivial(cfg):
    used = set(cfg["reg"]) | set(cfg.get("late", []))
    return (len(used) >= 2 and any(cfg["deps"].get(r) for r in used)) or any(b != "plain" for b in tokens(cfg))


# ------------------------------------------------------------------ trace validation
class Judge:
    def __init__(self, ctx):
        self.ctx = ctx
        self.n = 0

    def _write(self, cases, name):
        self.n += 1
        d = os.path.join(self.ctx.scratch, "c11-trace-%04d-%s" % (self.n, name))
        os.makedirs(d)
        p = os.path.join(d, "trace.ndjson")
        with open(p, "w") as f:
            for c in cases:
                f.write("\n".join(c) + "\n")
        return p

    def _tlc(self, cases, cfgname, devs, label):
        p = self._write(cases, label)
        r = self.ctx.tlc(TRACE, "trace/%s.cfg" % cfgname, consts={"Deviations": devset(devs)}, workers=1,
                         files={"trace.ndjson": p}, expect_violation=True, dfs=True, xss="16m",
                         label=label, timeout=1500)
        if r.hwm is None:
            raise core.Infra("trace validation produced no high-water mark (%s):\n%s" % (label, r.stdout[-2500:]))
        if r.error and "ostcondition" not in r.error:
            raise core.Infra("TLC error during trace validation %s: %s" % (label, r.error))
        os.remove(p)
        for q in glob.glob(os.path.join(self.ctx.scratch, "*-tlc-%s" % label, "trace.ndjson")):
            os.remove(q)
        return r

    def strict(self, cases, devs=(), label="strict"):
        """Normal mode. Returns (accepted, hwm_line, index of the case holding that line)."""
        r = self._tlc(cases, "Trace_Eval", devs, label)
        n = sum(len(c) for c in cases)
        if r.hwm == n + 1 and not r.violated:
            return True, r.hwm, None, r
        at, k = 0, None
        for i, c in enumerate(cases):
            if r.hwm <= at + len(c):
                k = i
                break
            at += len(c)
        return False, r.hwm, k, r

    def judge(self, cases, devs=(), label="judge"):
        """Judge mode: the set of indices of the cases that are behaviours of Eval.tla."""
        r = self._tlc(cases, "Trace_Eval_judge", devs, label)
        starts, at = {}, 1
        for i, c in enumerate(cases):
            starts[at] = i
            at += len(c)
        acc = set()
        for m in re.finditer(r'<<"ACC", (\d+)>>', r.stdout):
            ln = int(m.group(1))
            if ln not in starts:
                raise core.Infra("judge reported an unknown case line %d" % ln)
            acc.add(starts[ln])
        return acc, r

    def judge_all(self, cases, idx, devs, label):
        """Judge the cases cases[i], i in idx, in parallel chunks; returns the set of accepted indices."""
        ctx = self.ctx
        idx = list(idx)
        chunks = [idx[i:i + CHUNK] for i in range(0, len(idx), CHUNK)]
        par = max(1, min(8, (os.cpu_count() or 2) // 2))
        accepted = set()

        def work(n_ch):
            n, ch = n_ch
            acc, r = self.judge([cases[i] for i in ch], devs=devs, label="%s-%03d" % (label, n))
            return set(ch[j] for j in acc), r
        with ThreadPoolExecutor(max_workers=par) as ex:
            for acc, r in ex.map(work, list(enumerate(chunks))):
                ctx.cov["states"] += r.distinct
                ctx.cov["transitions"] += r.generated
                accepted |= acc
        return accepted

    def validate_all(self, cases, label):
        """Every case judged against Eval.tla with Deviations = {}; returns the rejected indices."""
        acc = self.judge_all(cases, range(len(cases)), (), label)
        return [i for i in range(len(cases)) if i not in acc]


def classify_and_report(ctx, jd, cases, bad, origin):
    """Every rejected case gets a key: the named deviation(s) of the specification under which the
    recorded behaviour *is* a behaviour of Eval.tla, else a key computed from the case."""
    if not bad:
        return
    ctx.log("%s: %d of %d cases rejected by Trace_Eval; classifying" % (origin, len(bad), len(cases)))
    todo = list(bad)
    subsets = [c for n in range(1, len(DEVS) + 1) for c in itertools.combinations(DEVS, n)]
    explained = {}
    # cost only: try first the deviation the case can exhibit at all (a hint from the case); every subset is
    # still tried for whatever stays unexplained, so the verdict does not depend on the hint
    def hinted(d, i):
        cfg = json.loads(cases[i][0])["cfg"]
        if d == "eval.late_roots_ignored":
            return bool(cfg["late"])
        if d == "eval.same_set_append_not_executed":
            return any("appendsame" in b for b in cfg["beh"].values())
        if d == "eval.finalize_errors_dropped":
            return any(b.split("-")[-1] == "ferr" for b in tokens(cfg))
        if d == "eval.typed_nil_validation_panics":
            return "vnil" in tokens(cfg)
        return True
    tried = set()
    for rnd in ("hinted", "all"):
        for ds in subsets:
            cand = [i for i in todo if (i, ds) not in tried and (rnd == "all" or (len(ds) == 1 and hinted(ds[0], i)
                                                                                 and not any(hinted(d, i) for d in DEVS if d != ds[0])))]
            if not cand:
                continue
            acc = jd.judge_all(cases, cand, ds, "classify-" + "+".join(d.split(".")[-1][:8] for d in ds))
            tried |= set((i, ds) for i in cand)
            for i in acc:
                explained[i] = ds
            todo = [i for i in todo if i not in acc]
    perkey = {}
    for i in bad:
        cfg, obs = case_of(cases[i])
        if i in explained:
            keys = list(explained[i])
        else:
            keys = ["C11/runDSL/%s/trace-rejected" % features(cfg)]
        for key in keys:
            perkey.setdefault(key, []).append(i)
    for key, idx in sorted(perkey.items()):
        # smallest witness first, preferably one where RunDSL reports success
        idx.sort(key=lambda i: ('"kind": "ok"' not in cases[i][-1] and '"kind":"ok"' not in cases[i][-1], len(cases[i])))
        for n, i in enumerate(idx):
            cfg, obs = case_of(cases[i])
            desc = ""
            if n == 0:
                ok, hwm, k, _ = jd.strict([cases[i]], label="witness")
                line = cases[i][hwm - 1] if hwm and hwm <= len(cases[i]) else "(end of trace)"
                desc = ("%d case(s) [%s], smallest: %s -> RunDSL returned %s %s after %d callbacks; "
                        "Eval.tla (Deviations={}) rejects trace line %d: %s") % (
                    len(idx), origin, show(cfg), obs["kind"], obs["errs"] or "", len(obs["log"]), hwm, line)
            ctx.violation(key, desc or "see first witness", {"cfg": cfg, "observed": obs, "origin": origin})


# ------------------------------------------------------------------ (G) summaries
def compare_summary(ctx, vectors, observations):
    by = {o["i"]: o["obs"] for o in observations}
    suspects = set()
    for i, v in enumerate(vectors):
        if i not in by:
            raise core.Infra("driver returned no observation for vector %d" % i)
        obs, pred = by[i], v["pred"]
        ctx.cov["evaluations"] += 1
        out = {"kind": obs["kind"], "errs": sorted(map(tuple, obs["errs"]))}
        admissible = [{"kind": o["kind"], "errs": sorted(map(tuple, o["errs"]))} for o in pred["outcomes"]]
        same_cbs = len(obs["log"]) == pred["ncb"] and set(map(tuple, obs["log"])) == set(map(tuple, pred["cbs"]))
        if out not in admissible or not same_cbs:
            suspects.add(i)
        elif i % 997 == 0:
            ctx.sample({"cfg": v["cfg"], "predicted": pred["outcomes"], "observed_kind": obs["kind"], "callbacks": len(obs["log"])})
    return by, suspects


def run(ctx):
    quick = ctx.quick()
    ctx.cov["rule"] = ("cases = every configuration TLC enumerates from Eval.tla's CfgSpace (roots, registration order, dependency digraph, "
                       "behaviours, late roots; error sites and kinds) plus seeded random 5-6-root cases; non-trivial = at least one dependency "
                       "edge among >=2 roots or at least one non-plain expression or root; distinct = canonical JSON of the configuration")
    ctx.assumptions += [
        "envelope: no self-dependency; an initially registered root depends only on initially registered roots; a late root depends on another "
        "late root only if that one is certainly registered before the dependent one is picked up (no order can satisfy the statement otherwise)",
        "when late roots close a dependency cycle and the DSL also reported errors, either error may be returned (the statement does not say)",
        "each root walks two expression sets; expressions appended during execution are plain; the initial expressions of the second "
        "set do not append or register",
        "the statement is silent on errors recorded while preparing: modelled as the code does (the validate phase still runs, the errors "
        "of both phases are returned together, finalize does not run)",
        "a Validate() returning a *ValidationErrors that holds no error (empty, or a nil pointer) reports no error"]
    # ---------------- (M)
    for d in DEVS:
        cfgf, consts = DEV_CFG[d]
        ctx.mc_expect_violation("mc/MC_Eval", cfgf, consts=dict(consts, Deviations=devset([d])),
                                label="MC dev " + d.split(".")[-1])
    # the Gen configurations check every invariant (and Terminates) over the same spaces while they emit
    # the cases, with any admissible root order (Canonical = FALSE), so the quick tier does not run
    # MC_Eval_2/_3 a second time
    if not quick:
        ctx.mc("mc/MC_Eval", "mc/MC_Eval_2.cfg", label="MC 2 roots (+Terminates)", timeout=1500)
        ctx.mc("mc/MC_Eval", "mc/MC_Eval_3.cfg", label="MC 3 roots", timeout=1500)
        ctx.mc("mc/MC_Eval", "mc/MC_Eval_4.cfg", label="MC 4 roots", timeout=3000, heap="24g")
        ctx.mc("mc/MC_Eval", "mc/MC_Eval_errs.cfg", label="MC error sites (+Terminates)", timeout=1500)
    # ---------------- (G)
    vectors = []
    gens = ["gen/Gen_Eval_2.cfg", "gen/Gen_Eval_3.cfg", "gen/Gen_Eval_late.cfg"] + ([] if quick else ["gen/Gen_Eval_4.cfg"])
    for g in gens:
        vectors += ctx.gen("mc/MC_Eval", g, label=os.path.basename(g)[:-4], timeout=3000, heap=None if quick else "24g").vectors
    # where and how errors are reported: quick = the space errsq, thorough = errs (more pairs, a dependency edge)
    vectors += ctx.gen("mc/MC_Eval", "gen/Gen_Eval_errs.cfg", consts=None if quick else {"Space": '"errs"'},
                       label="Gen_Eval_errs", timeout=3000).vectors
    seen, uniq = {}, []
    for v in vectors:
        v["cfg"] = pad(v["cfg"])
        k = core.canon(v["cfg"])
        summ = core.canon([sorted(map(core.canon, v["pred"]["outcomes"])), sorted(map(core.canon, v["pred"]["cbs"])), v["pred"]["ncb"]])
        if k not in seen:
            seen[k] = summ
            uniq.append(v)
        elif seen[k] != summ:
            # the same case finished under another admissible root order: what is owed must not depend on the order
            raise core.Infra("model predicts order-dependent summaries for %s" % k)
    vectors = uniq
    obs, _, _ = ctx.drive("drivers/eval", [{"cfg": v["cfg"]} for v in vectors])
    by, suspects = compare_summary(ctx, vectors, obs)
    jd = Judge(ctx)
    cases = [case_lines(v["cfg"], by[i]) for i, v in enumerate(vectors)]
    bad = jd.validate_all(cases, "G")
    ctx.cov["traces_validated_against_impl"] += len(cases)
    if suspects - set(bad):
        i = sorted(suspects - set(bad))[0]
        raise core.Infra("summary of case %d differs from the prediction but its trace is accepted: %s vs %s" % (
            i, json.dumps(vectors[i]["pred"])[:400], json.dumps(by[i])[:400]))
    ctx.log("G: %d cases, %d summary mismatches, %d traces rejected" % (len(cases), len(suspects), len(bad)))
    classify_and_report(ctx, jd, cases, bad, "TLC-enumerated")
    nt = set(core.canon(v["cfg"]) for v in vectors if nontrivial(v["cfg"]))
    # ---------------- (J)
    nrand = 400 if quick else 6000
    _, tpath, _ = ctx.drive("drivers/eval", [], args=["-random", str(nrand)])
    rcases = split_cases(open(tpath))
    if len(rcases) != nrand:
        raise core.Infra("random driver produced %d cases, expected %d" % (len(rcases), nrand))
    for c in rcases:
        check_tokens(case_of(c)[0])
    rbad = jd.validate_all(rcases, "J")
    ctx.cov["traces_validated_against_impl"] += len(rcases)
    ctx.cov["evaluations"] += len(rcases)
    ctx.log("J: %d random cases, %d traces rejected" % (len(rcases), len(rbad)))
    classify_and_report(ctx, jd, rcases, rbad, "random")
    for c in rcases:
        cfg, _ = case_of(c)
        if nontrivial(cfg):
            nt.add(core.canon(cfg))
    ctx.sample({"random_case": case_of(rcases[0])[0], "events": len(rcases[0])})
    ctx.cov["distinct_nontrivial"] = len(nt)
    if ctx.selftest or not quick:
        selftest(ctx, jd, cases, set(bad), rcases, set(rbad))


def selftest(ctx, jd, cases, bad, rcases, rbad):
    """Binding demonstrated: one corrupted field of an accepted trace is rejected at exactly that line."""
    good = [c for i, c in enumerate(cases) if i not in bad][:40] + [c for i, c in enumerate(rcases) if i not in rbad][:20]
    if not good:
        raise core.Infra("no accepted case to run the trace self-test on")
    ok, _, _, _ = jd.strict(good, label="selftest-base")
    if not ok:
        raise core.Infra("self-test base trace not accepted")
    res = []
    flat = [l for c in good for l in c]

    def attempt(name, pick, mutate):
        tgt = next((n for n, l in enumerate(flat) if pick(json.loads(l))), None)
        if tgt is None:
            return
        e = json.loads(flat[tgt])
        mutate(e)
        lines = list(flat)
        lines[tgt] = json.dumps(e, sort_keys=True)
        ok, hwm, _, _ = jd.strict(split_cases(lines), label="selftest-" + name)
        r = {"corruption": name, "corrupted_line": tgt + 1, "rejected_at": hwm, "ok": (not ok and hwm == tgt + 1)}
        res.append(r)
        if not r["ok"]:
            raise core.Infra("trace self-test %s failed: corrupted line %d, TLC stopped at %s" % (name, tgt + 1, hwm))
    attempt("cb-phase", lambda e: e["ev"] == "cb" and e["phase"] == "validate" and e["set"] == 1, lambda e: e.update(phase="finalize"))
    attempt("cb-root", lambda e: e["ev"] == "cb" and e["phase"] == "prepare" and e["set"] == 0,
            lambda e: e.update(root=("a" if e["root"] != "a" else "b")))
    attempt("return-kind", lambda e: e["ev"] == "return" and e["kind"] == "ok", lambda e: e.update(kind="error"))
    attempt("return-error-dropped", lambda e: e["ev"] == "return" and e["kind"] == "error" and any(x[0] in ("prepare", "vrec") for x in e["errs"]),
            lambda e: e.update(kind="ok", errs=[]))
    attempt("return-errs", lambda e: e["ev"] == "return" and e["kind"] == "error" and len(e["errs"]) >= 1, lambda e: e["errs"].pop())
    # a dropped callback
    tgt = next((n for n, l in enumerate(flat) if '"finalize"' in l), None)
    if tgt is not None:
        lines = flat[:tgt] + flat[tgt + 1:]
        ok, hwm, _, _ = jd.strict(split_cases(lines), label="selftest-drop")
        r = {"corruption": "dropped-callback", "corrupted_line": tgt + 1, "rejected_at": hwm, "ok": (not ok and hwm == tgt + 1)}
        res.append(r)
        if not r["ok"]:
            raise core.Infra("trace self-test drop failed: dropped line %d, TLC stopped at %s" % (tgt + 1, hwm))
    ctx.cov.setdefault("trace_selftests", []).extend(res)
    ctx.log("self-test: %d corruptions rejected at the corrupted line" % len(res))


def replay(ctx, rp):
    case = rp["case"]
    cfg = pad(case["cfg"])
    obs, _, _ = ctx.drive("drivers/eval", [{"cfg": cfg}])
    o = obs[0]["obs"]
    jd = Judge(ctx)
    lines = case_lines(cfg, o)
    ok, hwm, _, _ = jd.strict([lines], label="replay")
    print("case:     " + show(cfg))
    print("observed: RunDSL returned %s %s after callbacks %s" % (o["kind"], o["errs"], o["log"]))
    if ok:
        print("the recorded behaviour is a behaviour of Eval.tla")
        return 0
    print("VIOLATION property=C11 replay=(replayed)")
    print("  Eval.tla rejects trace line %d: %s" % (hwm, lines[hwm - 1] if hwm <= len(lines) else "(end)"))
    for d in DEVS:
        ok2, _, _, _ = jd.strict([lines], devs=[d], label="replay-dev")
        if ok2:
            print("  accepted with Deviations={\"%s\"}" % d)
    return 1
