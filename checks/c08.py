"""C08 - result views expose exactly the attributes of the selected view.
(M) Views.tla model-checked exhaustively over the graph catalogue (flat, nested with per-attribute view
overrides, top-level and nested collections, recursive) in all its VARIANTS (declaration order of the default view:
first / last / implicit; which attributes are required and validated: base / by the default view only / by the other
views only / nested result types required) x views chosen by the service or fixed in the design x values (attributes
set, one validated attribute possibly carrying an invalid value) x a response labelled with an undefined view;
(G) every case runs through the real generated server and client: body keys on the wire (recursively), the goa-view
header, the fields set on the client's result and whether the client delivered / refused / crashed are compared with
the model's predictions (several where the statement leaves the server a choice).  The designs themselves (types,
attributes, views in declaration order, required, validations) are emitted by TLC: nothing of the catalogue is
repeated here."""
import json
from vlib import core, httpgen as hg

GRAPHS = ["G1", "G2", "G3", "G4", "G5", "G6", "G7", "G8", "G9", "G10", "G11"]
KNOWN_DEVIATIONS = ["client.required_user_type_nil_deref", "views.required_nested_result_unchecked"]
MAXLEN = 3
# how a collection is declared (Views.tla `cd`): letter in the variant name, and the declaration handed to the design builder
CD_LETTER = {"empty": "e", "desc": "d", "vtiny": "t", "vext": "x"}
CD_DECL = {"plain": None, "empty": {}, "desc": {"desc": "a listing"}, "vtiny": {"views": ["tiny"]}, "vext": {"views": ["ext"]}}


# ------------------------------------------------------------------ TLC -> graph descriptions and cases
def vkey(c):
    """name of a variant: g2ls = graph G2, default view declared last, req mode sel (g1fbm3: third declaration order of the methods)"""
    return "%s%s%s%s%s" % (c["g"].lower(), c["order"][0], c["req"][0], "m%d" % c["mo"] if c["mo"] != 1 else "",
                           "c" + CD_LETTER[c["cd"]] if c["cd"] != "plain" else "")


# the known deviations only act where a required attribute has a result type: their predictions are only computed there
# (a case outside stays unexplained: conservative)
DEVIATION_REQ_MODES = '{"nest"}'


def gen_vectors(ctx, deviations=None, label="Gen Views"):
    consts = {"AllFixed": "FALSE" if ctx.quick() else "TRUE"}
    if deviations:   # what the model predicts under named deviations (no invariant but Emit: the property does not hold there)
        consts.update({"Deviations": "{%s}" % ", ".join('"%s"' % d for d in deviations), "ReqModes": DEVIATION_REQ_MODES})
        vs = ctx.gen("mc/MC_Views", "gen/Gen_Views_dev.cfg", label=label, consts=consts, workers=2).vectors
    else:
        vs = ctx.gen("mc/MC_Views", "gen/Gen_Views.cfg", label=label, consts=consts).vectors
    descs = {vkey(v["graph"]): v["graph"] for v in vs if "graph" in v}
    cases = [v for v in vs if "cfg" in v]
    return descs, cases


_CATALOGUE = None


def catalogue():
    """variant name -> description, straight from Views.tla (one private TLC run per process, for callers that only
    want the designs: C01)"""
    global _CATALOGUE
    if _CATALOGUE is None:
        ctx = core.Ctx("C08", "quick", 1)
        try:
            _CATALOGUE = gen_vectors(ctx, label="Gen Views (catalogue)")[0]
        finally:
            ctx.cleanup()
    return _CATALOGUE


# ------------------------------------------------------------------ description -> abstract design
def tname(desc, t):
    return "%s%s" % (t, vkey(desc)[1:])


def types_of(desc):
    out = []
    colls = set(a["typ"] for t in desc["types"] for a in t["attrs"] if a["coll"])
    for t in desc["types"]:
        attrs = []
        for a in t["attrs"]:
            if a["typ"] == "-":
                # a, x: integers; everything else: strings (the validated ones with a maximum length)
                att = {"name": a["name"], "type": {"kind": "int" if a["name"] in ("a", "x") else "string"}}
                if a["validated"]:
                    att["val"] = {"maxLen": MAXLEN}
            else:
                ref = tname(desc, a["typ"]) + ("Coll" if a["coll"] else "")
                att = {"name": a["name"], "type": {"kind": "user", "ref": ref}}
                if a["own"] != "-":
                    att["view"] = a["own"]
            if a["required"]:
                att["required"] = True
            attrs.append(att)
        views = [{"name": v["name"], "attrs": [({"name": e["name"], "view": e["view"]} if e["view"] else {"name": e["name"]}) for e in v["attrs"]]}
                 for v in t["views"]]
        out.append({"name": tname(desc, t["name"]), "kind": "result", "attrs": attrs, "views": views})
        if t["name"] in colls or (desc["coll"] and t["name"] == "T"):
            ct = {"name": tname(desc, t["name"]) + "Coll", "kind": "collection", "base": {"kind": "user", "ref": tname(desc, t["name"])}}
            if CD_DECL[desc["cd"]] is not None:
                ct["coll"] = CD_DECL[desc["cd"]]
            out.append(ct)
    # a collection type is declared right after its element type (and so before the type that uses it)
    res = []
    for t in out:
        if t["kind"] == "collection":
            continue
        res.append(t)
        c = next((x for x in out if x["kind"] == "collection" and x["base"]["ref"] == t["name"]), None)
        if c:
            res.append(c)
    return res


def service_of(desc):
    """the service of one variant: `any` (the service method chooses the view) and fix<view> for the views fixed in the design, in the declaration order Views.tla gives"""
    n = vkey(desc)
    res = tname(desc, "T") + ("Coll" if desc["coll"] else "")

    def meth(name, fixed=None):
        m = {"name": name, "result": {"type": {"kind": "user", "ref": res}},
             "http": {"routes": [{"verb": "GET", "path": "/%s/%s" % (n, name)}], "responses": [{"status": 200}]}}
        if fixed:
            m["resultView"] = fixed
        return m
    return {"name": n, "methods": [meth("any") if v == "-" else meth("fix" + v, v) for v in desc["methods"]]}


def design_name(desc):
    """the design a variant lives in: its graph, or - for a collection whose declaration fixes the view - <graph><cd> (G3vext)"""
    return desc["g"] + (desc["cd"] if desc["collFixed"] != "-" else "")


def design_of(name, descs):
    """one design per graph (all its variants, one service each), so that a graph whose generated code does not compile
    (C01's business) is set aside alone; the view-fixing collection declarations of a graph have designs of their own"""
    mine = [descs[k] for k in sorted(descs) if design_name(descs[k]) == name]
    return {"api": {"name": "views" + name.lower()}, "types": [t for d in mine for t in types_of(d)], "services": [service_of(d) for d in mine]}


def design_names(descs=None):
    descs = catalogue() if descs is None else descs
    names = set(design_name(d) for d in descs.values())
    return [g for g in GRAPHS if g in names] + sorted(n for n in names if n not in GRAPHS)


def design(name):
    """the design called `name` (a graph G1.., or G3vtiny / G3vext / G7vtiny) with all its variants (interface used by C01)"""
    return design_of(name, catalogue())


# ------------------------------------------------------------------ values
def value_from_paths(desc, paths, bad=()):
    """the value with exactly the attribute paths `paths` set (collections: two elements alike); the attributes in `bad`
    carry a value that breaks their validation"""
    types = {t["name"]: t for t in desc["types"]}

    def build(t, prefix, depth):
        o = {}
        for a in types[t]["attrs"]:
            p = a["name"] if not prefix else prefix + "." + a["name"]
            if p not in paths:
                continue
            if a["typ"] == "-":
                if a["name"] in ("a", "x"):
                    o[a["name"]] = 1 + depth
                else:
                    o[a["name"]] = a["name"] * ((MAXLEN + 2) if p in bad else 2)
            else:
                e = build(a["typ"], p, depth + 1)
                o[a["name"]] = [e, dict(e)] if a["coll"] else e
        return o
    v = build("T", "", 1)
    return [v, dict(v)] if desc["coll"] else v


def paths_of(obj, prefix="", zero_is_unset=False):
    """attribute paths that are set; the elements of a list must agree (else the marker path '!elements-differ'); null and
    the empty list are "nothing there"; on the Go side a required (non-pointer) field cannot be nil: its zero value is
    what "unset" looks like there (every value the check sends is non-zero)"""
    if isinstance(obj, list):
        ps = [paths_of(e, prefix, zero_is_unset) for e in obj]
        if ps and all(p == ps[0] for p in ps):
            return ps[0]
        return {(prefix + "." if prefix else "") + "!elements-differ"} if ps else set()
    out = set()
    if isinstance(obj, dict):
        for k, v in obj.items():
            if v is None or v == [] or (zero_is_unset and v in ("", 0, False)):
                continue
            p = k if not prefix else prefix + "." + k
            out.add(p)
            out |= paths_of(v, p, zero_is_unset)
    return out


def case_key(v):
    return core.canon([v["cfg"], sorted(v["val"]), sorted(v["bad"])])


def scenario(v, desc, sid):
    c = v["cfg"]
    value = value_from_paths(desc, set(v["sval"]), set(v["bad"]))
    meth = "Any" if c["fixed"] == "-" or desc["collFixed"] != "-" else "Fix" + c["fixed"]
    s = {"id": sid, "service": vkey(c), "method": meth, "outcome": {"kind": "result", "value": value, "view": "" if c["chosen"] == "bogus" else c["chosen"]}}
    if c["chosen"] == "bogus":
        body = value_from_paths(desc, set(v["pred"]["wireKeys"]))
        s["rawResp"] = {"status": 200, "headers": {"Content-Type": ["application/json"], "Goa-View": ["bogus"]}, "body": json.dumps(body)}
    return s


def observe(events):
    """what the exchange looked like: wire attributes and goa-view header (status 200), then how the client ended:
    none (result delivered: attributes set) | refused (error although the response had status 200) | server_error
    (error after a non-200 response) | crash"""
    o = {"wire": None, "view": "none", "client": None, "cerr": "none", "status": 0}
    wr = hg.find(events, "wire_resp")
    if wr:
        w = wr[0]
        o["status"] = w["status"]
        h = {k.lower(): x for k, x in (w.get("headers") or {}).items()}
        o["view"] = (h.get("goa-view") or ["none"])[0]
        try:
            b = json.loads(w.get("body") or "null")
        except Exception:
            b = None
        if isinstance(b, (dict, list)) and w["status"] == 200:
            o["wire"] = sorted(paths_of(b))
    cr = hg.find(events, "client_return")
    if cr:
        c = cr[0]
        if c.get("err"):
            o["cerr"] = "refused" if o["status"] == 200 else "server_error"
            o["cerr_msg"] = (c["err"].get("message") or "")[:200]
        else:
            r = c.get("res")
            if isinstance(r, (dict, list)):
                o["client"] = sorted(paths_of(r, zero_is_unset=True))
    else:
        o["cerr"] = "no-return"
    for badev in ("server_panic", "client_panic"):
        if hg.find(events, badev):
            o["panic"] = badev
            if badev == "client_panic":
                o["cerr"] = "crash"
    return o


CERR_CLASS = {"none": "none", "invalid": "refused", "unknown_view": "refused", "server_error": "server_error", "crash": "crash"}


def problems(v, p, o):
    """how the observation departs from prediction p of case v ([] = it is that prediction)"""
    c = v["cfg"]
    probs = []
    if o.get("panic") == "server_panic":
        probs.append("server-crash")
    if p["sres"] == "error":
        if o["status"] == 200 or o["cerr"] != "server_error":
            probs.append("server-rendered")
        return probs
    if c["chosen"] != "bogus":
        if o["status"] != 200:
            probs.append("server-error")
            return probs
        if o["wire"] != sorted(p["wireKeys"]):
            probs.append("wire-attributes")
        hv = o["view"]
        if c["fixed"] == "-":
            if hv != p["viewHeader"]:
                probs.append("goa-view-header")
        elif hv not in ("none", c["fixed"]):
            probs.append("goa-view-header")
    want = CERR_CLASS[p["cerr"]]
    if o["cerr"] != want:
        probs.append({"crash": "client-crash", "refused": "client-refused-valid-response", "none": "client-accepted-" + ("undefined-view" if c["chosen"] == "bogus" else "invalid-response")}.get(o["cerr"], "client-" + o["cerr"]))
    elif want == "none" and o["client"] != sorted(p["clientKeys"]):
        probs.append("client-attributes")
    return probs


def judge(v, preds, o):
    """[] if the observation is one of the predictions, else its departures from the main prediction (server rendered)"""
    best = None
    for p in preds:
        pr = problems(v, p, o)
        if not pr:
            return []
        if p["sres"] == "ok" and best is None:
            best = pr
    return best or problems(v, preds[0], o)


def run(ctx):
    import concurrent.futures as cf
    ctx.cov["rule"] = ("cases = (graph variant [graph, declaration order of the default view, required/validated mode], view fixed in the design or "
                       "chosen by the service incl. the empty and an undefined name, value, invalid attribute) enumerated by TLC from Views.tla; "
                       "non-trivial = the view is a strict subset of the attributes, nesting is involved, or the value is invalid under the view; "
                       "distinct = canonical JSON")
    ex = cf.ThreadPoolExecutor(max_workers=6)
    # vacuity guards and the predictions under the known deviations (singly, then together) run beside the Go pipeline
    guards = [ex.submit(ctx.mc_expect_violation, "mc/MC_Views", consts={"Deviations": '{"%s"}' % d, "ReqModes": m}, label="MC dev " + d.split(".")[1][:24], workers=2)
              for d, m in [("views.leak_all_attributes", '{"base"}')] + [(d, DEVIATION_REQ_MODES) for d in KNOWN_DEVIATIONS]]
    descs, vectors = gen_vectors(ctx)
    combos = [[d] for d in KNOWN_DEVIATIONS] + [KNOWN_DEVIATIONS]
    explain = [(devs, ex.submit(gen_vectors, ctx, devs, "Explain " + "+".join(d.split(".")[1][:12] for d in devs))) for devs in combos]
    global _CATALOGUE
    _CATALOGUE = descs
    unknown = set(d["g"] for d in descs.values()) - set(GRAPHS)
    if unknown:
        raise core.Infra("Views.tla has graphs the check does not know: %s" % sorted(unknown))
    graphs = design_names(descs)
    designs = [design_of(g, descs) for g in graphs]
    pl = hg.Pipeline(ctx, "gen-views")
    pl.generate(designs)
    bins = pl.build_runners(designs)
    rejected = []
    for i, f in pl.failed.items():
        if f[0] in ("dsl", "eval", "gen") and f[1] in ("error", "errors"):
            # goa itself refuses (with errors, not a crash of our builder) a design the specification holds valid: a verdict
            rejected.append((graphs[i], f))
            continue
        if f[0] not in ("compile", "typecheck", "compile-runner"):
            raise core.Infra("the design of graph %s is not accepted or not generated (only code that does not compile is C01's business): %s" % (graphs[i], str(f)[:1500]))
        ctx.notes.append("graph %s set aside: its generated code does not compile (reported under C01): %s" % (graphs[i], str(f)[:400]))
    ctx.cov["graphs_set_aside"] = [graphs[i] for i in pl.failed]
    for g, f in rejected:
        ctx.violation("C08/%s/design-rejected" % g.lower(), "the design of graph %s (all its variants) is refused at stage %s: %s" % (g, f[0], str(f[2])[:1500]),
                      {"graph": g, "stage": f[0], "detail": str(f[2])[:4000], "design": design_of(g, descs)})
    # a refused design is tried again with its dynamic methods only (the methods fixing a view in the design are the usual
    # reason for the refusal), so that what the remaining methods do on the wire is judged too
    dyn, dynbins, dynidx = None, {}, {}
    if rejected:
        import copy
        reduced = []
        for g, _ in rejected:
            d = copy.deepcopy(design_of(g, descs))
            for svc in d["services"]:
                svc["methods"] = [m for m in svc["methods"] if not m.get("resultView")]
            dynidx[g] = len(reduced)
            reduced.append(d)
        dyn = hg.Pipeline(ctx, "gen-views-dynamic")
        dyn.generate(reduced)
        dynbins = dyn.build_runners(reduced)
        ctx.notes.append("refused designs tried again with their dynamic methods only: %s" % {g: ("ok" if dynidx[g] in dynbins else str(dyn.failed.get(dynidx[g]))[:300]) for g in dynidx})
    ctx.cov["variants"] = len(descs)
    uncompilable = [i for i in pl.failed if graphs[i] not in [g for g, _ in rejected]]
    if 2 * len(uncompilable) > len(graphs):
        raise core.Infra("most views designs do not compile: %s" % pl.failed)
    # cases: the predictions of one case (several where the server has a choice) are judged together
    cases, order = {}, []
    for v in vectors:
        k = case_key(v)
        if k not in cases:
            cases[k] = (v, [])
            order.append(k)
        cases[k][1].append(v["pred"])
    scen, dynscen, meta = {}, {}, {}
    for n, k in enumerate(order):
        v, preds = cases[k]
        dn = design_name(descs[vkey(v["cfg"])])
        gi = graphs.index(dn)
        sid = "c%d" % n
        if gi in pl.failed:
            if dynidx.get(dn) in dynbins and (v["cfg"]["fixed"] == "-" or descs[vkey(v["cfg"])]["collFixed"] != "-"):
                dynscen.setdefault(dynidx[dn], []).append(scenario(v, descs[vkey(v["cfg"])], sid))
                meta[sid] = k
            continue
        scen.setdefault(gi, []).append(scenario(v, descs[vkey(v["cfg"])], sid))
        meta[sid] = k
    events = pl.run_all(bins, scen)
    if dynscen:
        events.update(dyn.run_all(dynbins, dynscen))
    nontrivial = set()
    mismatches = []
    for sid, k in meta.items():
        v, preds = cases[k]
        ctx.cov["evaluations"] += 1
        c = v["cfg"]
        main = next((p for p in preds if p["sres"] == "ok"), preds[0])
        if set(main["wireKeys"]) != set(v["val"]) or c["g"] != "G1" or len(preds) > 1:
            nontrivial.add(k)
        if sid not in events:
            raise core.Infra("no observation for scenario %s" % sid)
        o = observe(events[sid])
        probs = judge(v, preds, o)
        if probs:
            mismatches.append((sid, k, o, probs))
        elif ctx.cov["evaluations"] % 400 == 1:
            ctx.sample({"cfg": c, "val": v["val"], "bad": v["bad"], "observed": o})
    ctx.cov["distinct_nontrivial"] = len(nontrivial)
    ctx.cov["exhaustive"] = True
    ctx.cov["space"] = ("every variant, view chosen by the service and value; views fixed in the design: for the [first, base] variants only" if ctx.quick() else "every variant, view (chosen and fixed) and value")
    ctx.cov["mismatches"] = len(mismatches)
    for f in guards:
        f.result()
    # a mismatch is explained by the first known deviation (then the pair) under which the model predicts exactly what was observed
    explained = {}
    todo = set(k for _, k, _, _ in mismatches)
    for devs, fut in explain:
        _, dv = fut.result()
        dpred = {}
        for v in dv:
            dpred.setdefault(case_key(v), []).append(v["pred"])
        if not set(dpred) <= set(cases):
            raise core.Infra("the case space changed under deviations %s" % devs)
        for sid, k, o, _ in mismatches:
            if k in todo and k in dpred and not judge_exact(cases[k][0], dpred[k], o):
                explained[k] = "+".join(devs)
                todo.discard(k)
    ex.shutdown()
    for sid, k, o, probs in mismatches:
        v, preds = cases[k]
        c = v["cfg"]
        if k in explained:
            key = explained[k]
        else:
            key = "C08/%s/%s/%s" % (vkey(c), "fixed" if c["fixed"] != "-" else "chosen:" + (c["chosen"] or "empty"), probs[0])
        ctx.violation(key, "%s: cfg %s value %s invalid %s predicted %s observed %s" % (",".join(probs), json.dumps(c), v["val"], v["bad"], json.dumps(preds), json.dumps(o)[:500]),
                      {"vector": v, "predictions": preds, "design": descs[vkey(c)], "observed": o, "events": events[sid]})
    if ctx.selftest or not ctx.quick():
        selftest(ctx, cases, meta, events)


def selftest(ctx, cases, meta, events):
    """binding: corrupting one observable of exchanges the model accepts must make the judge reject them"""
    n = 0
    for sid, k in meta.items():
        v, preds = cases[k]
        o = observe(events[sid])
        if judge(v, preds, o) or o["cerr"] != "none" or not o["wire"]:
            continue
        for field, corrupt in (("wire", lambda x: x[:-1]), ("client", lambda x: x + ["zz"]), ("cerr", lambda x: "refused")):
            o2 = dict(o)
            o2[field] = corrupt(o[field])
            if not judge(v, preds, o2):
                raise core.Infra("self-test: a corrupted %s of %s was accepted" % (field, json.dumps(v["cfg"])))
        n += 1
        if n >= 50:
            break
    if n == 0:
        raise core.Infra("self-test: no accepted exchange to corrupt")
    ctx.cov["selftest_corruptions_rejected"] = 3 * n


def judge_exact(v, preds, o):
    """problems of the observation against the predictions made under a deviation ([] = explained)"""
    for p in preds:
        if not problems(v, p, o):
            return []
    return ["unexplained"]


def replay(ctx, rp):
    print(json.dumps(rp["case"].get("vector"), indent=1)[:3000])
    print(json.dumps(rp["case"].get("design"), indent=1)[:6000])
    return 0
