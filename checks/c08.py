"""C08 - result views expose exactly the attributes of the selected view.
(M) Views.tla model-checked exhaustively over the graph catalogue (flat, nested with per-attribute view
overrides, collection, recursive) x views chosen by the service or fixed in the design x values x a response
labelled with an undefined view; (G) every case runs through the real generated server and client: body keys
on the wire (recursively), the goa-view header and the fields set on the client's result are compared with
the model's projection."""
import json
from vlib import core, httpgen as hg


def types_design():
    def rt(name, attrs, views):
        return {"name": name, "kind": "result", "attrs": attrs, "views": views}
    i = lambda n, req=False: {"name": n, "type": {"kind": "int"}, "required": req}
    s = lambda n: {"name": n, "type": {"kind": "string"}}
    u = lambda n, t: {"name": n, "type": {"kind": "user", "ref": t}}
    V = lambda name, attrs: {"name": name, "attrs": [({"name": a} if isinstance(a, str) else {"name": a[0], "view": a[1]}) for a in attrs]}
    return [
        rt("T1", [i("a", True), s("b")], [V("default", ["a", "b"]), V("tiny", ["a"])]),
        rt("U2", [i("x", True), s("y")], [V("default", ["x", "y"]), V("tiny", ["x"])]),
        rt("T2", [i("a", True), s("b"), u("c", "U2")], [V("default", ["a", "b", ("c", "default")]), V("tiny", ["a"]), V("ext", ["a", ("c", "tiny")])]),
        {"name": "T2Coll", "kind": "collection", "base": {"kind": "user", "ref": "T2"}},
        rt("T4", [i("a", True), u("n", "T4")], [V("default", ["a", ("n", "tiny")]), V("tiny", ["a"])]),
        rt("U5", [i("x", True), s("y")], [V("default", ["x", "y"]), V("tiny", ["x"])]),
        rt("T5", [i("a", True), u("o", "U5"), u("p", "U5")], [V("default", ["a", ("o", "tiny"), ("p", "default")]), V("tiny", ["a"])]),
        rt("U6", [i("x", True), s("y")], [V("default", ["x", "y"]), V("tiny", ["x"])]),
        rt("T6", [i("a", True), dict(u("c", "U6"), view="tiny")], [V("default", ["a", ("c", "default")]), V("tiny", ["a"]), V("ext", ["a", "c"])]),
        rt("T7", [i("a", True), dict(s("d"), required=True)], [V("default", ["a", "d"]), V("tiny", ["a"])]),
        {"name": "T7Coll", "kind": "collection", "base": {"kind": "user", "ref": "T7"}},
        rt("U8", [i("x", True), s("y")], [V("default", ["x", "y"]), V("tiny", ["x"])]),
        rt("T8", [i("a", True), u("o", "U8"), u("p", "U8"), u("q", "U8"), u("r", "U8")],
           [V("default", ["a", ("o", "tiny"), ("p", "tiny"), ("q", "tiny"), ("r", "tiny")]), V("tiny", ["a"])]),
    ]


COLL = ("G3", "G7")
RES = {"G1": "T1", "G2": "T2", "G3": "T2Coll", "G4": "T4", "G5": "T5", "G6": "T6", "G7": "T7Coll", "G8": "T8"}
VIEWS = {"G1": ["default", "tiny"], "G2": ["default", "tiny", "ext"], "G3": ["default", "tiny", "ext"], "G4": ["default", "tiny"],
         "G5": ["default", "tiny"], "G6": ["default", "tiny", "ext"], "G7": ["default", "tiny"], "G8": ["default", "tiny"]}


def design(g):
    """one design per graph, so that a graph whose generated code does not compile (C01's business) is set aside alone"""
    need = {"G1": ["T1"], "G2": ["U2", "T2"], "G3": ["U2", "T2", "T2Coll"], "G4": ["T4"], "G5": ["U5", "T5"], "G6": ["U6", "T6"], "G7": ["T7", "T7Coll"], "G8": ["U8", "T8"]}[g]
    d = {"api": {"name": "views" + g.lower()}, "types": [t for t in types_design() if t["name"] in need], "services": []}
    if True:
        svc = {"name": g.lower(), "methods": []}

        def meth(name, fixed=None):
            m = {"name": name, "result": {"type": {"kind": "user", "ref": RES[g]}},
                 "http": {"routes": [{"verb": "GET", "path": "/%s/%s" % (g.lower(), name)}], "responses": [{"status": 200}]}}
            if fixed:
                m["resultView"] = fixed
            return m
        svc["methods"].append(meth("any"))
        for v in VIEWS[g]:
            svc["methods"].append(meth("fix" + v, v))
        d["services"].append(svc)
    return d


def value_from_paths(paths):
    root = {}
    for p in sorted(paths):
        cur = root
        parts = p.split(".")
        for k in parts[:-1]:
            cur = cur.setdefault(k, {})
        leaf = parts[-1]
        if leaf in ("a", "x") and True:
            cur.setdefault(leaf, 1 + len(parts))
        elif leaf in ("b", "y", "d"):
            cur.setdefault(leaf, leaf * 2)
        else:
            cur.setdefault(leaf, {})
    return root


def paths_of(obj, prefix="", zero_is_unset=False):
    """attribute paths that are set; on the Go side a required (non-pointer) field cannot be nil: its zero value
    is what "unset" looks like there (every value the check sends is non-zero)"""
    out = set()
    if isinstance(obj, dict):
        for k, v in obj.items():
            if v is None or (zero_is_unset and v in ("", 0, False)):
                continue
            p = prefix + k if not prefix else prefix + "." + k
            out.add(p)
            out |= paths_of(v, p, zero_is_unset)
    return out


def project_paths(val_obj, paths):
    """sub-object of val_obj restricted to `paths` (used to fabricate the foreign response body)"""
    def rec(o, prefix):
        r = {}
        for k, v in o.items():
            p = k if not prefix else prefix + "." + k
            if p in paths:
                r[k] = rec(v, p) if isinstance(v, dict) else v
        return r
    return rec(val_obj, "")


def scenario(v, sid):
    c = v["cfg"]
    g = c["g"]
    val = value_from_paths(v["val"])
    value = [val, val] if g in COLL else val
    meth = "Any" if c["fixed"] == "-" else "Fix" + c["fixed"]
    s = {"id": sid, "service": g.lower(), "method": meth, "outcome": {"kind": "result", "value": value, "view": "" if c["chosen"] == "bogus" else c["chosen"]}}
    if c["chosen"] == "bogus":
        body = project_paths(val, set(v["pred"]["wireKeys"]))
        s["rawResp"] = {"status": 200, "headers": {"Content-Type": ["application/json"], "Goa-View": ["bogus"]},
                        "body": json.dumps([body, body] if g in COLL else body)}
    return s


def observe(v, events):
    o = {"wire": None, "view": "none", "client": None, "cerr": "none", "status": 0}
    coll = v["cfg"]["g"] in COLL
    wr = hg.find(events, "wire_resp")
    if wr:
        w = wr[0]
        o["status"] = w["status"]
        h = {k.lower(): x for k, x in (w.get("headers") or {}).items()}
        o["view"] = (h.get("goa-view") or ["none"])[0]
        try:
            b = json.loads(w.get("body") or "null")
        except Exception:
            b = None
        if coll and isinstance(b, list):
            ps = [paths_of(e) for e in b]
            o["wire"] = sorted(ps[0]) if ps and all(p == ps[0] for p in ps) else "elements-differ"
        elif isinstance(b, dict):
            o["wire"] = sorted(paths_of(b))
    cr = hg.find(events, "client_return")
    if cr:
        c = cr[0]
        if c.get("err"):
            o["cerr"] = "error"
            o["cerr_msg"] = (c["err"].get("message") or "")[:200]
        else:
            r = c.get("res")
            if coll and isinstance(r, list):
                ps = [paths_of(e, zero_is_unset=True) for e in r]
                o["client"] = sorted(ps[0]) if ps and all(p == ps[0] for p in ps) else "elements-differ"
            elif isinstance(r, dict):
                o["client"] = sorted(paths_of(r, zero_is_unset=True))
    for bad in ("server_panic", "client_panic"):
        if hg.find(events, bad):
            o["panic"] = bad
    return o


def run(ctx):
    ctx.cov["rule"] = ("cases = (graph, view fixed in the design or chosen by the service incl. the empty and an undefined name, value) enumerated by TLC from "
                       "Views.tla; non-trivial = the view is a strict subset of the attributes or nesting is involved; distinct = canonical JSON")
    ctx.mc_expect_violation("mc/MC_Views", consts={"Deviations": '{"views.leak_all_attributes"}'}, label="MC dev")
    vectors = ctx.gen("mc/MC_Views", "gen/Gen_Views.cfg", label="Gen Views").vectors
    graphs = ["G1", "G2", "G3", "G4", "G5", "G6", "G7", "G8"]
    designs = [design(g) for g in graphs]
    pl = hg.Pipeline(ctx, "gen-views")
    pl.prepare(designs)
    bins = pl.build_runners(designs)
    for i, f in pl.failed.items():
        ctx.notes.append("graph %s set aside: its generated code does not compile (reported under C01): %s" % (graphs[i], str(f)[:400]))
    ctx.cov["graphs_set_aside"] = [graphs[i] for i in pl.failed]
    if len(pl.failed) >= 3:
        raise core.Infra("almost no views design compiles: %s" % pl.failed)
    scen, meta = {}, {}
    for n, v in enumerate(vectors):
        gi = graphs.index(v["cfg"]["g"])
        if gi in pl.failed:
            continue
        sid = "c%d" % n
        scen.setdefault(gi, []).append(scenario(v, sid))
        meta[sid] = v
    events = pl.run_all(bins, scen)
    nontrivial = set()
    for sid, v in meta.items():
        ctx.cov["evaluations"] += 1
        p, c = v["pred"], v["cfg"]
        if set(p["wireKeys"]) != set(v["val"]) or c["g"] != "G1":
            nontrivial.add(core.canon([c, v["val"]]))
        o = observe(v, events[sid])
        probs = []
        if o.get("panic"):
            probs.append(o["panic"])
        if c["chosen"] == "bogus":
            if o["cerr"] != "error":
                probs.append("client-accepted-undefined-view")
        else:
            if o["wire"] != sorted(p["wireKeys"]):
                probs.append("wire-attributes")
            if o["client"] != sorted(p["clientKeys"]):
                probs.append("client-attributes" if o["cerr"] == "none" else "client-error")
            hv = o["view"]
            if c["fixed"] == "-":
                if hv != p["viewHeader"]:
                    probs.append("goa-view-header:%s" % hv)
            elif hv not in ("none", c["fixed"]):
                probs.append("goa-view-header:%s" % hv)
        for pr in probs:
            ctx.violation("C08/%s/%s/%s" % (c["g"], "fixed" if c["fixed"] != "-" else "chosen:" + (c["chosen"] or "empty"), pr),
                          "%s: cfg %s value %s predicted %s observed %s" % (pr, json.dumps(c), v["val"], json.dumps(p), json.dumps(o)[:500]),
                          {"vector": v, "observed": o, "events": events[sid]})
        if not probs and ctx.cov["evaluations"] % 20 == 1:
            ctx.sample({"cfg": c, "val": v["val"], "observed": o})
    ctx.cov["distinct_nontrivial"] = len(nontrivial)
    ctx.cov["exhaustive"] = True


def replay(ctx, rp):
    print(json.dumps(rp["case"].get("vector"), indent=1)[:3000])
    return 0
