"""C14 - OpenAPI schemas accept exactly what the generated server accepts.
(M) the exchange part of OpenAPIOps.tla model-checked (request and response families; every named deviation must
break an invariant).  (G) every exchange TLC enumerates - the valid and boundary-invalid requests of C04, raw
requests no generated client sends (text of the wrong type, negative unsigned numbers, JSON null), the results of
C03 - is run through the REAL generated client -> tap -> generated server; the recorded wire request and response
are rebuilt and validated by kin-openapi openapi3filter against the generated openapi3.json; the verdict of the
schema, the decision of the server and the design's Valid are compared.  Declared-error responses come from the
C07 designs.  (J) all recorded exchanges are validated by TLC as a trace (Trace_OpenAPIOps, XTraceSpec)."""
import json, os, random
from vlib import core, httpcheck as hc, httpgen as hg, openapi_schema as osx, openapi_check as oc, openapi_gen as og

KNOWN_NESTS = ("direct", "alias", "nested", "elem", "mapkey", "mapval", "nested_mapkey", "nested_elem", "elem_nested", "mapval_nested", "mapkey_alias")   # XNests
DEDUP = "schema.dedup_ignores_validations"     # v3 components: a body type is replaced by a structurally equal one of another method
ALL = osx.ALLDEVS + [DEDUP]


def extra_known(ctx):
    p = os.environ.get("VERIF_KNOWN_EXTRA")
    if p and os.path.exists(p):
        import re
        for line in open(p):
            m = re.match(r"known:\s+property=(\S+)\s+key=(\S+)\s*(.*)$", line.strip())
            if m and m.group(1) == ctx.prop:
                ctx.known[m.group(2)] = m.group(3)


def devsets(K):
    K = frozenset(K)
    sets = {frozenset(), K}
    for d in K:
        sets.add(K - {d})
    for d in osx.ALLDEVS:
        sets.add(frozenset([d]))
        sets.add(K | {d})
    return sorted(sets, key=lambda s: (len(s), sorted(s)))


def xb(v):
    return any(a["rule"] in ("xmin", "xmax", "xrange") for a in v["pa"] + v["ra"])


def kin_blind(v):
    """Response values kin-openapi cannot judge: it reads an empty header value as 'no value' for every type."""
    for a, x in zip(v["ra"], v["rv"]):
        if a["loc"] in ("header", "cookie") and not hg.is_absent(x) and (x["s"] == "empty" or x["cn"] == 0 or (a["kind"] == "bytes" and x["n"] == 0)):
            return True        # (an empty byte string is an empty header value too)
    return False


def wire_ambiguous(v):
    """An empty list in a query string or header is nothing on the wire, and the generated client leaves an empty optional
    list / map / byte string out of the body: 'empty' and 'not set' cannot be told apart, while the design's rules for the
    two differ (MinLength applies to a set value only).  Such requests are not judged."""
    for a, x in zip(v["pa"], v["pv"]):
        if hg.is_absent(x):
            continue
        container = a["nest"] not in ("direct", "alias", "nested")
        if container and x["cn"] == 0 and (a["loc"] in ("query", "header") or a["mode"] != "required"):
            return True
        if a["kind"] == "bytes" and x["n"] == 0 and a["mode"] != "required":
            return True
    return False


def val_class(a, v):
    if hg.is_absent(v):
        return "absent"
    return "%s%s" % (v["s"], ":cn%d" % v["cn"] if a["nest"] not in ("direct", "alias", "nested") else "")


def req_matches(mechs, so, inv):
    return any(so in m["sreq"] and m["invoked"] == inv for m in mechs)


def resp_matches(mechs):
    return any(m["invoked"] and False in m["sresp"] for m in mechs)


def attribute(table, v, K, pred):
    """Named deviations that explain an observed disagreement: `pred(mechs)` says whether a set of predicted mechanisms shows it."""
    k = osx.xkey(v)
    get = lambda s: table.get((k, frozenset(s)), [])
    if pred(get(K)):
        keys = [d for d in sorted(K) if not pred(get(K - {d}))]
        return keys or [d for d in sorted(K) if pred(get({d}))][:1] or sorted(K)[:1]
    for d in osx.ALLDEVS:
        if d not in K and pred(get(K | {d})):
            return [d]
    for d in osx.ALLDEVS:
        if pred(get({d})):
            return [d]
    return []


def judge(ctx, fam, cases, verd, K, nontrivial, pending, traces):
    for c in cases:
        v, o = c["v"], c["obs"]
        sv = verd.get(c["id"])
        if sv is None:
            continue
        if sv["req"] == "unloadable":
            ctx.cov["skipped_unloadable_document"] = ctx.cov.get("skipped_unloadable_document", 0) + 1
            continue
        if o["anomalies"]:
            ctx.violation("C14/anomaly/" + ",".join(o["anomalies"]), "exchange %s: %s" % (c["id"], o["anomalies"]), hc.short_case(c))
            continue
        ctx.cov["evaluations"] += 1
        a = (v["pa"] if fam == "req" else v["ra"])[0]
        val = (v["pv"] if fam == "req" else v["rv"])[0]
        if a["rule"] != "none" or a["loc"] != "body" or v.get("raw") or a["mode"] != "required":
            nontrivial.add(core.canon([fam, v["pa"], v["pv"], v["ra"], v["rv"], v.get("flag")]))
        so, inv = sv["req"] == "ok", o["invoked"]
        al = v["allow"]
        blind = kin_blind(v)
        if wire_ambiguous(v):
            ctx.cov["not_judged_wire_ambiguous"] = ctx.cov.get("not_judged_wire_ambiguous", 0) + 1
            continue
        if not blind:
            traces.setdefault((len(v["pa"]), len(v["ra"])), []).append((c["id"], osx.trace_lines(v, o, sv)))
        if so != inv or (al["mustInvoke"] and not so) or (al["mustReject"] and so):
            what = "schema-accepts/server-rejects" if so and not inv else ("schema-rejects/server-accepts" if inv and not so else
                                                                           ("both-accept-invalid" if so else "both-reject-valid"))
            pending.append((fam, "req", c, sv, what))
        if not blind and inv and 200 <= o["status"] < 300 and al["cMustAccept"] and sv["resp"] == "invalid":
            pending.append((fam, "resp", c, sv, "valid-response-not-conforming"))
        if ctx.cov["evaluations"] % 997 == 1:
            ctx.sample({"fam": fam, "pa": v["pa"], "pv": v["pv"], "rv": v["rv"], "uri": o.get("uri"), "schema_req": sv["req"], "invoked": inv,
                        "status": o["status"], "schema_resp": sv["resp"]})


def run(ctx):
    quick = ctx.quick()
    extra_known(ctx)
    # (DEDUP is a defect of a whole design, not of an exchange: it is never assumed when an exchange is explained or its
    #  trace validated - a body disagreement nothing else explains is re-run in a design of its own, and only if it is gone
    #  there is it filed under DEDUP)
    K = frozenset(d for d in ALL if d in ctx.known and d != DEDUP)
    ctx.cov["rule"] = ("cases = exchanges (method shape, value vector) enumerated by TLC: the request family of C04 plus raw requests (wrong-type text, negative "
                       "unsigned, JSON null), the result family of C03, and declared-error responses of the C07 designs; each run through the generated client/"
                       "server and validated by kin-openapi against the generated openapi3.json; non-trivial = attribute outside the body, optional/defaulted, with "
                       "a rule, or a raw request; distinct = canonical JSON of (shapes, values)")
    ctx.assumptions += ["kin-openapi (openapi3filter, routers/legacy) is the schema oracle; examples are not validated; several header field lines are handed to it as one "
                        "comma-joined line (RFC 9110 5.3); it reads an empty response header value as 'no value' for every type: such responses are not judged",
                        "documents kin-openapi cannot load are reported by C07 and skipped here",
                        "responses are judged when the service's result satisfies the design (the server does not validate results)",
                        "JSON bodies only"]
    # (M) the Gen runs below check the same invariants while emitting the exchanges; every deviation must break one
    guards = [(d, "req") for d in osx.XDEVS[:7]] + [("schema.response_cookie_value_schema", "res"), ("response.header_array_joined", "res"),
                                                     (DEDUP, "req")]
    if not quick:
        guards += [(d, "req") for d in ("param.empty_string_is_absent", "validate.absent_collection_length", "mux.double_unescape")]
    import concurrent.futures as cf
    nshapes = int(os.environ.get("VERIF_SHAPES") or (130 if quick else 100000))     # method shapes per family
    nontrivial, pending, traces = set(), [], {}
    nrand = int(os.environ.get("VERIF_RANDOM") or (60 if quick else 1500))
    ex = cf.ThreadPoolExecutor(max_workers=4)
    gs = [ex.submit(ctx.mc_expect_violation, "mc/MC_OpenAPIOps", "mc/MC_OpenAPIOps_schema.cfg", workers=2,
                    consts={"Family": '"%s"' % fam, "Deviations": '{"%s"}' % d}, label="MC dev " + d, timeout=900) for d, fam in guards]
    # (G) quick: a sample of the method shapes (all pairs of features covered), every value of each; thorough: everything
    def family(fam):
        if quick:
            return osx.gen_vectors(ctx, fam, workers=3, shapes=osx.sample_shapes(osx.gen_shapes(ctx, fam), nshapes, ctx.seed))
        return osx.gen_vectors(ctx, fam, workers=6)
    ex2 = cf.ThreadPoolExecutor(max_workers=4)
    gens = {fam: ex2.submit(family, fam) for fam in ("req", "res")}
    # (J) random exchanges beyond the enumeration: two attributes per method, drawn by TLC in simulation mode
    rands = [(fam, ex2.submit(osx.gen_vectors, ctx, fam, None, 1, npa, nra, nrand)) for fam, npa, nra in (("req", 2, 1), ("res", 1, 2))]
    groups = []
    for fam in ("req", "res"):
        vectors = gens[fam].result()
        rd = [v for v in vectors if v.get("flag") in osx.RD]
        vectors = [v for v in vectors if v.get("flag") not in osx.RD]
        groups.append((fam, [v for v in vectors if not xb(v)]))
        groups.append((fam, [v for v in vectors if xb(v)]))         # designs of their own: their documents may not load
        groups.append((fam, rd))       # Required + Default attributes: designs of their own, so that no structurally equal body type of
        #                                another method can stand in for theirs (schema.dedup_ignores_validations)
    for fam, fut in rands:
        # (the nestings this check knows; a `whole` payload cannot sit next to a second attribute)
        rv = [v for v in fut.result() if all(a["nest"] in KNOWN_NESTS for a in v["pa"] + v["ra"])]
        groups.append((fam, [v for v in rv if not xb(v)]))
        groups.append((fam, [v for v in rv if xb(v)]))
    # two-attribute methods assembled from the enumerated exchanges (TLC computes their oracle and mechanism): the bodies of
    # half of them are a proper part of the (every other time: named) payload / result type
    npairs = int(os.environ.get("VERIF_PAIRS") or (160 if quick else 3000))
    for fam, npa, nra in (("req", 2, 1), ("res", 1, 2)):
        pv2 = osx.gen_xcases(ctx, fam, osx.pair_cases(gens[fam].result(), npairs, ctx.seed, fam), npa, nra)
        pv2 = [v for v in pv2 if all(a["nest"] in KNOWN_NESTS for a in v["pa"] + v["ra"])]
        groups.append((fam, [v for v in pv2 if not xb(v)]))
        groups.append((fam, [v for v in pv2 if xb(v)]))
    # schema.dedup_ignores_validations on purpose: two methods whose bodies differ in their validations only, in one design
    twins = [{"kind": "int", "loc": "body", "mode": "required", "rule": r, "nest": "direct"} for r in ("min", "none")]
    groups.append(("req", osx.gen_vectors(ctx, "req", label="Gen exchanges req (dedup twins)", workers=1, shapes=twins), {"together": True}))
    ex2.shutdown()
    cases, pl = osx.run_exchanges(ctx, [g for g in groups if g[1]])
    verd = osx.verdicts_for(ctx, cases, pl)
    for fam in ("req", "res"):
        judge(ctx, fam, [c for c in cases if c["tag"] == fam], verd, K, nontrivial, pending, traces)
    for i, f in sorted(pl.failed.items()):
        ctx.notes.append("design d%d not usable: %s" % (i, str(f)[:200]))
        ctx.log("design d%d not usable: %s" % (i, str(f)[:600]))
    # name the disagreements
    table = osx.xevaluate(ctx, [c["v"] for _, _, c, _, _ in pending], devsets(K))
    unexplained = []
    for fam, side, c, sv, what in pending:
        v, o = c["v"], c["obs"]
        if side == "req":
            so, inv = sv["req"] == "ok", o["invoked"]
            keys = attribute(table, v, K, lambda ms: req_matches(ms, so, inv))
        else:
            keys = attribute(table, v, K, resp_matches)
        if keys:
            report(ctx, fam, side, c, sv, what, keys)
        else:
            unexplained.append((fam, side, c, sv, what))
    # two deviations may meet in one exchange (e.g. a sanitized cookie value that becomes empty)
    if unexplained:
        pairs = [K | {a, b} for i, a in enumerate(osx.ALLDEVS) for b in osx.ALLDEVS[i + 1:]]
        t2 = osx.xevaluate(ctx, [c["v"] for _, _, c, _, _ in unexplained], pairs, label="XEval pairs")
        still = []
        for fam, side, c, sv, what in unexplained:
            v, o = c["v"], c["obs"]
            so, inv = sv["req"] == "ok", o["invoked"]
            pred = (lambda ms: req_matches(ms, so, inv)) if side == "req" else resp_matches
            hit = next((ps for ps in pairs if pred(t2.get((osx.xkey(v), frozenset(ps)), []))), None)
            if hit:
                report(ctx, fam, side, c, sv, what, sorted(hit - K))
            else:
                still.append((fam, side, c, sv, what))
        unexplained = still
    # a disagreement no deviation of the exchange explains may come from the other methods of the design: run the shape alone
    shapes, keep = set(), []
    for it in unexplained:            # cost is per method shape (one design each): bound the shapes, not the exchanges
        k = hg.shape_key(it[2]["v"])
        if k in shapes or len(shapes) < (80 if quick else 600):
            shapes.add(k)
            keep.append(it)
    unexplained = keep + [it for it in unexplained if hg.shape_key(it[2]["v"]) not in shapes]
    solo = confirm_alone(ctx, keep)
    ctx.log("%d disagreements, %d not explained by a deviation of the exchange; %d of them re-run alone (%d shapes), %d gone when alone" % (
        len(pending), len(unexplained), len(keep), len(shapes), sum(1 for x in solo.values() if x)))
    dedup_ids = set()
    for n, (fam, side, c, sv, what) in enumerate(unexplained):
        gone = solo.get(n)
        if gone:
            dedup_ids.add(c["id"])
        # the recorded finding is about structurally equal bodies that differ in their validations: only the twins design is
        # packed that way.  A disagreement that disappears when the method is alone ANYWHERE ELSE is some other interference
        # between the methods of a design (e.g. bodies that differ below the top level sharing one schema): not recorded.
        if gone and not c["v"].get("together"):
            v = c["v"]
            attrs, vals = (v["pa"], v["pv"]) if fam == "req" else (v["ra"], v["rv"])
            tag = "+".join("%s/%s" % (hc.attr_tag(a), val_class(a, x)) for a, x in zip(attrs, vals))
            ctx.violation("C14/%s/%s/%s/only-beside-other-methods" % (side, tag, what),
                          "%s attribute(s) %s: %s in the packed design, gone when the method is generated alone: another method of the design "
                          "interferes with its documented schema although no two bodies of the design are structurally equal (uri %s, schema req=%s resp=%s)" % (
                              "request" if fam == "req" else "result", " + ".join(hc.attr_tag(a) for a in attrs), what, c["obs"].get("uri"), sv["req"], sv["resp"]),
                          {"vector": {k: v[k] for k in ("fam", "pa", "ra", "tagged", "pv", "rv", "flag") if k in v}, "schema": {k: sv.get(k) for k in ("req", "resp", "err", "rerr")},
                           "alone": gone, "design": c.get("design")})
            continue
        report(ctx, fam, side, c, sv, what, [DEDUP] if gone else [], alone=gone)
    # declared-error responses (C07 designs of the response family)
    err_traces = error_responses(ctx, K, quick)
    ctx.cov["distinct_nontrivial"] = len(nontrivial)
    for g in gs:          # the vacuity guards ran beside the pipeline
        g.result()
    ex.shutdown()
    # (J) trace validation
    traces = {ar: [l for cid, ls in items if cid not in dedup_ids for l in ls] for ar, items in traces.items()}
    traces.setdefault((1, 1), []).extend(err_traces)
    nlines = 0
    for (npa, nra), lines in sorted(traces.items()):
        nlines += len(lines)
        for n, line, ctxline in validate(ctx, lines, K, npa, nra):
            ctx.cov.setdefault("trace_rejections", []).append({"line": n, "ev": line.get("ev"), "arity": [npa, nra]})
            ctx.violation("C14/trace/%s" % line.get("ev"), "trace line %d rejected by Trace_OpenAPIOps (XTraceSpec): %s after %s" % (
                n, json.dumps(line)[:200], json.dumps(ctxline)[:300]), {"line": line, "reset": ctxline})
    ctx.cov["traces_validated_against_impl"] += nlines
    if ctx.selftest or not quick:
        selftest(ctx, traces[(1, 1)], K)


def report(ctx, fam, side, c, sv, what, keys, alone=None):
    v, o = c["v"], c["obs"]
    attrs, vals = (v["pa"], v["pv"]) if fam == "req" else (v["ra"], v["rv"])
    flag = v.get("flag", "none")
    desc = "%s attribute(s) %s value(s) %s%s: %s (uri %s, server %s/%s, schema req=%s resp=%s)" % (
        "request" if fam == "req" else "result", " + ".join(hc.attr_tag(a) for a in attrs), " + ".join(hc.val_tag(x) for x in vals),
        " [%s]" % flag if flag != "none" else "", what, o.get("uri"), o["status"], o["errname"], sv["req"], sv["resp"])
    case = {"vector": {k: v[k] for k in ("fam", "pa", "ra", "tagged", "pv", "rv", "flag", "raw", "allow") if k in v}, "observed": {k: o[k] for k in ("invoked", "status", "errname", "uri")},
            "schema": {k: sv.get(k) for k in ("req", "resp", "err", "rerr")}, "events": c["events"], "alone": alone}
    if not keys:
        tag = "+".join("%s/%s" % (hc.attr_tag(a), val_class(a, x)) for a, x in zip(attrs, vals))
        keys = ["C14/%s/%s%s/%s" % (side, tag, "+" + flag if flag != "none" else "", what)]
        ctx.violation(keys[0], desc, case)
        return
    for k in keys:
        ctx.violation(k, "[named deviation] " + desc, case)


def confirm_alone(ctx, items):
    """Re-run the exchanges of `items` each in a design of its own; returns {index: True when the disagreement is gone}."""
    out = {}
    if not items:
        return out
    groups = {}
    for n, (fam, side, c, sv, what) in enumerate(items):
        groups.setdefault(fam, []).append((n, side, c))
    for fam, its in groups.items():
        vs = [c["v"] for _, _, c in its]
        cases, pl = osx.run_exchanges(ctx, [(fam, vs)], per_design=1, name="gen-solo-" + fam)
        verd = osx.verdicts_for(ctx, cases, pl)
        byid = {c["id"]: c for c in cases}
        for pos, (n, side, c0) in enumerate(its):
            c = byid.get("c%d" % pos)
            sv = verd.get("c%d" % pos) if c else None
            if not c or not sv or sv["req"] == "unloadable":
                continue
            if side == "req":
                out[n] = (sv["req"] == "ok") == c["obs"]["invoked"]
            else:
                out[n] = sv["resp"] != "invalid"
    return out


def error_responses(ctx, K, quick):
    """Declared-error responses: the C07 designs of the response family, probed; every error response validated."""
    small = oc.enumerate_designs(ctx, "resps")
    rnd = random.Random(ctx.seed)
    if quick:
        small = [d for d in small if rnd.random() < 0.4]
    designs = og.pack(small, meths_per_svc=12)
    for i, d in enumerate(designs):
        d["id"], d["devs"] = "e%d" % i, []
    evals = oc.evaluate(ctx, designs, [frozenset()], label="Eval error designs")
    effs = [oc.eff_map(d, evals[(d["id"], frozenset())]) for d in designs]
    res = oc.run_designs(ctx, designs, effs, name="gen-c14-errors")
    by = {}
    for i, evs in res.probe_events.items():
        for k, ev in evs.items():
            if "#err:" in k or k.endswith("#full") or k.endswith("#tag"):
                x = osx.exchange_of(k, ev)
                if x and "resp" in x:
                    by.setdefault(i, []).append(x)
    verd = osx.schema_verdicts(ctx, res.pl.root, by)
    lines = []
    for k, sv in sorted(verd.items()):
        if sv["req"] == "unloadable":
            continue
        ctx.cov["evaluations"] += 1
        iserr = "#err:" in k
        status = None
        for i, xs in by.items():
            for x in xs:
                if x["id"] == k:
                    status = x["resp"]["status"]
        if iserr:
            lines.append({"ev": "xerr", "status": status, "sresp": sv["resp"]})
        if sv["resp"] != "invalid":
            continue
        undocumented = sv.get("respCT") not in (sv.get("docCTs") or [])
        if iserr and undocumented:
            key = "schema.error_response_media_type"
        else:
            key = "C14/%s-response/%s/%s" % ("error" if iserr else "success", status, "media-type" if undocumented else "content")
        ctx.violation(key, ("[named deviation] " if key.startswith("schema.") else "") + "design probe %s: response %s sent as %s, documented %s: %s" % (
            k, status, sv.get("respCT"), sv.get("docCTs"), (sv.get("rerr") or "")[:160]), {"probe": k, "verdict": sv})
    return lines


def validate(ctx, lines, K, npa=1, nra=1, maxfail=8):
    """Batch trace validation; returns [(line number, rejected line, its xreset line)]."""
    rejected, rest, base = [], list(lines), 0
    while rest and len(rejected) < maxfail:
        d = ctx.subdir("trace")
        p = os.path.join(d, "trace.ndjson")
        open(p, "w").write("".join(json.dumps(l) + "\n" for l in rest))
        ok, hwm, r = ctx.trace_validate("trace/Trace_OpenAPIOps", "trace/Trace_OpenAPIOps_schema.cfg", p,
                                        consts={"Deviations": oc.tla_set(K), "NPA": npa, "NRA": nra},
                                        label="xtrace-%dx%d-%d" % (npa, nra, len(rejected) + 1), timeout=1500)
        if ok:
            break
        if hwm is None:
            raise core.Infra("trace validation produced no high-water mark:\n" + r.stdout[-2000:])
        bad = rest[hwm - 1]
        prev = rest[hwm - 2] if hwm >= 2 else None
        rejected.append((base + hwm, bad, prev))
        base += hwm
        rest = rest[hwm:]
    return rejected


def selftest(ctx, lines, K):
    """Binding: flip one recorded verdict of an accepted exchange -> TLC must stop exactly there."""
    def plain(n):
        r = lines[n - 1]
        return (lines[n]["ev"] == "xverdict" and lines[n]["sreq"] == "ok" and lines[n]["invoked"] and r.get("ev") == "xreset" and r["flag"] == "none"
                and r["pa"][0]["rule"] == "none" and r["pa"][0]["nest"] == "direct" and r["pa"][0]["loc"] in ("query", "header") and r["pa"][0]["mode"] == "required"
                and r["pa"][0]["kind"] not in ("string", "bytes", "any")      # (no recorded deviation blurs the verdict on such a value)
                and all(x["cls"] != "absent" and x["s"] == "plain" and x["n"] > 0 for x in r["pv"]))
    target = next((n for n in range(21, len(lines)) if plain(n)), None)
    if target is None:
        raise core.Infra("trace self-test: no plain accepted exchange in the trace")
    ls = [json.loads(json.dumps(l)) for l in lines[:target + 3]]
    ls[target]["sreq"] = "invalid"
    d = ctx.subdir("selftest")
    p = os.path.join(d, "trace.ndjson")
    open(p, "w").write("".join(json.dumps(l) + "\n" for l in ls))
    ok, hwm, _ = ctx.trace_validate("trace/Trace_OpenAPIOps", "trace/Trace_OpenAPIOps_schema.cfg", p, consts={"Deviations": oc.tla_set(K)}, label="selftest")
    r = {"corrupted_line": target + 1, "rejected_at": hwm, "ok": (not ok and hwm == target + 1)}
    ctx.cov.setdefault("trace_selftests", []).append(r)
    if not r["ok"]:
        raise core.Infra("trace self-test failed: corrupted line %d, TLC stopped at %s" % (target + 1, hwm))


def replay(ctx, rp):
    case = rp["case"]
    v = case.get("vector")
    if not v:
        print(json.dumps(case, indent=1)[:3000])
        return 0
    fam = v.get("fam", "req")
    cases, pl = osx.run_exchanges(ctx, [(fam, [v])], per_design=1, name="gen-replay")
    verd = osx.verdicts_for(ctx, cases, pl)
    rc = 0
    for c in cases:
        sv = verd.get(c["id"])
        print("uri %s  server: invoked=%s status=%s/%s   schema: req=%s resp=%s %s" % (c["obs"].get("uri"), c["obs"]["invoked"], c["obs"]["status"], c["obs"]["errname"],
                                                                                   sv["req"], sv["resp"], (sv.get("err") or sv.get("rerr") or "")[:200]))
        if (sv["req"] == "ok") != c["obs"]["invoked"] or (c["obs"]["invoked"] and v["allow"]["cMustAccept"] and sv["resp"] == "invalid"):
            print("VIOLATION property=C14 replay=(replayed)")
            rc = 1
    return rc
