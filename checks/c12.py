"""C12 - any DSL program yields a design or located errors, never a crash; dangling references are not accepted.

(M) DSLProgram.tla (pushdown automaton over the public DSL, context table transcribed from the doc comments,
    declarative Dangling predicate, outcome machine) is model-checked; every named deviation is shown to bite.
(G) TLC enumerates (small function sets) and simulates (the full 120-function table, documented and odd argument
    shapes, misplaced calls; focused walks with a fixed spine around one kind of reference each: mappings, tags, views,
    error responses, gRPC messages, security scopes, recursive user types under gRPC / HTTP transports, parent / child services) programs and
    prints each with what the specification says about it; a seed corpus (vlib/c12_seeds.py) is read the same way; dslhost executes
    every program literally on the real dsl/eval/expr packages, one program per child process with a wall-clock
    limit; the observed outcome must be one the specification allows.
(J) dslhost derives further programs by seeded mutation (splicing, token replacement, misplaced fresh calls,
    duplicated declarations); the log [program, evaluate, handoff] of ALL executions is validated by TLC against
    Trace_DSLProgram.tla, which recomputes Dangling(program) and the crash classes itself.
Accepted (non-gRPC) programs are handed to generator "gen" + `go build` (property C01's concern: recorded in the
evidence under C01-style keys, not judged here).
Every failing case is minimised on the real code before it is keyed."""
import json, os, shutil, subprocess, threading, concurrent.futures as cf
from vlib import core, c12_prog as cp, c12_seeds

LEVEL = "model_checking"

# deviation -> (functions, MaxCalls, MaxMisplaced, Pools) of the smallest exhaustive model in which it must produce a counterexample
DEVS = {
    "crash.server_outside_api": (["Service", "Server"], 2, 1, "tiny"),
    "crash.security_no_args": (["Service", "Security"], 2, 0, "small"),
    "crash.iscompatible_nil": (["Type", "Default"], 2, 0, "small"),
    "crash.nil_dsl_in_wrapper": (["Type", "Field"], 2, 0, "small"),
    "crash.extend_reference_nil": (["Type", "Extend"], 2, 0, "small"),
    "crash.service_redefined_nil_dsl": (["Service"], 2, 0, "small"),
    "crash.response_attr_not_in_view": (["Result", "View", "Response", "Header"], 4, 4, "tiny", "simulate"),
    "crash.base_cycle": (["Type", "Extend"], 2, 0, "tiny"),
    "crash.cookie_attribute_without_cookie": (["Service", "CookieSecure"], 2, 1, "tiny"),
    "crash.mapped_attribute_empty_dsl": (["Service", "Metadata"], 2, 1, "tiny"),
    "crash.unknown_view_on_result_type": (["ResultType", "View"], 2, 0, "tiny"),
    "crash.extend_collection": (["ResultType", "Extend"], 2, 0, "small"),
    "crash.error_response_headers_undeclared_error": (["Service", "HTTP", "Response", "Header"], 4, 0, "tiny"),
    "crash.grpc_message_empty_dsl": (["Service", "Message"], 2, 1, "tiny"),
    "crash.grpc_message_attr_not_in_payload": (["Service", "Message", "Attribute"], 3, 1, "min"),
    "crash.body_empty_dsl": (["Service", "Body"], 2, 1, "min"),
    "crash.base_cycle_tag_lookup": (["Type", "Extend", "Service", "Method"], 4, 0, "tiny", "simulate"),
    "crash.meta_without_value": (["Type", "Meta"], 2, 0, "tiny"),
    "crash.api_grpc_error_response": (["API", "GRPC", "Response"], 3, 0, "tiny"),
    "crash.grpc_response_message_empty_dsl": (["API", "GRPC", "Response", "Message"], 4, 0, "tiny"),
    "crash.enum_default_uncomparable": (["Type", "Attribute", "Enum", "Default"], 4, 0, "tiny", "simulate"),
    "crash.extend_cycle_through_attribute": (["Type", "Attribute", "Extend"], 3, 0, "tiny"),
    "crash.parent_cycle": (["Service", "HTTP", "Parent"], 3, 0, "tiny"),
    "accept.scope": (["Service", "Method", "Security", "Scope"], 4, 0, "tiny"),
    # (a constellation of a dozen calls: random walks need the spine of the focused walk to reach it)
    "accept.response_view_mapping": (["ResultType", "Attributes", "Attribute", "View", "Service", "Method", "Result", "HTTP", "Response", "Header"], 14, 0, "rv", "simulate",
                                     {"Once": '{"ResultType", "Attributes", "Service", "Method", "Result", "HTTP", "Response"}', "SpineDeep": "TRUE", "MinKids": 1, "MinCalls": 10}),
    "accept.body_attribute": (["Service", "Method", "HTTP", "Body", "Attribute"], 5, 0, "min", "simulate"),
    "accept.response_tag": (["Service", "Method", "HTTP", "Response", "Tag"], 5, 0, "min", "simulate"),
    "accept.request_mapping": (["Service", "Method", "HTTP", "Param"], 4, 0, "tiny"),
    "accept.response_mapping": (["Service", "Method", "HTTP", "Response", "Header"], 5, 0, "tiny", "simulate"),
    "accept.grpc_mapping": (["Service", "Method", "GRPC", "Message", "Attribute"], 5, 0, "tiny"),
    "accept.scheme": (["Service", "Security"], 2, 0, "tiny"),
    "accept.view": (["ResultType", "View", "Attribute"], 3, 0, "tiny"),
    "accept.error_response": (["Service", "HTTP", "Response"], 3, 0, "tiny"),
    "report.unnamed": (["Service"], 1, 0, "tiny"),
    "handoff.fails": (["Service"], 1, 0, "tiny"),
}
SMALL = {"MinCalls": 1, "MaxDepth": 5, "MaxTop": 2, "MinKids": 0}


def tla_set(xs):
    return "{" + ", ".join('"%s"' % x for x in xs) + "}"


def lock_subdir(ctx):
    """ctx.subdir is not thread safe; TLC runs are started from threads here."""
    if getattr(ctx, "_c12_locked", False):
        return
    lock, orig = threading.Lock(), ctx.subdir

    def locked(name):
        with lock:
            return orig(name)
    ctx.subdir = locked
    ctx._c12_locked = True


# ------------------------------------------------------------------ (M)
def model_check(ctx, quick):
    ctx.mc("mc/MC_DSLProgram", label="MC 12 functions, 3 calls")
    if not quick:
        ctx.mc("mc/MC_DSLProgram", label="MC 12 functions, 4 calls", timeout=1500, consts={"MaxCalls": 4, "MaxDepth": 4})

    def one(dev):
        fns, calls, mis, pools = DEVS[dev][:4]
        consts = dict(SMALL, Fns=tla_set(fns), MaxCalls=calls, MaxMisplaced=mis, Pools='"%s"' % pools, Deviations='{"%s"}' % dev)
        if len(DEVS[dev]) > 4:      # the exhaustive model is large: random walks reach the counterexample at once
            consts = dict(consts, MinCalls=calls)
            if len(DEVS[dev]) > 5:
                consts.update(DEVS[dev][5])
            ctx.mc_expect_violation("mc/MC_DSLProgram", consts=consts, label="dev " + dev, workers=2, simulate=200000, depth=120, timeout=300)
        else:
            ctx.mc_expect_violation("mc/MC_DSLProgram", consts=consts, label="dev " + dev, workers=2, timeout=300)
    with cf.ThreadPoolExecutor(max_workers=8) as ex:
        list(ex.map(one, sorted(DEVS)))


# ------------------------------------------------------------------ (G) generation
def generate(ctx, quick):
    """TLC-generated programs with the specification's reading of each: [{"nodes", "dangling", "triggers", ...}]."""
    runs = [("gen/Gen_DSLProgram_http.cfg", None, "Gen exhaustive http", {"MaxCalls": 6} if quick else {"MaxCalls": 7, "MinCalls": 5})]
    if not quick:
        runs += [("gen/Gen_DSLProgram_resp.cfg", None, "Gen exhaustive resp"), ("gen/Gen_DSLProgram_types.cfg", None, "Gen exhaustive types")]
    nsim = (60, 60, 60) if quick else (1400, 1000, 1000)      # traces per worker (TLC runs one simulation per worker)
    runs += [("gen/Gen_DSLProgram_sim.cfg", nsim[0], "Gen simulate full table"),
             ("gen/Gen_DSLProgram_doc.cfg", nsim[1], "Gen simulate documented shapes"),
             ("gen/Gen_DSLProgram_refs.cfg", nsim[2], "Gen simulate reference-rich")]
    # focused walks: a fixed spine (one service, method, transport block, payload/result) and a handful of functions around one kind of reference
    # (sec: security requirements with several scopes; rec / rech: user types that reach themselves through attributes, arrays, maps and
    # Extend, used by a method with a gRPC / an HTTP transport; par: up to three services naming each other as Parent, canonical methods
    # with and without routes, relative / parameterised / absolute paths; rview: a result type with two views, a method that renders a named
    # view or any, response headers / cookies / bodies naming attributes inside and outside the rendered view)
    for name in ("map", "err", "body", "tag", "grpc", "view", "sec", "rec", "rech", "par", "rview"):
        runs.append(("gen/Gen_DSLProgram_%s.cfg" % name, 100 if quick else 1000, "Gen simulate focused " + name))

    def one(r):
        cfg, sim, label = r[:3]
        kw = dict(label=label, timeout=2400, heap="6g")
        if len(r) > 3:
            kw["consts"] = r[3]
        if sim:
            kw.update(simulate=sim, depth=200)
        return ctx.gen("mc/MC_DSLProgram", cfg, **kw).vectors
    vectors, seen = [], set()
    with cf.ThreadPoolExecutor(max_workers=4) as ex:
        for vs in ex.map(one, runs):
            for v in vs:
                k = core.canon(v["nodes"])
                if k not in seen:
                    seen.add(k)
                    vectors.append(v)
    vectors.sort(key=lambda v: core.canon(v["nodes"]))      # TLC's workers print in no particular order; ids and mutants must not depend on it
    return vectors


# ------------------------------------------------------------------ judging
def allowed_by_prediction(pred, res):
    """The specification's Allowed(program, outcome) with Deviations = {} on the emitted reading of the program."""
    o = res["outcome"]
    if o == "accepted":
        return not pred["dangling"]
    if o == "rejected":
        return res["nErrs"] >= 1 and res["allNamed"]
    return False


def classify(ctx, programs, label="classify"):
    """TLC's reading (dangling kinds, crash classes) of arbitrary programs: {id: vector}."""
    if not programs:
        return {}
    text = "".join(json.dumps({"id": p["id"], "nodes": p["nodes"]}) + "\n" for p in programs)
    r = ctx.tlc("mc/MC_DSLProgram_Classify", "mc/MC_DSLProgram_Classify.cfg", workers=1, files={"programs.ndjson": text}, label=label, timeout=1800)
    if r.violated:
        raise core.Infra("classification run failed: %s" % r.stdout[-1500:])
    out = {v["id"]: v for v in r.vectors}
    for p in programs:
        if p["id"] not in out or not out[p["id"]]["wf"]:
            raise core.Infra("program %s is not a program of DSLProgram.tla (tables disagree?): %s" % (p["id"], json.dumps(p["nodes"])[:400]))
    return out


def report(ctx, host, suspects, known):
    """Minimise one representative per failure signature on the real code, let TLC read the minimal program, key it."""
    groups = {}
    for l in suspects:
        sig = cp.signature(l["res"])
        if l["res"]["outcome"] == "accepted":
            sig = ("accepted-dangling", ",".join(sorted(l.get("dangling") or ["?"])))
        groups.setdefault(sig, []).append(l)
    ctx.cov["failure_signatures"] = {"%s %s" % k: len(v) for k, v in groups.items()}
    minimal = []
    for sig, ls in sorted(groups.items(), key=lambda kv: -len(kv[1]))[:40]:
        l = min(ls, key=lambda x: len(x["prog"]["nodes"]))
        if sig[0] == "accepted-dangling":
            # keep the dangling reference while shrinking: the candidate must stay accepted AND dangling of the same kind
            m = minimise_dangling(ctx, host, l["prog"]["nodes"], set(l.get("dangling") or []))
        else:
            m = cp.minimise(host, l["prog"]["nodes"], lambda r, s=sig: cp.signature(r) == s)
        minimal.append((sig, l, m, len(ls)))
    cls = classify(ctx, [{"id": i, "nodes": m} for i, (_, _, m, _) in enumerate(minimal)], label="classify-minimal")
    again = host.run([{"id": i, "nodes": m} for i, (_, _, m, _) in enumerate(minimal)], label="confirm")
    for i, (sig, l, m, n) in enumerate(minimal):
        res = again[i]["res"]            # re-confirmed alone, on the minimal program
        c = cls[i]
        skey = cp.structure_key(m)
        case = {"program": {"id": 1, "nodes": m}, "observed": {k: res.get(k) for k in ("outcome", "stage", "nErrs", "allNamed", "panic", "errors")},
                "original_program": l["prog"], "spec_reading": {"dangling": c["dangling"], "triggers": c["triggers"]}, "occurrences": n,
                "stack": (res.get("stack") or "")[:2500]}
        text = "%s on\n%s" % (describe(res), cp.render(m))
        if res["outcome"] in ("panic", "timeout") and c["triggers"]:
            # the crash classes of DSLProgram.tla the minimal program falls in (a repaired defect that returns is recognisable by its name)
            text = "[classes: %s] %s" % (", ".join(sorted(c["triggers"])), text)
        if res["outcome"] in ("panic", "timeout"):
            cand = [d for d in sorted(c["triggers"]) if d in known]
            key = cand[0] if cand else "C12/%s/%s/%s" % (res["outcome"], res.get("stage") or "-", skey)
        elif res["outcome"] == "accepted":
            if not c["dangling"]:
                raise core.Infra("minimisation lost the dangling reference: %s" % json.dumps(m))
            cand = ["accept." + k for k in sorted(c["dangling"]) if "accept." + k in known]
            key = cand[0] if cand and len(cand) == len(c["dangling"]) else "C12/accepted-dangling/%s/%s" % ("+".join(sorted(c["dangling"])), skey)
        elif res["outcome"] == "rejected" and (res["nErrs"] < 1 or not res["allNamed"]):
            key = "report.unnamed" if "report.unnamed" in known else "C12/rejected-unnamed/%s" % skey
        else:
            raise core.Infra("failure did not reproduce on the minimal program: %s -> %s" % (json.dumps(m), res["outcome"]))
        ctx.violation(key, "%d program(s); minimal reproducer: %s" % (n, text.replace("\n", " | ")[:900]), case)


def minimise_dangling(ctx, host, nodes, kinds):
    """Shrink an accepted program with a dangling reference: candidates must stay accepted by the real code and
    keep a dangling reference of the same kind according to the specification."""
    cur = [dict(n) for n in nodes]
    for _ in range(40):
        cands = []
        for i in range(len(cur)):
            st = set(cp.subtree(cur, i))
            if len(st) < len(cur):
                cands.append(cp.without(cur, st))
        if not cands:
            break
        lines = host.run([{"id": k, "nodes": c} for k, c in enumerate(cands)], label="min-acc")
        acc = [l["i"] for l in lines if l["res"]["outcome"] == "accepted"]
        if not acc:
            break
        cls = classify(ctx, [{"id": k, "nodes": cands[k]} for k in acc], label="classify-min")
        ok = [k for k in acc if kinds & set(cls[k]["dangling"])]
        if not ok:
            break
        cur = cands[min(ok, key=lambda k: len(cands[k]))]
    return cur


def describe(res):
    if res["outcome"] == "panic":
        return "panic (%s): %s" % (res.get("stage"), (res.get("panic") or "?").splitlines()[0][:160])
    if res["outcome"] == "timeout":
        return "no answer within the wall-clock limit"
    if res["outcome"] == "accepted":
        return "accepted although a reference dangles"
    return "rejected with %d error(s), allNamed=%s: %s" % (res["nErrs"], res["allNamed"], "; ".join(e["msg"][:120] for e in (res.get("errors") or [])[:2]))


# ------------------------------------------------------------------ hand-off to the generators (C01's concern)
GOMOD = """module verifgen

go 1.22.0

require goa.design/goa/v3 v3.0.0

replace goa.design/goa/v3 => %s
"""


def handoff(ctx, host, lines, quick):
    """Accepted programs without gRPC: generator "gen" then `go build` of what it wrote."""
    want = 24 if quick else 240
    pick, seen = [], set()
    for l in lines:
        if l["res"]["outcome"] == "accepted" and not l.get("grpc"):
            k = cp.structure_key(l["prog"]["nodes"])
            if k not in seen:
                seen.add(k)
                pick.append(l)
    pick.sort(key=lambda l: -len(l["prog"]["nodes"]))
    pick = pick[:want]
    res = {"programs": len(pick), "gen_ok": 0, "build_ok": 0, "failures": []}
    if not pick:
        ctx.cov["handoff"] = res
        return {}
    root = ctx.subdir("handoff")
    open(os.path.join(root, "go.mod"), "w").write(GOMOD % ctx.repo)
    shutil.copy(os.path.join(ctx.repo, "go.sum"), os.path.join(root, "go.sum"))
    progs = [{"id": i + 1, "nodes": l["prog"]["nodes"]} for i, l in enumerate(pick)]
    out = host.run(progs, gen_dir=root, label="handoff-gen", limit="60s")
    later = {}

    def build(i):
        p = subprocess.run(["go", "build", "-gcflags=-e", "./p%d/..." % (i + 1)], cwd=root, env=ctx.goenv(gen=True), stdout=subprocess.PIPE, stderr=subprocess.STDOUT, text=True, timeout=900)
        return i, p.returncode, p.stdout
    todo = []
    for i, o in enumerate(out):
        r = o["res"]
        if r["outcome"] in ("panic", "timeout") and r.get("stage") in ("fatal", "?"):
            # the child process died (stack overflow) or hung after evaluation had accepted the program (it did when it ran without -gen):
            # the generators crashed on an accepted design
            later[id(pick[i])] = "error"
            res["failures"].append({"key": "C01/gen-%s/%s" % ("crash" if r["outcome"] == "panic" else "timeout", cp.structure_key(progs[i]["nodes"])[:200]),
                                    "program": cp.render(progs[i]["nodes"]).splitlines(), "diagnostic": (r.get("panic") or "")[:600]})
            continue
        if r["outcome"] != "accepted":
            raise core.Infra("program accepted before is %s when run again: %s" % (r["outcome"], json.dumps(progs[i])[:300]))
        if r.get("gen") == "ok":
            res["gen_ok"] += 1
            todo.append(i)
        else:
            later[id(pick[i])] = "error"
            res["failures"].append({"key": "C01/gen-%s/%s" % (r.get("gen"), cp.structure_key(progs[i]["nodes"])[:200]), "program": cp.render(progs[i]["nodes"]).splitlines(),
                                    "diagnostic": (r.get("genInfo") or "")[:600]})
    results = [build(i) for i in todo[:1]]       # the first build settles go.mod / go.sum of the scratch module
    with cf.ThreadPoolExecutor(max_workers=8) as ex:
        results += list(ex.map(build, todo[1:]))
    if True:
        for i, rc, text in results:
            if rc == 0:
                res["build_ok"] += 1
                later[id(pick[i])] = "ok"
            else:
                later[id(pick[i])] = "error"
                res["failures"].append({"key": "C01/compile/%s" % cp.structure_key(progs[i]["nodes"])[:200], "program": cp.render(progs[i]["nodes"]).splitlines(), "diagnostic": text[:600]})
    res["failure_count"] = len(res["failures"])
    res["failures"] = res["failures"][:20]
    ctx.cov["handoff"] = res
    if res["failures"]:
        ctx.notes.append("hand-off to C01: %d accepted program(s) failed in generation/compilation (see coverage.handoff.failures); not a C12 verdict" % res["failure_count"])
    return later


# ------------------------------------------------------------------ (J) trace
def trace_lines(l, later=None):
    p, r = l["prog"], l["res"]
    out = [{"ev": "program", "id": p["id"], "nodes": p["nodes"]},
           {"ev": "evaluate", "id": p["id"], "outcome": r["outcome"], "nErrs": r["nErrs"], "allNamed": bool(r["allNamed"])}]
    if later:
        out.append({"ev": "handoff", "id": p["id"], "later": later})
    return out


def validate(ctx, cases, devs, label, maxfail=8):
    """Validates the log of `cases` (list of lists of events); returns indices of the cases TLC rejected."""
    bad, start = [], 0
    while start < len(cases) and len(bad) < maxfail:
        evs, owner = [], []
        for ci in range(start, len(cases)):
            for e in cases[ci]:
                evs.append(e)
                owner.append(ci)
        d = ctx.subdir("trace")
        path = os.path.join(d, "trace.ndjson")
        with open(path, "w") as f:
            for e in evs:
                f.write(json.dumps(e) + "\n")
        ok, hwm, r = ctx.trace_validate("trace/Trace_DSLProgram", "trace/Trace_DSLProgram.cfg", path, consts={"Deviations": tla_set(devs)}, label=label, timeout=3000)
        if ok:
            break
        if hwm is None or hwm > len(evs):
            raise core.Infra("trace validation gave no usable high-water mark:\n" + r.stdout[-2000:])
        ci = owner[hwm - 1]
        bad.append(ci)
        start = ci + 1
    return bad


def selftest(ctx, cases):
    """Binding demonstrated: flip one recorded fact of an accepted log -> TLC must stop at exactly that line."""
    flat = [e for c in cases[:40] for e in c]
    results = []
    for what in ("panic", "noerrors"):
        tgt = next((i for i, e in enumerate(flat) if e["ev"] == "evaluate" and e["outcome"] == "rejected"), None)
        if tgt is None:
            continue
        mod = [dict(e) for e in flat]
        if what == "panic":
            mod[tgt]["outcome"] = "panic"
        else:
            mod[tgt]["nErrs"] = 0
        d = ctx.subdir("selftest")
        path = os.path.join(d, "trace.ndjson")
        open(path, "w").write("".join(json.dumps(e) + "\n" for e in mod))
        ok, hwm, _ = ctx.trace_validate("trace/Trace_DSLProgram", "trace/Trace_DSLProgram.cfg", path, label="selftest-" + what)
        res = {"corruption": what, "corrupted_line": tgt + 1, "rejected_at": hwm, "ok": (not ok and hwm == tgt + 1)}
        results.append(res)
        if not res["ok"]:
            raise core.Infra("trace self-test failed: %s" % res)
    # a program with a dangling scheme reported as accepted
    dang = [{"ev": "program", "id": 1, "nodes": [{"f": "Service", "n": "s1", "t": "-", "v": "fn", "p": 0}, {"f": "Security", "n": "nosuch", "t": "-", "v": "plain", "p": 1}]},
            {"ev": "evaluate", "id": 1, "outcome": "accepted", "nErrs": 0, "allNamed": True}]
    d = ctx.subdir("selftest")
    path = os.path.join(d, "trace.ndjson")
    open(path, "w").write("".join(json.dumps(e) + "\n" for e in dang))
    ok, hwm, _ = ctx.trace_validate("trace/Trace_DSLProgram", "trace/Trace_DSLProgram.cfg", path, label="selftest-dangling")
    res = {"corruption": "dangling-accepted", "corrupted_line": 2, "rejected_at": hwm, "ok": (not ok and hwm == 2)}
    results.append(res)
    if not res["ok"]:
        raise core.Infra("trace self-test failed: %s" % res)
    ctx.cov.setdefault("trace_selftests", []).extend(results)


# ------------------------------------------------------------------ run
def run(ctx):
    quick = ctx.quick()
    lock_subdir(ctx)
    # the recursive operators of DSLProgram.tla (context of a call = context opened by its parent ...) go as deep as the
    # programs nest; TLC's worker threads need more than the default Java stack for the deepest mutants
    os.environ["_JAVA_OPTIONS"] = "-Xss64m"
    ctx.cov["rule"] = ("programs = trees of DSL calls (function x name token x type/value token x variant, nesting) enumerated or simulated by TLC from "
                       "DSLProgram.tla plus seeded mutants of them; each executed alone in a child process on the real dsl/eval/expr code; "
                       "non-trivial = program with at least 4 calls, nesting depth >= 2 and at least one of: a misplaced call, an argument outside the "
                       "documented shapes (nil, wrong type, wrong arity, empty), a reference to a type/attribute/scheme/view/error by name, or acceptance; "
                       "distinct = canonical JSON of the node list")
    ctx.assumptions += ["argument values are drawn from token classes (one concrete Go value per token), not all Go values",
                        "an error 'names the offending expression' if it is a validation error whose every entry carries an expression with a non-empty "
                        "EvalName, or an execution error recorded with a file and a line",
                        "Dangling is one-sided: only references whose target type is completely visible in the program (inline object or user type without "
                        "Extend/Reference) are judged; 'declared' is generous",
                        "gRPC programs are evaluated but not generated (no protoc in the sandbox)"]
    host = cp.Host(ctx)
    known = [d for d in DEVS if d in ctx.known]
    with cf.ThreadPoolExecutor(max_workers=2) as ex:
        fm = ex.submit(model_check, ctx, quick)
        fg = ex.submit(generate, ctx, quick)
        vectors = fg.result()
        fm.result()
    # the seed corpus is read by TLC like every other program
    seeds = c12_seeds.programs(len(vectors) + 1)
    scls = classify(ctx, seeds, label="classify-seeds")
    for sd in seeds:
        vectors.append(dict(scls[sd["id"]], nodes=sd["nodes"], seed=sd["seed"]))
    ctx.cov["seed_programs"] = len(seeds)
    programs = [{"id": i + 1, "nodes": v["nodes"]} for i, v in enumerate(vectors)]
    host.check_tokens(programs)
    nmut = int(os.environ.get("VERIF_C12_MUTANTS") or (1500 if quick else 20000))
    lines = host.run(programs, random=nmut, label="programs")
    ctx.log("executed %d programs (%d from TLC, %d mutants)" % (len(lines), len(programs), len(lines) - len(programs)))
    # TLC's reading of the mutants (for keys and the evidence only; the judge of the mutants is the trace specification)
    mut = [l for l in lines if l["origin"] == "mutant"]
    mcls = classify(ctx, [l["prog"] for l in mut], label="classify-mutants") if mut else {}
    for l in lines:
        v = vectors[l["i"]] if l["origin"] == "tlc" else mcls[l["prog"]["id"]]
        l["dangling"], l["triggers"], l["grpc"], l["misplaced"] = v["dangling"], v["triggers"], v["grpc"], v["misplaced"]
    # (G) compare observation with the emitted prediction
    suspects, nontrivial, outcomes = [], set(), {}
    for l in lines:
        r = l["res"]
        ctx.cov["evaluations"] += 1
        outcomes[r["outcome"]] = outcomes.get(r["outcome"], 0) + 1
        if l["origin"] == "tlc" and not allowed_by_prediction(l, r):
            suspects.append(l)
        elif l["origin"] == "mutant" and r["outcome"] in ("panic", "timeout"):
            suspects.append(l)         # never allowed with Deviations = {}; keyed below, judged again by the trace specification
        if is_nontrivial(l):
            nontrivial.add(core.canon(l["prog"]["nodes"]))
    ctx.cov["distinct_nontrivial"] = len(nontrivial)
    ctx.cov["outcomes"] = outcomes
    ctx.cov["programs"] = len(lines)
    ctx.cov["program_counts"] = {"tlc": len(programs), "mutants": len(mut), "with_dangling_reference": sum(1 for l in lines if l["dangling"]),
                           "with_misplaced_call": sum(1 for l in lines if l["misplaced"]), "max_calls": max(len(l["prog"]["nodes"]) for l in lines)}
    ctx.cov["seed_outcomes"] = {vectors[l["i"]]["seed"] + "#%d" % l["prog"]["id"]: l["res"]["outcome"] for l in lines if l["origin"] == "tlc" and "seed" in vectors[l["i"]]}
    function_coverage(ctx, host, lines)
    later = handoff(ctx, host, lines, quick)
    # (J) the log of everything that was executed, judged by TLC
    cases = [trace_lines(l, later.get(id(l))) for l in lines]
    devs = list(known) + (["handoff.fails"] if "error" in later.values() else [])
    bad = validate(ctx, cases, devs, "trace-all")
    ctx.cov["traces_validated_against_impl"] += len(cases)
    ids = {id(l) for l in suspects}
    for ci in bad:
        if id(lines[ci]) not in ids:
            suspects.append(lines[ci])
    if suspects:
        ctx.log("%d executions are not behaviours of the specification; minimising" % len(suspects))
        report(ctx, host, suspects, set(known))
    for s in (next((l for l in lines if l["res"]["outcome"] == "accepted" and len(l["prog"]["nodes"]) >= 8), None),
              next((l for l in lines if l["dangling"] and l["res"]["outcome"] == "rejected"), None),
              next((l for l in lines if l["origin"] == "mutant" and l["misplaced"] >= 2), None)):
        if s:
            ctx.sample({"program": cp.render(s["prog"]["nodes"]).splitlines(), "spec": {"dangling": s["dangling"], "misplaced": s["misplaced"]},
                        "observed": {k: s["res"].get(k) for k in ("outcome", "nErrs", "allNamed")}, "first_error": ((s["res"].get("errors") or [{}])[0].get("msg") or "")[:200]})
    if ctx.selftest or not quick:
        clean = [c for c, l in zip(cases, lines) if l["res"]["outcome"] in ("accepted", "rejected") and l["res"]["allNamed"] and not (l["dangling"] and l["res"]["outcome"] == "accepted")]
        selftest(ctx, [c[:2] for c in clean])
    ctx.cov["dslhost_runs_total"] = host.runs


ODD = {"", "odd", "long", "nil", "wrongInt", "wrongStruct", "wrong", "many", "few", "nilfn", "badtag", "niltag", "baddesc", "badsummary", "badpos", "posfew", "badscheme",
       "vnil", "ArrNil", "MapNilV", "MapMapKey", "CollNil", "CollBad", "CollT1", "nNoSuch", "nosuch"}
REFT = {"T1", "T2", "R1", "R2", "nT1", "nT2", "nR1", "ArrT1", "ArrnT1", "MapST1", "CollR1", "CollR2", "CollnR1"}
REFF = {"Param", "Header", "Cookie", "Body", "MapParams", "Security", "View", "Response", "Tag", "Required", "Parent", "CanonicalMethod", "Services"}


def is_nontrivial(l):
    ns = l["prog"]["nodes"]
    if len(ns) < 4:
        return False
    depth = {0: 0}
    for i, nd in enumerate(ns):
        depth[i + 1] = depth[nd["p"]] + 1
    if max(depth.values()) < 2:
        return False
    return bool(l["misplaced"] or l["res"]["outcome"] == "accepted" or any(nd["n"] in ODD or nd["t"] in ODD or nd["v"] in ODD or nd["t"] in REFT or nd["f"] in REFF for nd in ns))


def function_coverage(ctx, host, lines):
    calls, accepted_in = {}, {}
    for l in lines:
        for nd in l["prog"]["nodes"]:
            calls[nd["f"]] = calls.get(nd["f"], 0) + 1
            if l["res"]["outcome"] == "accepted":
                accepted_in[nd["f"]] = accepted_in.get(nd["f"], 0) + 1
    allf = sorted(host.table)
    ctx.cov["dsl_functions"] = {"in_table": len(allf), "called": len([f for f in allf if f in calls]), "uncalled": [f for f in allf if f not in calls],
                                "in_an_accepted_program": len(accepted_in), "never_in_an_accepted_program": [f for f in allf if f not in accepted_in],
                                "public_functions_not_in_table": ["ArrayOf, MapOf, CollectionOf are exercised through type tokens (ArrS, MapSS, CollR1, ...), not as calls of their own"]}


# ------------------------------------------------------------------ replay
def replay(ctx, rp):
    lock_subdir(ctx)
    os.environ["_JAVA_OPTIONS"] = "-Xss64m"
    case = rp["case"]
    host = cp.Host(ctx)
    prog = case["program"]
    out = host.run([prog], label="replay")
    res = out[0]["res"]
    cls = classify(ctx, [prog])[prog["id"]]
    print(cp.render(prog["nodes"]))
    print("specification: dangling=%s crash classes=%s" % (cls["dangling"], cls["triggers"]))
    print("observed: %s" % describe(res))
    if res.get("stack"):
        print("\n".join(res["stack"].splitlines()[:30]))
    bad = validate(ctx, [trace_lines(out[0])], [d for d in DEVS if d in ctx.known], "replay-trace")
    if bad:
        print("VIOLATION property=C12 replay=(replayed)")
        return 1
    return 0
