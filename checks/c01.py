"""C01 - every accepted design generates code that compiles.
Programs = method shapes enumerated by TLC from the transport specifications (request and result
families, every kind x location x nesting x mode x rule), packed into designs, run through the REAL
toolchain (DSL -> eval -> gen -> example -> go build of every package written).  The recorded stage outcomes
are validated by TLC as a trace of Toolchain.tla (AcceptedNeverFailsLater).  Methods whose generated code
does not compile are re-generated alone to confirm the failure before it is reported."""
import json, os, shutil, subprocess, concurrent.futures as cf
from vlib import core, httpcheck as hc, httpgen as hg

DEVS = {"codegen.param_alias_default": "param/alias+default", "codegen.api_error_user_type": "error/api-level-user-type",
        "codegen.recursive_result_type_views": "views/recursive-result-type",
        "codegen.primitive_payload_in_header": "payload/whole-in-header",
        "codegen.map_key_not_json_encodable": "map/key-not-json"}

# containers keyed / filled by every primitive kind (the transport envelope keeps map keys to string and int)
KEY_KINDS = ["string", "int", "int32", "int64", "uint", "uint32", "uint64", "float32", "float64", "bool"]
NOT_JSON_KEYS = ("float32", "float64", "bool")


def container_programs():
    """One design per map key kind: the map as a body attribute, as a nested map value, as the whole payload and as the
    whole result.  [(design, class, label)]"""
    out = []
    for k in KEY_KINDS:
        m = {"kind": "map", "key": {"kind": k}, "elem": {"kind": "string"}}
        methods = [
            {"name": "m1", "payload": {"attrs": [{"name": "a1", "type": m, "required": True}]},
             "result": {"attrs": [{"name": "r1", "type": {"kind": "map", "key": {"kind": k}, "elem": {"kind": "array", "elem": {"kind": "int"}}}}]},
             "http": {"routes": [{"verb": "POST", "path": "/m1"}]}},
            {"name": "m2", "payload": {"type": m}, "result": {"type": {"kind": "map", "key": {"kind": "string"}, "elem": m}},
             "http": {"routes": [{"verb": "POST", "path": "/m2"}]}},
        ]
        d = {"api": {"name": "ck" + k}, "services": [{"name": "s1", "methods": methods}]}
        out.append((d, "map/key-not-json" if k in NOT_JSON_KEYS else "plain", "containers:map-key-" + k))
    return out


def family_programs(ctx, quick):
    """Whole-design programs from the other transport families: error tables (C05), security requirement
    placements (C06), result-type view graphs (C08). Returns [(design, class, label)]."""
    import hashlib
    from checks import c05, c06, c08
    out = []
    vs = ctx.gen("mc/MC_ErrorMap", "gen/Gen_ErrorMap.cfg", label="Gen ErrorMap (programs)").vectors
    tables, seen = [], set()
    for v in vs:
        k = core.canon(v["table"])
        if k not in seen:
            seen.add(k)
            tables.append(v["table"])
    if quick:
        keep = [t for t in tables if hashlib.sha1((core.canon(t) + str(ctx.seed)).encode()).digest()[0] < 8]
        # always one table per (level, type) combination of the first error
        first = {}
        for t in tables:
            first.setdefault((t[0]["level"], t[0]["type"], len(t)), t)
        tables = list({core.canon(t): t for t in keep + list(first.values())}.values())
    for t in tables:
        designs, _, _ = c05.build([{"table": t}])
        cls = "error/api-level-user-type" if any(e["level"] == "api" and e["type"] == "custom" for e in t) else "plain"
        out.append((designs[0], cls, "errors:" + "+".join("%s/%s/%s" % (e["level"], e["type"], e["status"]) for e in t)))
    vs = ctx.gen("mc/MC_Security", "gen/Gen_Security.cfg", label="Gen Security (programs)").vectors
    designs, _ = c06.build(vs)
    if quick:
        designs = designs[::8]
    for d in designs:
        out.append((d, "plain", "security:%s" % d["api"]["name"]))
    for g in ("G1", "G2", "G3", "G4", "G5", "G6", "G7", "G8", "G9", "G10", "G11"):
        out.append((c08.design(g), "views/recursive-result-type" if g == "G4" else "plain", "views:" + g))
    # collections whose declaration fixes the view (CollectionOf(T, func() { View("ext") }))
    for g in ("G3vtiny", "G3vext", "G7vtiny"):
        out.append((c08.design(g), "plain", "views:" + g))
    return out + container_programs()


def design_class(sh):
    """Class of a method shape, from the abstract design only."""
    for a in sh["pa"] + sh["ra"]:
        if a["loc"] in ("query", "header", "cookie") and a["nest"] == "alias" and hg.has_default(a):
            return "param/alias+default"
    for a in sh["pa"]:
        if a["loc"] == "header" and a["nest"] in hg.WHOLE:
            return "payload/whole-in-header"
    a = (sh["pa"] + sh["ra"])[0]
    return "plain"


def compile_all(pl, i):
    p = subprocess.run(["go", "build", "-gcflags=-e", "./d%d/..." % i], cwd=pl.root, env=pl.ctx.goenv(gen=True),
                       stdout=subprocess.PIPE, stderr=subprocess.STDOUT, text=True, timeout=900)
    return i, p.returncode, p.stdout


def vet_all(pl, i):
    p = subprocess.run(["go", "vet", "./d%d/..." % i], cwd=pl.root, env=pl.ctx.goenv(gen=True),
                       stdout=subprocess.PIPE, stderr=subprocess.STDOUT, text=True, timeout=900)
    return i, p.returncode, p.stdout


def run(ctx):
    quick = ctx.quick()
    ctx.cov["rule"] = ("programs = method shapes (payload/result attribute kind x location x nesting x required/optional/default x validation rule, tagged "
                       "responses) enumerated by TLC, each generated inside a 40-method design with gen + example and compiled; non-trivial = shape with a "
                       "non-body location, a nesting, a default or a rule; distinct = canonical JSON of the shape")
    ctx.assumptions += ["'type-checks' is judged by `go build` (go/types); goa.design/clue (imported by example output, not available offline) is replaced by a type-level stub in stubs/clue"]
    ctx.mc("mc/MC_Toolchain", label="MC Toolchain")
    frac = float(os.environ.get("VERIF_FRAC") or (0.03 if quick else 1.0))
    shapes, seen = [], set()
    npair = 40 if quick else 600

    def family_shapes(fam):
        """(single-attribute shapes, two-attribute shapes) of one family: the same shape twice (one alias / nested type
        referenced by two attributes), and two attributes in one non-body location"""
        singles = hc.sample_shapes(hc.gen_vectors(ctx, fam, 1, 1), frac, ctx.seed, strata="coarse")
        allv = hc.gen_vectors(ctx, fam, 1, 1, label="Gen %s 1x1 (for pairs)" % fam)
        # (results: also two tagged responses, in both declaration orders)
        return singles, [v for mode in ("twin", "sameloc") + (("twotags",) if fam == "res" else ()) for v in hc.combine_cases(ctx, allv, npair if mode != "twotags" else npair // 4, ctx.seed, fam=fam, mode=mode)]
    # the enumerations are independent TLC runs: both families and the whole-design programs side by side
    pool = cf.ThreadPoolExecutor(max_workers=3)
    fam_future = pool.submit(family_programs, ctx, quick)
    per_fam = list(pool.map(family_shapes, ("req", "res")))
    pool.shutdown(wait=False)
    for vs in [per_fam[0][0], per_fam[1][0], per_fam[0][1], per_fam[1][1]]:
        for v in vs:
            k = hg.shape_key(v)
            if k not in seen:
                seen.add(k)
                shapes.append({"pa": v["pa"], "ra": v["ra"], "tagged": v.get("tagged", False), "tags": hg.tags_of(v)})
    designs, where = hg.pack_designs(shapes, 40)
    for d in designs:
        d["api"]["servers"] = 1
    pl = hg.Pipeline(ctx, "gen-c01")
    pl.prepare(designs, cmds="gen,example")
    # everything written must compile: also the example packages (cmd/..., service stubs)
    todo = [i for i in range(len(designs)) if i not in pl.failed]
    example_fail = {}
    with cf.ThreadPoolExecutor(max_workers=8) as ex:
        for i, rc, out in ex.map(lambda i: compile_all(pl, i), todo):
            if rc != 0:
                example_fail[i] = out
    if not quick:
        with cf.ThreadPoolExecutor(max_workers=8) as ex:
            for i, rc, out in ex.map(lambda i: vet_all(pl, i), [i for i in todo if i not in example_fail]):
                if rc != 0:
                    example_fail[i] = "vet: " + out
    ctx.log("%d shapes in %d designs; %d methods set aside, %d designs failed a stage, %d designs with uncompilable example output" % (
        len(shapes), len(designs), len(pl.bad_methods), len(pl.failed), len(example_fail)))
    # confirm every blamed method alone (single-case replay on the real toolchain)
    inv = {v: k for k, v in where.items()}
    blamed = []
    for (di, m), diag in sorted(pl.bad_methods.items()):
        blamed.append((inv[(di, "s1", "M" + m[1:])], diag))
    solo_designs = []
    for si, diag in blamed:
        ds, _ = hg.pack_designs([shapes[si]], 1)
        ds[0]["api"]["servers"] = 1
        solo_designs.append(ds[0])
    confirmed = {}
    if solo_designs:
        pl2 = hg.Pipeline(ctx, "gen-c01-solo")
        pl2.prepare(solo_designs, cmds="gen,example")
        for k, (si, diag) in enumerate(blamed):
            bad = (k in pl2.failed) or any(key[0] == k for key in pl2.bad_methods)
            confirmed[si] = (bad, diag, solo_designs[k])
    # trace: one program per shape
    lines, owners = [], []
    nontrivial = set()
    for si, sh in enumerate(shapes):
        di, _, meth = where[si]
        cls = design_class(sh)
        a = (sh["pa"] + sh["ra"])
        if any(x["loc"] != "body" or x["nest"] != "direct" or hg.has_default(x) or x["rule"] != "none" for x in a):
            nontrivial.add(hg.shape_key(sh))
        ctx.cov["evaluations"] += 1
        lines.append({"ev": "prog", "class": cls, "shape": si})
        owners.append(si)
        stages = []
        if di in pl.failed:
            st, outcome, detail = pl.failed[di]
            order = ["dsl", "eval", "gen", "example", "compile"]
            for s in ["dsl", "eval", "gen", "example"]:
                if s == st:
                    stages.append((s, "errors" if (s == "eval" and outcome == "errors") else ("panic" if outcome == "panic" else "error")))
                    break
                stages.append((s, "ok"))
            else:
                stages.append(("typecheck", "error"))
        else:
            stages = [("dsl", "ok"), ("eval", "ok"), ("gen", "ok"), ("example", "ok")]
            if si in confirmed:
                stages.append(("typecheck", "error" if confirmed[si][0] else "ok"))
            elif di in example_fail:
                stages.append(("typecheck", "error"))
            else:
                stages.append(("typecheck", "ok"))
        for s, o in stages:
            lines.append({"ev": "stage", "stage": s, "outcome": o})
            owners.append(si)
    # whole-design programs of the other families
    fam = fam_future.result()
    fdesigns = []
    for d, cls, label in fam:
        d = json.loads(json.dumps(d))
        d["api"]["servers"] = 1
        fdesigns.append(d)
    pl3 = hg.Pipeline(ctx, "gen-c01-fam")
    pl3.prepare(fdesigns, cmds="gen,example", rounds=0)
    ftodo = [i for i in range(len(fdesigns)) if i not in pl3.failed]
    with cf.ThreadPoolExecutor(max_workers=8) as ex:
        for i, rc, out in ex.map(lambda i: compile_all(pl3, i), ftodo):
            if rc != 0:
                pl3.failed[i] = ("compile", "error", out[-2000:])
    fam_info = {}
    for i, (d, cls, label) in enumerate(fam):
        pid = len(shapes) + i
        fam_info[pid] = (fdesigns[i], cls, label, pl3.failed.get(i))
        ctx.cov["evaluations"] += 1
        nontrivial.add(label)
        lines.append({"ev": "prog", "class": cls, "shape": pid})
        owners.append(pid)
        if i in pl3.failed:
            st, outcome, detail = pl3.failed[i]
            stages = []
            for sname in ["dsl", "eval", "gen", "example"]:
                if sname == st:
                    stages.append((sname, "errors" if (sname == "eval" and outcome == "errors") else ("panic" if outcome == "panic" else "error")))
                    break
                stages.append((sname, "ok"))
            else:
                stages.append(("typecheck", "error"))
        else:
            stages = [("dsl", "ok"), ("eval", "ok"), ("gen", "ok"), ("example", "ok"), ("typecheck", "ok")]
        for sname, o in stages:
            lines.append({"ev": "stage", "stage": sname, "outcome": o})
            owners.append(pid)
    ctx.log("%d whole-design programs (errors/security/views): %d fail a stage" % (len(fam), len(pl3.failed)))
    ctx.cov["distinct_nontrivial"] = len(nontrivial)
    ctx.cov["programs"] = len(shapes) + len(fam)
    ctx.cov["designs"] = len(designs)
    ctx.sample({"shape": shapes[0], "class": design_class(shapes[0]), "stages": [l for l in lines[1:6]]})
    known = [d for d in DEVS if d in ctx.known]
    # run A: with the recorded deviations enabled every program must be accepted
    rest = list(zip(lines, owners))
    reported = 0
    while rest:
        d = ctx.subdir("trace")
        p = os.path.join(d, "trace.ndjson")
        open(p, "w").write("".join(json.dumps(l) + "\n" for l, _ in rest))
        ok, hwm, r = ctx.trace_validate("trace/Trace_Toolchain", "trace/Trace_Toolchain.cfg", p,
                                        consts={"Deviations": "{" + ", ".join('"%s"' % k for k in known) + "}"})
        if ok:
            break
        if hwm is None:
            raise core.Infra("no high-water mark from Trace_Toolchain:\n" + r.stdout[-2000:])
        si = rest[hwm - 1][1]
        if si in fam_info:
            fd, cls, label, failure = fam_info[si]
            ctx.violation("C01/%s/%s" % (cls, label.split(":")[0] + ":" + label.split(":", 1)[1][:60]), "accepted design fails a later stage: %s" % str(failure)[:400],
                          {"design": fd, "class": cls, "label": label, "failure": str(failure)[:3000]})
            reported += 1
            rest = [(l, o) for l, o in rest if o != si]
            if reported >= 10:
                break
            continue
        sh = shapes[si]
        a = (sh["pa"] + sh["ra"])[0] if True else None
        di = where[si][0]
        diag = confirmed.get(si, (None, pl.failed.get(di) or example_fail.get(di), None))[1]
        key = "C01/%s/%s" % (design_class(sh), "+".join(sorted({hc.attr_tag(x) for x in sh["pa"] + sh["ra"] if x["loc"] != "body" or x["nest"] != "direct"})) or "body")
        ctx.violation(key, "accepted design fails a later stage: %s" % str(diag)[:400],
                      {"shape": sh, "design": confirmed.get(si, (0, 0, None))[2], "trace_line": rest[hwm - 1][0], "diagnostic": str(diag)[:3000]})
        reported += 1
        rest = [(l, o) for l, o in rest if o != si]
        if reported >= 10:
            break
    ctx.cov["traces_validated_against_impl"] += len(shapes)
    # run B: each recorded deviation must still be needed (the finding still manifests) -> KNOWN-FINDING line
    for dname in known:
        cls = DEVS[dname]
        sub = [(l, o) for l, o in zip(lines, owners) if (fam_info[o][1] if o in fam_info else design_class(shapes[o])) == cls]
        if not sub:
            continue
        d = ctx.subdir("trace-known")
        p = os.path.join(d, "trace.ndjson")
        open(p, "w").write("".join(json.dumps(l) + "\n" for l, _ in sub))
        ok, hwm, r = ctx.trace_validate("trace/Trace_Toolchain", "trace/Trace_Toolchain.cfg", p, label="trace-without-" + dname)
        if not ok and hwm is not None:
            si = sub[hwm - 1][1]
            if si in fam_info:
                ctx.violation(dname, "design class %s (%s): %s" % (cls, fam_info[si][2], str(fam_info[si][3])[:300]), {"design": fam_info[si][0]})
            else:
                ctx.violation(dname, "design class %s: %s" % (cls, str(confirmed.get(si, (0, "?", 0))[1])[:300]), {"shape": shapes[si]})
    if ctx.selftest or not quick:
        selftest(ctx, lines)


def selftest(ctx, lines):
    """A typecheck failure injected into an accepted plain program must be rejected at exactly that line."""
    ls = [dict(l) for l in lines[:60]]
    tgt = next((i for i, l in enumerate(ls) if l.get("stage") == "typecheck" and l.get("outcome") == "ok" and any(
        x.get("ev") == "prog" and x.get("class") == "plain" for x in ls[max(0, i - 5):i])), None)
    if tgt is None:
        return
    ls[tgt]["outcome"] = "error"
    d = ctx.subdir("selftest")
    p = os.path.join(d, "trace.ndjson")
    open(p, "w").write("".join(json.dumps(l) + "\n" for l in ls))
    ok, hwm, _ = ctx.trace_validate("trace/Trace_Toolchain", "trace/Trace_Toolchain.cfg", p, label="selftest",
                                    consts={"Deviations": "{" + ", ".join('"%s"' % k for k in DEVS) + "}"})
    res = {"corrupted_line": tgt + 1, "rejected_at": hwm, "ok": (not ok and hwm == tgt + 1)}
    ctx.cov.setdefault("trace_selftests", []).append(res)
    if not res["ok"]:
        raise core.Infra("trace self-test failed: %s" % res)


def replay(ctx, rp):
    case = rp["case"]
    if case.get("design"):
        pl = hg.Pipeline(ctx, "replay")
        pl.prepare([case["design"]], cmds="gen,example")
        bad = pl.failed or pl.bad_methods
        print(json.dumps({"failed": {str(k): str(v)[:500] for k, v in pl.failed.items()}, "bad_methods": {str(k): v for k, v in pl.bad_methods.items()}}, indent=1))
        if bad:
            print("VIOLATION property=C01 replay=(replayed)")
            return 1
        return 0
    print(json.dumps(case, indent=1)[:3000])
    return 0
