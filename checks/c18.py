"""C18 - error merging and status mapping follow fixed algebraic rules.
(M) ErrorAlgebra.tla model-checked exhaustively; (G) every (leaves, tree) and status case emitted by
TLC is evaluated on the real goa.MergeErrors / StatusCode / EncodeError and compared with the model's
predicted observable; (J) random 5-8-leaf trees evaluated by the real code are validated as a trace."""
import json
from vlib import core

DEV = "merge.history_aliases_receiver"


def classify(vec, obs):
    """Finding key from the failing case only."""
    if vec["mode"] == "status":
        p = vec["pred"]
        for k in ("http", "grpc", "rtname", "rtflags", "rtsame"):
            if p[k] != obs.get(k):
                return "C18/status/%s/%s" % (vec["scase"]["kind"], k)
        return "C18/status/other"
    p = vec["pred"]
    if p.get("kind") != obs.get("kind"):
        return "C18/merge/kind"
    for k in ("name", "msgs", "flags", "causes", "hist"):
        if p.get(k, []) != obs.get(k, []):
            return "C18/merge/" + k
    return "C18/merge/other"


def norm(o):
    o = dict(o)
    if o.get("kind") == "merged":
        for k in ("msgs", "causes", "hist"):
            o.setdefault(k, [])
    return o


def compare(ctx, vectors, observations):
    by = {o["i"]: o["obs"] for o in observations}
    nontrivial = set()
    for i, v in enumerate(vectors):
        if i not in by:
            raise core.Infra("driver returned no observation for vector %d" % i)
        pred, obs = norm(v["pred"]), norm(by[i])
        ctx.cov["evaluations"] += 1
        if v["mode"] == "merge":
            nn = [l for l in v["leaves"] if l["kind"] != "nil"]
            if len(nn) >= 3 or any(l["kind"] in ("plain", "wrapped", "nsvc") for l in nn):
                nontrivial.add(core.canon([v["leaves"], v["tree"]]))
        else:
            nontrivial.add(core.canon(v["scase"]))
        d = core.deep_diff(pred, obs)
        if d:
            case = {"vector": v, "observed": obs, "diff": d}
            ctx.violation(classify(dict(v, pred=pred), obs), "model predicts %s; real code: %s" % (
                json.dumps(pred, sort_keys=True)[:300], d), case)
        elif i % 4001 == 0:
            ctx.sample({"vector": v, "observed": obs})
    return nontrivial


def run(ctx):
    ctx.cov["rule"] = ("cases = every (leaf vector, parenthesisation) and every (kind, name, flags) status case enumerated by TLC "
                       "from ErrorAlgebra.tla; non-trivial = merge with >=3 non-nil leaves or a plain/wrapped/caused leaf, or any status case; "
                       "distinct = canonical JSON of the case")
    ctx.assumptions += ["message texts m<i> stand for arbitrary messages without the separator '; '",
                        "the wrapper of a wrapped ServiceError is not counted as an original cause (MergeErrors documents the conversion)"]
    quick = ctx.quick()
    # (M) the design satisfies the algebraic laws: N = 1..3 (quick), 4 (thorough)
    # (the Gen configurations below check the same invariants while emitting vectors, so N <= 3 is not run twice)
    # vacuity guard: the invariant bites when the (former) defect is modelled
    ctx.mc_expect_violation("mc/MC_ErrorAlgebra", consts={"N": 2, "Deviations": '{"%s"}' % DEV}, label="MC deviation")
    # (G) vectors with predictions
    vectors = []
    for n in [1, 2, 3]:
        vectors += ctx.gen("mc/MC_ErrorAlgebra", "gen/Gen_ErrorAlgebra.cfg", consts={"N": n}, label="Gen N=%d" % n, timeout=900).vectors
    if not quick:
        vectors += ctx.gen("mc/MC_ErrorAlgebra", "gen/Gen_ErrorAlgebra.cfg", consts={"N": 4, "Rich": "FALSE"}, label="Gen N=4",
                           timeout=3000, heap="24g").vectors
    # status cases are emitted by every run: de-duplicate
    seen, uniq = set(), []
    for v in vectors:
        k = core.canon({x: v[x] for x in v if x != "pred"})
        if k not in seen:
            seen.add(k)
            uniq.append(v)
    vectors = uniq
    obs, _, _ = ctx.drive("drivers/errors", [{k: v[k] for k in v if k != "pred"} for v in vectors])
    nontrivial = compare(ctx, vectors, obs)
    # (J) random larger trees, judged by TLC trace validation
    nrand = 300 if quick else 5000
    _, tpath, _ = ctx.drive("drivers/errors", [], args=["-random", str(nrand)])
    lines = [l for l in open(tpath) if l.strip()]
    validate_trace(ctx, lines, nontrivial)
    ctx.cov["distinct_nontrivial"] = len(nontrivial)
    ctx.cov["traces_validated_against_impl"] += len(lines)
    if ctx.selftest or not quick:
        selftest(ctx, lines)


def validate_trace(ctx, lines, nontrivial, maxfail=5):
    import os
    rest = list(lines)
    fails = 0
    while rest:
        d = ctx.subdir("trace")
        p = os.path.join(d, "trace.ndjson")
        open(p, "w").write("".join(rest))
        ok, hwm, r = ctx.trace_validate("trace/Trace_ErrorAlgebra", "trace/Trace_ErrorAlgebra.cfg", p)
        if ok:
            break
        if hwm is None:
            raise core.Infra("trace validation produced no high-water mark:\n" + r.stdout[-2000:])
        bad = json.loads(rest[hwm - 1])
        ctx.violation("C18/merge/trace", "trace line rejected by Trace_ErrorAlgebra (random tree, %d leaves)" % len(bad["leaves"]),
                      {"trace_line": bad})
        fails += 1
        rest = rest[hwm:]
        if fails >= maxfail:
            break
    for l in lines:
        c = json.loads(l)
        nontrivial.add(core.canon([c["leaves"], c["tree"]]))
        ctx.cov["evaluations"] += 1
    ctx.sample({"trace_event": json.loads(lines[0])})


def selftest(ctx, lines):
    """Binding demonstrated: corrupt one recorded field of an accepted trace -> must be rejected."""
    import os
    ls = [json.loads(l) for l in lines[:50]]
    target = next((i for i, c in enumerate(ls) if c["obs"].get("kind") == "merged" and len(c["obs"].get("msgs", [])) >= 2), None)
    if target is None:
        return
    ls[target]["obs"]["msgs"] = list(reversed(ls[target]["obs"]["msgs"]))
    d = ctx.subdir("selftest")
    p = os.path.join(d, "trace.ndjson")
    open(p, "w").write("".join(json.dumps(c) + "\n" for c in ls))
    ok, hwm, _ = ctx.trace_validate("trace/Trace_ErrorAlgebra", "trace/Trace_ErrorAlgebra.cfg", p, label="selftest")
    res = {"corrupted_line": target + 1, "rejected_at": hwm, "ok": (not ok and hwm == target + 1)}
    ctx.cov.setdefault("trace_selftests", []).append(res)
    if not res["ok"]:
        raise core.Infra("trace self-test failed: corrupted line %d, TLC stopped at %s" % (target + 1, hwm))


def replay(ctx, rp):
    case = rp["case"]
    if "vector" in case:
        v = case["vector"]
        obs, _, _ = ctx.drive("drivers/errors", [{k: v[k] for k in v if k != "pred"}])
        d = core.deep_diff(norm(v["pred"]), norm(obs[0]["obs"]))
        print("predicted:", json.dumps(norm(v["pred"]), sort_keys=True))
        print("observed: ", json.dumps(norm(obs[0]["obs"]), sort_keys=True))
        if d:
            print("VIOLATION property=C18 replay=%s" % "(replayed)")
            print("  diff:", d)
            return 1
        return 0
    print(json.dumps(case, indent=1))
    return 0
