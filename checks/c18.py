"""C18 - error merging and status mapping follow fixed algebraic rules.
(M) ErrorAlgebra.tla model-checked exhaustively; (G) every (leaves, tree) and status case emitted by
TLC is evaluated on the real goa.MergeErrors / StatusCode / EncodeError and compared with the model's
predicted observable; (J) random 5-8-leaf trees evaluated by the real code are validated as a trace."""
import json
from vlib import core

DEV = "merge.history_aliases_receiver"          # repaired (fixed: line); kept as the vacuity guard of the merge laws
DEV_DETAIL = "grpc.detail_after_inherited"      # EncodeError appends its error response after the details the wrapped status has
WIRE = ("http", "hresp", "grpc", "gresp")


def classify(vec, obs):
    """Finding key: the known deviation that predicts exactly what was observed (the vector carries those
    predictions as `alt`), else a key computed from the failing case only."""
    alt = vec.get("alt") or {}
    for d in sorted(alt):
        if not core.deep_diff(norm(alt[d]), obs):
            return d
    if vec["mode"] == "status":
        p = vec["pred"]
        sc = vec["scase"]
        kind = sc["kind"] + ("" if sc["cause"]["ck"] in ("none", "plain") else "+" + sc["cause"]["ck"])
        for k in WIRE:
            if p[k] != obs.get(k):
                return "C18/status/%s/%s" % (kind, k)
        return "C18/status/other"
    p = vec["pred"]
    if p.get("kind") != obs.get("kind"):
        return "C18/merge/kind"
    for k in ("name", "msgs", "flags", "causes", "hist"):
        if p.get(k, []) != obs.get(k, []):
            return "C18/merge/" + k
    for k in WIRE:
        if (p.get("wire") or {}).get(k) != (obs.get("wire") or {}).get(k):
            return "C18/merge/wire.%s%s" % (k, "+status-cause" if any(l["cause"]["ck"].startswith(("gst", "svcg")) for l in vec["leaves"]) else "")
    return "C18/merge/other"


def norm(o):
    o = dict(o)
    if o.get("kind") == "merged":
        for k in ("msgs", "causes", "hist"):
            o.setdefault(k, [])
    return o


def caused(leaf):
    return leaf["cause"]["ck"] not in ("none", "plain")


def compare(ctx, vectors, observations):
    by = {o["i"]: o["obs"] for o in observations}
    nontrivial = set()
    ncause = set()
    for i, v in enumerate(vectors):
        if i not in by:
            raise core.Infra("driver returned no observation for vector %d" % i)
        pred, obs = norm(v["pred"]), norm(by[i])
        ctx.cov["evaluations"] += 1
        if v["mode"] == "merge":
            nn = [l for l in v["leaves"] if l["kind"] != "nil"]
            if len(nn) >= 3 or any(l["kind"] in ("plain", "wrapped", "nsvc") for l in nn):
                nontrivial.add(core.canon([v["leaves"], v["tree"]]))
            if any(caused(l) for l in nn):
                ncause.add(core.canon([v["leaves"], v["tree"]]))
        else:
            nontrivial.add(core.canon(v["scase"]))
            if caused(v["scase"]):
                ncause.add(core.canon(v["scase"]))
        d = core.deep_diff(pred, obs)
        if d:
            case = {"vector": v, "observed": obs, "diff": d}
            ctx.violation(classify(dict(v, pred=pred), obs), "model predicts %s; real code: %s" % (
                json.dumps(pred, sort_keys=True)[:300], d), case)
        elif i % 4001 == 0:
            ctx.sample({"vector": v, "observed": obs})
    ctx.cov["cases_with_a_status_or_service_error_cause"] = len(ncause)
    return nontrivial


def run(ctx):
    import concurrent.futures as cf
    ctx.cov["rule"] = ("cases = every (leaf vector, parenthesisation) and every (kind, name, flags, cause) status case enumerated by TLC "
                       "from ErrorAlgebra.tla, each observed directly and on the wire (HTTP error response + status, gRPC code + "
                       "EncodeError/DecodeError/NewServiceError round trip); non-trivial = merge with >=3 non-nil leaves or a "
                       "plain/wrapped/caused leaf, or any status case; distinct = canonical JSON of the case")
    ctx.assumptions += ["message texts m<i> stand for arbitrary messages without the separator '; '",
                        "the wrapper of a wrapped ServiceError is not counted as an original cause (MergeErrors documents the conversion)",
                        "a gRPC status reachable by unwrapping keeps its code (as built: the first one in unwrapping order); the flags "
                        "table is promised only for errors without one",
                        "left out, nothing says what is right: an error that is no ServiceError and whose gRPC status already carries "
                        "details; a GRPCStatus() returning nil in front of a real status inside a merge; a GRPCStatus() with code OK "
                        "(status.Error never builds one; EncodeError returns nil for it)"]
    quick = ctx.quick()
    # (M) the design satisfies the algebraic laws: N = 1..3 (quick), 4 (thorough)
    # (the Gen configurations below check the same invariants while emitting vectors, so N <= 3 is not run twice)
    # vacuity guards: the invariants bite when the (former) defect / the detail order of EncodeError is modelled.
    # The runs are independent: started side by side, results taken in order.
    pool = cf.ThreadPoolExecutor(max_workers=8)
    guards = [pool.submit(ctx.mc_expect_violation, "mc/MC_ErrorAlgebra", consts={"N": 2, "Deviations": '{"%s"}' % DEV}, label="MC deviation"),
              pool.submit(ctx.mc_expect_violation, "mc/MC_ErrorAlgebra", consts={"N": 1, "Deviations": '{"%s"}' % DEV_DETAIL},
                          label="MC deviation detail order")]
    build = pool.submit(ctx.gobuild, "drivers/errors")
    # (G) vectors with predictions
    # (N = 3 split in two runs: the trees over the first leaf family; the trees over the cause leaves + the status cases)
    gens = [pool.submit(ctx.gen, "mc/MC_ErrorAlgebra", "gen/Gen_ErrorAlgebra.cfg", consts=c, label="Gen N=%d %s" % (c["N"], c["Family"]), timeout=900)
            for c in [{"N": 3, "Family": '"base"'}, {"N": 3, "Family": '"cause"'}, {"N": 1, "Family": '"all"'}, {"N": 2, "Family": '"all"'}]]
    pool.shutdown(wait=False)
    guards[0].result()
    r = guards[1].result()
    if r.violated not in ("TopDecides", "StatusTotal"):
        raise core.Infra("self-test: %s is expected to break TopDecides/StatusTotal, TLC reports %s" % (DEV_DETAIL, r.violated))
    vectors = []
    for g in (gens[2], gens[3], gens[1], gens[0]):
        vectors += g.result().vectors
    if not quick:
        vectors += ctx.gen("mc/MC_ErrorAlgebra", "gen/Gen_ErrorAlgebra.cfg", consts={"N": 4, "Rich": "FALSE"}, label="Gen N=4",
                           timeout=3000, heap="24g").vectors
    build.result()
    # status cases are emitted by every run: de-duplicate
    seen, uniq = set(), []
    for v in vectors:
        k = core.canon({x: v[x] for x in v if x not in ("pred", "alt")})
        if k not in seen:
            seen.add(k)
            uniq.append(v)
    vectors = uniq
    obs, _, _ = ctx.drive("drivers/errors", [{k: v[k] for k in v if k not in ("pred", "alt")} for v in vectors])
    nontrivial = compare(ctx, vectors, obs)
    # (J) random larger trees and random single errors, judged by TLC trace validation
    nrand = 300 if quick else 5000
    _, tpath, _ = ctx.drive("drivers/errors", [], args=["-random", str(nrand), "-random-status", str(nrand // 3)])
    lines = [l for l in open(tpath) if l.strip()]
    validate_trace(ctx, lines, nontrivial)
    ctx.cov["distinct_nontrivial"] = len(nontrivial)
    ctx.cov["traces_validated_against_impl"] += len(lines)
    if ctx.selftest or not quick:
        selftest(ctx, lines)


def case_key(c):
    return core.canon([c["leaves"], c["tree"]]) if c["ev"] == "case" else core.canon(c["scase"])


def validate_trace(ctx, lines, nontrivial, maxfail=5):
    import os
    import re
    rest = list(lines)
    base = 0                                   # number of lines before rest[0]
    fails = 0
    while rest:
        d = ctx.subdir("trace")
        p = os.path.join(d, "trace.ndjson")
        open(p, "w").write("".join(rest))
        ok, hwm, r = ctx.trace_validate("trace/Trace_ErrorAlgebra", "trace/Trace_ErrorAlgebra.cfg", p)
        if hwm is None:
            raise core.Infra("trace validation produced no high-water mark:\n" + r.stdout[-2000:])
        # lines the design rejects and a known deviation predicts exactly: filed under the deviation's name
        devlines = set()
        for pr in r.prints:
            m = re.match(r'<<"DEV", (\d+), "([^"]+)">>', pr)
            if m and int(m.group(1)) < hwm:
                devlines.add((int(m.group(1)), m.group(2)))
        for ln, dev in sorted(devlines):
            c = json.loads(rest[ln - 1])
            ctx.violation(dev, "trace line %d matches the specification only under the deviation %s (%s)" % (
                base + ln, dev, "random tree, %d leaves" % len(c["leaves"]) if c["ev"] == "case" else "single error"), {"trace_line": c})
        ctx.cov["trace_lines_matched_under_a_known_deviation"] = ctx.cov.get("trace_lines_matched_under_a_known_deviation", 0) + len(devlines)
        if ok:
            break
        bad = json.loads(rest[hwm - 1])
        what = "random tree, %d leaves" % len(bad["leaves"]) if bad["ev"] == "case" else "single error %s" % json.dumps(bad["scase"], sort_keys=True)
        ctx.violation("C18/merge/trace" if bad["ev"] == "case" else "C18/status/trace",
                      "trace line rejected by Trace_ErrorAlgebra (%s)" % what, {"trace_line": bad})
        fails += 1
        rest = rest[hwm:]
        base += hwm
        if fails >= maxfail:
            ctx.notes.append("trace validation stopped after %d rejected lines; %d lines not validated" % (fails, len(rest)))
            break
    for l in lines:
        nontrivial.add(case_key(json.loads(l)))
        ctx.cov["evaluations"] += 1
    ctx.sample({"trace_event": json.loads(lines[0])})


def selftest(ctx, lines):
    """Binding demonstrated: corrupt one recorded field of an accepted trace -> must be rejected."""
    import os
    import copy
    first = [json.loads(l) for l in lines[:50]]
    stat = [json.loads(l) for l in lines if '"ev":"status"' in l.replace(" ", "")][:10]

    def merged_msgs(ls):
        t = next((i for i, c in enumerate(ls) if c["obs"].get("kind") == "merged" and len(c["obs"].get("msgs", [])) >= 2), None)
        if t is not None:
            ls[t]["obs"]["msgs"] = list(reversed(ls[t]["obs"]["msgs"]))
        return t

    def roundtrip_name(ls):
        t = next((i for i, c in enumerate(ls) if c["obs"].get("kind") == "merged"), None)
        if t is not None:
            ls[t]["obs"]["wire"]["gresp"]["name"] = "fault"
        return t

    def status_code(ls):
        if not ls:
            return None
        ls[-1]["obs"]["grpc"] = 3
        return len(ls) - 1

    for name, src, corrupt in (("merged message order", first, merged_msgs), ("round-trip name", first, roundtrip_name),
                               ("single error gRPC code", stat, status_code)):
        ls = copy.deepcopy(src)
        target = corrupt(ls)
        if target is None:
            continue
        d = ctx.subdir("selftest")
        p = os.path.join(d, "trace.ndjson")
        open(p, "w").write("".join(json.dumps(c) + "\n" for c in ls))
        ok, hwm, _ = ctx.trace_validate("trace/Trace_ErrorAlgebra", "trace/Trace_ErrorAlgebra.cfg", p, label="selftest")
        res = {"corruption": name, "corrupted_line": target + 1, "rejected_at": hwm, "ok": (not ok and hwm == target + 1)}
        ctx.cov.setdefault("trace_selftests", []).append(res)
        if not res["ok"]:
            raise core.Infra("trace self-test (%s) failed: corrupted line %d, TLC stopped at %s" % (name, target + 1, hwm))


def replay(ctx, rp):
    case = rp["case"]
    if "vector" in case:
        v = case["vector"]
        obs, _, _ = ctx.drive("drivers/errors", [{k: v[k] for k in v if k not in ("pred", "alt")}])
        d = core.deep_diff(norm(v["pred"]), norm(obs[0]["obs"]))
        print("predicted:", json.dumps(norm(v["pred"]), sort_keys=True))
        print("observed: ", json.dumps(norm(obs[0]["obs"]), sort_keys=True))
        if d:
            print("VIOLATION property=C18 replay=%s" % "(replayed)")
            print("  diff:", d)
            return 1
        return 0
    print(json.dumps(case, indent=1))
    return 0
