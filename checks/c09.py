"""C09 - code generation is deterministic, repeatable and never clobbers examples.
(M) GenHistory.tla model-checked over all histories of user and goa operations on one output directory;
(G) histories enumerated by TLC are replayed with the REAL goa command line (built from the repo under
    test) on real design packages and the directory after every operation is compared with the model's;
(J) the recorded runs - TLC's histories, random longer histories over the real file sets, and N fresh-process
    generations per design under varied environments (hand-written designs through the goa command line, designs
    assembled from the method shapes TLC enumerates from HTTPTransport.tla through cmd/genhost) - are validated
    as traces of Trace_GenHistory.tla
    (every path, content class and mtime class after every operation);
plus in-process repetition (one evaluation, generator.Generate twice) against the same reference."""
import json, os, random, threading
import concurrent.futures as cf
from vlib import core
from vlib import c09_lab as lab
from vlib import httpcheck as transport

LEVEL = "model_checking"
DEVS = ["gen.no_wipe", "example.overwrites", "render.nonce_leak", "gen.wipes_root", "tmp.left_behind", "generate.not_repeatable_in_process"]
# which invariant each deviation must break (vacuity guard, one TLC run per pair)
BITES = [("gen.no_wipe", "INVARIANT", "GenIsFunctionOfDesign"), ("gen.no_wipe", "INVARIANT", "GenIdempotent"),
         ("gen.no_wipe", "INVARIANT", "DeterministicIsTheDesign"),
         ("example.overwrites", "PROPERTY", "ExampleNeverModifies"), ("example.overwrites", "INVARIANT", "ExampleCompletes"),
         ("render.nonce_leak", "INVARIANT", "Deterministic"), ("render.nonce_leak", "INVARIANT", "GenIsFunctionOfDesign"),
         ("gen.wipes_root", "PROPERTY", "GenTouchesOnlyGenSubdirs"), ("tmp.left_behind", "INVARIANT", "NoLeftovers"),
         ("generate.not_repeatable_in_process", "INVARIANT", "GenIdempotent"), ("generate.not_repeatable_in_process", "INVARIANT", "Deterministic")]
QUICK_BITES = [0, 3, 5, 7, 8, 9]

PAIR = ("smalla", "smallb")             # the design variants behind the abstract designs 1 and 2
ABS2REAL = {"gen/a/f": "gen/calc/service.go", "gen/b/f": "gen/store/service.go", "gen/c/f": "gen/audit/service.go",
            "x1": "cmd/small/http.go", "cmd/x2": "store.go", "x3": "audit.go",
            "gen/a/stray": "gen/calc/stray.txt", "gen/u/stray": "gen/userdir/stray.txt", "gen/stray": "gen/stray.txt",
            "stray": "stray.txt", "design/design.go": "designs/smalla/design.go"}
ABS_STRAYS = ["gen/a/stray", "gen/u/stray", "gen/stray", "stray"]
ABS_CID = {11: (0, "gen", "gen/a/f"), 12: (0, "gen", "gen/b/f"), 13: (0, "ex", "x1"), 14: (0, "ex", "cmd/x2"),
           21: (1, "gen", "gen/a/f"), 22: (1, "gen", "gen/c/f"), 23: (1, "ex", "x1"), 24: (1, "ex", "x3")}
ALL_DESIGNS = ["smalla", "smallb", "rich", "types"]


def H(*ops):
    out = []
    for o in ops:
        k = o[0]
        out.append({"k": k, "d": o[1], "p": ["-"]} if k in ("gen", "example") else {"k": k, "d": 0, "p": o[1].split("/")})
    return out


# histories named by the property statement and by the facts the design was checked against
MUST = [H(("gen", 1), ("gen", 1)),
        H(("gen", 1), ("example", 1), ("edit", "x1"), ("example", 1)),
        H(("example", 1), ("gen", 1)),
        H(("gen", 1), ("stray", "gen/a/stray"), ("stray", "gen/stray"), ("gen", 1)),
        H(("gen", 1), ("edit", "gen/a/f"), ("gen", 1)),
        H(("example", 1), ("delete", "x1"), ("example", 1)),
        H(("gen", 1), ("example", 1), ("gen", 2), ("example", 2)),
        H(("gen", 2), ("stray", "gen/u/stray"), ("gen", 1), ("gen", 1))]


def nontrivial(hist):
    """a goa command that runs after something happened in the directory"""
    return any(o["k"] in ("gen", "example") for o in hist[1:])


def real_ops(hist):
    ops = []
    for o in hist:
        if o["k"] in ("gen", "example"):
            ops.append({"k": o["k"], "d": o["d"]})
        else:
            ops.append({"k": o["k"], "p": ABS2REAL["/".join(o["p"])]})
    return ops


def compare_projection(ctx, refs, hist, snaps_events, preds):
    """(G) the model's directory after every prefix of the history against the real one, on the abstract paths."""
    events = snaps_events
    diffs = []
    for i in range(1, len(hist) + 1):
        pred = preds.get(core.canon(hist[:i]))
        if pred is None:
            raise core.Infra("no prediction for history prefix %s" % core.canon(hist[:i]))
        if i >= len(events):
            break
        obs = {"/".join(t["p"]): t for t in events[i]["tree"]}
        want = {"/".join(t["p"]): t for t in pred}
        ctx.cov["evaluations"] += 1
        for ap, rp in ABS2REAL.items():
            w, o = want.get(ap), obs.get(rp)
            if (w is None) != (o is None):
                diffs.append((i, ap, "model: %s, real: %s" % ("present" if w else "absent", "present" if o else "absent")))
                continue
            if w is None:
                continue
            if w["s"] != o["s"]:
                diffs.append((i, ap, "last written by operation %d in the model, %d for real" % (w["s"], o["s"])))
            c = w["c"]
            if c in ABS_CID:
                di, kind, p = ABS_CID[c]
                exp = events[0]["cfg"]["designs"][di][kind]
                expc = next(f["c"] for f in exp if "/".join(f["p"]) == ABS2REAL[p])
            elif c == 100:
                expc = lab.STRAYC
            elif c == 1:
                expc = next(f["c"] for f in events[0]["cfg"]["init"] if "/".join(f["p"]) == rp)
            elif c >= 200:
                expc = lab.EDITBASE + (c - 200)
            else:
                expc = None  # Mixed: never predicted with Deviations = {}
            if expc is not None and o["c"] != expc:
                diffs.append((i, ap, "content class %s expected (model %d), %s found" % (expc, c, o["c"])))
        if events[i]["ev"] in ("gen", "example") and events[i].get("rc", 0) != 0:
            diffs.append((i, "-", "command failed"))
    return diffs


def case_ops(events):
    ops = []
    for e in events[1:]:
        if e["ev"] in ("gen", "example"):
            ops.append({"k": e["ev"], "d": e["d"], "same": bool(e.get("same"))})
        else:
            ops.append({"k": e["ev"], "p": "/".join(e["p"])})
    return ops


def write_trace(ctx, cases, name="trace"):
    d = ctx.subdir(name)
    p = os.path.join(d, "trace.ndjson")
    index = []     # (first line (1-based), case)
    n = 0
    with open(p, "w") as f:
        for c in cases:
            index.append((n + 1, c))
            for e in c["events"]:
                f.write(json.dumps({k: v for k, v in e.items() if k not in ("stderr", "tag") and v is not None}, separators=(",", ":")) + "\n")
                n += 1
    return p, index, n


def judge(ctx, L, refs, cases, label="trace"):
    """Validate all cases as one trace; every rejected case becomes a finding; validation resumes after it."""
    rest = list(cases)
    rejected = 0
    while rest:
        p, index, n = write_trace(ctx, rest, label)
        ok, hwm, r = ctx.trace_validate("trace/Trace_GenHistory", "trace/Trace_GenHistory.cfg", p, label=label, timeout=1800)
        if ok:
            ctx.cov["traces_validated_against_impl"] += n
            break
        if hwm is None:
            raise core.Infra("trace validation produced no high-water mark:\n" + r.stdout[-3000:])
        ci = max(i for i, (first, _) in enumerate(index) if first <= hwm)
        first, case = index[ci]
        ei = hwm - first                       # index of the rejected event within the case
        ctx.cov["traces_validated_against_impl"] += first - 1
        if ei <= 0 or ei >= len(case["events"]):
            raise core.Infra("trace rejected at a reset line (%d): the harness' own cfg is inconsistent\n%s" % (hwm, r.stdout[-2000:]))
        report(ctx, L, refs, case, ei)
        case["rejected"] = True
        rejected += 1
        rest = rest[ci + 1:]
        if case["kind"] == "fresh-process":     # the other runs of this design are compared with the same reference: one witness is enough
            skipped = [c for c in rest if c["kind"] == "fresh-process" and c["pair"] == case["pair"]]
            rest = [c for c in rest if not (c["kind"] == "fresh-process" and c["pair"] == case["pair"])]
            if skipped:
                ctx.notes.append("%d further fresh-process runs of %s not judged after one was rejected" % (len(skipped), case["pair"][0]))
        if rejected >= 8:
            ctx.notes.append("stopped judging after 8 rejected cases")
            break
    return rejected


def report(ctx, L, refs, case, ei):
    ev = case["events"][ei]
    pair = case["events"][0]["pair"]
    snaps = case["snaps"]
    diffs = lab.explain(refs, pair, snaps[ei - 1], snaps[ei], ev) if ev["ev"] in ("gen", "example") else []
    key = lab.finding_key(ev, diffs)
    # a known deviation that makes the model accept this very case takes precedence as the key
    for d in ctx.known:
        if d in DEVS:
            p, _, n = write_trace(ctx, [case], "rejudge")
            ok, _, _ = ctx.trace_validate("trace/Trace_GenHistory", "trace/Trace_GenHistory.cfg", p,
                                          consts={"Deviations": '{"%s"}' % d}, label="rejudge-" + d)
            if ok:
                key = d
                break
    ops = case_ops(case["events"])
    desc = "%s: after %s the directory is not what GenHistory allows: %s" % (
        case["kind"], " ; ".join("%s%s %s" % (o["k"], " (same process)" if o.get("same") else "", o.get("p") or pair[o["d"] - 1]) for o in ops[:ei]),
        "; ".join("%s %s %s" % d for d in diffs[:4]) or "see replay")
    ctx.violation(key, desc, {"kind": case["kind"], "pair": pair, "ops": ops, "strays": case["strays"], "envs": case.get("envs"),
                              "depth": case.get("depth", 0), "rejected_event": ei, "differences": [list(d) for d in diffs[:20]]})


def model_checking(ctx, quick):
    """(M) all histories of <= MaxOps operations; every deviation must break the invariant it is named for."""
    ctx.mc("mc/MC_GenHistory", consts={"MaxOps": 4 if quick else 6}, label="MC GenHistory", timeout=3000, heap=None if quick else "24g",
           workers=8 if quick else "auto")
    for i, (dev, kind, inv) in enumerate(BITES):
        if quick and not ctx.selftest and i not in QUICK_BITES:
            continue
        cfg = ("SPECIFICATION Spec\nCONSTANTS\n Deviations = {\"%s\"}\n MaxOps = 3\n Nonces = {0, 1}\n KeepHist = FALSE\n Focus = FALSE\n%s %s\n"
               "CHECK_DEADLOCK FALSE\n" % (dev, kind, inv))
        r = ctx.mc_expect_violation("mc/MC_GenHistory", cfg_text=cfg, label="dev %s/%s" % (dev, inv), workers=4)
        if r.violated not in (inv, "temporal"):
            raise core.Infra("deviation %s violated %s instead of %s" % (dev, r.violated, inv))


def run(ctx):
    quick = ctx.quick()
    rng = random.Random(ctx.seed)
    ctx.cov["rule"] = ("histories = sequences of {goa gen d, goa example d, edit p, add stray p, delete p} on one output directory, executed with the real "
                       "goa command line on real design packages; a history is non-trivial when a goa command runs after at least one other operation; "
                       "a determinism run is non-trivial always (fresh process, varied GOMAXPROCS/TZ/locale/cwd depth); distinct = canonical JSON of "
                       "(design pair, operations) resp. (design, run number)")
    ctx.assumptions += ["content classes are sha256 classes, stamps are mtime-change classes between consecutive snapshots",
                        "go.mod/go.sum of the scratch module are not output (the go tool itself completes them when goa compiles its temporary main)",
                        "the reference of a design (GenFiles/ExFiles and their contents) is its first generation in a fresh module; every other run must agree with it",
                        "empty directories are not observed"]
    # ---------------------------------------------------------------- (M) runs beside the replays
    lock = threading.Lock()
    subdir = ctx.subdir

    def locked_subdir(name):
        with lock:
            return subdir(name)
    ctx.subdir = locked_subdir
    pool = cf.ThreadPoolExecutor(max_workers=2)
    model_side = pool.submit(model_checking, ctx, quick)
    # method shapes of the transport specification (request and response families), for the genhost corpus
    shapes_side = pool.submit(lambda: (transport.gen_vectors(ctx, "req", 1, 1), transport.gen_vectors(ctx, "res", 1, 1)))
    # ---------------------------------------------------------------- (G) histories from TLC
    g = ctx.gen("mc/MC_GenHistory", "gen/Gen_GenHistory.cfg", consts={"MaxOps": 4 if quick else 5}, label="Gen histories", timeout=1800,
                workers=8 if quick else "auto")
    vectors = [v for v in g.vectors if not any(o["same"] for o in v["hist"])]     # the command line always starts a new process
    for v in vectors:
        for o in v["hist"]:
            del o["same"]
    preds = {core.canon(v["hist"]): v["tree"] for v in vectors}
    maxlen = max(len(v["hist"]) for v in vectors)
    cands = sorted(core.canon(v["hist"]) for v in vectors
                   if len(v["hist"]) == maxlen and v["hist"][-1]["k"] in ("gen", "example") and nontrivial(v["hist"]))
    must = MUST[:4] if quick else MUST
    for m in must:
        if core.canon(m) not in preds:
            raise core.Infra("TLC did not enumerate the mandatory history %s" % core.canon(m))
    chosen = [core.canon(m) for m in must] + rng.sample(cands, min(len(cands), 3 if quick else 70))
    chosen = list(dict.fromkeys(chosen))
    ctx.log("TLC enumerated %d histories (<= %d operations); %d replayed with the real command line" % (len(preds), maxlen, len(chosen)))
    # ---------------------------------------------------------------- the laboratory
    L = lab.Lab(ctx)
    designs = ALL_DESIGNS
    refs = L.references(designs)
    ctx.log("references: " + ", ".join("%s %d+%d files" % (d, len(refs[d]["gen"]), len(refs[d]["ex"])) for d in designs))
    cids = lab.Cids()
    # fresh-process generations per design: the richest design gets the most (see `flip` below)
    nruns = {"rich": 16, "types": 6} if quick else {d: 40 for d in designs}
    # designs assembled from TLC's transport shapes, generated through genhost (no command line, no example)
    req_v, res_v = shapes_side.result()
    tdesigns = lab.transport_designs(req_v, res_v, rng, 1 if quick else 4, 8 if quick else 12)
    for i, td in enumerate(tdesigns):
        name = "transport%d" % (i + 1)
        L.add_abstract(name, td)
        try:
            refs[name] = L.reference(name)
        except core.Infra as e:
            ctx.notes.append("abstract design %s not generated (coverage loss): %s" % (name, str(e)[:300]))
            del L.abstract[name]
            continue
        nruns[name] = 8 if quick else 16
    # probability that N+1 processes (reference included) all walk a k-entry Go map (<= 8 entries: one bucket, random
    # starting slot) in the same order, i.e. that an unsorted walk over k items stays unseen
    most = max(nruns.values()) + 1
    ctx.cov["unsorted_map_walk_detection"] = {
        "processes_compared_for_richest_design": most,
        "P(detect | k items ranged unsorted)": {str(k): round(1 - ((9 - k) / 8.0) ** most - (k - 1) * (1 / 8.0) ** most, 6) for k in range(2, 9)},
        "note": "rich/session.go declares 5-8 items of every multi-valued DSL element in one place; a 2-item map still flips with "
                "probability 1/8 per process"}
    jobs = []
    for hc in chosen:
        hist = json.loads(hc)
        jobs.append({"kind": "tlc-history", "hist": hist, "pair": list(PAIR), "ops": real_ops(hist),
                     "strays": [ABS2REAL[s] for s in ABS_STRAYS], "envs": [rng.randrange(len(lab.ENVS)) for _ in hist], "depth": rng.choice([0, 0, 2])})
    for d in nruns:
        for k in range(nruns[d]):
            ops = [{"k": "gen", "d": 1}] + ([] if d in L.abstract else [{"k": "example", "d": 1}])
            jobs.append({"kind": "fresh-process", "pair": [d], "ops": ops, "strays": [],
                         "envs": [k % len(lab.ENVS), (k + 1) % len(lab.ENVS)], "depth": k % 4, "run": k})
    pairs = [("rich", "types"), ("smallb", "smalla"), ("types", "smalla"), ("smallb", "rich")]
    for k in range(2 if quick else 30):
        pair = list(pairs[(ctx.seed + k) % len(pairs)])
        ops, strays = lab.random_history(rng, refs, pair, rng.randint(5, 8) if not quick else 5)
        jobs.append({"kind": "random-history", "pair": pair, "ops": ops, "strays": strays, "envs": [rng.randrange(len(lab.ENVS)) for _ in ops],
                     "depth": rng.choice([0, 1, 3])})

    def do(job):
        events, snaps = L.replay(refs, job["pair"], job["ops"], cids, job["strays"], envs=job["envs"], depth=job["depth"])
        job["events"], job["snaps"] = events, snaps
        return job
    with cf.ThreadPoolExecutor(max_workers=int(os.environ.get("VERIF_C09_PAR") or 8)) as ex:
        cases = list(ex.map(do, jobs))
    ctx.log("%d goa command lines and %d genhost processes run (%.0f s of process time), %d cases" % (L.goa_runs, L.genhost_runs, L.goa_secs, len(cases)))
    # in-process repetition: one evaluation, Generate gen/example/gen/example in ONE process
    def doin(d):
        events, snaps = L.inproc(refs, d, cids, 2)
        return {"kind": "in-process", "pair": [d], "events": events, "snaps": snaps, "strays": [], "design": d}
    with cf.ThreadPoolExecutor(max_workers=4) as ex:
        cases += list(ex.map(doin, ["types"] if quick else designs))
    # ---------------------------------------------------------------- verdicts
    nontriv = set()
    # (G) projection of TLC's histories
    for c in cases:
        if c["kind"] != "tlc-history":
            continue
        diffs = compare_projection(ctx, refs, c["hist"], c["events"], preds)
        if nontrivial(c["hist"]):
            nontriv.add(core.canon([c["pair"], c["ops"]]))
        if diffs:
            c["projection_diffs"] = True
            i, ap, what = diffs[0]
            ev = c["events"][i]
            d2 = lab.explain(refs, c["pair"], c["snaps"][i - 1], c["snaps"][i], ev) if ev["ev"] in ("gen", "example") else []
            key = lab.finding_key(ev, d2) if d2 else "C09/%s/projection" % ev["ev"]
            ctx.violation(key, "history %s: after operation %d the model and the real directory differ at %s: %s" % (
                " ; ".join("%s %s" % (o["k"], o.get("p") or c["pair"][o["d"] - 1]) for o in c["ops"]), i, ABS2REAL.get(ap, ap), what),
                {"kind": c["kind"], "pair": c["pair"], "ops": c["ops"], "strays": c["strays"], "envs": c["envs"], "depth": c["depth"],
                 "rejected_event": i, "differences": [list(x) for x in diffs[:20]]})
        elif len(ctx.cov["samples"]) < 2:
            ctx.sample({"history": c["ops"], "pair": c["pair"], "final_tree_files": len(c["events"][-1]["tree"])})
    # (J) everything recorded, as one trace
    for c in cases:
        if c["kind"] == "fresh-process":
            nontriv.add(core.canon([c["pair"], c["run"]]))
        elif c["kind"] == "random-history":
            nontriv.add(core.canon([c["pair"], c["ops"]]))
        elif c["kind"] == "in-process":
            nontriv.add(core.canon(["in-process", c["pair"]]))
        ctx.cov["evaluations"] += len(c["events"]) - 1
    order = {"in-process": 0, "tlc-history": 1, "random-history": 2, "fresh-process": 3}
    judge(ctx, L, refs, sorted(cases, key=lambda c: order[c["kind"]]), "trace")
    model_side.result()
    pool.shutdown()
    ctx.cov["distinct_nontrivial"] = len(nontriv)
    ctx.cov["goa_command_lines_run"] = L.goa_runs
    ctx.cov["genhost_processes_run"] = L.genhost_runs
    ctx.cov["fresh_process_runs_per_design"] = nruns
    ctx.cov["designs"] = {d: {"gen_files": len(refs[d]["gen"]), "example_files": len(refs[d]["ex"])} for d in refs}
    if ctx.selftest or not quick:
        selftest(ctx, cases)


def selftest(ctx, cases):
    """Binding demonstrated: one content class / one stamp / one path of an accepted trace is changed and TLC must
    reject the trace at exactly that line."""
    good = [c for c in cases if c["kind"] in ("tlc-history", "fresh-process") and not c.get("rejected") and not c.get("projection_diffs")][:3]
    if not good:
        return
    for what in ("content", "stamp", "extra-path", "missing-path"):
        cs = json.loads(json.dumps([{"events": c["events"]} for c in good]))
        tgt = cs[1 if len(cs) > 1 else 0]["events"][-1]
        line = sum(len(c["events"]) for c in cs[:1 if len(cs) > 1 else 0]) + len(cs[1 if len(cs) > 1 else 0]["events"])
        t = tgt["tree"]
        if what == "content":
            t[len(t) // 2]["c"] += 7
        elif what == "stamp":
            t[len(t) // 2]["s"] = max(0, t[len(t) // 2]["s"] - 1) if t[len(t) // 2]["s"] > 0 else 1
        elif what == "extra-path":
            t.append({"p": ["goa123456", "main.go"], "c": 777777, "s": len(cs[0]["events"])})
        else:
            del t[len(t) // 2]
        p, _, n = write_trace(ctx, cs, "selftest")
        ok, hwm, _ = ctx.trace_validate("trace/Trace_GenHistory", "trace/Trace_GenHistory.cfg", p, label="selftest-" + what)
        res = {"corruption": what, "corrupted_line": line, "rejected_at": hwm, "ok": (not ok and hwm == line)}
        ctx.cov.setdefault("trace_selftests", []).append(res)
        if not res["ok"]:
            raise core.Infra("trace self-test failed (%s): corrupted line %d, TLC stopped at %s" % (what, line, hwm))


def replay(ctx, rp):
    case = rp["case"]
    L = lab.Lab(ctx)
    pair = case["pair"]
    refs = L.references(list(dict.fromkeys(pair)))
    # a fresh-process case shows a difference between two processes: it may take a few processes to show again
    for attempt in range(5 if case.get("kind") == "fresh-process" else 1):
        cids = lab.Cids()
        if case.get("kind") == "in-process":
            events, snaps = L.inproc(refs, pair[0], cids, 2)
        else:
            events, snaps = L.replay(refs, pair, case["ops"], cids, case["strays"], envs=case.get("envs"), depth=case.get("depth", 0))
        c = {"kind": case.get("kind", "replay"), "events": events, "snaps": snaps, "strays": case["strays"], "pair": pair}
        p, _, n = write_trace(ctx, [c], "replay")
        ok, hwm, _ = ctx.trace_validate("trace/Trace_GenHistory", "trace/Trace_GenHistory.cfg", p, label="replay")
        if not ok:
            break
    for i, e in enumerate(events[1:], 1):
        print("%d. %-8s %-40s -> %d files%s" % (i, e["ev"] + ("*" if e.get("same") else ""), e.get("p") and "/".join(e["p"]) or pair[e["d"] - 1], len(e["tree"]),
                                               "" if e.get("rc", 0) == 0 else "  (exit %d)" % e["rc"]))
    if ok:
        print("trace accepted by Trace_GenHistory (%d events)" % n)
        return 0
    ei = hwm - 1
    ev = events[ei]
    diffs = lab.explain(refs, pair, snaps[ei - 1], snaps[ei], ev) if ev["ev"] in ("gen", "example") else []
    print("VIOLATION property=C09 replay=(replayed)")
    print("  event %d (%s) rejected by Trace_GenHistory: %s" % (ei, ev["ev"], "; ".join("%s %s %s" % tuple(d) for d in diffs[:6])))
    return 1
