"""C16 - the router dispatches by pattern and returns the original path values.
(M) Mux.tla (registration, net/url parsing of the target, middleware chain, routing, Vars/ResolvePattern
    probes before routing / in the handler / after routing, 404 responder) is model-checked; every named
    deviation must produce a counterexample (vacuity guard).
(G) every case TLC enumerates (four families: value strings x pattern shapes, pattern sets x requests,
    Use/Handle orderings, registration histories = two or three Handle calls that repeat / rename / move to the
    other method / add or drop the trailing slash of an earlier one) is executed on the real goahttp.NewMuxer() by harness/drivers/mux and the
    observation must equal one of the model's predictions for that case (the model is nondeterministic
    only where the statement leaves a choice: which of several matching patterns wins, empty {name}
    segments, 404 or 405 for a path that matches under another method).
(J) random larger cases (<= 6 Handle calls, a fifth of them derived from an earlier call: repeated, wildcards
    renamed, other method, trailing slash toggled; values up to 6 characters, <= 3 middlewares, late Use) executed by
    the real code are validated as one batch trace against Trace_Mux.tla."""
import json, os, urllib.parse
from vlib import core

DRIVER = "drivers/mux"
DEVIATIONS = ["mux.double_unescape", "mux.probe_pollutes_context", "mux.preroute_matches_decoded_path",
              "mux.resolve_trims_trailing_slash", "mux.rereg_keeps_first_wildcard_name"]
# bounds on which TLC shows a counterexample for each deviation quickly
DEV_BOUNDS = {   # single pattern /x/{id} (or /z/) behind one probing middleware, the small value set
    "mux.double_unescape": {"Profile": '"dispatch"', "MaxPats": 1, "Shapes": "{3}"},
    "mux.probe_pollutes_context": {"Profile": '"dispatch"', "MaxPats": 1, "Shapes": "{3}"},
    "mux.preroute_matches_decoded_path": {"Profile": '"dispatch"', "MaxPats": 1, "Shapes": "{3}"},
    "mux.resolve_trims_trailing_slash": {"Profile": '"dispatch"', "MaxPats": 1, "Shapes": "{12}"},
    # GET /x/{*rest} then GET /x/{*tail} (registration histories)
    "mux.rereg_keeps_first_wildcard_name": {"Profile": '"history"', "Shapes": "{4,14,19}"},
}
ALL_SHAPES = "{1,2,3,4,5,6,7,8,9,10,11,12,13,14}"
HISTORY_SHAPES = "{1,3,4,6,7,11,12,13,14,15,16,17,18,19,20,21}"     # every cluster of related patterns of Mux.tla
UNRESERVED = {"x", "z", "4", "1"}


# ---------------------------------------------------------------------------------------------- helpers
def case_of(v):
    return {"plan": v["plan"], "req": v["req"]}


def nontrivial(case):
    """>= 2 patterns, or a value with a character that needs care (anything but letters/digits),
    or a probing middleware, or a request not built from a registered pattern."""
    handles = [o for o in case["plan"] if o["op"] == "handle"]
    if len(handles) >= 2 or any(o["op"] == "use" and o["probe"] for o in case["plan"]):
        return True
    src = case["req"]["src"]
    if src["hid"] == 0:
        return True
    return any(c not in UNRESERVED for v in src["vals"] for c in v)


def has_pct_hex(vals):
    for v in vals:
        for i in range(len(v) - 2):
            if v[i] == "%" and v[i + 1] in "41" and v[i + 2] in "41":
                return True
    return False


def pattern_class0(case, hid):
    for o in case["plan"]:
        if o["op"] == "handle" and o["id"] == hid:
            segs = o["segs"]
            if segs[-1]["k"] == "wild":
                return "catchall"
            if len(segs) == 1 and segs[0]["k"] == "lit" and not segs[0]["v"]:
                return "root"
            if segs[-1]["k"] == "lit" and not segs[-1]["v"]:
                return "trailing-slash"
            return "var" if any(s["k"] == "var" for s in segs) else "literal"
    return "none"


def shape_of(o):
    return (o["method"], tuple("{}" if g["k"] == "var" else "*" if g["k"] == "wild" else "".join(g["v"]) for g in o["segs"]))


def pattern_class(case, hid):
    """Class of the pattern of Handle call `hid`; '+replaced-route' when the registration history has an earlier
    call for the same method and the same route (pattern with the wildcard names erased)."""
    c = pattern_class0(case, hid)
    hs = [o for o in case["plan"] if o["op"] == "handle"]
    for i, o in enumerate(hs):
        if o["id"] == hid and any(shape_of(p) == shape_of(o) for p in hs[:i] + hs[i + 1:]):
            return c + "+replaced-route"
    return c


def classify(case, pred, obs):
    """(finding key, first differing observable).  The key is computed from the failing case only:
    site / how the path reached the router / class of pattern or value."""
    raw = "rawpath" if pred["url"]["rawkept"] else "decoded"
    if pred["useres"] != obs.get("useres"):
        return "C16/use/outcome", "Use outcomes %s, model %s" % (obs.get("useres"), pred["useres"])
    if pred["url"] != obs.get("url"):
        return "C16/parse/%s" % raw, "URL.Path/RawPath %s, model %s" % (obs.get("url"), pred["url"])
    po, oo = pred["obs"], obs["obs"]
    if po["reached"] != oo["reached"]:
        return ("C16/dispatch/%s/%s" % (raw, pattern_class(case, po["reached"] or oo["reached"])),
                "handler reached %s, model %s" % (oo["reached"], po["reached"]))
    if po["order"] != oo["order"]:
        return "C16/middleware-order", "order %s, model %s" % (oo["order"], po["order"])
    if (po["status"], po["ct"], po["wf"]) != (oo["status"], oo["ct"], oo["wf"]):
        return ("C16/notfound/%s" % ("status" if po["status"] != oo["status"] else "body"),
                "status/content-type/well-formed %s, model %s" % ((oo["status"], oo["ct"], oo["wf"]), (po["status"], po["ct"], po["wf"])))
    for i, p in enumerate(po["probes"]):
        if i >= len(oo["probes"]):
            break
        q = oo["probes"][i]
        site = {"pre": "before-routing", "h": "handler", "post": "after-routing"}.get(p["at"][0], "?")
        if p["vars"] != q["vars"]:
            rr = "+replaced-route" if pattern_class(case, po["reached"]).endswith("+replaced-route") else ""
            return ("C16/vars/%s/%s/%s" % (site, raw, ("percent-hex" if has_pct_hex(case["req"]["src"]["vals"]) else "other") + rr),
                    "Vars %s: %s, model %s" % (site, q["vars"], p["vars"]))
        if p["res"] != q["res"]:
            return ("C16/resolve/%s/%s/%s" % (site, raw, pattern_class(case, po["reached"])),
                    "ResolvePattern %s: %s, model %s" % (site, "/" + "/".join(q["res"]) if q["res"] else '""', "/" + "/".join(p["res"]) if p["res"] else '""'))
    return "C16/other", str(core.deep_diff(pred, obs))


def closest(preds, obs):
    """Of several admissible predictions, the one sharing most with the observation (same handler first)."""
    def score(p):
        po, oo = p["obs"], obs["obs"]
        eqp = sum(1 for a, b in zip(po["probes"], oo["probes"]) if a == b)
        return (po["reached"] == oo["reached"], po["status"] == oo["status"], po["order"] == oo["order"], eqp)
    return max(preds, key=score)


CONCRETE = {"U": "\u00e9"}


def target_text(wire):
    """The request target as sent (what the driver writes on the request line)."""
    return "".join((urllib.parse.quote(CONCRETE.get(t[1], t[1]), safe="") if t[0] == "e" else t[1]) if t[0] == "l" or t[1] not in UNRESERVED
                   else "%%%02X" % ord(t[1]) for t in wire)


def first_diff(preds, obs):
    return classify({"plan": [], "req": {"src": {"vals": []}}}, closest(preds, obs), obs)[1]


def matches(preds, obs):
    return any(core.deep_diff(p, obs) is None for p in preds)


def predict_file(ctx, cases, deviations, label):
    """Predictions of the model for explicit cases (list) under a deviation set: {index: [pred, ...]}."""
    txt = json.dumps(cases)
    dv = "{" + ",".join('"%s"' % d for d in deviations) + "}"
    r = ctx.gen("mc/MC_Mux", "gen/Gen_MuxFile.cfg", consts={"Deviations": dv}, files={"cases.json": txt}, label=label, timeout=1200)
    out = {}
    for v in r.vectors:
        out.setdefault(v["ci"] - 1, []).append(v["pred"])
    return out


# ---------------------------------------------------------------------------------------------- (G)
def gen_family(ctx, label, consts):
    r = ctx.gen("mc/MC_Mux", "gen/Gen_Mux.cfg", consts=consts, label=label, timeout=2400, heap="12g")
    groups = {}
    for v in r.vectors:
        groups.setdefault(core.canon(case_of(v)), []).append(v["pred"])
    return groups


def drive_and_compare(ctx, groups, nontriv, mismatches):
    keys = list(groups)
    cases = [json.loads(k) for k in keys]
    obs, _, _ = ctx.drive(DRIVER, cases)
    if len(obs) != len(cases):
        raise core.Infra("driver returned %d observations for %d cases" % (len(obs), len(cases)))
    for i, (k, case) in enumerate(zip(keys, cases)):
        o = obs[i]
        if o["i"] != i:
            raise core.Infra("driver observations out of order")
        ctx.cov["evaluations"] += 1
        if nontrivial(case):
            nontriv.add(k)
        if matches(groups[k], o["obs"]):
            if i % 9001 == 0:
                ctx.sample({"case": case, "observed": o["obs"]})
        else:
            mismatches.append((case, groups[k], o["obs"]))


# ---------------------------------------------------------------------------------------------- (J)
def split_cases(lines):
    """[(first_line_index, [events])] per case of a trace."""
    out, cur, start = [], [], 0
    for i, l in enumerate(lines):
        e = json.loads(l)
        if e["ev"] == "reset" and cur:
            out.append((start, cur))
            cur, start = [], i
        cur.append(e)
    if cur:
        out.append((start, cur))
    return out


def case_from_events(evs):
    plan, req = [], None
    for e in evs:
        if e["ev"] == "use":
            plan.append({"op": "use", "id": e["id"], "probe": e["probe"], "method": "-", "pattern": "", "segs": []})
        elif e["ev"] == "handle":
            plan.append({"op": "handle", "id": e["id"], "probe": False, "method": e["method"], "pattern": e["pattern"], "segs": e["segs"]})
        elif e["ev"] == "serve":
            req = {"method": e["method"], "wire": e["wire"], "accept": e["accept"], "src": e["src"]}
    return {"plan": plan, "req": req}


def validate_trace(ctx, lines, nontriv, mismatches, maxfail=8):
    cases = split_cases(lines)
    starts = [s for s, _ in cases]
    offset, fails = 0, 0          # offset = index of the first line of the remaining trace
    while offset < len(lines):
        d = ctx.subdir("trace")
        p = os.path.join(d, "trace.ndjson")
        open(p, "w").write("".join(lines[offset:]))
        ok, hwm, r = ctx.trace_validate("trace/Trace_Mux", "trace/Trace_Mux.cfg", p)
        if r.violated:
            raise core.Infra("trace specification violates %s on a recorded execution (model-level):\n%s" % (r.violated, r.stdout[-2500:]))
        if ok:
            break
        if hwm is None:
            raise core.Infra("trace validation produced no high-water mark:\n" + r.stdout[-2000:])
        bad = offset + hwm - 1                               # 0-based index of the rejected line
        ci = max(i for i, s in enumerate(starts) if s <= bad)
        evs = cases[ci][1]
        case = case_from_events(evs)
        if case["req"] is None:
            raise core.Infra("trace rejected before the request was served (line %d: %s)" % (bad + 1, lines[bad][:200]))
        # judge the case like a generated one: model predictions from the file profile, observation re-driven
        preds = predict_file(ctx, [case], [], "trace-case").get(0, [])
        obs, _, _ = ctx.drive(DRIVER, [case])
        if not preds or matches(preds, obs[0]["obs"]):
            raise core.Infra("Trace_Mux rejects line %d but the generated prediction accepts the case: %s" % (bad + 1, lines[bad][:300]))
        mismatches.append((case, preds, obs[0]["obs"]))
        fails += 1
        if ci + 1 >= len(cases) or fails >= maxfail:
            break
        offset = starts[ci + 1]
    for _, evs in cases:
        c = case_from_events(evs)
        ctx.cov["evaluations"] += 1
        if c["req"] is not None and nontrivial(c):
            nontriv.add(core.canon(c))
    ctx.sample({"trace_case": cases[0][1][:8]})


def selftest(ctx, lines):
    """Binding demonstrated: one corrupted field of an accepted trace must be rejected at exactly that line."""
    evs = [json.loads(l) for l in lines]
    results = []

    def attempt(name, pick, mutate):
        idx = next((i for i, e in enumerate(evs) if i > len(evs) // 3 and pick(e)), None)
        if idx is None:
            return
        mod = [json.loads(json.dumps(e)) for e in evs]
        mutate(mod[idx])
        d = ctx.subdir("selftest")
        p = os.path.join(d, "trace.ndjson")
        open(p, "w").write("".join(json.dumps(e) + "\n" for e in mod))
        ok, hwm, _ = ctx.trace_validate("trace/Trace_Mux", "trace/Trace_Mux.cfg", p, label="selftest-" + name)
        res = {"field": name, "corrupted_line": idx + 1, "rejected_at": hwm, "ok": (not ok and hwm == idx + 1)}
        results.append(res)
        if not res["ok"]:
            raise core.Infra("trace self-test failed (%s): corrupted line %d, TLC stopped at %s" % (name, idx + 1, hwm))

    def some_var(e):
        return e["ev"] == "reached" and any(k != "#" and v for k, v in e["probe"]["vars"].items())

    def corrupt_var(e):
        k = sorted(k for k, v in e["probe"]["vars"].items() if k != "#" and v)[0]
        e["probe"]["vars"][k] = e["probe"]["vars"][k][:-1]

    attempt("vars", some_var, corrupt_var)
    attempt("resolved", lambda e: e["ev"] == "reached" and len(e["probe"]["res"]) >= 1,
            lambda e: e["probe"]["res"].__setitem__(0, e["probe"]["res"][0] + "x"))
    attempt("rawkept", lambda e: e["ev"] == "serve", lambda e: e.__setitem__("rawkept", not e["rawkept"]))
    attempt("mw-order", lambda e: e["ev"] == "mw" and e["dir"] == "out", lambda e: e.__setitem__("id", e["id"] + 50))
    ctx.cov.setdefault("trace_selftests", []).extend(results)


# ---------------------------------------------------------------------------------------------- verdicts
def report(ctx, mismatches):
    if not mismatches:
        return
    ctx.log("%d case(s) where the real code departs from every prediction of the model" % len(mismatches))
    known = [d for d in DEVIATIONS if d in ctx.known]
    keyed = {}                                  # index of mismatch -> name of the known deviation explaining it
    for d in known:
        todo = [i for i in range(min(len(mismatches), 60000)) if i not in keyed]
        if not todo:
            break
        preds_d = predict_file(ctx, [mismatches[i][0] for i in todo], [d], "classify-" + d)
        for j, i in enumerate(todo):
            if matches(preds_d.get(j, []), mismatches[i][2]):
                keyed[i] = d
    for i, (case, preds, obs) in enumerate(mismatches):
        ckey, detail = classify(case, closest(preds, obs), obs)
        key = keyed.get(i, ckey)
        tgt = target_text(case["req"]["wire"])
        pats = [o["pattern"] for o in case["plan"] if o["op"] == "handle"]
        ctx.violation(key, "%s %s on patterns %s: %s" % (case["req"]["method"], tgt, pats[:3], detail),
                      {"case": case, "observed": obs, "predicted": preds[:3]})


def run(ctx):
    quick = ctx.quick()
    ctx.cov["rule"] = ("case = (registration script, request) enumerated by TLC from Mux.tla or drawn at random by the driver; "
                       "non-trivial = >= 2 patterns, or a probing middleware, or a request not built from a registered pattern, "
                       "or a value containing a character other than letters/digits; distinct = canonical JSON of the case")
    ctx.assumptions += [
        "a {name} segment is never given an empty value by the generator; whether an empty segment matches {name} is left open (both readings accepted)",
        "a path that matches only under another method may be answered 404 (well-formed) or 405 (chi's default)",
        "literal pattern segments are sent unescaped; only wildcard values are escaped (url.PathEscape, full escaping, or slashes kept)",
        "a Handle call for a method and a pattern that differs from an earlier call's only in its wildcard names replaces that call (handler, names, reported pattern): the last registration wins",
        "Use after the first Handle is refused by chi with a panic and leaves the muxer unchanged (modelled as what exists)",
    ]
    # (M) vacuity guard: each named deviation makes an invariant fail
    for d in DEVIATIONS:
        c = dict(DEV_BOUNDS[d])
        c["Deviations"] = '{"%s"}' % d
        ctx.mc_expect_violation("mc/MC_Mux", consts=c, label="MC " + d)
    # (G) the Gen configuration checks the invariants while emitting, so it is also the (M) run for these bounds
    nontriv, mismatches = set(), []
    families = [("values", {"Profile": '"values"', "MaxLen": 3, "Shapes": "{3,4,5,6,7}" if quick else ALL_SHAPES}),
                ("dispatch", {"Profile": '"dispatch"', "MaxPats": 2}),
                ("mw", {"Profile": '"mw"'}),
                ("history", {"Profile": '"history"', "Shapes": HISTORY_SHAPES})]
    if not quick:
        families += [("values-len4", {"Profile": '"values"', "MaxLen": 4, "Shapes": "{3,4}"}),
                     ("dispatch-3", {"Profile": '"dispatch"', "MaxPats": 3, "Shapes": "{1,3,4,5,6,8,9,12,14}"})]
    for label, consts in families:
        groups = gen_family(ctx, "Gen " + label, consts)
        drive_and_compare(ctx, groups, nontriv, mismatches)
        del groups
    if not quick:
        # (M) beyond what is worth printing: every shape with values up to 4 characters
        ctx.mc("mc/MC_Mux", consts={"Profile": '"values"', "MaxLen": 4}, label="MC values len<=4", timeout=1500, heap="12g")
    # (J) random larger cases judged by trace validation
    nrand = 400 if quick else 6000
    _, tpath, _ = ctx.drive(DRIVER, [], args=["-random", str(nrand)])
    lines = [l for l in open(tpath) if l.strip()]
    validate_trace(ctx, lines, nontriv, mismatches)
    ctx.cov["traces_validated_against_impl"] += len(split_cases(lines))
    ctx.cov["distinct_nontrivial"] = len(nontriv)
    report(ctx, mismatches)
    if (ctx.selftest or not quick) and not mismatches:
        selftest(ctx, lines)
        # one corrupted prediction must be noticed by the comparison
        c = case_from_events(split_cases(lines)[0][1])
        preds = predict_file(ctx, [c], [], "selftest-pred").get(0, [])
        o, _, _ = ctx.drive(DRIVER, [c])
        bad = json.loads(json.dumps(preds))
        for p in bad:
            p["url"]["rawkept"] = not p["url"]["rawkept"]
        okc = matches(preds, o[0]["obs"]) and not matches(bad, o[0]["obs"])
        ctx.cov.setdefault("compare_selftests", []).append({"ok": okc})
        if not okc:
            raise core.Infra("comparison self-test failed")


def replay(ctx, rp):
    case = rp["case"]["case"]
    preds = predict_file(ctx, [case], [], "replay").get(0, [])
    obs, _, _ = ctx.drive(DRIVER, [case])
    o = obs[0]["obs"]
    tgt = target_text(case["req"]["wire"])
    print("request:   %s %s   patterns: %s" % (case["req"]["method"], tgt, [x["pattern"] for x in case["plan"] if x["op"] == "handle"]))
    for p in preds:
        print("predicted:", json.dumps(p, sort_keys=True))
    print("observed: ", json.dumps(o, sort_keys=True))
    if not preds:
        raise core.Infra("no prediction for the replayed case")
    if not matches(preds, o):
        print("VIOLATION property=C16 replay=(replayed)")
        print("  diff:", first_diff(preds, o))
        return 1
    return 0
