"""C03 - HTTP responses deliver the result intact to the client caller.
Every (result shape, result value vector, tagged or not) TLC emits is returned by the stub service behind the
generated server; the generated client's return value, the status code and the wire location of every
attribute are judged against the oracle sets computed by HTTPTransport.tla."""
import json, os
from vlib import core, httpcheck as hc, httpgen as hg


def judge(ctx, cases, nontrivial, ex):
    pending = []
    for c in cases:
        v, o, al = c["v"], c["obs"], c["v"]["allow"]
        ctx.cov["evaluations"] += 1
        if v["tagged"] or any(a["loc"] != "body" or a["mode"] != "required" for a in v["ra"]):
            nontrivial.add(core.canon([v["ra"], v["rv"], v["tagged"]]))
        problems = []
        if o["anomalies"]:
            problems.append(("anomaly:" + ",".join(o["anomalies"]), 0))
        if not o["invoked"]:
            problems.append(("fixed-valid-request-rejected:%s/%s" % (o["status"], o["errname"]), 0))
        else:
            if o["status"] != al["status"]:
                problems.append(("status:%s-instead-of-%s" % (o["status"], al["status"]), 0))
            if o.get("writeHeaderCalls") not in (None, 1):
                problems.append(("writeheader-calls:%s" % o.get("writeHeaderCalls"), 0))
            if o["rwhere"] is not None:
                for j, a in enumerate(v["ra"]):
                    w = o["rwhere"][j]
                    ok = (w == [] and "none" in al["rwhere"][j]) or (len(w) == 1 and w[0] in al["rwhere"][j])
                    if not ok:
                        problems.append(("where:%s" % "+".join(w or ["none"]), j))
            if o["cerr"] == "result":
                for j, a in enumerate(v["ra"]):
                    allowed = hg.allowed_classes(a, v["rv"][j], al["returned"][j])
                    if o["returned"][j] not in allowed:
                        problems.append(("returned:%s" % o["returned"][j], j))
            elif al["cMustAccept"]:
                problems.append(("not-returned:%s/%s" % (o["cerr"], o.get("cerr_name")), 0))
        if problems:
            pending.append((c, problems))
        elif ctx.cov["evaluations"] % 1500 == 1:
            ctx.sample({"ra": v["ra"], "rv": v["rv"], "tagged": v["tagged"], "observed": {k: o[k] for k in ("rwhere", "returned", "status", "cerr")}})
    hc.prepare_explanations(ex, cases, [c for c, _ in pending])
    hc.validate_cases(ctx, cases, "C03", skip_ids={c["id"] for c, _ in pending}, ex=ex)
    for c, problems in pending:
        v, o = c["v"], c["obs"]
        dev = ex.explain(v, o, focus=["invoked", "status", "cerr", "returned"])
        for what, j in problems:
            a = v["ra"][j]
            key = dev or "C03/%s/%s/%s" % (hc.attr_tag(a), hc.val_tag(v["rv"][j]).rsplit(":", 2)[0], what)
            ctx.violation(key, ("[explained by deviation %s] " % dev if dev else "") +
                          "result attribute r%d %s value %s tagged=%s: %s %s" % (j + 1, hc.attr_tag(a), hc.val_tag(v["rv"][j]), v["tagged"], what, o.get("cerr_msg", "")), hc.short_case(c))


def run(ctx):
    quick = ctx.quick()
    ctx.cov["rule"] = ("cases = (result shape, result value vector, tagged response or not) enumerated by TLC from HTTPTransport.tla (result family); "
                       "non-trivial = tagged response, or an attribute outside the body or optional/defaulted; distinct = canonical JSON")
    frac = float(os.environ.get("VERIF_FRAC") or (0.12 if quick else 1.0))

    def single():
        return hc.run_family(ctx, "res", hc.sample_shapes(hc.gen_vectors(ctx, "res", 1, 1), frac, ctx.seed))

    def same_location():
        # two result attributes in the same location (two cookies, two headers), and in thorough random pairs
        allv = hc.gen_vectors(ctx, "res", 1, 1, label="Gen res 1x1 (for pairs)")
        pairs = hc.combine_cases(ctx, allv, 80 if quick else 1500, ctx.seed, fam="res", mode="sameloc")
        # two tagged responses (each on a result attribute of its own, either declaration order) x results matching none / one /
        # both tags: the FIRST matching response in design order answers
        pairs += hc.combine_cases(ctx, allv, 16 if quick else 400, ctx.seed, fam="res", mode="twotags")
        if not quick:
            pairs += hc.combine_cases(ctx, allv, 3000, ctx.seed + 1, fam="res")
        return hc.run_family(ctx, "res", pairs, name="gen-res-pairs")
    hdr = lambda mode: {"kind": "string", "loc": "header", "mode": mode, "rule": "none", "nest": "direct"}

    def guards_run():
        hc.expect_violations(ctx, [({"Family": '"res"', "Deviations": '{"response.header_array_joined"}'}, "MC dev response.header_array_joined")])
        # two tagged responses, the second one selected (r2 = "abc") while the optional header attribute r1 is unset
        hc.expect_violation_on_case(ctx, {"ra": [hdr("optional"), hdr("treq")], "rv": [hg.ABSENT, hg.V("string", 3)], "tagged": True, "tags": 2},
                                    "response.tagged_header_unguarded")
        return True
    guards, f1, f2 = hc.side_by_side(ctx, [
        guards_run,
        single, same_location])
    guards.result()
    cases, pl = f1.result()
    for i, f in sorted(pl.failed.items()):
        ctx.notes.append("design d%d not usable: %s" % (i, str(f)[:300]))
    nontrivial = set()
    judge(ctx, cases, nontrivial, hc.Explainer(ctx, "res", 1, 1))
    casesp, plp = f2.result()
    judge(ctx, casesp, nontrivial, hc.Explainer(ctx, "res", 1, 2))
    ctx.cov["pairs"] = len(casesp)
    ctx.cov["distinct_nontrivial"] = len(nontrivial)
    ctx.cov["designs"] = len(pl.designs)
    ctx.cov["methods_set_aside_uncompilable"] = len(pl.bad_methods)
    if not quick:
        beyond_the_list(ctx)


def beyond_the_list(ctx):
    """Growth modules that are NOT claimed properties ride on the thorough tier: the Streaming module (WebSocket streaming
    calls of generated code, spec/Streaming.tla, checks/streaming.py).  Whatever happens in there is evidence only
    (ctx.cov["beyond_the_list"], ctx.notes): no verdict, no exit code of C03 depends on it."""
    nv = len(ctx.violations)
    try:
        from checks import streaming
        streaming.run_streaming(ctx)
    except Exception as e:       # core.Infra included: trouble of that module's machinery is not trouble of C03
        ctx.cov.setdefault("beyond_the_list", {}).setdefault("streaming", {})["did_not_finish"] = ("%s: %s" % (type(e).__name__, e))[:2000]
        ctx.notes.append("streaming (beyond the list) did not finish: %s" % (str(e)[:300]))
    del ctx.violations[nv:]      # (the module never files any; nothing it does may count for C03)


def replay(ctx, rp):
    print(json.dumps(rp["case"].get("vector"), indent=1)[:3000])
    return 0
