"""C04 - user code runs only on requests that satisfy the design's validations.
Request side: every (method shape, value vector) TLC emits - valid, boundary-invalid and absent values for
every rule x kind x nesting x location - is sent through the generated client and server; the stub records
whether user code ran. Client side: the stub returns results violating the result's constraints and the
generated client must refuse them."""
import json, os
from vlib import core, httpcheck as hc, httpgen as hg


def boundary(a, v):
    """non-trivial: a rule evaluated within one unit of its bound, or on an absent / empty value"""
    if hg.is_absent(v) or v["n"] == 0 or v["cn"] == 0:
        return True
    if a["rule"] in ("min", "max", "xmin", "xmax", "minlen", "maxlen", "range", "xrange", "lenrange"):
        return min(abs(v["n"] - hg.LO), abs(v["n"] - hg.HI)) <= 1
    if a["rule"] in ("cminlen", "cmaxlen"):
        return min(abs(v["cn"] - hg.LO), abs(v["cn"] - hg.HI)) <= 1
    return a["rule"] != "none"


def judge_req(ctx, cases, nontrivial, ex):
    pending = []
    for c in cases:
        v, o, al = c["v"], c["obs"], c["v"]["allow"]
        ctx.cov["evaluations"] += 1
        if any(boundary(a, v["pv"][i]) for i, a in enumerate(v["pa"])):
            nontrivial.add(core.canon([v["pa"], v["pv"]]))
        what = None
        if o["anomalies"]:
            what = "anomaly:" + ",".join(o["anomalies"])
        elif al["mustInvoke"] and not o["invoked"]:
            what = "valid-request-rejected:%s/%s" % (o["status"], o["errname"])
        elif al["mustReject"] and o["invoked"]:
            what = "invalid-request-reached-user-code"
        elif not o["invoked"] and not (400 <= o["status"] <= 499):
            what = "rejected-with-status-%s" % o["status"]
        elif al["mustReject"] and o["errname"] not in al["errnames"]:
            what = "rejected-under-name:%s" % o["errname"]
        elif o.get("writeHeaderCalls") not in (None, 1):
            what = "writeheader-calls:%s" % o.get("writeHeaderCalls")
        if what:
            pending.append((c, what))
        elif ctx.cov["evaluations"] % 1700 == 1:
            ctx.sample({"pa": v["pa"], "pv": v["pv"], "observed": {k: o[k] for k in ("invoked", "status", "errname")}})
    hc.prepare_explanations(ex, cases, [c for c, _ in pending])
    hc.validate_cases(ctx, cases, "C04", skip_ids={c["id"] for c, _ in pending}, ex=ex)
    for c, what in pending:
        v, o = c["v"], c["obs"]
        if True:
            i = 0
            a = v["pa"][i]
            dev = ex.explain(v, o, focus=["invoked", "status", "errname"])
            key = dev or "C04/req/%s/%s/%s" % (hc.attr_tag(a), hc.val_tag(v["pv"][i]), what)
            ctx.violation(key, ("[explained by deviation %s] " % dev if dev else "") +
                          "request attribute a1 %s value %s: %s (uri %s)" % (hc.attr_tag(a), hc.val_tag(v["pv"][i]), what, o.get("uri")), hc.short_case(c))


def judge_res(ctx, cases, nontrivial, ex):
    pending = []
    for c in cases:
        v, o, al = c["v"], c["obs"], c["v"]["allow"]
        ctx.cov["evaluations"] += 1
        if any(boundary(a, v["rv"][j]) for j, a in enumerate(v["ra"])):
            nontrivial.add(core.canon([v["ra"], v["rv"], v["tagged"]]))
        what = None
        if o["anomalies"]:
            what = "anomaly:" + ",".join(o["anomalies"])
        elif not o["invoked"]:
            what = "fixed-valid-request-rejected:%s/%s" % (o["status"], o["errname"])
        elif o["status"] >= 400 or o["status"] == 0:
            what = None  # the server refused to encode: C03's business
        elif al["cMustReject"] and o["cerr"] == "result":
            what = "client-returned-invalid-result"
        elif al["cMustAccept"] and o["cerr"] != "result":
            what = "client-refused-valid-result:%s/%s" % (o["cerr"], o.get("cerr_name"))
        if what:
            pending.append((c, what))
    hc.prepare_explanations(ex, cases, [c for c, _ in pending])
    hc.validate_cases(ctx, cases, "C04", skip_ids={c["id"] for c, _ in pending}, ex=ex)
    for c, what in pending:
        v, o = c["v"], c["obs"]
        if True:
            a = v["ra"][0]
            dev = ex.explain(v, o, focus=["invoked", "cerr"])
            key = dev or "C04/res/%s/%s/%s" % (hc.attr_tag(a), hc.val_tag(v["rv"][0]), what)
            ctx.violation(key, ("[explained by deviation %s] " % dev if dev else "") +
                          "result attribute r1 %s value %s: %s %s" % (hc.attr_tag(a), hc.val_tag(v["rv"][0]), what, o.get("cerr_msg", "")), hc.short_case(c))


def run(ctx):
    quick = ctx.quick()
    ctx.cov["rule"] = ("cases = (method shape, value vector) pairs enumerated by TLC from HTTPTransport.tla, request family (server-side validation) and "
                       "result family (client-side validation); non-trivial = a rule evaluated within one unit of its bound or on an absent/empty value; "
                       "distinct = canonical JSON of (shapes, values)")
    ctx.assumptions += ["constraints apply to present values (JSON-Schema semantics); an unset optional attribute is valid",
                        "a zero value in a defaulted field may be read as unset: such requests are neither required to run nor to be rejected"]
    frac = float(os.environ.get("VERIF_FRAC") or (0.06 if quick else 1.0))
    nontrivial = set()

    def with_cookie():
        # a parameter together with a cookie (the decoders share one error variable)
        allv = hc.gen_vectors(ctx, "req", 1, 1, label="Gen req 1x1 (for pairs)")
        return hc.run_family(ctx, "req", hc.combine_cases(ctx, allv, 60 if quick else 1500, ctx.seed, mode="withcookie"), name="gen-req-pairs")
    guards, f1, f2, f3 = hc.side_by_side(ctx, [
        lambda: hc.expect_violations(ctx, [({"Deviations": '{"%s"}' % d}, "MC dev " + d) for d in ("validate.absent_collection_length", "param.empty_string_is_absent", "validate.map_value_required_unchecked")]
                                     + [({"Family": '"res"', "Deviations": '{"validate.map_value_required_unchecked"}'}, "MC dev validate.map_value_required_unchecked (client side)")]),
        lambda: hc.run_family(ctx, "req", hc.sample_shapes(hc.gen_vectors(ctx, "req", 1, 1), frac, ctx.seed)),
        lambda: hc.run_family(ctx, "res", hc.sample_shapes(hc.gen_vectors(ctx, "res", 1, 1), frac, ctx.seed)),
        with_cookie])
    guards.result()
    cases, pl = f1.result()
    judge_req(ctx, cases, nontrivial, hc.Explainer(ctx, "req", 1, 1))
    cases2, pl2 = f2.result()
    judge_res(ctx, cases2, nontrivial, hc.Explainer(ctx, "res", 1, 1))
    casesw, plw = f3.result()
    judge_req(ctx, casesw, nontrivial, hc.Explainer(ctx, "req", 2, 1))
    ctx.cov["param_with_cookie_pairs"] = len(casesw)
    if not quick:
        uniq = hc.combine_cases(ctx, hc.gen_vectors(ctx, "req", 1, 1, label="Gen req 1x1 (for pairs)"), 4000, ctx.seed)
        cases3, pl3 = hc.run_family(ctx, "req", uniq)
        judge_req(ctx, cases3, nontrivial, hc.Explainer(ctx, "req", 2, 1))
        ctx.cov["two_attribute_cases"] = len(cases3)
    ctx.cov["distinct_nontrivial"] = len(nontrivial)
    ctx.cov["designs"] = len(pl.designs) + len(pl2.designs)
    ctx.cov["methods_set_aside_uncompilable"] = len(pl.bad_methods) + len(pl2.bad_methods)


def replay(ctx, rp):
    print(json.dumps(rp["case"].get("vector"), indent=1)[:3000])
    return 0
