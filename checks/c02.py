"""C02 - HTTP requests deliver the payload intact to the service method.
(M) HTTPTransport.tla model-checked (request family); (G) every (method shape, value vector) TLC emits is
run through real generated client -> tap -> generated server -> stub service and judged against the
oracle sets the model computed; (J) the recorded exchanges are validated as a trace by TLC."""
import json
from vlib import core, httpcheck as hc, httpgen as hg

KNOWN_DEVS = ["param.empty_string_is_absent", "mux.double_unescape", "client.path_not_escaped"]


def judge(ctx, cases, nontrivial, ex):
    pending = []
    for c in cases:
        v, o = c["v"], c["obs"]
        al = v["allow"]
        ctx.cov["evaluations"] += 1
        if any(a["loc"] != "body" or a["mode"] != "required" for a in v["pa"]):
            nontrivial.add(core.canon([v["pa"], v["pv"]]))
        problems = []
        if o["anomalies"]:
            problems.append(("anomaly:" + ",".join(o["anomalies"]), 0))
        if o["where"] is not None:
            for i, a in enumerate(v["pa"]):
                w = o["where"][i]
                ok = (w == [] and "none" in al["where"][i]) or (len(w) == 1 and w[0] in al["where"][i])
                if not ok:
                    problems.append(("where:%s" % "+".join(w or ["none"]), i))
        if o["invoked"]:
            for i, a in enumerate(v["pa"]):
                allowed = hg.allowed_classes(a, v["pv"][i], al["delivered"][i])
                if o["delivered"][i] not in allowed:
                    problems.append(("delivered:%s" % o["delivered"][i], i))
            if o.get("invocations", 1) != 1:
                problems.append(("invoked-%d-times" % o["invocations"], 0))
        elif al["mustInvoke"]:
            problems.append(("not-delivered:%s/%s" % (o["status"], o["errname"]), 0))
        if problems:
            pending.append((c, problems))
        if not problems and ctx.cov["evaluations"] % 1500 == 1:
            ctx.sample({"pa": v["pa"], "pv": v["pv"], "observed": {k: o[k] for k in ("where", "delivered", "invoked", "status", "uri")}})
    hc.prepare_explanations(ex, cases, [c for c, _ in pending])
    hc.validate_cases(ctx, cases, "C02", skip_ids={c["id"] for c, _ in pending}, ex=ex)
    for c, problems in pending:
        v, o = c["v"], c["obs"]
        dev = ex.explain(v, o, focus=["invoked", "status", "delivered", "errname"])
        for what, i in problems:
            a = v["pa"][i]
            key = dev or "C02/%s/%s/%s" % (hc.attr_tag(a), hc.val_tag(v["pv"][i]).rsplit(":", 2)[0], what)
            ctx.violation(key, ("[explained by deviation %s] " % dev if dev else "") + "payload attribute a%d %s value %s: %s (uri %s)" % (i + 1, hc.attr_tag(a), hc.val_tag(v["pv"][i]), what, o.get("uri")), hc.short_case(c))


def run(ctx):
    quick = ctx.quick()
    ctx.cov["rule"] = ("cases = (method shape, payload value vector) pairs enumerated by TLC from HTTPTransport.tla; non-trivial = some attribute "
                       "outside the body or optional/defaulted; distinct = canonical JSON of (shapes, values)")
    frac = float(__import__("os").environ.get("VERIF_FRAC") or (0.12 if quick else 1.0))

    def single():
        return hc.run_family(ctx, "req", hc.sample_shapes(hc.gen_vectors(ctx, "req", 1, 1), frac, ctx.seed))

    def same_location():
        # two attributes in the same non-body location (two cookies, two headers, two query parameters)
        allv = hc.gen_vectors(ctx, "req", 1, 1, label="Gen req 1x1 (for pairs)")
        return hc.run_family(ctx, "req", hc.combine_cases(ctx, allv, 80 if quick else 1500, ctx.seed, mode="sameloc"), name="gen-req-pairs")
    guards, f1, f2 = hc.side_by_side(ctx, [
        lambda: hc.expect_violations(ctx, [({"Deviations": '{"%s"}' % d}, "MC dev " + d) for d in hc.DEVIATIONS[:5] + ["decode.mapparams_prefix_expected"]]),
        single, same_location])
    guards.result()
    cases, pl = f1.result()
    for i, f in sorted(pl.failed.items()):
        ctx.notes.append("design d%d not usable: %s" % (i, str(f)[:300]))
    nontrivial = set()
    judge(ctx, cases, nontrivial, hc.Explainer(ctx, "req", 1, 1))
    ctx.cov["designs"] = len(pl.designs)
    ctx.cov["designs_failed"] = len(pl.failed)
    casesp, plp = f2.result()
    judge(ctx, casesp, nontrivial, hc.Explainer(ctx, "req", 2, 1))
    ctx.cov["same_location_pairs"] = len(casesp)
    if ctx.selftest or not quick:
        hc.trace_selftest(ctx, cases)
    if not quick:
        # two-attribute methods: too many to enumerate, seeded pairs of the enumerated single-attribute cases, judged by TLC (Cases_HTTPTransport)
        uniq = hc.combine_cases(ctx, hc.gen_vectors(ctx, "req", 1, 1, label="Gen req 1x1 (for pairs)"), 4000, ctx.seed)
        cases2, pl2 = hc.run_family(ctx, "req", uniq)
        judge(ctx, cases2, nontrivial, hc.Explainer(ctx, "req", 2, 1))
        ctx.cov["two_attribute_cases"] = len(cases2)
        ctx.cov["designs"] += len(pl2.designs)
    ctx.cov["distinct_nontrivial"] = len(nontrivial)


def replay(ctx, rp):
    print(json.dumps(rp["case"].get("vector"), indent=1)[:3000])
    return 0
