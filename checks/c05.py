"""C05 - declared errors reach the client as the same error; others become faults.
(M) ErrorMap.tla model-checked exhaustively (tables of 1-3 declared errors at method/service/API level, shared
statuses, ErrorResult and user defined types, declared flags x every service outcome and decode failure);
(G) every case runs through the real generated server and client; status, goa-error header, body, number of
WriteHeader calls and the client's error are compared with the model's prediction."""
import json, os, hashlib
from vlib import core, httpgen as hg

DEVS = ["client.single_error_ignores_header"]


def table_key(t):
    return core.canon(t)


def build(vectors):
    """one service per distinct error table (service and API level declarations are per service / per design)."""
    tables, index = [], {}
    for v in vectors:
        k = table_key(v["table"])
        if k not in index:
            index[k] = len(tables)
            tables.append(v["table"])
    designs, where = [], {}
    per = 12

    def api_sig(t):
        return core.canon(sorted((e["name"], e["type"], core.canon(e["flags"])) for e in t if e["level"] == "api"))
    groups = {}
    for ti, t in enumerate(tables):
        groups.setdefault(api_sig(t), []).append(ti)
    chunks = []
    for sig in sorted(groups):
        g = groups[sig]
        chunks += [g[i:i + per] for i in range(0, len(g), per)]
    for chunk in chunks:
        d = {"api": {"name": "a%d" % (len(designs) + 1), "errors": []}, "types": [], "services": []}
        api_declared = set()
        for off, ti in enumerate(chunk):
            t = tables[ti]
            sname = "s%d" % (off + 1)
            svc = {"name": sname, "errors": [], "methods": []}
            m = {"name": "m1",
                 "payload": {"attrs": [{"name": "a1", "type": {"kind": "int"}, "required": True}, {"name": "q1", "type": {"kind": "int"}}]},
                 "result": {"attrs": [{"name": "r1", "type": {"kind": "int"}, "required": True}]},
                 "errors": [], "http": {"routes": [{"verb": "POST", "path": "/%s/m1" % sname}], "params": {"q1": "q1"},
                                        "responses": [{"status": 200}], "errors": []}}
            for e in t:
                decl = {"name": e["name"]}
                if e["type"] == "custom":
                    tn = ("API" if e["level"] == "api" else sname.upper()) + e["name"].upper() + "Err"
                    if not any(x["name"] == tn for x in d["types"]):
                        d["types"].append({"name": tn, "kind": "object", "attrs": [
                            {"name": "msg", "type": {"kind": "string"}, "required": True}, {"name": "code", "type": {"kind": "int"}, "required": True}]})
                    decl["type"] = {"kind": "user", "ref": tn}
                if e["flags"]["t"]:
                    decl["timeout"] = True
                if e["flags"]["tmp"]:
                    decl["temporary"] = True
                if e["flags"]["f"]:
                    decl["fault"] = True
                if e["level"] == "method":
                    m["errors"].append(decl)
                elif e["level"] == "service":
                    svc["errors"].append(decl)
                elif e["name"] not in api_declared:
                    api_declared.add(e["name"])
                    d["api"]["errors"].append(decl)
                m["http"]["errors"].append({"name": e["name"], "status": e["status"]})
            svc["methods"].append(m)
            d["services"].append(svc)
            where[ti] = (len(designs), sname)
        designs.append(d)
    return designs, where, index


def scenario(v, sid, svc):
    o = v["outcome"]
    base = {"id": sid, "service": svc, "method": "M1", "payload": {"a1": 3, "q1": 4}}
    if o["kind"] in ("declared", "wrapped"):
        e = next(x for x in v["table"] if x["name"] == o["name"])
        if e["type"] == "custom":
            base["outcome"] = {"kind": "error", "errKind": "type", "errType": ("API" if e["level"] == "api" else svc.upper()) + e["name"].upper() + "Err", "value": {"msg": "boom", "code": 7}}
        else:
            base["outcome"] = {"kind": "error", "errKind": "wrapmake" if o["kind"] == "wrapped" else "make", "errName": o["name"], "msg": "boom",
                               "flags": [e["flags"]["t"], e["flags"]["tmp"], e["flags"]["f"]]}
    elif o["kind"] in ("service", "joined"):
        base["outcome"] = {"kind": "error", "errKind": "service" if o["kind"] == "service" else "joinservice", "errName": o["name"], "msg": "boom", "flags": [o["flags"]["t"], o["flags"]["tmp"], o["flags"]["f"]]}
    elif o["kind"] == "plain":
        base["outcome"] = {"kind": "error", "errKind": "plain", "msg": "boom"}
    else:
        uri = "/%s/m1" % svc
        raw = {"method": "POST", "uri": uri, "headers": {"Content-Type": ["application/json"]}, "body": "{\"a1\":3}"}
        if o["name"] == "missing_body":
            raw["body"] = ""
        elif o["name"] == "malformed_body":
            raw["body"] = "{\"a1\":"
        elif o["name"] == "bad_param":
            raw["uri"] = uri + "?q1=abc"
        else:
            raw["headers"]["Content-Type"] = ["text/csv"]
        base = {"id": sid, "service": svc, "method": "M1", "raw": raw}
    return base


def observe(v, events):
    o = {"status": 0, "goaerr": "none", "bodyname": "none", "bodyflags": None, "writes": None, "cname": "none", "cflags": None, "ckind": "none", "invoked": bool(hg.find(events, "invoke"))}
    wr = hg.find(events, "wire_resp")
    if wr:
        w = wr[0]
        o["status"], o["writes"] = w["status"], w.get("writeHeaderCalls")
        h = {k.lower(): x for k, x in (w.get("headers") or {}).items()}
        o["goaerr"] = (h.get("goa-error") or ["none"])[0]
        try:
            b = json.loads(w.get("body") or "null")
            o["body_ok"] = isinstance(b, dict)
        except Exception:
            b, o["body_ok"] = None, False
        if isinstance(b, dict):
            o["body"] = b
            if "name" in b:
                o["bodyname"] = b["name"]
                o["bodyflags"] = {"t": b.get("timeout"), "tmp": b.get("temporary"), "f": b.get("fault")}
                o["bodymsg"] = b.get("message")
    cr = hg.find(events, "client_return")
    if cr and cr[0].get("err"):
        e = cr[0]["err"]
        if e.get("client"):
            o["ckind"], o["cname"] = "generic", "generic"
        elif e.get("service"):
            s = e["service"]
            o["ckind"], o["cname"] = "declared", s["name"]
            o["cflags"] = {"t": s["timeout"], "tmp": s["temporary"], "f": s["fault"]}
            o["cmsg"] = s["message"]
        elif e.get("name"):
            o["ckind"], o["cname"] = "declared", e["name"]
            o["cfields"] = e.get("fields")
        else:
            o["ckind"], o["cname"] = "generic", "generic"
    for bad in ("server_panic", "client_panic"):
        if hg.find(events, bad):
            o["panic"] = bad
    return o


def compare(v, o):
    p, out = v["pred"], v["outcome"]
    probs = []
    if o.get("panic"):
        probs.append(o["panic"])
    if o["status"] != p["status"]:
        probs.append("status:%s-instead-of-%s" % (o["status"], p["status"]))
    if o["writes"] != 1:
        probs.append("writeheader-calls:%s" % o["writes"])
    if not o.get("body_ok"):
        probs.append("body-not-a-json-object")
    if o["goaerr"] != p["goaerr"]:
        probs.append("goa-error-header:%s-instead-of-%s" % (o["goaerr"], p["goaerr"]))
    custom = out["kind"] in ("declared", "wrapped") and next(x for x in v["table"] if x["name"] == out["name"])["type"] == "custom"
    if custom:
        if (o.get("body") or {}).get("msg") != "boom" or (o.get("body") or {}).get("code") != 7:
            probs.append("custom-error-body")
    else:
        if o["bodyname"] != p["bodyname"]:
            probs.append("body-name:%s-instead-of-%s" % (o["bodyname"], p["bodyname"]))
        if o["bodyflags"] != p["bodyflags"]:
            probs.append("body-flags")
        if out["kind"] in ("declared", "wrapped", "service", "joined", "plain") and o.get("bodymsg") != "boom":
            probs.append("body-message")
    if out["kind"] in ("service", "joined", "plain"):
        # what the client makes of an undeclared error is not fixed by the property (it may well hand back
        # the service error it finds in the body): only that user code ran and one response was written
        if o["invoked"] is False:
            probs.append("not-invoked")
    elif out["kind"] != "decode":
        if o["ckind"] != p["ckind"] or o["cname"] != p["cname"]:
            probs.append("client-error:%s/%s-instead-of-%s/%s" % (o["ckind"], o["cname"], p["ckind"], p["cname"]))
        elif p["ckind"] == "declared":
            if custom:
                f = o.get("cfields") or {}
                if f.get("msg") != "boom" or str(f.get("code")) != "7":
                    probs.append("client-error-attributes")
            else:
                if o["cflags"] != p["cflags"]:
                    probs.append("client-error-flags")
                if o.get("cmsg") != "boom":
                    probs.append("client-error-message")
        if o["invoked"] is False:
            probs.append("not-invoked")
    elif o["invoked"]:
        probs.append("undecodable-request-reached-user-code")
    return probs


def run(ctx):
    quick = ctx.quick()
    ctx.cov["rule"] = ("cases = (declared error table, service outcome or decode failure) enumerated by TLC from ErrorMap.tla; non-trivial = anything other than "
                       "'a declared ErrorResult error alone on its status'; distinct = canonical JSON")
    ctx.mc_expect_violation("mc/MC_ErrorMap", consts={"Deviations": '{"server.no_goa_error_header"}'}, label="MC dev")
    vectors = ctx.gen("mc/MC_ErrorMap", "gen/Gen_ErrorMap.cfg", label="Gen ErrorMap").vectors
    if quick:
        vectors = [v for v in vectors if hashlib.sha1((table_key(v["table"]) + str(ctx.seed)).encode()).digest()[0] < 40]
    designs, where, index = build(vectors)
    pl = hg.Pipeline(ctx, "gen-err")
    pl.prepare(designs)
    bins = pl.build_runners(designs)
    ctx.log("%d vectors, %d tables, %d designs (%d unusable), %d methods set aside" % (len(vectors), len(index), len(designs), len(pl.failed), len(pl.bad_methods)))
    for i, f in list(pl.failed.items())[:5]:
        ctx.notes.append("design %d unusable: %s" % (i, str(f)[:600]))
    for k, diag in list(pl.bad_methods.items())[:10]:
        ctx.notes.append("method %s set aside (does not compile, see C01): %s" % (k, diag))
    scen, meta = {}, {}
    for n, v in enumerate(vectors):
        di, svc = where[index[table_key(v["table"])]]
        if di in pl.failed:
            continue
        sid = "c%d" % n
        scen.setdefault(di, []).append(scenario(v, sid, svc))
        meta[sid] = v
    events = pl.run_all(bins, scen)
    nontrivial = set()
    for sid, v in meta.items():
        ctx.cov["evaluations"] += 1
        t, out = v["table"], v["outcome"]
        trivial = out["kind"] == "declared" and len(t) == 1 and t[0]["type"] == "result"
        if not trivial:
            nontrivial.add(core.canon([t, out]))
        o = observe(v, events[sid])
        probs = compare(v, o)
        for p in probs:
            shared = len({e["status"] for e in t}) < len(t)
            ctx.violation("C05/%s/%s/%s" % (out["kind"], "shared-status" if shared else "own-status", p),
                          "%s: table %s outcome %s -> %s" % (p, json.dumps(t), json.dumps(out), json.dumps({k: o[k] for k in o if k != "body"})[:500]),
                          {"vector": v, "observed": o, "events": events[sid]})
        if not probs and ctx.cov["evaluations"] % 600 == 1:
            ctx.sample({"table": t, "outcome": out, "observed": {k: o[k] for k in ("status", "goaerr", "bodyname", "cname", "ckind", "writes")}})
    ctx.cov["distinct_nontrivial"] = len(nontrivial)
    ctx.cov["designs"] = len(designs)


def replay(ctx, rp):
    print(json.dumps(rp["case"].get("vector"), indent=1)[:3000])
    return 0
