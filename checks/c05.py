"""C05 - declared errors reach the client as the same error; others become faults.
(M) ErrorMap.tla model-checked: tables of 1-3 declared errors in declaration order, each error declared at any
non-empty set of levels (method / service / API) with its response in any set of HTTP expressions the DSL accepts
(method's / service's / API's; the most specific one counts, the others carry a decoy status), on shared or own
statuses, ErrorResult and user defined types, declared flags; every declared error of a table is returned in turn
(plain and wrapped), then an undeclared service error / plain error / undecodable request.
Spaces: base (one level per error, responses on the method), place1 (every placement alone), pair (all ordered
pairs of placements: exhaustive; quick runs its cut pairq - one pair per ordered pair of resolution paths, rotated by
the seed - through real code), triple (three errors, TLC simulation).
Status forms: the space form (always run) writes the status of the innermost response in every way the DSL offers -
Response(name, status) / Response(name, status, func) / Response(name, func(){ Code(status) }) / Response(status, name) /
Response(name, func(){..}) without a status (the documented default 400) - in the method's, the service's and the API's
HTTP expression; pairq rotates the forms by the seed, triple draws them at random.  The status the wire and the client
are compared with is the one the table (= the abstract design) writes, never one read back from goa's expressions.
Encodings: every call of the spaces enc (a few tables x every outcome; always run) and triple - thorough: of all
spaces but pair - asks for the response in no / JSON / XML / gob encoding through its Accept header (generated client
with that header, raw requests for the decode failures).
(G) every case runs through the real generated server and client; status, goa-error header, Content-Type, the body
parsed per Content-Type (JSON, XML, gob: name, message, flags / attributes), number of WriteHeader calls and the
client's error are compared with the model's prediction.  A mismatch that is exactly what a known client departure
(ErrorMap!KnownClientDeviations, predictions emitted with every case) predicts is reported under its name."""
import json, os, hashlib, concurrent.futures as cf
from vlib import core, httpgen as hg

DEVS = ["client.single_error_ignores_header"]
KNOWN_DEVS = ["client.gob_zero_value_missing"]       # ErrorMap!KnownClientDeviations: every case carries their predictions
MIME = {"json": "application/json", "xml": "application/xml", "gob": "application/gob"}


def table_key(t):
    return core.canon(t)


DECOY = 422      # ErrorMap!Decoy (every vector carries it; checked in run)
ORDER = ("method", "service", "api")


def innermost(levels):
    return next(l for l in ORDER if l in levels)


def placement(e):
    """(declaration levels, response levels) of a table entry; entries without them (hand written tables) are
    declared at `level` with their response in the method's HTTP expression"""
    return [l for l in ORDER if l in (e.get("decl") or [e["level"]])], [l for l in ORDER if l in (e.get("maps") or ["method"])]


def uncompilable(t):
    # C01 known finding codegen.api_error_user_type: packed apart so that they do not take other tables with them
    return any(e["type"] == "custom" and placement(e)[0] == ["api"] for e in t)


def build(vectors):
    """One service (with one method) per distinct error table.  Error(...) lines go to the method, the service and
    the API in table order, Response(...) lines to the three HTTP expressions in table order.  API level
    declarations are per design: an error declared in the API gets a design-wide name (<name>_a<k>) shared by
    the services that declare it the same way.
    Returns (designs, where, index): index[table key] -> table number, where[table number] -> binding
    {design, service, method, names: model name -> name in the design, types: model name -> Go type}."""
    tables, index = [], {}
    for v in vectors:
        k = table_key(v["table"])
        if k not in index:
            index[k] = len(tables)
            tables.append(v["table"])
    designs, where = [], {}
    per = 12
    groups = {}
    for ti, t in enumerate(tables):
        groups.setdefault(uncompilable(t), []).append(ti)
    chunks = []
    for g in sorted(groups):
        chunks += [groups[g][i:i + per] for i in range(0, len(groups[g]), per)]
    for chunk in chunks:
        d = {"api": {"name": "a%d" % (len(designs) + 1), "errors": [], "httpErrors": []}, "types": [], "services": []}
        api_names = {}      # API level signature of an error -> its name in the design
        for off, ti in enumerate(chunk):
            t = tables[ti]
            sname, mname = "s%d" % (off + 1), "m%d" % (off + 1)
            svc = {"name": sname, "errors": [], "httpErrors": [], "methods": []}
            m = {"name": mname,
                 "payload": {"attrs": [{"name": "a1", "type": {"kind": "int"}, "required": True}, {"name": "q1", "type": {"kind": "int"}}]},
                 "result": {"attrs": [{"name": "r1", "type": {"kind": "int"}, "required": True}]},
                 "errors": [], "http": {"routes": [{"verb": "POST", "path": "/%s/%s" % (sname, mname)}], "params": {"q1": "q1"},
                                        "responses": [{"status": 200}], "errors": []}}
            bind = {"design": len(designs), "service": sname, "method": mname, "names": {}, "types": {}}
            for e in t:
                decl, maps = placement(e)
                inner = innermost(maps)
                st = {l: (e["status"] if l == inner else DECOY) for l in maps}
                form = e.get("form", "arg")

                def line(l):
                    """the Response(...) line of level l: the innermost one is written the way the table says (a status that is
                    not written at all - form default - is not in the design either), the shadowed ones as Response(name, decoy)"""
                    r = {"name": name, "status": st[l]}
                    if l == inner and form != "arg":
                        r["form"] = form
                        if form == "default":
                            del r["status"]
                    return r
                name, new_api = e["name"], False
                if "api" in decl:
                    sig = core.canon([e["name"], e["type"], e["flags"], st.get("api"), form if inner == "api" else "arg"])
                    new_api = sig not in api_names
                    name = api_names.setdefault(sig, "%s_a%d" % (e["name"], len(api_names) + 1))
                bind["names"][e["name"]] = name
                d_ = {"name": name}
                if e["type"] == "custom":
                    tn = ("API" if "api" in decl else sname.upper()) + name.replace("_", "").upper() + "Err"
                    bind["types"][e["name"]] = tn
                    if not any(x["name"] == tn for x in d["types"]):
                        d["types"].append({"name": tn, "kind": "object", "attrs": [
                            {"name": "msg", "type": {"kind": "string"}, "required": True}, {"name": "code", "type": {"kind": "int"}, "required": True}]})
                    d_["type"] = {"kind": "user", "ref": tn}
                if e["flags"]["t"]:
                    d_["timeout"] = True
                if e["flags"]["tmp"]:
                    d_["temporary"] = True
                if e["flags"]["f"]:
                    d_["fault"] = True
                if "method" in decl:
                    m["errors"].append(dict(d_))
                if "service" in decl:
                    svc["errors"].append(dict(d_))
                if new_api:
                    d["api"]["errors"].append(dict(d_))
                    if "api" in maps:
                        d["api"]["httpErrors"].append(line("api"))
                if "method" in maps:
                    m["http"]["errors"].append(line("method"))
                if "service" in maps:
                    svc["httpErrors"].append(line("service"))
            svc["methods"].append(m)
            d["services"].append(svc)
            where[ti] = bind
        designs.append(d)
    return designs, where, index


def scenario(v, sid, bind):
    o = v["outcome"]
    svc, meth = bind["service"], bind["method"].upper()
    base = {"id": sid, "service": svc, "method": meth, "payload": {"a1": 3, "q1": 4}}
    if o["kind"] in ("declared", "wrapped"):
        e = next(x for x in v["table"] if x["name"] == o["name"])
        if e["type"] == "custom":
            base["outcome"] = {"kind": "error", "errKind": "type", "errType": bind["types"][e["name"]], "value": {"msg": "boom", "code": 7}}
        else:
            base["outcome"] = {"kind": "error", "errKind": "wrapmake" if o["kind"] == "wrapped" else "make", "errName": bind["names"][o["name"]], "msg": "boom",
                               "flags": [e["flags"]["t"], e["flags"]["tmp"], e["flags"]["f"]]}
    elif o["kind"] in ("service", "joined"):
        base["outcome"] = {"kind": "error", "errKind": "service" if o["kind"] == "service" else "joinservice", "errName": o["name"], "msg": "boom", "flags": [o["flags"]["t"], o["flags"]["tmp"], o["flags"]["f"]]}
    elif o["kind"] == "plain":
        base["outcome"] = {"kind": "error", "errKind": "plain", "msg": "boom"}
    else:
        uri = "/%s/%s" % (svc, bind["method"])
        raw = {"method": "POST", "uri": uri, "headers": {"Content-Type": ["application/json"]}, "body": "{\"a1\":3}"}
        if o["name"] == "missing_body":
            raw["body"] = ""
        elif o["name"] == "malformed_body":
            raw["body"] = "{\"a1\":"
        elif o["name"] == "bad_param":
            raw["uri"] = uri + "?q1=abc"
        else:
            raw["headers"]["Content-Type"] = ["text/csv"]
        base = {"id": sid, "service": svc, "method": meth, "raw": raw}
    enc = o.get("enc", "none")
    if enc != "none":       # the caller asks for an encoding of the response
        if "raw" in base:
            base["raw"]["headers"]["Accept"] = [MIME[enc]]
        else:
            base["accept"] = MIME[enc]
    return base


class Unreadable(Exception):
    pass


def gob_struct(text):
    """A gob stream holding one flat struct of strings, booleans and integers (type definition + value), as recorded
    by the runner: bytes that are not UTF-8 arrive as U+FFFD each - in these streams only the multi-byte unsigned
    integers (type ids, always; lengths over 127, never for these bodies).  Returns {field name: value}; fields gob
    left out (zero values) are absent."""
    bs = []
    for ch in text:
        if ch == "\ufffd":
            bs.append(None)
        else:
            bs.extend(ch.encode())
    pos = [0]

    def byte():
        if pos[0] >= len(bs):
            raise Unreadable("short gob stream")
        pos[0] += 1
        return bs[pos[0] - 1]

    def uint(known=True):
        b = byte()
        if b is None:           # byte count of a multi-byte integer: one byte follows for everything below 256
            byte()
            if known:
                raise Unreadable("multi-byte integer where a small one is expected")
            return None
        if b >= 128:
            raise Unreadable("unexpected byte %d" % b)
        return b

    def expect(n):
        if uint() != n:
            raise Unreadable("not the expected gob structure at byte %d" % pos[0])

    def string():
        n = uint()
        raw = [byte() for _ in range(n)]
        if any(x is None for x in raw):
            raise Unreadable("non-text string")
        return bytes(raw).decode()
    # message 1: type definition of a struct: wireType{StructT: structType{CommonType{Name, Id}, Field: []fieldType{Name, Id}}}
    uint(False)
    uint(False)
    expect(3), expect(1), expect(1)
    string()
    expect(1), uint(False), expect(0), expect(1)
    fields = []
    for _ in range(uint()):
        expect(1)
        name = string()
        expect(1)
        fields.append((name, uint()))      # type id as a gob integer: 2 bool, 4 int, 6 uint, 12 string
        expect(0)
    expect(0), expect(0)
    # message 2: the value
    uint(False)
    uint(False)
    out, k = {}, -1
    while True:
        d = uint()
        if d == 0:
            break
        k += d
        if k >= len(fields):
            raise Unreadable("field number out of range")
        name, tid = fields[k]
        if tid == 12:
            out[name] = string()
        elif tid == 2:
            out[name] = uint() != 0
        elif tid == 4:
            u = uint()
            out[name] = ~(u >> 1) if u & 1 else u >> 1
        elif tid == 6:
            out[name] = uint()
        else:
            raise Unreadable("field type %d" % tid)
    if pos[0] != len(bs):
        raise Unreadable("trailing bytes")
    return out, [n for n, _ in fields]


def wire_body(ctype, text):
    """the response body as {lower case member name: value} per Content-Type; booleans and integers as Python values"""
    def scalar(x):
        return True if x == "true" else False if x == "false" else int(x) if x.lstrip("-").isdigit() else x
    if ctype == "application/json":
        b = json.loads(text or "null")
        if not isinstance(b, dict):
            raise Unreadable("not a JSON object")
        return b
    if ctype == "application/xml":
        import xml.etree.ElementTree as ET
        try:
            root = ET.fromstring(text)
        except ET.ParseError as e:
            raise Unreadable("XML: %s" % e)
        if any(len(c) for c in root):
            raise Unreadable("nested XML")
        return {c.tag.lower(): scalar(c.text or "") for c in root}
    if ctype == "application/gob":
        vals, names = gob_struct(text)
        b = {n.lower(): v for n, v in vals.items()}
        for n in names:      # gob leaves zero values out: a reader gets the zero value
            if n.lower() in ("temporary", "timeout", "fault"):
                b.setdefault(n.lower(), False)
        return b
    raise Unreadable("content type %r" % ctype)


def observe(v, events, bind=None):
    o = {"status": 0, "goaerr": "none", "bodyname": "none", "bodyflags": None, "writes": None, "cname": "none", "cflags": None, "ckind": "none", "invoked": bool(hg.find(events, "invoke"))}
    wr = hg.find(events, "wire_resp")
    if wr:
        w = wr[0]
        o["status"], o["writes"] = w["status"], w.get("writeHeaderCalls")
        h = {k.lower(): x for k, x in (w.get("headers") or {}).items()}
        o["goaerr"] = (h.get("goa-error") or ["none"])[0]
        full = (h.get("content-type") or [""])[0]
        o["ctype"] = {m: k for k, m in MIME.items()}.get(full.split(";")[0].strip(), full or "none")
        try:
            b = wire_body(full.split(";")[0].strip(), w.get("body") or "")
            o["body_ok"] = True
        except (Unreadable, ValueError) as e:
            b, o["body_ok"], o["body_error"] = None, False, str(e)[:200]
        if isinstance(b, dict):
            o["body"] = b
            if "name" in b:
                o["bodyname"] = b["name"]
                o["bodyflags"] = {"t": b.get("timeout"), "tmp": b.get("temporary"), "f": b.get("fault")}
                o["bodymsg"] = b.get("message")
    cr = hg.find(events, "client_return")
    if cr and cr[0].get("err"):
        e = cr[0]["err"]
        if e.get("client"):
            o["ckind"], o["cname"] = "generic", "generic"
        elif e.get("service"):
            s = e["service"]
            o["ckind"], o["cname"] = "declared", s["name"]
            o["cflags"] = {"t": s["timeout"], "tmp": s["temporary"], "f": s["fault"]}
            o["cmsg"] = s["message"]
        elif e.get("name"):
            o["ckind"], o["cname"] = "declared", e["name"]
            o["cfields"] = e.get("fields")
        else:
            o["ckind"], o["cname"] = "generic", "generic"
    for bad in ("server_panic", "client_panic"):
        if hg.find(events, bad):
            o["panic"] = bad
    back = {real: model for model, real in ((bind or {}).get("names") or {}).items()}
    for k in ("goaerr", "bodyname", "cname"):
        o[k] = back.get(o[k], o[k])
    return o


def compare(v, o):
    p, out = v["pred"], v["outcome"]
    probs = []
    if o.get("panic"):
        probs.append(o["panic"])
    if o["status"] != p["status"]:
        probs.append("status:%s-instead-of-%s" % (o["status"], p["status"]))
    if o["writes"] != 1:
        probs.append("writeheader-calls:%s" % o["writes"])
    if o.get("ctype") != p.get("ctype", "json"):
        probs.append("content-type:%s-instead-of-%s" % (o.get("ctype"), p.get("ctype", "json")))
    elif not o.get("body_ok"):
        probs.append("body-unreadable:%s" % o.get("ctype"))
    if o["goaerr"] != p["goaerr"]:
        probs.append("goa-error-header:%s-instead-of-%s" % (o["goaerr"], p["goaerr"]))
    custom = out["kind"] in ("declared", "wrapped") and next(x for x in v["table"] if x["name"] == out["name"])["type"] == "custom"
    if custom:
        if (o.get("body") or {}).get("msg") != "boom" or (o.get("body") or {}).get("code") != 7:
            probs.append("custom-error-body")
    else:
        if o["bodyname"] != p["bodyname"]:
            probs.append("body-name:%s-instead-of-%s" % (o["bodyname"], p["bodyname"]))
        if o["bodyflags"] != p["bodyflags"]:
            probs.append("body-flags")
        if out["kind"] in ("declared", "wrapped", "service", "joined", "plain") and o.get("bodymsg") != "boom":
            probs.append("body-message")
    if out["kind"] in ("service", "joined", "plain"):
        # what the client makes of an undeclared error is not fixed by the property (it may well hand back
        # the service error it finds in the body): only that user code ran and one response was written
        if o["invoked"] is False:
            probs.append("not-invoked")
    elif out["kind"] != "decode":
        if o["ckind"] != p["ckind"] or o["cname"] != p["cname"]:
            probs.append("client-error:%s/%s-instead-of-%s/%s" % (o["ckind"], o["cname"], p["ckind"], p["cname"]))
        elif p["ckind"] == "declared":
            if custom:
                f = o.get("cfields") or {}
                if f.get("msg") != "boom" or str(f.get("code")) != "7":
                    probs.append("client-error-attributes")
            else:
                if o["cflags"] != p["cflags"]:
                    probs.append("client-error-flags")
                if o.get("cmsg") != "boom":
                    probs.append("client-error-message")
        if o["invoked"] is False:
            probs.append("not-invoked")
    elif o["invoked"]:
        probs.append("undecodable-request-reached-user-code")
    return probs


def pick(key, seed, below):
    return hashlib.sha1((key + str(seed)).encode()).digest()[0] < below


def stratum(v):
    """pair space: the resolution paths of the two errors (ErrorMap!Path, emitted with the case) and whether they share their status"""
    return core.canon([v["paths"], len({e["status"] for e in v["table"]})])


def select(ctx, vectors, quick):
    """the tables that go through real code (all their cases go with them)"""
    keys = {}
    for v in vectors:
        keys.setdefault(table_key(v["table"]), v)
    chosen = set()
    strata = {}
    for k, v in keys.items():
        sp = v.get("space", "base")
        if sp == "base":
            if not quick or pick(k, ctx.seed, 20):
                chosen.add(k)
        elif sp == "place1":
            if not quick or pick(k, ctx.seed, 32):
                chosen.add(k)
        elif sp == "pair":
            strata.setdefault(stratum(v), []).append(k)
            if pick(k, ctx.seed, 16):
                chosen.add(k)
        else:
            chosen.add(k)      # grown tables: TLC's simulation did the sampling
    for st in sorted(strata):
        ranked = sorted(strata[st], key=lambda k: hashlib.sha1((k + str(ctx.seed)).encode()).hexdigest())
        chosen.update(ranked[:4])
    ctx.cov["pair_strata"] = len(strata) or len({core.canon(v["paths"]) for v in keys.values() if v.get("space") == "pairq"})
    return chosen


def run(ctx):
    quick = ctx.quick()
    ctx.cov["rule"] = ("cases = (declared error table, service outcome or decode failure) enumerated by TLC from ErrorMap.tla; non-trivial = anything other than "
                       "'a declared ErrorResult error alone on its status'; distinct = canonical JSON")
    ntraces = 16 if quick else 500
    seed = {"Seed": str(ctx.seed % 10001)}
    # quick: the cut "pairq" of the pair space (one pair per ordered pair of resolution paths, rotated by the seed) goes through
    # real code; thorough: the whole pair space is checked and emitted, select() takes several pairs per stratum
    enc_spaces = '{"enc", "triple"}' if quick else '{"enc", "triple", "base", "place1", "pairq"}'
    jobs = [
        lambda: ctx.mc_expect_violation("mc/MC_ErrorMap", consts={"Deviations": '{"server.no_goa_error_header"}', "Spaces": '{"base"}'}, workers=2, label="MC dev header"),
        lambda: ctx.mc_expect_violation("mc/MC_ErrorMap", consts={"Deviations": '{"prepare.found_flag_not_reset"}', "Spaces": '{"pair"}'}, workers=2, label="MC dev found"),
        lambda: ctx.gen("mc/MC_ErrorMap", "gen/Gen_ErrorMap.cfg", label="Gen ErrorMap", workers=8,
                        consts=dict(seed, EncSpaces=enc_spaces, Spaces='{"base", "place1", "pairq", "enc", "form"}' if quick else '{"base", "place1", "pairq", "pair", "enc", "form"}')).vectors,
        lambda: ctx.gen("mc/MC_ErrorMap", "gen/Gen_ErrorMap.cfg", consts={"Spaces": '{"triple"}', "EncSpaces": enc_spaces}, simulate=ntraces, depth=20, workers=1, label="Sim ErrorMap triples").vectors,
        lambda: hg.Pipeline(ctx, "gen-err"),
        lambda: ctx.mc_expect_violation("mc/MC_ErrorMap", consts={"Deviations": '{"encode.xml_timeout_is_temporary"}', "Spaces": '{"enc"}', "EncSpaces": '{"enc"}'}, workers=1, label="MC dev xml"),
        lambda: ctx.mc_expect_violation("mc/MC_ErrorMap", consts={"Deviations": '{"dsl.code_in_function_overwritten"}', "Spaces": '{"form"}'}, workers=1, label="MC dev form"),
        lambda: ctx.mc_expect_violation("mc/MC_ErrorMap", consts={"Deviations": '{"client.gob_zero_value_missing"}', "Spaces": '{"enc"}', "EncSpaces": '{"enc"}'}, workers=1, label="MC dev gob"),
    ]
    with cf.ThreadPoolExecutor(max_workers=len(jobs) + 1) as ex:       # independent TLC runs (distinct labels = distinct scratch directories)
        futs = [ex.submit(j) for j in jobs]
        # quick: the whole pair space is model-checked while its cut runs through real code
        late = ex.submit(lambda: ctx.mc("mc/MC_ErrorMap", consts={"Spaces": '{"pair"}'}, workers=3, label="MC pairs")) if quick else None
        vectors, grown, pl = [f.result() for f in futs][2:5]
        real_code(ctx, quick, vectors, grown, pl, ntraces)
        if late:
            ctx.cov["pair_space_model_checked_states"] = late.result().distinct


def real_code(ctx, quick, vectors, grown, pl, ntraces):
    if len({table_key(v["table"]) for v in grown}) < ntraces // 2 or any(len(v["table"]) != 3 for v in grown):
        raise core.Infra("simulation of the triple space gave %d cases over %d tables" % (len(grown), len({table_key(v['table']) for v in grown})))
    vectors = list({core.canon([v["table"], v["outcome"]]): v for v in vectors + grown}.values())
    if any(v.get("decoy") != DECOY for v in vectors):
        raise core.Infra("ErrorMap!Decoy differs from checks/c05.py DECOY")
    spaces = {}
    for v in vectors:
        spaces.setdefault(v["space"], set()).add(table_key(v["table"]))
    ctx.cov["table_space"] = {k: len(x) for k, x in sorted(spaces.items())}
    chosen = select(ctx, vectors, quick)
    vectors = [v for v in vectors if table_key(v["table"]) in chosen]
    # every declared error of a chosen table is returned by the stub at least once
    returned = {}
    for v in vectors:
        if v["outcome"]["kind"] in ("declared", "wrapped"):
            returned.setdefault(table_key(v["table"]), set()).add(v["outcome"]["name"])
    for v in vectors:
        if returned.get(table_key(v["table"]), set()) != {e["name"] for e in v["table"]}:
            raise core.Infra("table without a call for every declared error: %s" % json.dumps(v["table"]))
    designs, where, index = build(vectors)
    pl.prepare(designs)
    bins = pl.build_runners(designs)
    ctx.log("%d vectors, %d tables %s, %d designs (%d unusable), %d methods set aside" % (
        len(vectors), len(index), json.dumps({k: len(x & chosen) for k, x in sorted(spaces.items())}), len(designs), len(pl.failed), len(pl.bad_methods)))
    for i, f in list(pl.failed.items())[:5]:
        ctx.notes.append("design %d unusable: %s" % (i, str(f)[:600]))
    for k, diag in list(pl.bad_methods.items())[:10]:
        ctx.notes.append("method %s set aside (does not compile, see C01): %s" % (k, diag))
    # tables lost to generation / compilation are C01's business (known there: a user type error declared at the API level
    # only); they are listed, and losing many others means this check cannot do its job
    all_tables = {table_key(v["table"]): v["table"] for v in vectors}.values()
    lost = [t for t in all_tables if not uncompilable(t) and (where[index[table_key(t)]]["design"] in pl.failed or
                                                            (where[index[table_key(t)]]["design"], where[index[table_key(t)]]["method"]) in pl.bad_methods)]
    ctx.cov["tables_lost"] = len(lost)
    for t in lost[:5]:
        ctx.notes.append("table not generated/compiled (see C01): %s" % json.dumps(t))
    if len(lost) * 4 > len(all_tables):
        raise core.Infra("%d of %d error tables could not be generated/compiled: %s" % (len(lost), len(all_tables), list(pl.failed.items())[:2]))
    scen, meta = {}, {}
    for n, v in enumerate(vectors):
        bind = where[index[table_key(v["table"])]]
        di = bind["design"]
        if di in pl.failed or (di, bind["method"]) in pl.bad_methods:
            continue
        sid = "c%d" % n
        scen.setdefault(di, []).append(scenario(v, sid, bind))
        meta[sid] = (v, bind)
    events = pl.run_all(bins, scen)
    nontrivial, per_space, paths_seen, encs_seen, forms_seen = set(), {}, set(), set(), set()
    for sid, (v, bind) in meta.items():
        ctx.cov["evaluations"] += 1
        t, out = v["table"], v["outcome"]
        per_space[v["space"]] = per_space.get(v["space"], 0) + 1
        trivial = out["kind"] == "declared" and len(t) == 1 and t[0]["type"] == "result" and placement(t[0])[1] == ["method"]
        if not trivial:
            nontrivial.add(core.canon([t, out]))
        if sid not in events:
            raise core.Infra("no events for scenario %s" % sid)
        o = observe(v, events[sid], bind)
        probs = compare(v, o)
        if "body-unreadable:gob" in probs:       # the reader of gob bodies only knows flat structs: cannot observe, no verdict
            raise core.Infra("gob body not readable (%s): %s" % (o.get("body_error"), json.dumps(events[sid])[:1500]))
        known = None
        if probs:        # a known departure whose prediction is exactly what happened names the finding
            known = next((d for d in KNOWN_DEVS if d in (v.get("known") or {}) and not compare(dict(v, pred=dict(v["pred"], **v["known"][d])), o)), None)
        encs_seen.add((out["kind"] if out["kind"] != "decode" else "decode", o.get("ctype")))
        where_ = ""
        if out["kind"] in ("declared", "wrapped"):
            i = next(i for i, e in enumerate(t) if e["name"] == out["name"])
            where_ = "/" + "-".join(v["paths"][i]) + ("" if t[i].get("form", "arg") == "arg" else "/written-" + t[i]["form"])
            forms_seen.add((t[i].get("form", "arg"), v["paths"][i][1]))
            if len(t) > 1:
                paths_seen.add(core.canon([v["paths"], i]))
        enc_ = "" if out.get("enc", "none") == "none" else "/accept-" + out["enc"]
        for p in probs:
            shared = len({e["status"] for e in t}) < len(t)
            ctx.violation(known or "C05/%s%s/%s%s/%s" % (out["kind"], enc_, "shared-status" if shared else "own-status", where_, p),
                          "%s: table %s outcome %s -> %s" % (p, json.dumps(t), json.dumps(out), json.dumps({k: o[k] for k in o if k != "body"})[:500]),
                          {"vector": v, "binding": bind, "observed": o, "events": events[sid]})
        if not probs and ctx.cov["evaluations"] % 600 == 1:
            ctx.sample({"table": t, "outcome": out, "observed": {k: o[k] for k in ("status", "goaerr", "bodyname", "cname", "ckind", "writes")}})
    # binding: a corrupted prediction (status / goa-error header / client error of a multi-error table) must be refused
    if ctx.selftest or not quick:
        import copy
        probe = next(((v, bind, sid) for sid, (v, bind) in meta.items() if v["outcome"]["kind"] == "declared" and len(v["table"]) > 1 and
                      not compare(v, observe(v, events[sid], bind))), None)
        if probe is None:
            raise core.Infra("self-test: no accepted declared-error case of a multi-error table to corrupt")
        v, bind, sid = probe
        other = next(e["name"] for e in v["table"] if e["name"] != v["outcome"]["name"])
        for field, val in (("status", DECOY), ("goaerr", other), ("cname", other)):
            bad = copy.deepcopy(v)
            bad["pred"][field] = val
            if not compare(bad, observe(bad, events[sid], bind)):
                raise core.Infra("self-test: prediction with a corrupted %s was accepted" % field)
        # the body of every encoding is really read: a flipped timeout flag of an undeclared error is refused in JSON, XML and gob
        for enc in ("json", "xml", "gob"):
            probe = next(((v, bind, sid) for sid, (v, bind) in meta.items() if v["outcome"]["kind"] == "service" and v["outcome"].get("enc") == enc and
                          not compare(v, observe(v, events[sid], bind))), None)
            if probe is None:
                raise core.Infra("self-test: no accepted undeclared service error answered in %s" % enc)
            v, bind, sid = probe
            bad = copy.deepcopy(v)
            bad["pred"]["bodyflags"]["t"] = not bad["pred"]["bodyflags"]["t"]
            if "body-flags" not in compare(bad, observe(bad, events[sid], bind)):
                raise core.Infra("self-test: flipped timeout flag of a %s body was accepted" % enc)
        ctx.cov["selftest"] = "6 corrupted predictions refused"
    ctx.cov["distinct_nontrivial"] = len(nontrivial)
    ctx.cov["designs"] = len(designs)
    ctx.cov["evaluations_per_space"] = per_space
    ctx.cov["declared_error_positions_observed"] = len(paths_seen)
    ctx.cov["status_form_x_response_source_observed"] = sorted("%s/%s" % x for x in forms_seen)
    ctx.cov["outcome_kind_x_content_type_observed"] = sorted("%s/%s" % x for x in encs_seen)


def replay(ctx, rp):
    print(json.dumps(rp["case"].get("vector"), indent=1)[:3000])
    return 0
