"""C19 - request-ID and trace middlewares propagate identifiers end to end.
(M) Middleware.tla is model-checked over three slices of the option space (request-id options,
trace options, response-capture scripts); every invariant has a vacuity guard (a named deviation that
must produce a counterexample).  (G) every case TLC enumerates is executed on the real HTTP
middlewares and on the real gRPC unary / stream interceptors by harness/drivers/middleware; the
observation must be one of the behaviours the specification allows for that case.  (J) random cases
that mix all options (longer chains of requests, larger limits, longer scripts, any percentage) are
executed by the driver and their event log is validated by TLC against Trace_Middleware.
Option lists: 0..3 DiscardFromTrace patterns of which every subset of positions matches some request
(discarded iff ANY pattern matches), and three ways of writing the option lists (cfg.layout: once each,
the other way round, every setter twice with an overridden instance first and the patterns in between)."""
import json, os
from vlib import core

MC, GEN, TRACE = "mc/MC_Middleware", "gen/Gen_Middleware.cfg", "trace/Trace_Middleware"
DRIVER = "drivers/middleware"
# deviations found in the real code
REAL_DEVS = ["capture.status_zero_without_writeheader", "capture.status_follows_last_writeheader"]
# vacuity guards: (slice, deviation, invariant that must fail).  Apart from the two capture deviations these
# are hypothetical departures (the kind of slip the property is meant to catch), not behaviour of goa.
GUARDS = [("rid", "rid.trusts_header_when_disabled", "TrustAndTruncate"),
          ("rid", "rid.truncate_off_by_one", "TrustAndTruncate"),
          ("rid", "rid.custom_header_case_sensitive", "TrustAndTruncate"),
          ("rid", "rid.empty_when_untrusted", "RequestIDNonEmpty"),
          ("rid", "grpc.metadata_not_rewritten", "MetadataCarriesRequestID"),
          ("rid", "log.own_request_id", "LogCarriesRequestID"),
          ("trace", "sampler.random_at_100", "Sampling0And100Exact"),
          ("trace", "sampler.adaptive_skips_early", "AdaptiveWarmup"),
          ("trace", "trace.new_trace_despite_inbound", "KeepsInboundTrace"),
          ("trace", "client.forwards_parent_not_span", "ParentIsCallerSpan"),
          ("trace", "client.forwards_parent_not_span", "ForwardMatchesContext"),
          ("trace", "client.drops_trace", "OneTracePerChain"),
          ("trace", "client.appends_to_forwarded_metadata", "ParentIsCallerSpan"),
          ("trace", "trace.span_reused", "FreshSpan"),
          ("trace", "trace.stale_parent_when_untraced", "UntracedIsClean"),
          ("trace", "trace.last_discard_pattern_wins", "DiscardAnyPattern"),
          ("trace", "trace.last_discard_pattern_wins", "Sampling0And100Exact"),
          ("trace", "trace.first_discard_pattern_only", "DiscardAnyPattern"),
          ("trace", "options.first_setter_wins", "Sampling0And100Exact"),
          ("rid", "options.first_setter_wins", "TrustAndTruncate"),
          ("capture", "capture.status_follows_last_writeheader", "CaptureMatchesWritten"),
          ("capture", "capture.status_zero_without_writeheader", "CaptureMatchesWritten")]


def dev(d):
    if not d:
        return "{}"
    return "{%s}" % ", ".join('"%s"' % x for x in ([d] if isinstance(d, str) else d))


def slices(quick):
    """(label, consts) of the generation runs."""
    # MaxDiscards: 0..n DiscardFromTrace patterns, every subset of positions matching; Layouts / OptHops: the ways of
    # writing the option lists, explored for chains of up to OptHops servers
    every, dup = '{"plain", "rev", "dup"}', '{"plain", "dup"}'
    if quick:
        return [("rid", {"Mode": '"rid"', "MaxHops": 4, "MaxReq": 1, "LimitMax": 3, "Layouts": dup, "OptHops": 2}),
                ("trace-4x1", {"Mode": '"trace"', "MaxHops": 4, "MaxReq": 1, "MaxDiscards": 3, "Layouts": every, "OptHops": 2}),
                ("trace-2x2", {"Mode": '"trace"', "MaxHops": 2, "MaxReq": 2, "MaxDiscards": 0, "Layouts": dup, "OptHops": 2}),
                ("capture", {"Mode": '"capture"', "MaxHops": 2, "MaxScript": 3})]
    return [("rid", {"Mode": '"rid"', "MaxHops": 4, "MaxReq": 1, "LimitMax": 5, "Layouts": dup, "OptHops": 4}),
            ("trace-4x1", {"Mode": '"trace"', "MaxHops": 4, "MaxReq": 1, "MaxDiscards": 3, "Layouts": every, "OptHops": 4}),
            ("trace-4x2", {"Mode": '"trace"', "MaxHops": 4, "MaxReq": 2, "MaxDiscards": 2, "Layouts": every, "OptHops": 1}),
            ("trace-2x3", {"Mode": '"trace"', "MaxHops": 2, "MaxReq": 3, "MaxDiscards": 1, "Layouts": dup, "OptHops": 1}),
            ("capture", {"Mode": '"capture"', "MaxHops": 2, "MaxScript": 4})]


def case_of(v):
    return {"cfg": v["cfg"], "reqs": v["reqs"]}


def strip_pred(p):
    """`wrote` (the recorder's private header flag) is specification state, not an observation."""
    return {"hops": p["hops"], "fwds": p["fwds"],
            "caps": [{k: c[k] for k in c if k != "wrote"} for c in p["caps"]]}


def group(vectors):
    """case key -> (case, [allowed observations])"""
    g = {}
    for v in vectors:
        k = core.canon(case_of(v))
        e = g.setdefault(k, (case_of(v), []))
        p = strip_pred(v["pred"])
        if p not in e[1]:
            e[1].append(p)
    return g


def nontrivial(case):
    c, rs = case["cfg"], case["reqs"]
    if c["depth"] >= 2 or len(rs) >= 2:
        return True
    r = rs[0]
    if c["trust"] in ("on", "custom", "on_custom") and r["ridAt"] != "none" and c["limit"] > 0 and r["ridLen"] >= c["limit"]:
        return True
    if c["smode"] != "default" or c["discards"] > 0 or r["trace"] or r["parent"]:
        return True
    return len(r["script"]) >= 2


def script_class(script):
    wrote, cls = False, "empty"
    for op in script:
        if op["op"] == "wh":
            if wrote:
                return "writeheader_after_status_sent"
            wrote, cls = True, "writeheader_first"
        else:
            if not wrote:
                cls = "body_or_flush_without_writeheader"
            wrote = True
    return cls


def trusted_header(c):
    return {"on": "std", "custom": "custom", "on_custom": "custom"}.get(c["trust"], "none")


def rid_class(case):
    """Input class of the request-id part of a case: is the inbound value in the trusted header, and how
    does its length compare with the limit."""
    c, r = case["cfg"], case["reqs"][0]
    th = trusted_header(c)
    where = "absent" if r["ridAt"] == "none" or r["ridLen"] == 0 else ("trusted" if r["ridAt"] == th else "untrusted")
    rel = "nolimit" if c["limit"] == 0 else "lt" if r["ridLen"] < c["limit"] else "eq" if r["ridLen"] == c["limit"] else "gt"
    name = "" if c.get("hname", "canon") == "canon" else "/configured_name_" + c["hname"]
    return "%s/len_%s_limit%s" % (where, rel, name)


def discard_class(wire):
    """Input class of the discard list for a request that arrived as `wire`: which pattern positions match it
    (the_only = one pattern given; first_only / middle_only / last_only = one of several)."""
    m = wire.get("dmatch") or []
    if not m or wire.get("trace", "none") != "none":        # no pattern, or an inbound trace id: discards play no part
        return ""
    n = sum(1 for x in m if x)
    w = ("none" if n == 0 else "the_only" if len(m) == 1 else "all" if n == len(m) else "several" if n > 1
         else "first_only" if m[0] else "last_only" if m[-1] else "middle_only")
    return "/discard_pattern_matching=%s" % w


def classify(case, pred, obs):
    """Finding key from the failing case only: transport / observation / field / input class."""
    c = case["cfg"]
    if "panic" in obs:
        return "C19/%s/panic" % c["transport"]
    d = ""
    for sec in ("hops", "fwds", "caps"):        # in the order things happen at a hop
        d = core.deep_diff({sec: pred.get(sec)}, {sec: obs.get(sec)}) or ""
        if d:
            break
    path = d.split(":")[0]
    parts = [p for p in path.split(".") if p]
    if path.startswith(".caps"):
        if "logid" in parts:
            return "C19/http/log/requestid/%s" % rid_class(case)
        fld = {"st": "status", "lst": "status", "by": "bytes", "lby": "bytes"}.get(parts[-1], "other")
        scripts = sorted({script_class(r["script"]) for r in case["reqs"]})
        return "C19/http/capture/%s/%s" % (fld, "+".join(scripts))
    if path.startswith(".fwds"):
        fld = "requestid" if ("rid" in parts or "ridc" in parts) else parts[-1]
        return "C19/%s/forward/%s" % (c["transport"], fld)
    if path.startswith(".hops"):
        fld = parts[1] if len(parts) > 1 else "length"
        if fld == "in":
            return "C19/%s/received/%s" % (c["transport"], "requestid" if ("rid" in parts or "ridc" in parts) else parts[-1])
        if fld in ("rid", "md"):
            return "C19/%s/requestid/%s" % (c["transport"], rid_class(case))
        import re
        m = re.match(r"hops\[(\d+)\]$", parts[0])
        hi = int(m.group(1)) if m else -1
        dc, decision = "", False
        if 0 <= hi < min(len(obs.get("hops", [])), len(pred.get("hops", []))):
            dc = discard_class(obs["hops"][hi]["in"])
            # traced where the model says untraced (or the reverse): the decision differs, span and parent only follow
            decision = (pred["hops"][hi]["trace"] == "none") != (obs["hops"][hi]["trace"] == "none")
        if fld != "trace" and not decision:      # span / parent: the sampling options do not matter
            return "C19/%s/trace/%s%s%s" % (c["transport"], fld, "/forwarded_metadata" if c.get("fwdmd") else "", dc)
        if dc and not dc.endswith("=none"):     # a request some pattern matches: the sampler is not consulted at all
            return "C19/%s/trace/trace%s" % (c["transport"], dc)
        return "C19/%s/trace/trace/sampling=%s%s%s" % (c["transport"], c["smode"], c["pct"] if c["smode"] == "percent" else "", dc)
    return "C19/%s/other" % c["transport"]


class Gen:
    """Generation runs, cached per (slice, deviation)."""

    def __init__(self, ctx):
        self.ctx, self.cache = ctx, {}

    def get(self, label, consts, d=None):
        key = (label, d)
        if key not in self.cache:
            cs = dict(consts, Deviations=dev(d))
            if d:
                # predictions under a deviation: the invariants are expected to fail, only Emit is wanted
                import re
                txt = open(os.path.join(core.SPEC, GEN)).read()
                txt = re.sub(r"(?m)^INVARIANTS.*$", "INVARIANTS Emit", txt)
                r = self.ctx.tlc(MC, cfg_text=txt, consts=cs, label="Gen %s %s" % (label, d), timeout=1500)
                if r.violated:
                    raise core.Infra("generator under %s reported %s" % (d, r.violated))
            else:
                r = self.ctx.gen(MC, GEN, consts=cs, label="Gen " + label, timeout=1500, heap="12g")
            self.cache[key] = group(r.vectors)
        return self.cache[key]


def explain(ctx, gen, label, consts, key, obs):
    """Name of the first known deviation whose prediction equals the observation, else None."""
    for d in REAL_DEVS:
        if d in ctx.known:
            g = gen.get(label, consts, d)
            if key in g and obs in g[key][1]:
                return d
    return None


def run_vectors(ctx, gen, quick, nt):
    reported = {}
    for label, consts in slices(quick):
        g = gen.get(label, consts)
        keys = sorted(g)
        obs, _, _ = ctx.drive(DRIVER, [g[k][0] for k in keys])
        by = {o["i"]: o["obs"] for o in obs}
        for i, k in enumerate(keys):
            case, preds = g[k]
            if i not in by:
                raise core.Infra("driver returned no observation for vector %d of %s" % (i, label))
            o = by[i]
            ctx.cov["evaluations"] += 1
            if nontrivial(case):
                nt.add(k)
            if o in preds:
                if i % 1499 == 0:
                    ctx.sample({"case": case, "observed": o})
                continue
            def score(p):       # the allowed behaviour closest to the observation
                return sum(1 for sec in ("hops", "fwds", "caps") for x, y in zip(p[sec], o.get(sec, [])) if x == y)
            near = max(preds, key=score)
            ckey = classify(case, near, o)
            reported[ckey] = reported.get(ckey, 0) + 1
            if reported[ckey] > 3:          # same site and input class: three witnesses are enough
                continue
            d = explain(ctx, gen, label, consts, k, o)
            desc = "model allows %d behaviour(s), closest %s; real code differs at %s" % (
                len(preds), json.dumps(near, sort_keys=True)[:200], core.deep_diff(near, o))
            ctx.violation(d or ckey, desc, {"slice": label, "vector": case, "allowed": preds, "observed": o})


def split_cases(lines):
    cases, cur = [], []
    for ln in lines:
        if '"ev":"reset"' in ln and cur:
            cases.append(cur)
            cur = []
        cur.append(ln)
    if cur:
        cases.append(cur)
    return cases


def validate(ctx, lines, label, d=None):
    p = os.path.join(ctx.subdir("trace"), "trace.ndjson")
    open(p, "w").write("".join(lines))
    ok, hwm, r = ctx.trace_validate(TRACE, TRACE + ".cfg", p, consts={"Deviations": dev(d)}, label=label, timeout=1200)
    if hwm is None:
        raise core.Infra("trace validation produced no high-water mark:\n" + r.stdout[-2000:])
    return ok, hwm


def run_random(ctx, quick, nt, maxfail=6):
    n = 400 if quick else 4000
    _, tpath, _ = ctx.drive(DRIVER, [], args=["-random", str(n)])
    lines = [l for l in open(tpath) if l.strip()]
    cases = split_cases(lines)
    if len(cases) != n:
        raise core.Infra("driver logged %d cases, expected %d" % (len(cases), n))
    for c in cases:
        rs = json.loads(c[0])
        k = core.canon({"cfg": rs["cfg"], "reqs": rs["reqs"]})
        ctx.cov["evaluations"] += 1
        if nontrivial(rs):
            nt.add(k)
    ctx.sample({"trace_case": [json.loads(x) for x in cases[0][:4]]})
    rest, fails, accepted_prefix = list(cases), 0, None
    while rest:
        flat = [l for c in rest for l in c]
        ok, hwm = validate(ctx, flat, "trace-random")
        if ok:
            ctx.cov["traces_validated_against_impl"] += len(rest)
            if accepted_prefix is None:
                accepted_prefix = rest
            break
        # which case holds the rejected line?
        pos, idx = 0, 0
        for idx, c in enumerate(rest):
            if hwm <= pos + len(c):
                break
            pos += len(c)
        bad = rest[idx]
        ctx.cov["traces_validated_against_impl"] += idx
        if accepted_prefix is None and idx > 0:
            accepted_prefix = rest[:idx]
        rs = json.loads(bad[0])
        ev = json.loads(bad[hwm - pos - 1]) if hwm - pos - 1 < len(bad) else {"ev": "eof"}
        key = None
        kn = [d for d in REAL_DEVS if d in ctx.known]
        # the case up to and including the rejected event, under one known deviation alone or
        # (an earlier hop may have exercised another one) under all known ones together
        for d in kn + ([tuple(kn)] if len(kn) > 1 else []):
            if validate(ctx, bad[:hwm - pos], "trace-explain", d)[0]:
                key = d if isinstance(d, str) else d[0]
                break
        if key is None:
            t = rs["cfg"]["transport"]
            if ev["ev"] == "capture":
                o = ev["o"]
                fld = "status" if (o["st"] != o["rst"] or o["lst"] != o["rst"]) else "bytes" if (o["by"] != o["rby"] or o["lby"] != o["rby"]) else None
                key = "C19/http/capture/%s/%s" % (fld, script_class(rs["reqs"][o["q"] - 1]["script"])) if fld else "C19/http/random/log"
            else:
                key = "C19/%s/random/%s%s" % (t, "panic" if ev["ev"] == "panic" else ev["ev"],
                                              discard_class(ev["o"]["in"]) if ev["ev"] == "hop" else "")
        ctx.violation(key, "event %d of a random case (%s) is not a behaviour of Middleware.tla: %s" % (
            hwm - pos, rs["cfg"]["transport"], json.dumps(ev, sort_keys=True)[:300]),
            {"trace_case": [json.loads(x) for x in bad], "rejected_event": hwm - pos})
        fails += 1
        rest = rest[idx + 1:]
        if fails >= maxfail:
            ctx.notes.append("trace validation stopped after %d rejected cases; %d cases not examined" % (fails, len(rest)))
            break
    return accepted_prefix


def selftest(ctx, gen, quick, accepted):
    """Binding demonstrated twice: a corrupted trace line is rejected at exactly that line, and a
    corrupted observation is not among the allowed behaviours."""
    res = []
    if accepted:
        flat = [l for c in accepted[:40] for l in c]
        evs = [json.loads(l) for l in flat]
        targets = []
        for want, mut in (("hop", lambda o: o["rid"].__setitem__("len", o["rid"]["len"] + 1)),
                          ("forward", lambda o: o["out"].__setitem__("parent", "s99")),
                          ("capture", lambda o: o.__setitem__("by", o["by"] + 1))):
            idxs = [i for i, e in enumerate(evs) if e["ev"] == want]
            if idxs:
                targets.append((idxs[len(idxs) // 2], mut))
        for t, mut in targets:
            cp = [json.loads(l) for l in flat]
            mut(cp[t]["o"])
            ok, hwm = validate(ctx, [json.dumps(e) + "\n" for e in cp], "selftest")
            r = {"corrupted_line": t + 1, "event": cp[t]["ev"], "rejected_at": hwm, "ok": (not ok and hwm == t + 1)}
            res.append(r)
            if not r["ok"]:
                raise core.Infra("trace self-test failed: corrupted line %d (%s), TLC stopped at %s" % (t + 1, cp[t]["ev"], hwm))
    label, consts = slices(quick)[0]
    g = gen.get(label, consts)
    k = sorted(g)[len(g) // 2]
    bad = json.loads(json.dumps(g[k][1][0]))
    bad["hops"][0]["rid"]["len"] += 1
    if bad in g[k][1]:
        raise core.Infra("vector self-test failed: a corrupted observation is still allowed")
    res.append({"vector_corruption_detected": True})
    ctx.cov["trace_selftests"] = res


def run(ctx):
    quick = ctx.quick()
    ctx.cov["rule"] = ("cases = every (configuration, request history) enumerated by TLC from Middleware.tla in the slices rid / trace / "
                       "capture, plus the random cases of the trace direction; non-trivial = chain depth >= 2, or >= 2 requests, or a trusted "
                       "inbound request id at or above a positive limit, or non-default sampling / discards / inbound trace or parent header, "
                       "or a response script of >= 2 operations; distinct = canonical JSON of (cfg, reqs) - cfg includes the number of "
                       "discard patterns and the layout of the option lists, a request the pattern positions that match it")
    ctx.assumptions += [
        "fresh request ids are 8 characters long (shortID: 6 random bytes, base64) and never contain the characters of the inbound test values",
        "0 < percent < 100, the adaptive sampler after its sample size is reached, a ParentSpanID header without TraceID and the captured "
        "status of a handler that writes nothing are left open by the documentation: any outcome is accepted",
        "the network between hops is simulated in process: only headers / metadata cross a hop boundary",
        "1xx informational statuses and bodies on 204/304 are not generated",
        "option lists: a later instance of a setter option overrides an earlier one (the options are run in order, as the existing "
        "on_custom / custom_off cases already assume); SamplingPercent and MaxSamplingRate are documented as mutually exclusive and are "
        "never given together"]
    gen = Gen(ctx)
    # (M) vacuity guards: every invariant fails on a small instance once the matching deviation is enabled
    # (run four at a time; ctx.subdir is not thread safe, hence the lock)
    import re, threading
    from concurrent.futures import ThreadPoolExecutor
    lock, subdir = threading.Lock(), ctx.subdir

    def locked_subdir(name):
        with lock:
            return subdir(name)
    ctx.subdir = locked_subdir
    base = open(os.path.join(core.SPEC, MC + ".cfg")).read()

    def guard(g):
        mode, d, inv = g
        small = {"MaxHops": 2, "MaxReq": 2 if d.startswith("sampler.adaptive") else 1, "LimitMax": 2, "MaxScript": 2,
                 "MaxDiscards": 3 if "discard" in d else 1, "OptHops": 2,
                 "Layouts": '{"plain", "rev", "dup"}' if d.startswith("options.") else '{"plain"}'}
        txt = re.sub(r"(?m)^INVARIANTS.*$", "INVARIANTS " + inv, base)
        r = ctx.mc_expect_violation(MC, cfg_text=txt, consts=dict(small, Mode='"%s"' % mode, Deviations=dev(d)),
                                    label="guard-%s-%s" % (d, inv), timeout=600, workers=2)
        if r.violated != inv:
            raise core.Infra("guard %s: expected %s to fail, TLC reported %s" % (d, inv, r.violated))
    def canceler(_):
        # growth module (beyond the listed property): StreamCanceler's lost-cancellation window
        ctx.mc("mc/MC_Canceler", label="MC Canceler (design: flag re-read after Store)", timeout=600, workers=2)
        ctx.mc_expect_violation("mc/MC_Canceler", consts={"Deviations": dev("canceler.no_recheck_after_store")},
                                label="MC Canceler as coded", timeout=600, workers=2)
    try:
        with ThreadPoolExecutor(max_workers=8) as ex:
            fs = [ex.submit(guard, g) for g in GUARDS] + [ex.submit(canceler, None)]
            for f in fs:
                f.result()
    finally:
        ctx.subdir = subdir
    ctx.notes.append("beyond C19: grpc/middleware/canceler.go behaves like Canceler.tla with deviation canceler.no_recheck_after_store "
                     "(a stream that passed the canceling check before the stop signal and stores its cancel func after Range is never "
                     "cancelled); modelled only, reported in evidence, no verdict")
    # (M)+(G): the generation runs check every invariant while they emit the cases
    nt = set()
    run_vectors(ctx, gen, quick, nt)
    # (J)
    accepted = run_random(ctx, quick, nt)
    ctx.cov["distinct_nontrivial"] = len(nt)
    if ctx.selftest or not quick:
        selftest(ctx, gen, quick, accepted)


def replay(ctx, rp):
    case = rp["case"]
    if "vector" in case:
        obs, _, _ = ctx.drive(DRIVER, [case["vector"]])
        o = obs[0]["obs"]
        print("allowed: ", json.dumps(case["allowed"][0], sort_keys=True))
        print("observed:", json.dumps(o, sort_keys=True))
        if o not in case["allowed"]:
            print("VIOLATION property=C19 replay=(replayed)")
            print("  diff:", core.deep_diff(case["allowed"][0], o))
            return 1
        return 0
    if "trace_case" in case:
        rs = case["trace_case"][0]
        _, out, _ = ctx.drive(DRIVER, [{"cfg": rs["cfg"], "reqs": rs["reqs"]}], args=["-events"])
        lines = [l for l in open(out) if l.strip()]
        ok, hwm = validate(ctx, lines, "replay")
        print("re-executed on the real code: %d events" % len(lines))
        if not ok:
            print("VIOLATION property=C19 replay=(replayed)")
            print("  event %d rejected by Trace_Middleware: %s" % (hwm, lines[hwm - 1].strip()[:400] if hwm <= len(lines) else "eof"))
            return 1
        return 0
    print(json.dumps(case, indent=1))
    return 0
