"""Streaming - growth module BEYOND the list of claimed properties: one WebSocket streaming call of generated code
(spec/Streaming.tla).  Not a property of MANIFEST: `run_streaming(ctx)` never calls ctx.violation and never raises a
verdict; everything it finds is evidence (ctx.cov["beyond_the_list"]["streaming"], ctx.notes).

(M) Streaming.tla model-checked: the ideal (Deviations = {}) keeps every invariant, every named deviation breaks one;
    the code's own deviations together keep the weaker invariants.
(G) TLC emits scripts (sequences of client / server stream calls with the outcome the model predicts for each step):
    every script of up to 7 steps exhaustively, long ones by simulation - once for the ideal, once for the model with
    the deviations the generated code is known to have.  The scripts are replayed on the real generated client and
    server of one fixed design (three streaming kinds x payload / result / viewed result) over httptest + websockets
    (harness/drivers/streaming) and each outcome is compared with the prediction.
(J) The recorded runs are validated by TLC as traces of Streaming.tla (Trace_Streaming.tla, high-water mark); a case of
    the ideal that does not match is re-judged under each named deviation (judge mode): the deviation that accepts it is
    its key.  Self-test: one recorded field corrupted -> rejected exactly at that line."""
import json, os, random, re, subprocess, time
from vlib import core, httpgen as hg

METHODS = ["srv", "srvn", "srvv", "cli", "clin", "clip", "bidi", "bidip", "bidiv"]
HAS_PAYLOAD = {"srv", "clip", "bidip"}
VIEWED = {"srvv", "bidiv"}
CODE_DEVS = ["recv.continues_after_invalid", "close.noop_before_upgrade", "sendandclose.nil_conn_before_recv",
             "view.recv_upgrade_drops_view", "eof.server_recv_after_eof_is_error"]
HYP_DEVS = ["hyp.recv_skips_validation", "hyp.dup_delivery", "hyp.close_overtakes", "hyp.invoke_on_bad_payload"]
TVAL = {"a": "a", "b": "bb", "x": "x", "y": "long"}      # the t attribute of every message value (harness/drivers/streaming)


def tla_set(xs):
    return "{" + ", ".join('"%s"' % x for x in xs) + "}"


def design():
    """The fixed design family (abstract design language of harness/design)."""
    def attrs(treq):
        return [{"name": "v", "type": {"kind": "int"}, "required": True, "val": {"min": 1}},
                {"name": "t", "type": {"kind": "string"}, "required": treq, "val": {"maxLen": 3}}]
    msg = {"type": {"kind": "user", "ref": "Msg"}}
    res = {"type": {"kind": "user", "ref": "Res"}}
    pay = {"attrs": [{"name": "p", "type": {"kind": "int"}, "required": True, "val": {"min": 1}}]}
    ms = []
    for m in METHODS:
        d = {"name": m, "http": {"routes": [{"verb": "GET", "path": "/" + m}]}}
        if m in HAS_PAYLOAD:
            d["payload"] = pay
            d["http"]["params"] = {"p": "p"}
        if m.startswith("srv") or m.startswith("bidi"):
            d["streamResult"] = res if m in VIEWED else msg
        if m.startswith("cli") or m.startswith("bidi"):
            d["streamPayload"] = msg
        if m in ("cli", "clip"):
            d["result"] = msg
        d["stream"] = "server" if m.startswith("srv") else "client" if m.startswith("cli") else "bidi"
        ms.append(d)
    return {"api": {"name": "strm"},
            "types": [{"name": "Msg", "kind": "object", "attrs": attrs(False)},
                      {"name": "Res", "kind": "result", "mediaType": "application/vnd.strm.res", "attrs": attrs(True),
                       "views": [{"name": "default", "attrs": [{"name": "v"}, {"name": "t"}]}, {"name": "tiny", "attrs": [{"name": "v"}]}]}],
            "services": [{"name": "s1", "methods": ms}]}


def write_glue(pl, d):
    tmpl = open(os.path.join(core.HARNESS, "drivers", "streaming", "glue.go.tmpl")).read()
    meths, eps, calls = [], [], []
    for m in METHODS:
        g = m.capitalize()
        if m in HAS_PAYLOAD:
            meths.append("func (s *svc) %s(ctx context.Context, p *svcpkg.%sPayload, st svcpkg.%sServerStream) error {\n\treturn s.h.Serve(ctx, %s, p, st)\n}"
                         % (g, g, g, json.dumps(m)))
            calls.append("\t\t\t\t%s: func(ctx context.Context, p int) (any, error) { return sc.%s(ctx, &svcpkg.%sPayload{P: p}) }," % (json.dumps(m), g, g))
        else:
            meths.append("func (s *svc) %s(ctx context.Context, st svcpkg.%sServerStream) error {\n\treturn s.h.Serve(ctx, %s, nil, st)\n}"
                         % (g, g, json.dumps(m)))
            calls.append("\t\t\t\t%s: func(ctx context.Context, p int) (any, error) { return sc.%s(ctx) }," % (json.dumps(m), g))
        eps.append("\t\t\t\tc.%s()," % g)
    src = (tmpl.replace("@MOD@", "verifgen/" + d).replace("@SVC@", "s1").replace("@METHODS@", "\n\n".join(meths))
           .replace("@ENDPOINTS@", "\n".join(eps)).replace("@CALLS@", "\n".join(calls)))
    gd = os.path.join(pl.root, d, "strmrun")
    os.makedirs(gd, exist_ok=True)
    open(os.path.join(gd, "main.go"), "w").write(src)
    return "./%s/strmrun" % d


def build_driver(ctx):
    """genhost (real goa: DSL -> eval -> gen) -> go build of the generated packages -> glue -> go build of the driver"""
    pl = hg.Pipeline(ctx, "streaming")
    designs = [design()]
    pl.prepare(designs, "gen", rounds=0)
    if pl.failed:
        return None, "the streaming design did not generate / compile: %s" % str(pl.failed[0])[:1500]
    pkg = write_glue(pl, "d0")
    out = os.path.join(pl.root, "strmrun")
    t = time.time()
    p = subprocess.run(["go", "build", "-o", out, pkg], cwd=pl.root, env=ctx.goenv(gen=True), stdout=subprocess.PIPE, stderr=subprocess.STDOUT, text=True, timeout=1800)
    if p.returncode != 0:
        raise core.Infra("streaming driver does not build:\n%s" % p.stdout[-3000:])
    ctx.log("streaming: generated service + driver built in %.1fs" % (time.time() - t))
    return (pl, out), None


def script_key(s):
    return core.canon([s["m"], [[t["side"], t["op"], t["v"], t["view"], t["res"], t["rv"], t["rview"]] for t in s["steps"]]])


def gen_scripts(ctx, devs, tag, quick):
    """exhaustive short scripts + simulated long ones under the given deviation set"""
    D = tla_set(devs)
    out = []
    r = ctx.gen("mc/MC_StreamingScript", "gen/Gen_Streaming.cfg", label="Gen Streaming %s short" % tag, timeout=900,
                consts={"Deviations": D, "MaxSteps": 6 if quick else 7, "MaxSend": 2, "Vals": '{"a", "x"}'})
    out += r.vectors
    for k, (steps, n) in enumerate([(14, 40), (24, 60)] if quick else [(12, 150), (18, 200), (26, 250)]):
        for ms in (["srv", "srvn", "srvv"], ["cli", "clin", "clip"], ["bidi", "bidip", "bidiv"]):
            r = ctx.gen("mc/MC_StreamingScript", "gen/Gen_Streaming.cfg", label="Sim Streaming %s %d %s" % (tag, steps, ms[0]), timeout=900,
                        consts={"Deviations": D, "MaxSteps": steps, "Methods": tla_set(ms)}, simulate=n if ms[0] != "srv" else max(10, n // 3), depth=steps + 2, workers=4)
            out += r.vectors
    seen, uniq = set(), []
    for s in sorted(out, key=script_key):
        k = script_key(s)
        if k not in seen:
            seen.add(k)
            uniq.append(s)
    return uniq


def project(m, step, ob):
    """observation of the driver -> (res, rv, rview) in the vocabulary of the model; anything the vocabulary has no word
    for is spelled so that it cannot match"""
    res, rv, rview = ob["res"], "-", "-"
    if step["op"] == "invoked" and res == "ok":
        rv = "-"
        if ob.get("rv") != step["v"]:
            res = "payload:" + str(ob.get("rv"))
    elif step["op"] == "callret" and res == "stream":
        if m in VIEWED:
            cv = ob.get("cview")
            rview = "default" if cv in ("", "default") else cv if cv == "tiny" else "view:%s" % cv
    elif res == "val":
        rv = ob.get("rv")
        t = ob.get("rt")
        if m in VIEWED and step["side"] == "c":
            rview = "tiny" if t is None else "default" if t == TVAL.get(rv) else "corrupt:%s" % t
        else:
            rview = "-" if t == TVAL.get(rv) else "corrupt:%s" % t
    return res, rv, rview


def same(step, obs3):
    if step.get("nd") == "nd":
        alts = {"close": {"ok", "error"}, "carret": {"val", "invalid", "error"}}.get(step["op"], {step["res"]})
        if obs3[0] in alts and (obs3[0] != step["res"] or obs3 == (step["res"], step["rv"], step["rview"])):
            return True
    return obs3 == (step["res"], step["rv"], step["rview"])


def run_scripts(ctx, built, scripts, tag, wait="3s"):
    pl, binp = built
    d = ctx.subdir("streaming-run-" + tag)
    inp, outp = os.path.join(d, "in.ndjson"), os.path.join(d, "out.ndjson")
    with open(inp, "w") as f:
        for i, s in enumerate(scripts):
            f.write(json.dumps({"id": i + 1, "m": s["m"], "steps": s["steps"]}) + "\n")
    t = time.time()
    p = subprocess.run([binp, "-in", inp, "-out", outp, "-par", "16", "-wait", wait], cwd=d, env=ctx.goenv(), stdout=subprocess.PIPE, stderr=subprocess.PIPE,
                       text=True, timeout=3600, errors="replace")
    if p.returncode != 0:
        raise core.Infra("streaming driver failed (%d): %s" % (p.returncode, p.stderr[-3000:]))
    res = [json.loads(l) for l in open(outp) if l.strip()]
    if len(res) != len(scripts):
        raise core.Infra("streaming driver: %d results for %d scripts" % (len(res), len(scripts)))
    ctx.log("streaming: %d scripts (%s) replayed on the generated client/server in %.1fs" % (len(scripts), tag, time.time() - t))
    return res


def trace_lines(scripts, results):
    """one batch trace: reset, the executed steps with the observed outcome, ..., end.  Returns (lines, case -> (first, last line))"""
    lines, span = [], {}
    for s, r in zip(scripts, results):
        first = len(lines) + 1
        lines.append({"ev": "reset", "id": r["id"], "m": s["m"]})
        for st, ob in zip(s["steps"], r["obs"]):
            res, rv, rview = project(s["m"], st, ob)
            lines.append({"ev": "step", "side": st["side"], "op": st["op"], "v": st["v"], "view": st["view"], "res": res, "rv": rv, "rview": rview})
        if not r.get("stopped"):
            lines.append({"ev": "ran", "n": r["invoked"]})
        span[r["id"]] = (first, len(lines))
    lines.append({"ev": "end"})
    nxt = len(lines)
    for i in range(len(lines) - 1, -1, -1):
        if lines[i]["ev"] in ("reset", "end"):
            nxt = i + 1
        elif lines[i]["ev"] in ("step", "ran"):
            lines[i]["nx"] = nxt
    return lines, span


def write_trace(ctx, lines, name):
    d = ctx.subdir(name)
    p = os.path.join(d, "trace.ndjson")
    with open(p, "w") as f:
        for l in lines:
            f.write(json.dumps(l) + "\n")
    return p


def judge_run(ctx, lines, devs, label):
    """judge mode: ids of the cases Trace_Streaming matches to their end under the deviation set"""
    p = write_trace(ctx, lines, "streaming-judge")
    ok, hwm, r = ctx.trace_validate("trace/Trace_Streaming", "trace/Trace_Streaming.cfg", p, consts={"Deviations": tla_set(devs), "Judge": "TRUE"},
                                    label=label, timeout=1800)
    if not ok:
        raise core.Infra("judge run did not reach the end of the log (hwm %s of %d)" % (hwm, len(lines)))
    return {int(m.group(1)) for m in (re.match(r'^<<"ACC", (\d+)>>$', x) for x in r.prints) if m}


def text_of(s, r, upto=None):
    """a script with what was observed, as text for the report"""
    out = ["method %s" % s["m"]]
    for i, st in enumerate(s["steps"]):
        ob = r["obs"][i] if i < len(r["obs"]) else None
        inp = " ".join(x for x in (st["v"], st["view"]) if x != "-")
        pred = "/".join(x for x in (st["res"], st["rv"], st["rview"]) if x != "-") or "-"
        if ob is None:
            out.append("  %s.%s %s   [predicted %s; not executed]" % (st["side"], st["op"], inp, pred))
            continue
        o3 = project(s["m"], st, ob)
        got = "/".join(x for x in o3 if x != "-") or "-"
        flag = "" if same(st, o3) else "   <-- MISMATCH" + (" (%s)" % ob["detail"][:160] if ob.get("detail") else "")
        out.append("  %s.%s %s   predicted %s, observed %s%s" % (st["side"], st["op"], inp, pred, got, flag))
    if r.get("ran_unexpectedly") is not None:
        out.append("  the service method ran %d time(s)   <-- MISMATCH" % r["ran_unexpectedly"])
    return "\n".join(out)


def evaluate(ctx, built, scripts, devs, tag, st, wait="3s"):
    """replay + compare (G) + trace validation (J) of one script set generated under `devs`.  A step that ran into the
    driver's time limit counts as a departure from the script like any other; the trace specification matches it where
    the model says the call blocks (so a named deviation can explain it); what stays unexplained is machinery trouble"""
    results = run_scripts(ctx, built, scripts, tag, wait)
    mism, timeouts, leaked = {}, [], 0
    ops = {}
    for s, r in zip(scripts, results):
        leaked += 1 if r.get("leaked") else 0
        for i, ob in enumerate(r["obs"]):
            stp = s["steps"][i]
            if ob["res"] == "timeout":
                timeouts.append(r["id"])
            o3 = project(s["m"], stp, ob)
            k = "%s.%s:%s" % (stp["side"], stp["op"], o3[0])
            ops[k] = ops.get(k, 0) + 1
            if not same(stp, o3):
                mism[r["id"]] = (s, r, i)
                break
        else:
            done = s["steps"][:len(r["obs"])]
            ninv = sum(1 for stp in done if stp["op"] == "invoked")
            settled = ninv > 0 or any(stp["op"] == "callret" for stp in done) or not done      # (else the request may still be on its way)
            if not r.get("stopped") and settled and r["invoked"] != ninv:
                mism[r["id"]] = (s, r, len(r["obs"]) - 1)       # the service method ran although the model says it cannot
                r["ran_unexpectedly"] = r["invoked"]
    lines, span = trace_lines(scripts, results)
    p = write_trace(ctx, lines, "streaming-trace-" + tag)
    acc = judge_run(ctx, lines, devs, "judge Streaming %s" % tag)
    rejected = sorted(set(span) - acc)
    st["per_run"][tag] = {"deviations_assumed": devs, "scripts": len(scripts), "steps_executed": sum(len(r["obs"]) for r in results),
                          "prediction_mismatches": len(mism), "traces_rejected": len(rejected), "timeouts": len(timeouts), "leaked_handlers": leaked,
                          "steps_by_outcome": dict(sorted(ops.items()))}
    if set(rejected) != set(mism):
        # the two judges must agree (the script comparison is per script, trace validation may also take another branch of the model)
        only_g = sorted(set(mism) - set(rejected))
        only_j = sorted(set(rejected) - set(mism))
        st["judges_disagree"].append({"run": tag, "only_prediction_mismatch": only_g[:5], "only_trace_rejected": only_j[:5]})
    return results, mism, timeouts, lines, span, p, rejected


def run_streaming(ctx):
    quick = ctx.quick()
    t0 = time.time()
    st = {"per_run": {}, "judges_disagree": [], "mismatches": [], "deviations_observed": {}, "machinery": []}
    ctx.cov.setdefault("beyond_the_list", {})["streaming"] = st
    keep = {k: ctx.cov[k] for k in ("states", "transitions", "traces_validated_against_impl", "evaluations")}
    ntlc = len(ctx.cov["tlc_runs"])
    nsel = len(ctx.cov.get("deviation_selftests", []))
    try:
        _run(ctx, quick, st)
    finally:
        # the counters of the property this runs under stay its own
        st["states"] = ctx.cov["states"] - keep["states"]
        st["transitions"] = ctx.cov["transitions"] - keep["transitions"]
        ctx.cov.update(keep)
        st["tlc_runs"] = ctx.cov["tlc_runs"][ntlc:]
        del ctx.cov["tlc_runs"][ntlc:]
        if "deviation_selftests" in ctx.cov:
            st["deviation_selftests"] = ctx.cov["deviation_selftests"][nsel:]
            del ctx.cov["deviation_selftests"][nsel:]
        st["wall_s"] = round(time.time() - t0, 1)
    return st


def _run(ctx, quick, st):
    # ---- (M)
    big = {} if quick else {"MaxSend": 3, "Vals": '{"a", "x", "y"}'}
    r = ctx.mc("mc/MC_Streaming", label="MC Streaming ideal", consts=big or None, timeout=1800)
    st["model"] = {"ideal": {"distinct": r.distinct, "generated": r.generated, "depth": r.depth}}
    r = ctx.mc("mc/MC_Streaming", "mc/MC_Streaming_code.cfg", label="MC Streaming code deviations (weaker invariants)",
               consts=None if quick else {"MaxSend": 3, "Vals": '{"a", "y"}'}, timeout=1800)
    st["model"]["code"] = {"distinct": r.distinct, "generated": r.generated}
    bites = {}
    for d in CODE_DEVS + HYP_DEVS:
        r = ctx.mc_expect_violation("mc/MC_Streaming", consts={"Deviations": tla_set([d])}, label="MC dev " + d)
        bites[d] = r.violated
    st["model"]["deviation_breaks"] = bites
    # ---- real code
    built, why = build_driver(ctx)
    if built is None:
        st["machinery"].append(why)
        ctx.notes.append("streaming (beyond the list): " + why[:300])
        return
    rnd = random.Random(ctx.seed)
    # scripts of the model WITH the code's deviations: expected to match step by step
    sc_code = gen_scripts(ctx, CODE_DEVS, "code", quick)
    # scripts of the ideal: where a deviation bites, the run departs from the script at that step
    sc_ideal = gen_scripts(ctx, [], "ideal", quick)
    st["scripts"] = {"code": len(sc_code), "ideal": len(sc_ideal)}
    res_c, mism_c, to_c, lines_c, span_c, path_c, rej_c = evaluate(ctx, built, sc_code, CODE_DEVS, "code", st)
    res_i, mism_i, to_i, lines_i, span_i, path_i, rej_i = evaluate(ctx, built, sc_ideal, [], "ideal", st, wait="1s")
    unexplained_timeouts = [("code", sc_code[c - 1], res_c[c - 1]) for c in to_c if c in mism_c or c in rej_c]
    # ---- what does not match the model of the code: reported in full
    for cid in sorted(set(mism_c) | set(rej_c)):
        s, r = sc_code[cid - 1], res_c[cid - 1]
        if len(st["mismatches"]) < 12:
            st["mismatches"].append({"run": "code", "id": cid, "script": text_of(s, r)})
    st["unexplained_under_code_model"] = len(set(mism_c) | set(rej_c))
    # ---- what departs from the ideal: explained by one named deviation each (judge mode, one TLC run per deviation)
    bad = sorted(set(mism_i) | set(rej_i))
    if bad:
        sub_s = [sc_ideal[c - 1] for c in bad]
        sub_r = [res_i[c - 1] for c in bad]
        sub_lines, _ = trace_lines(sub_s, sub_r)
        left = set(bad)
        keyof = {}
        for d in CODE_DEVS:
            acc = judge_run(ctx, sub_lines, [d], "explain " + d)
            for c in acc & left:
                keyof.setdefault(c, d)
            left -= acc
        if left:
            acc = judge_run(ctx, sub_lines, CODE_DEVS, "explain all code deviations")
            for c in acc & left:
                keyof[c] = "several code deviations together"
            left -= acc
        for c in sorted(left):
            keyof[c] = "unexplained"
        for c, d in sorted(keyof.items()):
            e = st["deviations_observed"].setdefault(d, {"scripts": 0, "example": None})
            e["scripts"] += 1
            s, r = sc_ideal[c - 1], res_i[c - 1]
            if e["example"] is None or len(s["steps"]) < e["_len"]:
                e["example"], e["_len"] = text_of(s, r), len(s["steps"])
            if d == "unexplained" and len(st["mismatches"]) < 12:
                st["mismatches"].append({"run": "ideal", "id": c, "script": text_of(s, r)})
            if d == "unexplained" and c in to_i:
                unexplained_timeouts.append(("ideal", s, r))
        for e in st["deviations_observed"].values():
            e.pop("_len", None)
    st["departures_from_ideal"] = len(bad)
    st["timeouts_unexplained"] = len(unexplained_timeouts)
    for tag, s, r in unexplained_timeouts[:3]:
        st["machinery"].append("time limit hit where the model does not block (%s scripts):\n%s" % (tag, text_of(s, r)))
    for d in CODE_DEVS:
        if d not in st["deviations_observed"]:
            st["machinery"].append("named deviation %s was not reproduced by any ideal script of this run" % d)
    # ---- (J) acceptance with the high-water mark on the runs that matched, and the self-test
    good = [(s, r) for s, r in zip(sc_code, res_c) if r["id"] not in mism_c and r["id"] not in rej_c and not r.get("stopped")]
    g_lines, g_span = trace_lines([s for s, _ in good], [r for _, r in good])
    gp = write_trace(ctx, g_lines, "streaming-trace-accept")
    ok, hwm, r = ctx.trace_validate("trace/Trace_Streaming", "trace/Trace_Streaming.cfg", gp, consts={"Deviations": tla_set(CODE_DEVS)},
                                    label="trace Streaming (code model)", timeout=1800)
    st["trace_validation"] = {"cases": len(good), "lines": len(g_lines), "accepted": ok, "hwm": hwm}
    if not ok:
        st["machinery"].append("high-water-mark validation stopped at line %s of %d although judge mode accepted every case" % (hwm, len(g_lines)))
    st["selftests"] = selftest(ctx, g_lines, rnd)
    # ---- summary for the notes
    ctx.notes.append("streaming (beyond the list, evidence only): %d+%d scripts on the generated WebSocket client/server; %d do not match the model of "
                     "the code; %d depart from the ideal (%s); %d unexplained timeouts"
                     % (len(sc_code), len(sc_ideal), st["unexplained_under_code_model"], st["departures_from_ideal"],
                        ", ".join("%s: %d" % (k, v["scripts"]) for k, v in sorted(st["deviations_observed"].items())) or "none",
                        len(unexplained_timeouts)))


def selftest(ctx, lines, rnd):
    """corrupt one recorded outcome of an accepted trace: TLC must reject exactly there"""
    out = []
    cands = [i for i, l in enumerate(lines[:4000]) if l["ev"] == "step" and l["op"] in ("recvret", "carret") and l["res"] in ("val", "eof")]
    cands2 = [i for i, l in enumerate(lines[:4000]) if l["ev"] == "step" and l["op"] == "callret"]
    picks = []
    if cands:
        picks.append((rnd.choice(cands), "recv"))
    vals = [i for i in cands if lines[i]["res"] == "val"]
    if vals:
        picks.append((rnd.choice(vals), "value"))
    if cands2:
        picks.append((rnd.choice(cands2), "callret"))
    for i, what in picks:
        cs = [dict(l) for l in lines[:i + 1]] + [{"ev": "end"}]
        if what == "recv":
            if cs[i]["res"] == "val":
                cs[i].update(res="eof", rv="-", rview="-")
            else:
                cs[i].update(res="val", rv="a", rview="-")
        elif what == "value":
            cs[i]["rv"] = "b" if cs[i]["rv"] != "b" else "a"
        else:
            cs[i]["res"] = "error" if cs[i]["res"] == "stream" else "stream"
        for j, l in enumerate(cs):
            if l["ev"] in ("step", "ran"):
                l["nx"] = len(cs)
        p = write_trace(ctx, cs, "streaming-selftest-" + what)
        ok, hwm, _ = ctx.trace_validate("trace/Trace_Streaming", "trace/Trace_Streaming.cfg", p, consts={"Deviations": tla_set(CODE_DEVS)},
                                        label="selftest Streaming " + what)
        out.append({"corrupted": what, "corrupted_line": i + 1, "rejected_at": hwm, "ok": (not ok and hwm == i + 1)})
    return out


def run(ctx):
    """stand-alone entry (tools/streaming.sh): evidence only"""
    st = run_streaming(ctx)
    print(json.dumps({k: v for k, v in st.items() if k not in ("tlc_runs",)}, indent=1)[:20000])
