"""C17 - format and pattern validators accept exactly the named formats.

Formats (spec/Formats.tla):
  (M+G) TLC enumerates, per format, constructive instances (field records over boundary sets) and
        single-point corruptions with the verdict the RFCs give, and checks the relations
        (ip = ipv4 (+) ipv6); the driver concatenates the tokens TLC rendered and asks the real
        goa.ValidateFormat; predicted and observed verdicts are compared.
  (J)   random instances with field values beyond the boundary sets, rendered by the driver, are
        judged by TLC trace validation (Trace_Formats.tla re-renders and recomputes).
Pattern cache (spec/PatternCache.tla, PlusCal):
  (M)   exhaustive interleavings of 3 calls x 2 patterns x 2 values: lock discipline, no data race,
        cache soundness, verdict = meaning of the call's own pattern, termination.
  (G1)  one call, every pattern of the grammar x every value up to length 3: the verdict predicted
        from the regular-language semantics in the spec vs goa.ValidatePattern (and regexp.MatchString).
  (G2)  TLC-simulated schedules of 3 concurrent calls replayed on the real code through the gates of
        the `verif` hook (context switches inside a cache fill).
  (J)   free-running batches of 1-16 goroutines under the race detector; every hook point is an
        event; Trace_PatternCache.tla predicts hit/miss, verdicts and the final cache content; the
        number of race reports is an event too."""
import glob
import json
import os
import random
import subprocess

from vlib import core

FORMAT_DEVS = ["format.hostname_unanchored", "format.uuid_brace_unchecked", "format.time_hour_one_digit"]
DEV_FAMILIES = {"format.hostname_unanchored": '{"hostname"}', "format.uuid_brace_unchecked": '{"uuid"}',
                "format.time_hour_one_digit": '{"date-time", "rfc1123"}'}
CACHE_DEVS = ["cache.write_without_lock", "cache.read_without_lock", "cache.last_compiled_reused"]


def tla_set(xs):
    return "{" + ", ".join('"%s"' % x for x in sorted(xs)) + "}"


def int_set(xs):
    return "{" + ", ".join(str(x) for x in xs) + "}"


# ------------------------------------------------------------------------------------ formats
def fmt_key(fmt, corr, pred, obs):
    """Finding key from the failing case only: format / kind of damage / direction."""
    direction = "other"
    for a in sorted(pred):
        if pred[a] != obs.get(a):
            if obs.get(a) is True:
                direction = "accepted-malformed"
            elif obs.get(a) is False:
                direction = "rejected-wellformed"
            else:
                direction = "unexpected-error"
            return "C17/format/%s/%s/%s/%s" % (fmt, a, corr["k"], direction)
    return "C17/format/%s/%s/%s" % (fmt, corr["k"], direction)


def explain(ctx, dev, key):
    """README rule 4: a known deviation that predicts the observed behaviour gives its name as key."""
    return dev if dev is not None and dev in ctx.known else key


def formats_generated(ctx, nontrivial):
    quick = ctx.quick()
    for d in FORMAT_DEVS:
        ctx.mc_expect_violation("mc/MC_Formats", consts={"Deviations": '{"%s"}' % d, "Formats": DEV_FAMILIES[d]},
                                label="MC_Formats " + d)
    r = ctx.gen("mc/MC_Formats", "gen/Gen_Formats.cfg", consts={"Rich": "FALSE" if quick else "TRUE"},
                label="Gen_Formats", timeout=1500, heap=None if quick else "16g")
    vectors = sorted(r.vectors, key=lambda v: core.canon([v["fmt"], v["inst"], v["corr"]]))
    if len(vectors) < 1000:
        raise core.Infra("Gen_Formats emitted only %d vectors" % len(vectors))
    obs, _, _ = ctx.drive("drivers/formats", [{"fmt": v["fmt"], "toks": v["toks"], "ask": sorted(v["pred"])} for v in vectors])
    by = {o["i"]: o for o in obs}
    per = {}
    for i, v in enumerate(vectors):
        if i not in by:
            raise core.Infra("formats driver returned no observation for vector %d" % i)
        o = by[i]
        pred, got = v["pred"], o["verdicts"]
        ctx.cov["evaluations"] += len(pred)
        per.setdefault(v["fmt"], [0, 0])[0 if v["wf"] and v["corr"]["k"] == "none" else 1] += 1
        nontrivial.add(core.canon(["format", v["fmt"], o["str"]]))
        # the relation between the three IP formats, on the observations themselves
        if v["fmt"] in ("ipv4", "ipv6") and all(isinstance(got.get(a), bool) for a in ("ip", "ipv4", "ipv6")):
            if got["ip"] != (got["ipv4"] or got["ipv6"]) or (got["ipv4"] and got["ipv6"]):
                ctx.violation("C17/format/ip/relation", "ip/ipv4/ipv6 verdicts of %r are %s" % (o["str"], json.dumps(got, sort_keys=True)),
                              {"kind": "format_vector", "vector": v, "observed": o})
        if pred != got:
            dev = next((a["dev"] for a in v["alt"] if a["pred"] == got), None)
            key = explain(ctx, dev, fmt_key(v["fmt"], v["corr"], pred, got))
            ctx.violation(key, "ValidateFormat(%r) as %s: specification %s, real code %s%s" % (
                o["str"][:80], v["fmt"], json.dumps(pred, sort_keys=True), json.dumps(got, sort_keys=True),
                " (behaviour of deviation %s)" % dev if dev else ""), {"kind": "format_vector", "vector": v, "observed": o})
        elif i % 3001 == 0:
            ctx.sample({"format_vector": {k: v[k] for k in ("fmt", "inst", "corr", "pred")}, "text": o["str"], "observed": got})
    ctx.cov["format_cases"] = {f: {"wellformed": a, "malformed": b} for f, (a, b) in sorted(per.items())}
    return vectors


def write_lines(ctx, name, lines):
    d = ctx.subdir(name)
    p = os.path.join(d, "trace.ndjson")
    with open(p, "w") as f:
        f.write("".join(l if l.endswith("\n") else l + "\n" for l in lines))
    return p


def formats_trace(ctx, nontrivial):
    n = 1500 if ctx.quick() else 20000
    _, tpath, _ = ctx.drive("drivers/formats", [], args=["-random", str(n)])
    lines = [l for l in open(tpath) if l.strip()]
    for l in lines:
        e = json.loads(l)
        if e["ev"] == "render":
            last = e
            nontrivial.add(core.canon(["format", e["fmt"], e["str"]]))
        else:
            ctx.cov["evaluations"] += len(e["verdicts"])
            bad = {a: x for a, x in e["verdicts"].items() if not isinstance(x, bool)}
            if bad:
                ctx.violation("C17/format/%s/unexpected-error" % last["fmt"], "ValidateFormat(%r): %s" % (last["str"], bad),
                              {"kind": "format_trace", "lines": [last, e]})
    lines = drop_nonbool(lines)
    devs, rest, fails = set(), list(lines), 0
    while rest:
        p = write_lines(ctx, "ftrace", rest)
        ok, hwm, r = ctx.trace_validate("trace/Trace_Formats", "trace/Trace_Formats.cfg", p, consts={"Deviations": tla_set(devs)},
                                        label="trace-formats")
        if ok:
            break
        if hwm is None or hwm > len(rest):
            raise core.Infra("format trace validation gave no usable high-water mark:\n" + r.stdout[-2000:])
        bad = json.loads(rest[hwm - 1])
        if bad["ev"] != "verdict":
            raise core.Infra("Trace_Formats does not reproduce the driver's rendering (or the case is out of scope): %s" % rest[hwm - 1][:400])
        rnd = json.loads(rest[hwm - 2])
        dev = None
        for d in FORMAT_DEVS:
            if d in devs:
                continue
            p2 = write_lines(ctx, "ftrace1", rest[hwm - 2:hwm])
            ok2, _, _ = ctx.trace_validate("trace/Trace_Formats", "trace/Trace_Formats.cfg", p2, consts={"Deviations": tla_set([d])},
                                           label="trace-formats-" + d)
            if ok2:
                dev = d
                break
        direction = "accepted-malformed" if any(x is True for x in bad["verdicts"].values()) else "rejected-wellformed"
        key = explain(ctx, dev, "C17/format/%s/%s/random/%s" % (rnd["fmt"], rnd["corr"]["k"], direction))
        ctx.violation(key, "random instance: ValidateFormat(%r) as %s answered %s, rejected by Trace_Formats%s" % (
            rnd["str"][:80], rnd["fmt"], json.dumps(bad["verdicts"], sort_keys=True), " (behaviour of deviation %s)" % dev if dev else ""),
            {"kind": "format_trace", "lines": [rnd, bad]})
        if dev:
            devs.add(dev)
        rest = rest[hwm:]
        fails += 1
        if fails >= 10:
            ctx.notes.append("format trace: stopped after 10 rejected cases")
            break
    ctx.cov["traces_validated_against_impl"] += len(lines) // 2
    ctx.sample({"format_trace_event": json.loads(lines[0]), "verdict_event": json.loads(lines[1])})
    return lines


def drop_nonbool(lines):
    out = []
    for i in range(0, len(lines) - 1, 2):
        e = json.loads(lines[i + 1])
        if all(isinstance(x, bool) for x in e["verdicts"].values()):
            out += [lines[i], lines[i + 1]]
    return out


def formats_selftest(ctx, lines):
    """Corrupt one recorded verdict of an accepted trace: TLC must stop exactly there."""
    # take a prefix that is accepted as it stands (cases touched by known defects are left out)
    good = []
    for i in range(0, min(len(lines), 400), 2):
        r = json.loads(lines[i])
        if r["fmt"] in ("date", "ipv4", "ipv6", "cidr", "mac"):
            good += [lines[i], lines[i + 1]]
    ls = [json.loads(l) for l in good[:120]]
    target = 2 * (len(ls) // 4) + 1          # a verdict line in the middle (0-based index)
    a = sorted(ls[target]["verdicts"])[0]
    ls[target]["verdicts"][a] = not ls[target]["verdicts"][a]
    p = write_lines(ctx, "fselftest", [json.dumps(x) for x in ls])
    ok, hwm, _ = ctx.trace_validate("trace/Trace_Formats", "trace/Trace_Formats.cfg", p, label="selftest-formats")
    res = {"spec": "Trace_Formats", "corrupted_line": target + 1, "rejected_at": hwm, "ok": (not ok and hwm == target + 1)}
    ctx.cov.setdefault("trace_selftests", []).append(res)
    if not res["ok"]:
        raise core.Infra("format trace self-test failed: corrupted line %d, TLC stopped at %s" % (target + 1, hwm))


# ------------------------------------------------------------------------------ pattern cache
def pattern_table(ctx):
    r = ctx.tlc("mc/MC_PatternCacheSched", "gen/Gen_PatternCache_table.cfg", workers=1, label="pattern table")
    if len(r.vectors) != 1:
        raise core.Infra("pattern table not printed:\n" + r.stdout[-1500:])
    tab = r.vectors[0]
    if len(tab["pats"]) < 100 or len(tab["vals"]) < 10:
        raise core.Infra("pattern table has %d patterns, %d values" % (len(tab["pats"]), len(tab["vals"])))
    if len(set(tab["pats"])) != len(tab["pats"]):
        raise core.Infra("two patterns of PatternDefs have the same text (the real cache is keyed by text)")
    tab["vals"] = [list(v) for v in tab["vals"]]
    return tab


def pattern_model(ctx):
    quick = ctx.quick()
    ctx.mc("mc/MC_PatternCache", consts={"Values": "{2, 8}"}, label="MC_PatternCache 3x2x2", timeout=900)
    if not quick:
        ctx.mc("mc/MC_PatternCache", consts={"Procs": "{1, 2, 3, 4}", "Values": "{2, 8}"},
               label="MC_PatternCache 4x2x2", timeout=1500, heap="16g")
    for d in CACHE_DEVS:
        ctx.mc_expect_violation("mc/MC_PatternCache", consts={"Deviations": '{"%s"}' % d, "Values": "{2, 8}"}, label="MC_PatternCache " + d)
    base = 'SPECIFICATION Spec\nCONSTANTS\n  Procs = {1, 2, 3}\n  Patterns = {6, 43}\n  Values = {2, 8}\n  Deviations = {"%s"}\nINVARIANTS %s\nCHECK_DEADLOCK FALSE\n'
    # each invariant bites on its own
    ctx.mc_expect_violation("mc/MC_PatternCache", cfg_text=base % ("cache.write_without_lock", "NoConflict"), label="NoConflict alone")
    ctx.mc_expect_violation("mc/MC_PatternCache", cfg_text=base % ("cache.last_compiled_reused", "VerdictIsMatch"), label="VerdictIsMatch alone")
    ctx.mc_expect_violation("mc/MC_PatternCache", cfg_text=base % ("cache.read_without_lock", "NoConflict"), label="NoConflict alone (read)")


def fill_interleaved(sched):
    """Some other call takes a step between a call's Compile and its WUnlock."""
    start = {}
    for g, lab in sched:
        if lab == "Compile":
            start[g] = True
        elif lab == "WUnlock":
            start.pop(g, None)
        if any(h != g for h in start):
            return True
    return False


def pattern_compare(ctx, vectors, nontrivial, what):
    obs, _, _ = ctx.drive("drivers/patterncache", [{"calls": v["calls"], "sched": v["sched"]} for v in vectors])
    by = {o["i"]: o for o in obs}
    for i, v in enumerate(vectors):
        if i not in by:
            raise core.Infra("patterncache driver returned no observation for vector %d" % i)
        o = by[i]
        calls = v["calls"]
        ctx.cov["evaluations"] += len(calls)
        pv, ph = [c["verdict"] for c in calls], [c["hit"] for c in calls]
        diff = None
        if o["diverged"]:
            diff = ("diverged", o["diverged"])
        elif o["verdicts"] != pv:
            diff = ("verdict", "verdicts %s, specification %s" % (o["verdicts"], pv))
        elif any(n != ("" if x == "ok" else "invalid_pattern") for n, x in zip(o["errnames"], o["verdicts"])):
            diff = ("error-name", "error names %s" % o["errnames"])
        elif o["std"] != pv:
            diff = ("stdlib", "regexp.MatchString says %s, specification %s" % (o["std"], pv))
        elif o["hits"] != ph:
            diff = ("hit", "cache hits %s, specification %s" % (o["hits"], ph))
        elif o["cache"] != sorted(v["cache"]):
            diff = ("cache", "cache content %s, specification %s" % (o["cache"], sorted(v["cache"])))
        for c in calls:
            if c["val"]:
                nontrivial.add(core.canon(["pattern", c["ptxt"], c["val"]]))
        if len(calls) > 1 and fill_interleaved(v["sched"]):
            nontrivial.add(core.canon(["schedule", [[c["ptxt"], c["val"]] for c in calls], v["sched"]]))
        if diff:
            ctx.violation("C17/pattern/%s/%s" % (what, diff[0]), "ValidatePattern %s: %s" % (
                [(c["ptxt"], "".join(c["val"])) for c in calls], diff[1]), {"kind": "pattern_vector", "vector": v, "observed": o})
        elif i % 2503 == 0:
            ctx.sample({"pattern_vector": {"calls": [{"pattern": c["ptxt"], "value": "".join(c["val"]), "verdict": c["verdict"], "hit": c["hit"]} for c in calls],
                                           "schedule_steps": len(v["sched"])}, "observed": {k: o[k] for k in ("verdicts", "hits", "cache")}})


def pattern_generated(ctx, tab, nontrivial):
    quick = ctx.quick()
    NPATTERNS, NVALUES = len(tab["pats"]), len(tab["vals"])
    rnd = random.Random(ctx.seed)
    # (G1) one call: every pattern x every value (quick: a seeded half of the patterns)
    pats = list(range(1, NPATTERNS + 1))
    if quick:
        pats = sorted(rnd.sample(pats, NPATTERNS // 2))
    r = ctx.gen("mc/MC_PatternCacheSched", "gen/Gen_PatternCache.cfg",
                consts={"Patterns": int_set(pats), "Values": int_set(range(1, NVALUES + 1))}, label="Gen_PatternCache 1 call", timeout=1500)
    vectors = sorted(r.vectors, key=lambda v: (v["calls"][0]["p"], v["calls"][0]["v"]))
    if len(vectors) != len(pats) * NVALUES:
        raise core.Infra("expected %d single-call vectors, got %d" % (len(pats) * NVALUES, len(vectors)))
    pattern_compare(ctx, vectors, nontrivial, "semantics")
    # (G2) schedules of 3 concurrent calls from TLC simulation, several pattern/value choices
    runs = 4 if quick else 16
    per = 30 if quick else 150            # per worker, 2 workers
    scheds = []
    for k in range(runs):
        ps = rnd.sample(range(1, NPATTERNS + 1), 2)
        vs = rnd.sample(range(2, NVALUES + 1), 2)
        r = ctx.gen("mc/MC_PatternCacheSched", "gen/Gen_PatternCache.cfg",
                    consts={"Procs": "{1, 2, 3}", "Patterns": int_set(ps), "Values": int_set(vs)},
                    simulate=per, depth=60, workers=2, label="Gen_PatternCache schedules %d" % k, timeout=600)
        scheds += r.vectors
    seen, uniq = set(), []
    for v in sorted(scheds, key=core.canon):
        c = core.canon([v["calls"], v["sched"]])
        if c not in seen:
            seen.add(c)
            uniq.append(v)
    inter = sum(1 for v in uniq if fill_interleaved(v["sched"]))
    ctx.cov["schedules"] = {"replayed": len(uniq), "context_switch_inside_fill": inter}
    if len(uniq) < 150 or inter < 50:
        raise core.Infra("too few schedules from simulation: %d (%d with a switch inside a fill)" % (len(uniq), inter))
    pattern_compare(ctx, uniq, nontrivial, "replay")


def race_run(ctx, table_path, batches, tag):
    """Run the race-enabled driver in trace mode; returns (trace lines incl. the race event, number of reports)."""
    binp = ctx.gobuild("drivers/patterncache", race=True)
    d = ctx.subdir("race-" + tag)
    outp = os.path.join(d, "out.ndjson")
    env = dict(ctx.goenv(), GORACE="log_path=%s exitcode=0 halt_on_error=0" % os.path.join(d, "race"))
    p = subprocess.run([binp, "-out", outp, "-seed", str(ctx.seed), "-trace", str(batches), "-table", table_path],
                       cwd=d, env=env, stdout=subprocess.PIPE, stderr=subprocess.PIPE, text=True, timeout=1800)
    if p.returncode != 0:
        # the Go runtime kills the process on an unsynchronised map access it detects itself
        if "fatal error: concurrent map" in p.stderr:
            return [json.dumps({"ev": "race", "reports": 1}) + "\n"], 1, p.stderr[:6000]
        raise core.Infra("race-enabled patterncache driver failed (%d):\n%s" % (p.returncode, p.stderr[-3000:]))
    reports, text = 0, ""
    for f in glob.glob(os.path.join(d, "race.*")):
        t = open(f, errors="replace").read()
        reports += t.count("WARNING: DATA RACE")
        text += t
    lines = [l for l in open(outp) if l.strip()]
    lines.append(json.dumps({"ev": "race", "reports": reports}) + "\n")
    return lines, reports, text


def pattern_trace(ctx, tab, nontrivial):
    d = ctx.subdir("table")
    tpath = os.path.join(d, "table.json")
    json.dump(tab, open(tpath, "w"))
    batches = 40 if ctx.quick() else 400
    lines, reports, text = race_run(ctx, tpath, batches, "a")
    ctx.cov["race_detector"] = {"batches": batches, "reports": reports}
    calls, cur = 0, []
    for l in lines:
        e = json.loads(l)
        if e["ev"] == "reset":
            cur = e["calls"]
        if e["ev"] == "match":
            calls += 1
            c = cur[e["c"] - 1]
            if tab["vals"][c["v"] - 1]:
                nontrivial.add(core.canon(["pattern", tab["pats"][c["p"] - 1], tab["vals"][c["v"] - 1]]))
    ctx.cov["evaluations"] += calls
    p = write_lines(ctx, "ptrace", lines)
    ok, hwm, r = ctx.trace_validate("trace/Trace_PatternCache", "trace/Trace_PatternCache.cfg", p, label="trace-patterncache", timeout=1500)
    if not ok:
        if hwm is None or hwm > len(lines):
            raise core.Infra("pattern trace validation gave no usable high-water mark:\n" + r.stdout[-2000:])
        bad = json.loads(lines[hwm - 1])
        if bad["ev"] != "race":
            start = max(i for i in range(hwm) if json.loads(lines[i])["ev"] == "reset")
            ctx.violation("C17/pattern/trace/%s" % bad["ev"], "event %s of a concurrent batch is not a behaviour of PatternCache.tla (line %d)" % (
                json.dumps(bad), hwm), {"kind": "pattern_trace", "lines": [json.loads(x) for x in lines[start:hwm]]})
    if reports > 0:
        # (the race event is the last line of the trace: Trace_PatternCache requires reports = 0)
        # a race report counts only when it shows up again
        _, reports2, text2 = race_run(ctx, tpath, batches, "b")
        if reports2 > 0:
            ctx.violation("C17/pattern/data-race", "the race detector reports %d and %d data races in two runs of concurrent ValidatePattern calls" % (reports, reports2),
                          {"kind": "pattern_race", "report": (text or text2)[:6000]})
        else:
            ctx.notes.append("race detector: %d report(s) in the first run, none in the second: not counted" % reports)
    ctx.cov["traces_validated_against_impl"] += sum(1 for l in lines if '"reset"' in l)
    ctx.sample({"pattern_trace_events": [json.loads(x) for x in lines[:4]]})
    return lines


def pattern_selftest(ctx, lines):
    ls = [json.loads(l) for l in lines]
    end = next(i for i, e in enumerate(ls) if e["ev"] == "done" and i > 40)
    ls = ls[:end + 1]
    target = [i for i, e in enumerate(ls) if e["ev"] == "match"][len(ls) // 8]
    ls[target]["verdict"] = "ok" if ls[target]["verdict"] == "err" else "err"
    p = write_lines(ctx, "pselftest", [json.dumps(x) for x in ls])
    ok, hwm, _ = ctx.trace_validate("trace/Trace_PatternCache", "trace/Trace_PatternCache.cfg", p, label="selftest-patterncache")
    res = {"spec": "Trace_PatternCache", "corrupted_line": target + 1, "rejected_at": hwm, "ok": (not ok and hwm == target + 1)}
    ctx.cov.setdefault("trace_selftests", []).append(res)
    if not res["ok"]:
        raise core.Infra("pattern trace self-test failed: corrupted line %d, TLC stopped at %s" % (target + 1, hwm))
    # a dropped compile event (the implementation claims a hit the model knows to be a miss) must be rejected too
    ls = [json.loads(l) for l in lines][:end + 1]
    t2 = next(i for i, e in enumerate(ls) if e["ev"] == "compile")
    c, g = ls[t2]["c"], ls[t2]["g"]
    del ls[t2]
    for e in ls[t2:]:                                   # keep the goroutine's sequence numbers gap-free
        if e.get("g") == g and "seq" in e:
            e["seq"] -= 1
    # its write event goes too, so that only the hit/miss prediction can object
    t3 = next(i for i, e in enumerate(ls) if i >= t2 and e["ev"] == "write" and e["c"] == c)
    del ls[t3]
    for e in ls[t3:]:
        if e.get("g") == g and "seq" in e:
            e["seq"] -= 1
    p = write_lines(ctx, "pselftest2", [json.dumps(x) for x in ls])
    ok, hwm, _ = ctx.trace_validate("trace/Trace_PatternCache", "trace/Trace_PatternCache.cfg", p, label="selftest-patterncache-2")
    res = {"spec": "Trace_PatternCache", "dropped": "compile+write of call %d" % c, "rejected_at": hwm, "ok": not ok}
    ctx.cov["trace_selftests"].append(res)
    if ok:
        raise core.Infra("pattern trace self-test failed: a trace without the compile/write events of a cache miss was accepted")


# ---------------------------------------------------------------------------------------- main
def run(ctx):
    ctx.cov["rule"] = ("format cases = (format, instance fields, damage) enumerated by TLC from Formats.tla plus random instances; "
                       "pattern cases = (pattern, value) pairs and (calls, schedule) replays from PatternCache.tla; "
                       "non-trivial = distinct (format, text) pairs, distinct (pattern, non-empty value) pairs, and distinct schedules of "
                       ">=2 calls with a context switch inside a cache fill; distinct = canonical JSON")
    ctx.assumptions += [
        "instance classes on which RFC and Go parser legitimately differ are not generated: leap second :60, zone offset 24:00/:60, lower-case t/z, "
        "',' fraction separator, IPv4 leading zeros, IPv6 zones, CIDR prefix leading zeros, 20-octet MAC, the nil UUID, "
        "host names with trailing dot or all-numeric last label, RFC 822 zones UT/military/numeric, 1-digit days, weekday not matching the date, "
        "URI references without scheme, space/'<' in URI path or query",
        "the braced and bare UUID forms documented on goa's validateUUID count as well-formed",
        "e-mail: RFC 5322 mailbox (addr-spec, angle-addr, display-name form) with dot-atom or quoted local part and dot-atom domain",
        "regular expressions and values come from the grammar in PatternCache.tla over the alphabet {a,b,c}, values up to length 3",
        "pattern cache replays need the `verif` hook points in pkg/validation.go (build tag verif)",
    ]
    nontrivial = set()
    # ---- formats
    formats_generated(ctx, nontrivial)
    flines = formats_trace(ctx, nontrivial)
    # ---- pattern cache
    pattern_model(ctx)
    tab = pattern_table(ctx)
    pattern_generated(ctx, tab, nontrivial)
    plines = pattern_trace(ctx, tab, nontrivial)
    ctx.cov["distinct_nontrivial"] = len(nontrivial)
    if ctx.selftest or not ctx.quick():
        formats_selftest(ctx, flines)
        if len(plines) > 60:
            pattern_selftest(ctx, plines)


def replay(ctx, rp):
    case = rp["case"]
    kind = case.get("kind")
    if kind == "format_vector":
        v = case["vector"]
        obs, _, _ = ctx.drive("drivers/formats", [{"fmt": v["fmt"], "toks": v["toks"], "ask": sorted(v["pred"])}])
        o = obs[0]
        print("text:     ", json.dumps(o["str"]))
        print("predicted:", json.dumps(v["pred"], sort_keys=True))
        print("observed: ", json.dumps(o["verdicts"], sort_keys=True))
        if o["verdicts"] != v["pred"]:
            print("VIOLATION property=C17 replay=(replayed)")
            return 1
        return 0
    if kind == "format_trace":
        r, e = case["lines"]
        obs, _, _ = ctx.drive("drivers/formats", [{"fmt": r["fmt"], "toks": [r["str"]], "ask": sorted(e["verdicts"])}])
        p = write_lines(ctx, "replay", [json.dumps(r), json.dumps({"ev": "verdict", "verdicts": obs[0]["verdicts"]})])
        ok, hwm, _ = ctx.trace_validate("trace/Trace_Formats", "trace/Trace_Formats.cfg", p, label="replay")
        print("text:    ", json.dumps(r["str"]), "observed:", json.dumps(obs[0]["verdicts"], sort_keys=True), "accepted by Trace_Formats:", ok)
        if not ok:
            print("VIOLATION property=C17 replay=(replayed)")
            return 1
        return 0
    if kind == "pattern_vector":
        v = case["vector"]
        n0 = len(ctx.violations)
        pattern_compare(ctx, [v], set(), "replay")
        if len(ctx.violations) > n0:
            print("VIOLATION property=C17 replay=(replayed)")
            print("  " + ctx.violations[-1][1])
            return 1
        return 0
    if kind == "pattern_trace":
        p = write_lines(ctx, "replay", [json.dumps(x) for x in case["lines"]])
        ok, hwm, _ = ctx.trace_validate("trace/Trace_PatternCache", "trace/Trace_PatternCache.cfg", p, label="replay")
        print("recorded batch (%d events) accepted by Trace_PatternCache: %s (stops at line %s)" % (len(case["lines"]), ok, hwm))
        if not ok:
            print("VIOLATION property=C17 replay=(recorded interleaving; re-validated, not re-executed)")
            return 1
        return 0
    print(json.dumps(case, indent=1)[:4000])
    return 0
