"""C13 - type copies are independent and structural hashes match equality.
(M) TypeGraph.tla model-checked over every type graph within the tier's bounds (the Gen runs check the
invariants while they emit, so nothing is explored twice); each named deviation must yield a counterexample.
The transformations include three that change the SHARING structure (unshare / redir / hollow: one reference
to a user type moves to a twin of its own, to another user type, to an empty type); one run enumerates every
graph of <= 4 nodes in which a non-recursive user type is referenced from two places.
(G) every (graph, transformation) pair and every (graph, mutation script) emitted by TLC is executed on the
real expr.Hash / Equal / Dup / DupAtt (Hash 20x per flag combination, and once more in a fresh process) and
compared with the model's prediction.
(J) random graphs up to 5 nodes / depth 5 are exercised by the driver and the recorded events are validated
against Trace_TypeGraph.tla."""
import hashlib, json, os, subprocess
from concurrent.futures import ThreadPoolExecutor
from vlib import core

# deviations found in the real code, and hypothetical ones: DEVS[4], DEVS[5] (vacuity guards of the in-place write steps), DEVS[7], DEVS[8]
DEVS = ["hash.union_order_dependent", "hash.meta_iteration_order", "dup.meta_values_shared", "dup.enum_values_shared",
        "dup.meta_backing_array_shared", "dup.required_backing_array_shared", "hash.recursive_reference_is_prefix",
        "hash.memo_hit_is_empty_object",      # hypothetical too (vacuity guard of the sharing transformations)
        "dup.attribute_memo_records_original"]  # hypothetical (vacuity guard of the attributes held by two objects)
REC = DEVS[6]
SHARING = ("unshare", "redir", "hollow")
DRIVER = "drivers/expr"
TRACE = ("trace/Trace_TypeGraph", "trace/Trace_TypeGraph.cfg")


# ------------------------------------------------------------------ decoding of TLC's positional arrays
def dec_attr(a):
    return {"name": a[0], "ref": {"p": a[1], "n": a[2]}, "desc": a[3], "req": a[4], "val": a[5], "meta": a[6],
            "tags": {"name": a[7], "type": a[8]}, "x": a[9], "enum": a[10], "al": a[11]}


def dec_g(a):
    return {"root": {"p": a[0], "n": a[1]},
            "nodes": [{"kind": n[0], "name": n[1], "attrs": [dec_attr(x) for x in n[2]]} for n in a[2]]}


def dec_t(a):
    return {"op": a[0], "node": a[1], "idx": a[2], "perm": a[3], "tags": {"name": a[4], "type": a[5]}, "to": a[6]}


def dec_vec(v):
    if v["mode"] == "hash":
        return {"mode": "hash", "g": dec_g(v["g"]),
                "trs": [{"t": dec_t(j[0]), "eq": j[1], "exp": j[2], "st": j[3], "du": j[4], "mu": j[5], "c": j[6], "na": j[7], "dr": j[8]}
                        for j in v["trs"]]}
    return {"mode": "dup", "g": dec_g(v["g"]),
            "script": [{"side": s[0], "op": s[1], "node": s[2], "idx": s[3]} for s in v["script"]],
            "pred": {"unch": v["unch"], "canO": dec_g(v["canO"]), "canC": dec_g(v["canC"])}}


def driver_input(v):
    if v["mode"] == "hash":
        return {"mode": "hash", "g": v["g"], "ts": [j["t"] for j in v["trs"]]}
    return {"mode": "dup", "g": v["g"], "script": v["script"]}


# ------------------------------------------------------------------ driving, with non-termination as an observation
def drive(ctx, inputs, args=(), label="expr"):
    """Like ctx.drive, but a vector on which the real code never returns (stack overflow, exit 4 of the
    driver's watchdog) is confirmed by a second run on that vector alone and recorded as a violation."""
    binp = ctx.gobuild(DRIVER)
    obs, skipped = {}, set()
    todo = list(range(len(inputs)))
    outp = None
    workers = str(min(8, os.cpu_count() or 1))       # vectors are independent; a crash is re-run sequentially to name the vector
    while True:
        d = ctx.subdir("drive-" + label)
        inp, outp, prog = os.path.join(d, "in.ndjson"), os.path.join(d, "out.ndjson"), os.path.join(d, "progress")
        with open(inp, "w") as f:
            for i in todo:
                f.write(json.dumps(inputs[i], separators=(",", ":")) + "\n")
        cmd = [binp, "-in", inp, "-out", outp, "-seed", str(ctx.seed), "-progress", prog, "-workers", workers] + list(args)
        p = subprocess.run(cmd, cwd=d, env=ctx.goenv(), stdout=subprocess.PIPE, stderr=subprocess.PIPE, text=True, errors="replace")
        if p.returncode not in (0, 3) and workers != "1":
            workers = "1"
            continue
        if p.returncode == 0:
            for l in open(outp):
                if l.strip():
                    o = json.loads(l)
                    if "i" in o:
                        obs[todo[o["i"]]] = o["obs"]
            ctx.log("drove %s: %d cases" % (DRIVER, len(todo)))
            return obs, outp, skipped
        if p.returncode == 3 or not os.path.exists(prog) or not todo:
            raise core.Infra("driver failed (%d):\n%s" % (p.returncode, p.stderr[-3000:]))
        k = int(open(prog).read() or 0)
        bad = todo[k]
        d2 = ctx.subdir("drive-confirm")
        open(os.path.join(d2, "in.ndjson"), "w").write(json.dumps(inputs[bad]) + "\n")
        p2 = subprocess.run([binp, "-in", "in.ndjson", "-out", "out.ndjson", "-seed", str(ctx.seed)] + list(args), cwd=d2,
                            env=ctx.goenv(), stdout=subprocess.PIPE, stderr=subprocess.PIPE, text=True, errors="replace")
        if p2.returncode in (0, 3):
            raise core.Infra("driver died on vector %d (%d) but not when re-run alone:\n%s" % (bad, p.returncode, p.stderr[-3000:]))
        ctx.violation("C13/terminates/%s" % inputs[bad]["mode"],
                      "hashing or copying does not come back (driver exit %d twice: %s)" % (p2.returncode, p2.stderr.strip().splitlines()[0][:200] if p2.stderr.strip() else ""),
                      {"input": inputs[bad]})
        skipped.add(bad)
        todo = [i for i in todo if i != bad and i not in obs]
        if len(skipped) > 5:
            ctx.notes.append("driver: gave up after %d cases on which the real code does not return; %d cases not evaluated" % (
                len(skipped), len(todo)))
            skipped.update(todo)
            return obs, outp, skipped


# ------------------------------------------------------------------ judging one case through the trace specification
def mini_trace(inp, o):
    """The events the random mode would have logged for this case (driver run with -full)."""
    ev = [{"ev": "reset", "g": inp["g"]}]
    if inp["mode"] == "hash":
        for t, x in zip(inp["ts"], o["trs"]):
            if x.get("panic"):
                ev.append({"ev": "panic", "panic": x["panic"]})
            else:
                ev.append({"ev": "hash", "t": dict(t, to=t.get("to", 0)),       # (replay files older than the sharing transformations)
                           "eq": x["eq"], "st": x["st"], "equal": x["equal"], "equals": x["equals"], "tg": x["tg"]})
        return ev
    if o.get("panic") and not o.get("steps"):
        return ev + [{"ev": "panic", "panic": o["panic"]}]
    ev.append({"ev": "dup", "canC": o["canC0"], "copyeq": o["copyeq"], "shared": o["shared"],
               "hasheq": o["hasheq"], "equal": o["equal"], "atteq": o["atteq"], "attshared": o["attshared"], "again": o["again"]})
    for s, x in zip(inp["script"], o.get("steps", [])):
        ev.append({"ev": "mutate", "step": s, "unch": x["unch"], "canO": x["canO"], "canC": x["canC"]})
    if o.get("panic"):
        ev.append({"ev": "panic", "panic": o["panic"]})
    return ev


def judge_by_trace(ctx, inp, devs=(), label="judge"):
    """Run the case on the real code and let Trace_TypeGraph decide under the given deviations.
    Returns (accepted, first rejected event or None, observation)."""
    obs, _, skipped = drive(ctx, [inp], args=["-full"], label=label)
    if skipped:
        return False, {"ev": "does-not-terminate"}, None
    o = obs[0]
    ev = mini_trace(inp, o)
    d = ctx.subdir("trace-" + label)
    p = os.path.join(d, "trace.ndjson")
    open(p, "w").write("".join(json.dumps(e) + "\n" for e in ev))
    ok, hwm, r = ctx.trace_validate(TRACE[0], TRACE[1], p, consts={"Deviations": "{%s}" % ", ".join('"%s"' % x for x in devs)}, label=label)
    if ok:
        return True, None, o
    if hwm is None:
        raise core.Infra("trace validation produced no high-water mark:\n" + r.stdout[-2000:])
    return False, ev[hwm - 1], o


def explain(ctx, inp):
    """Names of the deviations under which the real behaviour on this case is what the model predicts (the deviations of the
    case's own direction; the known ones first - one of them is all the report needs; after 8 explained cases only known ones:
    a change that breaks many things at once is not made slower to report by the diagnostics)."""
    explain.calls = getattr(explain, "calls", 0) + 1
    cands = [d for d in DEVS if d.startswith(inp["mode"] + ".") and (d in ctx.known or explain.calls <= 8)]
    out = []
    for d in sorted(cands, key=lambda d: d not in ctx.known):
        if judge_by_trace(ctx, inp, devs=[d], label="explain")[0]:
            out.append(d)
            if d in ctx.known:
                break
    return out


# ------------------------------------------------------------------ classification (from the failing case only)
def two_tags(g):
    return any(a["tags"]["name"] and a["tags"]["type"] for n in g["nodes"] for a in n["attrs"])


def hash_key(g, t, symptom):
    if symptom == "unstable":
        return "C13/hash/stability/%s/unstable" % ("ge2-struct-field-keys" if two_tags(g) or (t["tags"]["name"] and t["tags"]["type"]) else "lt2-struct-field-keys")
    if t["op"] in ("perm", "rev", "copy", "copyatt"):
        big = [n for n in g["nodes"] if n["kind"] in ("object", "union") and len(n["attrs"]) >= 3]
        kinds = sorted({n["kind"] for n in big}) if t["op"] != "perm" else [g["nodes"][t["node"] - 1]["kind"]]
        size = "ge3" if (big if t["op"] != "perm" else len(g["nodes"][t["node"] - 1]["attrs"]) >= 3) else "lt3"
        what = "alternatives" if kinds == ["union"] else "attributes"
        return "C13/hash/%s/%s/%s-%s/%s" % (t["op"], "+".join(kinds) or "any", size, what, symptom)
    kind = g["nodes"][t["node"] - 1]["kind"] if t["node"] else "root"
    return "C13/hash/%s/%s/%s" % (t["op"], kind, symptom)


_WHY = {}
_PENDING = []


def report(ctx, key, desc, inp, extra, why=None):
    """A mismatch: the key of a *known* deviation that explains it, else the classification key.
    why = the deviations under which the model predicts the observed behaviour (from the vector when TLC
    emitted those predictions, otherwise asked from the trace specification once per classification key)."""
    case = dict(extra, input=inp)
    if why is None:
        if key not in _WHY:
            _WHY[key] = explain(ctx, inp)
        why = _WHY[key]
    case["explained_by_deviations"] = why
    for d in why:
        if d in ctx.known:
            _PENDING.append((d, desc, case))
            return
    _PENDING.append((key, desc + (" [what the model predicts under deviation %s]" % ", ".join(why) if why else ""), case))


def flush_reports(ctx, per_key=3):
    """One report per distinct key first (core keeps replay files for the first 25 only), then a few more."""
    count, later = {}, []
    for key, desc, case in _PENDING:
        count[key] = count.get(key, 0) + 1
        if count[key] == 1:
            ctx.violation(key, desc, case)
        elif count[key] <= per_key:
            later.append((key, desc, case))
    for key, desc, case in later:
        ctx.violation(key, desc, case)
    if count:
        ctx.cov["mismatching_cases_per_key"] = count
    del _PENDING[:]


shared_graphs = set()      # digests of the graphs in which a non-recursive user type is referenced from two places


def compare_hash(ctx, v, o, o2, nontrivial):
    g = v["g"]
    big = len(g["nodes"]) >= 2 or any(len(n["attrs"]) >= 2 for n in g["nodes"])
    for k, (j, x) in enumerate(zip(v["trs"], o["trs"])):
        ctx.cov["evaluations"] += 1
        t = j["t"]
        if big:
            nontrivial.add(digest([g, t]))
        inp = {"mode": "hash", "g": g, "ts": [t]}
        if x.get("panic"):
            report(ctx, "C13/hash/%s/panic" % t["op"], "panic in the real code: %s" % x["panic"][:200], inp, {"observed": x}, why=[])
            continue
        exp = j["exp"]
        dec = ~j["na"] & 255          # the flag combinations under which the documented rules decide
        if t["op"] in SHARING:
            ctx.cov["sharing_cases"][t["op"]] = ctx.cov["sharing_cases"].get(t["op"], 0) + 1
            ctx.cov["sharing_cases"]["flag_combinations_decided"] += bin(dec).count("1")
            ctx.cov["sharing_cases"]["flag_combinations_not_decided_by_the_documentation"] += 8 - bin(dec).count("1")
            if t["op"] == "unshare":
                shared_graphs.add(digest(g))
        sym = None
        if x["st"] != 255 or not x["equals"]:
            sym = "unstable"
            desc = "expr.Hash gave different answers for the same type within 20 calls (stable flag combinations: %s)" % format(x["st"], "08b")
        elif (x["eq"] ^ exp) & dec:
            sym = "same-hash-expected-different" if x["eq"] & ~exp & dec else "different-hash-expected-same"
            desc = "hash equality per flag combination %s, documented rules say %s%s" % (
                format(x["eq"], "08b"), format(exp, "08b"), " (undecided: %s)" % format(j["na"], "08b") if j["na"] else "")
        elif dec >> 3 & 1 and x["equal"] != bool(exp >> 3 & 1):
            sym = "equal-mismatch"
            desc = "expr.Equal = %s, documented rules say %s" % (x["equal"], bool(exp >> 3 & 1))
        elif o2 is not None and o2["trs"][k].get("dig") != x["dig"]:
            sym = "differs-across-processes"
            desc = "a fresh process computes different hash strings for the same type"
        if sym:
            why = []
            unstable = ~x["st"] & 255
            if j["du"] != -1 and x["st"] == 255 and not (x["eq"] ^ j["du"]) & dec:
                why.append(DEVS[0])
            if j["dr"] != -1 and x["st"] == 255 and x["equals"] and not (x["eq"] ^ j["dr"]) & dec and x["equal"] == bool(j["dr"] >> 3 & 1):
                why.append(REC)
            if unstable and not unstable & ~j["mu"] and not (x["eq"] ^ exp) & ~j["mu"] & 255 and x["equals"]:
                why.append(DEVS[1])
            if sym == "differs-across-processes" and j["mu"]:       # 20 calls happened to agree; the next process did not
                why.append(DEVS[1])
            report(ctx, hash_key(g, t, sym), "%s on %s of node %s: %s" % (sym, t["op"], t["node"], desc), inp,
                   {"predicted": {"eq": exp, "undecided": j["na"], "st": 255, "eq_under_union_deviation": j["du"],
                                  "eq_under_recursive_reference_deviation": j["dr"], "may_be_unstable_under_meta_deviation": j["mu"]},
                    "observed": x}, why=why)
        elif ctx.cov["evaluations"] % 9001 == 0:
            ctx.sample({"graph": g, "transformation": t, "predicted_eq_bits": exp, "observed": x})


def step_key(script, k):
    """The failing step, preceded by the earlier step it pairs with (same change at the same place on the other side)."""
    s = script[k]
    pair = [p for p in script[:k] if p["side"] != s["side"] and (p["op"], p["node"], p["idx"]) == (s["op"], s["node"], s["idx"])]
    return ("%s.%s+" % (pair[0]["side"], pair[0]["op"]) if pair else "") + "%s.%s" % (s["side"], s["op"])


DUP_FIELDS = [("copyeq", True), ("shared", 0), ("hasheq", 255), ("equal", True), ("atteq", True), ("attshared", 0), ("again", True)]


def compare_dup(ctx, v, o, nontrivial):
    ctx.cov["evaluations"] += 1
    g, script, pred = v["g"], v["script"], v["pred"]
    if script or any(n["kind"] in ("user", "result") for n in g["nodes"]):
        nontrivial.add(digest([g, script]))
    inp = {"mode": "dup", "g": g, "script": script}
    ops = "+".join("%s.%s" % (s["side"], s["op"]) for s in script) or "none"
    if o.get("panic"):
        report(ctx, "C13/dup/%s/panic" % ops, "panic in the real code: %s" % o["panic"][:200], inp, {"observed": o})
        return
    for f, want in DUP_FIELDS:
        if (o["wide"] or f == "copyeq") and o[f] != want:
            al = "/attribute-held-by-two-objects" if any(a.get("al") for n in g["nodes"] for a in n["attrs"]) else ""
            report(ctx, "C13/dup/copy/%s%s" % (f, al), "after expr.Dup: %s = %r, expected %r" % (f, o[f], want), inp, {"observed": o})
            return
    if o["unch"] != pred["unch"]:
        k = next(i for i, (a, b) in enumerate(zip(o["unch"], pred["unch"])) if a != b)
        s = script[k]
        report(ctx, "C13/dup/independent/%s/other-side-changed" % step_key(script, k),
               "step %d (%s on the %s, node %d attribute %d) changed the %s" % (k + 1, s["op"], s["side"], s["node"], s["idx"],
                                                                                "copy" if s["side"] == "orig" else "original"),
               inp, {"predicted": pred, "observed": o})
        return
    for side in ("canO", "canC"):
        d = core.deep_diff(pred[side], o[side])
        if d:
            report(ctx, "C13/dup/%s/%s" % (ops, side), "projection of the %s after the script differs from the model: %s" % (
                "original" if side == "canO" else "copy", d), inp, {"predicted": pred, "observed": o})
            return
    if ctx.cov["evaluations"] % 9001 == 0:
        ctx.sample({"graph": g, "script": script, "observed_unchanged": o["unch"]})


# ------------------------------------------------------------------ the tiers
def gen_runs(quick):
    both = '{"user", "result"}'
    runs = [
        ("hash N<=2 rich", dict(N=2, K=2, Leaves='{"string", "int"}', UKinds=both, Modes='{"hash"}', Decos="{0, 1}")),
        ("hash N<=3", dict(N=3, K=2, Leaves='{"string"}', UKinds='{"user"}', Modes='{"hash"}', Decos="{0}")),
        ("hash 4 attributes", dict(N=2, K=4, Leaves='{"string"}', UKinds='{"user"}', Modes='{"hash"}', Decos="{0}")),
        ("dup N<=2", dict(N=2, K=2, Leaves='{"string"}', UKinds=both, Modes='{"dup"}', Decos="{0, 3}", Script='"paired"')),
        ("dup N<=3 K=1", dict(N=3, K=1, Leaves='{"string"}', UKinds='{"user"}', Modes='{"dup"}', Decos="{3}", Script='"copyfirst"')),
        # an attribute held by two objects (what Extend leaves behind once a design is finalized): every graph of <= 3 nodes after
        # one merge of an object's attributes into another object; copy + one step on either side, and the hash direction
        ("aliased attributes N<=3", dict(N=3, K=2, Leaves='{"string"}', UKinds='{"user"}', Modes='{"hash", "dup"}', Decos="{3}",
                                         Shapes='"aliased"', MaxSteps=1, Script='"paired"')),
    ]
    if quick:
        # every graph of <= 4 nodes in which a non-recursive user type is referenced from two places (through attributes,
        # alternatives, arrays, maps, other user types), with the transformations that change the sharing (thorough:
        # part of "hash N<=4", with every transformation)
        runs.insert(3, ("hash sharing N<=4", dict(N=4, K=2, Leaves='{"string"}', UKinds='{"user"}', Modes='{"hash"}', Decos="{0}",
                                                  Shapes='"shared"', Ops='"sharing"')))
    if not quick:
        runs += [
            ("hash N<=3 rich", dict(N=3, K=2, Leaves='{"string", "int"}', UKinds='{"user"}', Modes='{"hash"}', Decos="{0, 1}")),
            ("hash N<=4", dict(N=4, K=2, Leaves='{"string"}', UKinds='{"user"}', Modes='{"hash"}', Decos="{0}")),
            ("hash N<=3 3 attributes", dict(N=3, K=3, Leaves='{"string"}', UKinds='{"user"}', Modes='{"hash"}', Decos="{0}")),
            ("dup N<=3", dict(N=3, K=2, Leaves='{"string"}', UKinds='{"user"}', Modes='{"dup"}', Decos="{3}", Script='"copyfirst"')),
            ("dup N<=3 results", dict(N=3, K=2, Leaves='{"string"}', UKinds='{"result"}', Modes='{"dup"}', Decos="{2}", Script='"paired"')),
            # 5 nodes: every graph with DAG sharing, the sharing transformations only
            ("aliased attributes N<=4", dict(N=4, K=2, Leaves='{"string"}', UKinds='{"user"}', Modes='{"hash", "dup"}', Decos="{3}",
                                             Shapes='"aliased"', MaxSteps=1, Script='"paired"')),
            ("hash sharing N<=5", dict(N=5, K=2, Leaves='{"string"}', UKinds='{"user"}', Modes='{"hash"}', Decos="{0}",
                                       Shapes='"shared"', Ops='"sharing"')),
        ]
    return runs


def digest(x):
    return hashlib.blake2b(core.canon(x).encode(), digest_size=8).digest()


def replay_vectors(ctx, raw, seen, nontrivial, label):
    """Decode the vectors of one TLC run, drop the cases an earlier run already had, execute them on the real
    code (the hash direction twice: the second time in a fresh process) and compare with the predictions."""
    vectors = []
    for x in raw:
        v = dec_vec(x)
        k = digest(driver_input(v))
        if k not in seen:
            seen.add(k)
            vectors.append(v)
    inputs = [driver_input(v) for v in vectors]
    obs, _, skipped = drive(ctx, inputs, label="vectors")
    hidx = [i for i, v in enumerate(vectors) if v["mode"] == "hash" and i not in skipped]
    obs2 = {}
    if hidx:
        obs2, _, sk2 = drive(ctx, [inputs[i] for i in hidx], args=["-reps", "1"], label="fresh-process")
    for n, i in enumerate(hidx):
        if i not in obs or n not in obs2:
            raise core.Infra("driver returned no observation for vector %d of %s" % (i, label))
        compare_hash(ctx, vectors[i], obs[i], obs2[n], nontrivial)
    for i, v in enumerate(vectors):
        if v["mode"] == "dup" and i not in skipped:
            if i not in obs:
                raise core.Infra("driver returned no observation for vector %d of %s" % (i, label))
            compare_dup(ctx, v, obs[i], nontrivial)
    ctx.log("%s: %d distinct cases replayed and compared" % (label, len(vectors)))


def run(ctx):
    quick = ctx.quick()
    ctx.cov["rule"] = ("cases = (graph, transformation) pairs judged under the 8 flag combinations, (graph, mutation script) pairs, and "
                       "trace events of random 5-node graphs; non-trivial = the graph has >= 2 non-primitive nodes or a node with >= 2 "
                       "attributes (hash), the script is not empty or the graph has a user type (copy), every random trace event; "
                       "distinct = canonical JSON of (graph, transformation | script)")
    ctx.assumptions += [
        "only user types are shared or recursive and every cycle passes through an object (what the DSL can build); unrolled vs folded "
        "recursive types and shared anonymous types are never compared",
        "an attribute held by two objects (AttributeExpr.Merge / Extend at Finalize) has a leaf or a user type as its type; expr.Dup gives "
        "every holder an attribute of its own (what DupAttribute does: the statement does not say whether the copy keeps that sharing), "
        "and 'structurally equal' is judged without it",
        "views, bases, references, default values and examples of attributes are outside the modelled type graph (ResultTypeExpr.Dup shares "
        "the views by design); enum values and validation bounds are treated as immutable scalars",
        "no transformation renames a union, tags a user type's own attribute or turns a user type into a result type: the documentation "
        "of expr.Hash does not say whether these count; where a sharing transformation (unshare, redir, hollow) ends up comparing such a pair, "
        "or two types that are both recursive, nothing is claimed for the flag combinations concerned (mask `na`)",
    ]
    ctx.cov["sharing_cases"] = {"flag_combinations_decided": 0, "flag_combinations_not_decided_by_the_documentation": 0}
    shared_graphs.clear()
    # (M) vacuity guards: each named deviation must break an invariant (small models, run side by side)
    small = dict(N=1, K=3, Leaves='{"string"}', UKinds='{"user"}', Decos="{0}")
    guards = [(d, dict(small, Modes='{"hash"}', Deviations='{"%s"}' % d)) for d in DEVS[:2]]
    guards += [(d, dict(small, Modes='{"dup"}', Decos="{3}", Deviations='{"%s"}' % d)) for d in DEVS[2:6]]
    guards += [(REC, dict(small, N=2, K=1, Modes='{"hash"}', Deviations='{"%s"}' % REC)),
               (DEVS[7], dict(small, N=3, K=2, Modes='{"hash"}', Shapes='"shared"', Ops='"sharing"', Deviations='{"%s"}' % DEVS[7])),
               (DEVS[8], dict(small, N=3, K=2, Modes='{"dup"}', Decos="{3}", Shapes='"aliased"', MaxSteps=1, Deviations='{"%s"}' % DEVS[8]))]
    with ThreadPoolExecutor(max_workers=len(guards)) as ex:
        for f in [ex.submit(ctx.mc_expect_violation, "mc/MC_TypeGraph", consts=c, label="MC dev " + d, workers=2) for d, c in guards]:
            f.result()
    # (M)+(G) exhaustive enumeration with the invariants checked; every emitted case is replayed on the real code.
    # Quick: the TLC runs are started together and consumed in order; thorough: one at a time (memory).
    seen, nontrivial = set(), set()
    runs = gen_runs(quick)
    with ThreadPoolExecutor(max_workers=len(runs) if quick else 1) as ex:
        futs = [(label, ex.submit(ctx.gen, "mc/MC_TypeGraph", "gen/Gen_TypeGraph.cfg", consts=consts, label=label, timeout=3000,
                                  heap=None if quick else "24g", workers=4 if quick else "auto")) for label, consts in runs]
        for label, f in futs:
            r = f.result()
            replay_vectors(ctx, r.vectors, seen, nontrivial, label)
            r.vectors, r.stdout = [], ""
    if not quick:
        # 5 nodes: random walks through Build and the rest of the machine (invariants checked, cases emitted).
        # TLC evaluates Emit on every successor it draws from, so one walk in dup mode yields every one-step
        # and (along the drawn step) every two-step script of its graph.
        r = ctx.gen("mc/MC_TypeGraph", "gen/Gen_TypeGraph.cfg", simulate=60, depth=40, label="simulate N<=5",
                    consts=dict(N=5, K=3, Leaves='{"string", "int"}', UKinds='{"user", "result"}', Modes='{"hash", "dup"}', Decos="{0, 1, 3}",
                                MaxSteps=2, Script='"free"'), timeout=3000)
        replay_vectors(ctx, r.vectors, seen, nontrivial, "simulate")
        r.vectors, r.stdout = [], ""
    del seen
    # (J) random graphs up to 5 nodes, judged by trace validation
    nrand = 100 if quick else 1200
    d = ctx.subdir("random")
    binp = ctx.gobuild(DRIVER)
    tpath = os.path.join(d, "trace.ndjson")
    cmd = [binp, "-out", tpath, "-seed", str(ctx.seed), "-random", str(nrand)]
    p = subprocess.run(cmd, cwd=d, env=ctx.goenv(), stdout=subprocess.PIPE, stderr=subprocess.PIPE, text=True, errors="replace")
    if p.returncode != 0:
        p2 = subprocess.run(cmd, cwd=d, env=ctx.goenv(), stdout=subprocess.PIPE, stderr=subprocess.PIPE, text=True, errors="replace")
        if p.returncode == 3 or p2.returncode == 0:
            raise core.Infra("random driver failed: %s" % p.stderr[-2000:])
        ctx.violation("C13/terminates/random", "hashing or copying a random graph does not come back (driver exit %d twice: %s)" % (
            p2.returncode, (p2.stderr.strip().splitlines() or [""])[0][:200]), {"seed": ctx.seed, "random": nrand})
        flush_reports(ctx)
        ctx.cov["distinct_nontrivial"] = len(nontrivial)
        return
    lines = [l for l in open(tpath) if l.strip()]
    ctx.log("random mode: %d events" % len(lines))
    validated = validate_trace(ctx, lines, nontrivial)
    ctx.log("trace validated: %d events" % validated)
    flush_reports(ctx)
    ctx.cov["distinct_nontrivial"] = len(nontrivial)
    ctx.cov["sharing_cases"]["graphs_with_dag_sharing"] = len(shared_graphs)
    ctx.cov["traces_validated_against_impl"] += validated
    if ctx.selftest or not quick:
        selftest(ctx, lines)


def validate_trace(ctx, lines, nontrivial, maxfail=4):
    rest, fails, validated = list(lines), 0, 0
    chunk = 6000
    while rest:
        part, rest = rest[:chunk], rest[chunk:]
        while rest and json.loads(rest[0])["ev"] != "reset":       # cut between cases
            part.append(rest.pop(0))
        d = ctx.subdir("trace")
        p = os.path.join(d, "trace.ndjson")
        open(p, "w").write("".join(part))
        ok, hwm, r = ctx.trace_validate(TRACE[0], TRACE[1], p, timeout=1800)
        if ok:
            validated += len(part)
            continue
        if hwm is None:
            raise core.Infra("trace validation produced no high-water mark:\n" + r.stdout[-2000:])
        validated += hwm - 1
        bad = json.loads(part[hwm - 1])
        start = max(i for i in range(hwm) if json.loads(part[i])["ev"] == "reset")
        g = json.loads(part[start])["g"]
        case = [json.loads(x) for x in part[start:hwm]]
        if bad["ev"] == "hash":
            sym = "unstable" if bad["st"] != 255 or not bad["equals"] else "hash-equality"
            inp = {"mode": "hash", "g": g, "ts": [bad["t"]]}
            report(ctx, hash_key(g, bad["t"], sym), "random graph: %s event rejected by Trace_TypeGraph (%s)" % (bad["ev"], sym), inp, {"trace": case})
        elif bad["ev"] in ("dup", "mutate"):
            script = [e["step"] for e in case if e["ev"] == "mutate"]
            ops = "+".join("%s.%s" % (s["side"], s["op"]) for s in script) or "none"
            inp = {"mode": "dup", "g": g, "script": script}
            key = ("C13/dup/independent/%s/other-side-changed" % step_key(script, len(script) - 1) if bad["ev"] == "mutate" and not bad["unch"]
                   else "C13/dup/%s/%s" % (ops, bad["ev"]))
            report(ctx, key, "random graph: %s event rejected by Trace_TypeGraph" % bad["ev"], inp, {"trace": case})
        else:
            ctx.violation("C13/trace/%s" % bad["ev"], "random graph: event rejected by Trace_TypeGraph: %s" % json.dumps(bad)[:300], {"trace": case})
        fails += 1
        if fails >= maxfail:
            break
        tail = part[hwm:]
        while tail and json.loads(tail[0])["ev"] != "reset":
            tail.pop(0)
        rest = tail + rest
    for l in lines[:validated if fails else len(lines)]:
        e = json.loads(l)
        if e["ev"] != "reset":
            ctx.cov["evaluations"] += 1
            nontrivial.add(digest(e))
            if e["ev"] == "hash" and e["t"]["op"] in SHARING:
                k = "random_" + e["t"]["op"]
                ctx.cov["sharing_cases"][k] = ctx.cov["sharing_cases"].get(k, 0) + 1
    ctx.sample({"trace_event": json.loads(lines[1])})
    return validated


def selftest(ctx, lines):
    """Binding demonstrated: corrupt one recorded field of a trace -> rejected at exactly that line."""
    ls = [json.loads(l) for l in lines[:400]]
    while ls and ls[-1]["ev"] != "reset":
        ls.pop()
    ls.pop()
    d = ctx.subdir("selftest")
    p = os.path.join(d, "trace.ndjson")
    open(p, "w").write("".join(json.dumps(c) + "\n" for c in ls))
    ok, hwm, _ = ctx.trace_validate(TRACE[0], TRACE[1], p, label="selftest-clean")
    if not ok:
        ctx.notes.append("trace self-test skipped: the uncorrupted prefix is itself rejected at line %s" % hwm)
        return
    targets = []
    th = next((i for i, c in enumerate(ls) if c["ev"] == "hash" and i > 20), None)
    if th is not None:
        targets.append((th, "eq bit 0 flipped", lambda c: c.update(eq=c["eq"] ^ 1)))
    tm = next((i for i, c in enumerate(ls) if c["ev"] == "mutate" and i > 40 and c["canC"]["nodes"] and c["canC"]["nodes"][0]["attrs"]), None)
    if tm is not None:
        targets.append((tm, "description of the copy's first attribute changed",
                        lambda c: c["canC"]["nodes"][0]["attrs"][0].update(desc=c["canC"]["nodes"][0]["attrs"][0]["desc"] + 1)))
    td = next((i for i, c in enumerate(ls) if c["ev"] == "dup" and i > 60), None)
    if td is not None:
        targets.append((td, "shared = 1", lambda c: c.update(shared=1)))
    for target, what, f in targets:
        cp = json.loads(json.dumps(ls))
        f(cp[target])
        open(p, "w").write("".join(json.dumps(c) + "\n" for c in cp))
        ok, hwm, _ = ctx.trace_validate(TRACE[0], TRACE[1], p, label="selftest")
        res = {"corrupted_line": target + 1, "what": what, "rejected_at": hwm, "ok": (not ok and hwm == target + 1)}
        ctx.cov.setdefault("trace_selftests", []).append(res)
        if not res["ok"]:
            raise core.Infra("trace self-test failed: corrupted line %d (%s), TLC stopped at %s" % (target + 1, what, hwm))


def replay(ctx, rp):
    case = rp["case"]
    inp = case.get("input")
    if inp is None:
        print(json.dumps(case, indent=1)[:4000])
        return 0
    ok, bad, o = judge_by_trace(ctx, inp, label="replay")
    print("input:   ", json.dumps(inp, sort_keys=True)[:3000])
    print("observed:", json.dumps(o, sort_keys=True)[:3000])
    if not ok:
        print("VIOLATION property=C13 replay=(replayed)")
        print("  first event the specification rejects:", json.dumps(bad, sort_keys=True)[:2000])
        return 1
    print("accepted by Trace_TypeGraph")
    return 0
