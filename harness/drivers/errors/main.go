// Driver for C18: evaluates merge trees and status mappings on the real
// goa.MergeErrors / http.ErrorResponse.StatusCode / grpc.EncodeError and
// projects the results onto the observables of spec/ErrorAlgebra.tla.
package main

import (
	"context"
	"encoding/json"
	"errors"
	"flag"
	"fmt"
	"math/rand"
	"strconv"
	"strings"

	"google.golang.org/grpc/status"

	goagrpc "goa.design/goa/v3/grpc"
	goapb "goa.design/goa/v3/grpc/pb"
	goahttp "goa.design/goa/v3/http"
	goa "goa.design/goa/v3/pkg"

	"verif/harness/vio"
)

type Flags struct {
	T   bool `json:"t"`
	Tmp bool `json:"tmp"`
	F   bool `json:"f"`
}
type Leaf struct {
	Kind  string `json:"kind"`
	Name  string `json:"name"`
	Flags Flags  `json:"flags"`
}
type Entry struct {
	Name  string `json:"name"`
	Field int    `json:"field"`
	Msgs  []int  `json:"msgs"`
}
type Obs struct {
	Kind   string  `json:"kind"`
	Leaf   *int    `json:"leaf,omitempty"`
	Name   *string `json:"name,omitempty"`
	Msgs   []int   `json:"msgs,omitempty"`
	Flags  *Flags  `json:"flags,omitempty"`
	Causes []int   `json:"causes,omitempty"`
	Hist   []Entry `json:"hist,omitempty"`
}
type built struct {
	err   error // what the caller passes to MergeErrors (nil for a nil leaf)
	cause error // underlying plain cause, if any
}

func mkLeaf(l Leaf, i int) built {
	msg := "m" + strconv.Itoa(i)
	switch l.Kind {
	case "nil":
		return built{}
	case "plain":
		e := errors.New(msg)
		return built{err: e, cause: e}
	case "svc", "svcf", "wrapped":
		se := newSvc(l.Name, msg, l.Flags)
		if l.Kind == "svcf" {
			f := "f" + strconv.Itoa(i)
			se.(*goa.ServiceError).Field = &f
		}
		if l.Kind == "wrapped" {
			return built{err: fmt.Errorf("w%d: %w", i, se)}
		}
		return built{err: se}
	case "nsvc":
		c := errors.New(msg)
		return built{err: goa.NewServiceError(c, l.Name, l.Flags.T, l.Flags.Tmp, l.Flags.F), cause: c}
	}
	vio.Die("unknown leaf kind %q", l.Kind)
	return built{}
}

// newSvc builds a cause-free service error through the public constructors when one exists for the
// flag combination, else through the exported struct fields.
func newSvc(name, msg string, fl Flags) error {
	switch {
	case !fl.T && !fl.Tmp && !fl.F:
		return goa.PermanentError(name, "%s", msg)
	case !fl.T && fl.Tmp && !fl.F:
		return goa.TemporaryError(name, "%s", msg)
	case fl.T && !fl.Tmp && !fl.F:
		return goa.PermanentTimeoutError(name, "%s", msg)
	case fl.T && fl.Tmp && !fl.F:
		return goa.TemporaryTimeoutError(name, "%s", msg)
	}
	return &goa.ServiceError{Name: name, ID: goa.NewErrorID(), Message: msg, Timeout: fl.T, Temporary: fl.Tmp, Fault: fl.F}
}

func evalTree(t []any, leaves []built) error {
	switch t[0].(string) {
	case "leaf":
		return leaves[toInt(t[1])-1].err
	case "node":
		l := evalTree(t[1].([]any), leaves)
		r := evalTree(t[2].([]any), leaves)
		return goa.MergeErrors(l, r)
	}
	vio.Die("bad tree %v", t)
	return nil
}

func toInt(v any) int {
	switch x := v.(type) {
	case float64:
		return int(x)
	case int:
		return x
	}
	vio.Die("not a number: %v", v)
	return 0
}

func parseMsgs(s string) []int {
	out := []int{}
	for _, p := range strings.Split(s, "; ") {
		p = strings.TrimPrefix(p, "m")
		n, err := strconv.Atoi(p)
		if err != nil {
			n = -1 // a message that is not one of the leaves' messages
		}
		out = append(out, n)
	}
	return out
}

func parseField(f *string) int {
	if f == nil {
		return 0
	}
	n, err := strconv.Atoi(strings.TrimPrefix(*f, "f"))
	if err != nil {
		return -1
	}
	return n
}

func project(res error, leaves []built) Obs {
	if res == nil {
		return Obs{Kind: "nil"}
	}
	for i, b := range leaves {
		if b.err != nil && b.err == res {
			// identical value: still has to be untouched; a never-merged leaf has exactly its own message
			if res.Error() == leafText(i+1, b) {
				k := i + 1
				return Obs{Kind: "same", Leaf: &k}
			}
		}
	}
	var se *goa.ServiceError
	if !errors.As(res, &se) {
		n := "?non-service-error"
		return Obs{Kind: "merged", Name: &n}
	}
	o := Obs{Kind: "merged", Name: &se.Name, Msgs: parseMsgs(se.Message), Flags: &Flags{se.Timeout, se.Temporary, se.Fault}, Causes: []int{}, Hist: []Entry{}}
	for i, b := range leaves {
		if b.cause != nil && errors.Is(res, b.cause) {
			o.Causes = append(o.Causes, i+1)
		}
	}
	for _, h := range se.History() {
		o.Hist = append(o.Hist, Entry{Name: h.Name, Field: parseField(h.Field), Msgs: parseMsgs(h.Message)})
	}
	return o
}

func leafText(i int, b built) string {
	var se *goa.ServiceError
	if errors.As(b.err, &se) && error(se) != b.err {
		return fmt.Sprintf("w%d: m%d", i, i)
	}
	return "m" + strconv.Itoa(i)
}

type SCase struct {
	Kind  string `json:"kind"`
	Name  string `json:"name"`
	Flags Flags  `json:"flags"`
}
type SObs struct {
	HTTP    int    `json:"http"`
	GRPC    int    `json:"grpc"`
	RTName  string `json:"rtname"`
	RTFlags Flags  `json:"rtflags"`
	RTSame  bool   `json:"rtsame"`
}

func statusCase(c SCase) SObs {
	var err error
	msg := "boom"
	switch c.Kind {
	case "svc":
		err = newSvc(c.Name, msg, c.Flags)
	case "wrapped":
		err = fmt.Errorf("ctx: %w", newSvc(c.Name, msg, c.Flags))
	case "plain":
		err = errors.New(msg)
	}
	var o SObs
	resp := goahttp.NewErrorResponse(context.Background(), err)
	o.HTTP = resp.StatusCode()
	enc := goagrpc.EncodeError(err)
	st, ok := status.FromError(enc)
	if !ok {
		o.GRPC = -1
		return o
	}
	o.GRPC = int(st.Code())
	dec := goagrpc.DecodeError(enc)
	er, ok := dec.(*goapb.ErrorResponse)
	if !ok {
		o.RTName = "?no-detail"
		return o
	}
	back := goagrpc.NewServiceError(er)
	o.RTName = back.Name
	o.RTFlags = Flags{back.Timeout, back.Temporary, back.Fault}
	// identifier and message preserved?
	var se *goa.ServiceError
	if errors.As(err, &se) {
		o.RTSame = back.ID == se.ID && back.Message == se.Message && back.Name == se.Name
	} else {
		o.RTSame = back.Message == msg && back.ID != ""
	}
	// the HTTP body carries the same fields
	if er2, ok := resp.(*goahttp.ErrorResponse); ok {
		if er2.Name != back.Name || er2.Message != back.Message || er2.Fault != back.Fault || er2.Timeout != back.Timeout || er2.Temporary != back.Temporary {
			o.RTSame = false
		}
	}
	return o
}

type Vec struct {
	Mode   string `json:"mode"`
	Leaves []Leaf `json:"leaves"`
	Tree   []any  `json:"tree"`
	SCase  *SCase `json:"scase"`
}

// ---- random trees for the trace direction -------------------------------------------------

func randTree(r *rand.Rand, i, j int) []any {
	if i == j {
		return []any{"leaf", i}
	}
	k := i + r.Intn(j-i)
	return []any{"node", randTree(r, i, k), randTree(r, k+1, j)}
}

func randLeaf(r *rand.Rand) Leaf {
	kinds := []string{"svc", "svc", "svcf", "nsvc", "plain", "wrapped", "nil"}
	k := kinds[r.Intn(len(kinds))]
	switch k {
	case "nil":
		return Leaf{Kind: k, Name: "-"}
	case "plain":
		return Leaf{Kind: k, Name: "error", Flags: Flags{false, false, true}}
	}
	names := []string{"n1", "n2"}
	return Leaf{Kind: k, Name: names[r.Intn(2)], Flags: Flags{r.Intn(2) == 0, r.Intn(2) == 0, r.Intn(2) == 0}}
}

func main() {
	nrand := flag.Int("random", 0, "number of random trees (5-8 leaves) to evaluate and log as trace events")
	flag.Parse()
	w, err := vio.NewWriter()
	if err != nil {
		vio.Die("%v", err)
	}
	defer w.Close()
	err = vio.ReadVectors(func(i int, raw json.RawMessage) error {
		var v Vec
		if err := json.Unmarshal(raw, &v); err != nil {
			return err
		}
		switch v.Mode {
		case "merge":
			bs := make([]built, len(v.Leaves))
			for k, l := range v.Leaves {
				bs[k] = mkLeaf(l, k+1)
			}
			res := evalTree(v.Tree, bs)
			w.Emit(map[string]any{"i": i, "obs": project(res, bs)})
		case "status":
			w.Emit(map[string]any{"i": i, "obs": statusCase(*v.SCase)})
		default:
			return fmt.Errorf("unknown mode %q", v.Mode)
		}
		return nil
	})
	if err != nil {
		vio.Die("%v", err)
	}
	r := rand.New(rand.NewSource(*vio.Seed))
	for c := 0; c < *nrand; c++ {
		n := 5 + r.Intn(4)
		ls := make([]Leaf, n)
		bs := make([]built, n)
		for k := range ls {
			ls[k] = randLeaf(r)
			bs[k] = mkLeaf(ls[k], k+1)
		}
		t := randTree(r, 1, n)
		res := evalTree(t, bs)
		w.Emit(map[string]any{"ev": "case", "leaves": ls, "tree": t, "obs": project(res, bs)})
	}
}
