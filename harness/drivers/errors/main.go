// Driver for C18: evaluates merge trees and status mappings on the real
// goa.MergeErrors / http.NewErrorResponse / ErrorResponse.StatusCode / grpc.EncodeError /
// grpc.DecodeError / grpc.NewServiceError and projects the results onto the observables of
// spec/ErrorAlgebra.tla.
package main

import (
	"context"
	"encoding/json"
	"errors"
	"flag"
	"fmt"
	"math/rand"
	"strconv"
	"strings"

	"google.golang.org/grpc/codes"
	"google.golang.org/grpc/status"

	goagrpc "goa.design/goa/v3/grpc"
	goapb "goa.design/goa/v3/grpc/pb"
	goahttp "goa.design/goa/v3/http"
	goa "goa.design/goa/v3/pkg"

	"verif/harness/vio"
)

type Flags struct {
	T   bool `json:"t"`
	Tmp bool `json:"tmp"`
	F   bool `json:"f"`
}

// Cause: what a ServiceError wraps / what a non-ServiceError leaf is (ErrorAlgebra.tla, CAUSE dimension).
type Cause struct {
	Ck   string `json:"ck"`
	Code int    `json:"code"`
}
type Leaf struct {
	Kind  string `json:"kind"`
	Name  string `json:"name"`
	Flags Flags  `json:"flags"`
	Cause Cause  `json:"cause"`
}
type Entry struct {
	Name  string `json:"name"`
	Field int    `json:"field"`
	Msgs  []int  `json:"msgs"`
}

// Resp is an error response as it travels: name, message (tokens), flags, and whose identifier it has.
type Resp struct {
	Name  string `json:"name"`
	Msgs  []int  `json:"msgs"`
	Flags Flags  `json:"flags"`
	ID    string `json:"id"`
}
type Wire struct {
	HTTP  int  `json:"http"`
	HResp Resp `json:"hresp"`
	GRPC  int  `json:"grpc"`
	GResp Resp `json:"gresp"`
}
type Obs struct {
	Kind   string  `json:"kind"`
	Leaf   *int    `json:"leaf,omitempty"`
	Name   *string `json:"name,omitempty"`
	Msgs   []int   `json:"msgs,omitempty"`
	Flags  *Flags  `json:"flags,omitempty"`
	Causes []int   `json:"causes,omitempty"`
	Hist   []Entry `json:"hist,omitempty"`
	Wire   *Wire   `json:"wire,omitempty"`
}
type built struct {
	err   error             // what the caller passes to MergeErrors (nil for a nil leaf)
	cause error             // the error it wraps (or is, for a non-ServiceError leaf), if any
	top   *goa.ServiceError // the ServiceError closest to the top of err, by construction (nil: none)
	inner *goa.ServiceError // a ServiceError below top (causes svc, svcg)
	text  string            // the message text of the leaf: top.Message, or err.Error() without a ServiceError
}

// gimpl is a caller's own error type that carries a gRPC status.
type gimpl struct {
	msg string
	st  *status.Status
}

func (g *gimpl) Error() string              { return g.msg }
func (g *gimpl) GRPCStatus() *status.Status { return g.st }

func foreignID(i int) string { return "did" + strconv.Itoa(i) }

// mkCause builds the cause object of leaf i; inner is the ServiceError inside it, if any.
func mkCause(c Cause, i int) (cause error, inner *goa.ServiceError) {
	msg := "m" + strconv.Itoa(i)
	code := codes.Code(c.Code)
	switch c.Ck {
	case "plain":
		return errors.New(msg), nil
	case "gst":
		return status.Error(code, msg), nil
	case "gstw":
		return fmt.Errorf("u%d: %w", i, status.Error(code, msg)), nil
	case "gsti":
		return &gimpl{msg: "gi: " + msg, st: status.New(code, msg)}, nil
	case "gstn":
		return &gimpl{msg: "gn: " + msg}, nil
	case "gstd":
		// the status error of a downstream goa service: its own error response is already the first detail
		st, err := status.New(code, msg).WithDetails(&goapb.ErrorResponse{
			Name: "down", Id: foreignID(i), Msg: "d" + strconv.Itoa(i), Timeout: true, Temporary: true, Fault: true})
		if err != nil {
			vio.Die("cannot build a status with details: %v", err)
		}
		return st.Err(), nil
	case "svc":
		in := goa.TemporaryTimeoutError("inner", "%s", msg)
		in.Fault = true
		return in, in
	case "svcg":
		in := goa.NewServiceError(status.Error(code, msg), "inner", true, true, true)
		return in, in
	}
	vio.Die("unknown cause %q", c.Ck)
	return nil, nil
}

func mkLeaf(l Leaf, i int) built {
	msg := "m" + strconv.Itoa(i)
	switch l.Kind {
	case "nil":
		return built{}
	case "plain":
		e, _ := mkCause(l.Cause, i)
		if e == nil {
			vio.Die("leaf %d: a plain leaf needs a cause that is an error (%q)", i, l.Cause.Ck)
		}
		return built{err: e, cause: e, text: e.Error()}
	case "svc", "svcf", "nsvc", "wrapped":
		var b built
		if l.Cause.Ck == "none" {
			if l.Kind == "nsvc" {
				vio.Die("leaf %d: nsvc without a cause", i)
			}
			b.top = newSvc(l.Name, msg, l.Flags)
		} else {
			if l.Kind == "svc" || l.Kind == "svcf" {
				vio.Die("leaf %d: %s with a cause", i, l.Kind)
			}
			b.cause, b.inner = mkCause(l.Cause, i)
			b.top = goa.NewServiceError(b.cause, l.Name, l.Flags.T, l.Flags.Tmp, l.Flags.F)
		}
		if l.Kind == "svcf" {
			f := "f" + strconv.Itoa(i)
			b.top.Field = &f
		}
		b.text = b.top.Message
		b.err = b.top
		if l.Kind == "wrapped" {
			b.err = fmt.Errorf("w%d: %w", i, b.top)
		}
		return b
	}
	vio.Die("unknown leaf kind %q", l.Kind)
	return built{}
}

// newSvc builds a cause-free service error through the public constructors when one exists for the
// flag combination, else through the exported struct fields.
func newSvc(name, msg string, fl Flags) *goa.ServiceError {
	switch {
	case !fl.T && !fl.Tmp && !fl.F:
		return goa.PermanentError(name, "%s", msg)
	case !fl.T && fl.Tmp && !fl.F:
		return goa.TemporaryError(name, "%s", msg)
	case fl.T && !fl.Tmp && !fl.F:
		return goa.PermanentTimeoutError(name, "%s", msg)
	case fl.T && fl.Tmp && !fl.F:
		return goa.TemporaryTimeoutError(name, "%s", msg)
	}
	return &goa.ServiceError{Name: name, ID: goa.NewErrorID(), Message: msg, Timeout: fl.T, Temporary: fl.Tmp, Fault: fl.F}
}

func evalTree(t []any, leaves []built) error {
	switch t[0].(string) {
	case "leaf":
		return leaves[toInt(t[1])-1].err
	case "node":
		l := evalTree(t[1].([]any), leaves)
		r := evalTree(t[2].([]any), leaves)
		return goa.MergeErrors(l, r)
	}
	vio.Die("bad tree %v", t)
	return nil
}

func toInt(v any) int {
	switch x := v.(type) {
	case float64:
		return int(x)
	case int:
		return x
	}
	vio.Die("not a number: %v", v)
	return 0
}

// texts maps the message texts of a case back to the spec's tokens: i = the message of leaf i as it was built,
// 1000+i = the message of the detail leaf i's downstream status carries; anything else is -1.
type texts map[string]int

func textsOf(leaves []built) texts {
	t := texts{}
	for i, b := range leaves {
		if b.err != nil {
			t[b.text] = i + 1
		}
		t["d"+strconv.Itoa(i+1)] = 1000 + i + 1
	}
	return t
}

func (t texts) parse(s string) []int {
	out := []int{}
	for _, p := range strings.Split(s, "; ") {
		n, ok := t[p]
		if !ok {
			n = -1 // a message that is not one of the leaves' messages
		}
		out = append(out, n)
	}
	return out
}

func parseField(f *string) int {
	if f == nil {
		return 0
	}
	n, err := strconv.Atoi(strings.TrimPrefix(*f, "f"))
	if err != nil {
		return -1
	}
	return n
}

// idToken says whose identifier id is, relative to ref = the ServiceError closest to the top of the error
// under observation (nil when it holds none).
func idToken(id string, ref *goa.ServiceError, leaves []built) string {
	if id == "" {
		return "empty"
	}
	if ref != nil && id == ref.ID {
		return "same"
	}
	for i, b := range leaves {
		switch {
		case id == foreignID(i + 1):
			return "foreign"
		case b.inner != nil && id == b.inner.ID:
			return "inner"
		case b.top != nil && id == b.top.ID:
			return "other"
		}
	}
	return "fresh"
}

// wire observes err as the transports carry it: the HTTP error response and status, the gRPC status code and
// what comes back from EncodeError -> DecodeError -> NewServiceError.
func wire(err error, ref *goa.ServiceError, leaves []built, tx texts) *Wire {
	w := &Wire{}
	w.HResp.Msgs, w.GResp.Msgs = []int{}, []int{}
	resp := goahttp.NewErrorResponse(context.Background(), err)
	if resp == nil {
		w.HTTP = -1
		w.HResp.Name = "?no-response"
	} else {
		w.HTTP = resp.StatusCode()
		if er, ok := resp.(*goahttp.ErrorResponse); ok {
			w.HResp = Resp{Name: er.Name, Msgs: tx.parse(er.Message), Flags: Flags{er.Timeout, er.Temporary, er.Fault}, ID: idToken(er.ID, ref, leaves)}
		} else {
			w.HResp.Name = "?not-an-error-response"
		}
	}
	enc := goagrpc.EncodeError(err)
	if enc == nil {
		w.GRPC = -1
		w.GResp.Name = "?no-error"
		return w
	}
	st, ok := status.FromError(enc)
	if !ok {
		w.GRPC = -1
		w.GResp.Name = "?no-status"
		return w
	}
	w.GRPC = int(st.Code())
	er, ok := goagrpc.DecodeError(enc).(*goapb.ErrorResponse)
	if !ok {
		w.GResp.Name = "?no-detail"
		return w
	}
	back := goagrpc.NewServiceError(er)
	w.GResp = Resp{Name: back.Name, Msgs: tx.parse(back.Message), Flags: Flags{back.Timeout, back.Temporary, back.Fault}, ID: idToken(back.ID, ref, leaves)}
	return w
}

// topOf: the ServiceError closest to the top of res, known by construction (never through errors.As).
func topOf(res error, leaves []built) *goa.ServiceError {
	if se, ok := res.(*goa.ServiceError); ok {
		return se
	}
	for _, b := range leaves {
		if b.err != nil && b.err == res {
			return b.top
		}
	}
	return nil
}

func project(res error, leaves []built) Obs {
	if res == nil {
		return Obs{Kind: "nil"}
	}
	tx := textsOf(leaves)
	w := wire(res, topOf(res, leaves), leaves, tx)
	for i, b := range leaves {
		if b.err != nil && b.err == res {
			// identical value: still has to be untouched; a never-merged leaf has exactly its own message
			if res.Error() == leafText(i+1, b) {
				k := i + 1
				return Obs{Kind: "same", Leaf: &k, Wire: w}
			}
		}
	}
	var se *goa.ServiceError
	if !errors.As(res, &se) {
		n := "?non-service-error"
		return Obs{Kind: "merged", Name: &n, Wire: w}
	}
	o := Obs{Kind: "merged", Name: &se.Name, Msgs: tx.parse(se.Message), Flags: &Flags{se.Timeout, se.Temporary, se.Fault}, Causes: []int{}, Hist: []Entry{}, Wire: w}
	for i, b := range leaves {
		if b.cause != nil && errors.Is(res, b.cause) {
			o.Causes = append(o.Causes, i+1)
		}
	}
	for _, h := range se.History() {
		o.Hist = append(o.Hist, Entry{Name: h.Name, Field: parseField(h.Field), Msgs: tx.parse(h.Message)})
	}
	return o
}

// leafText: err.Error() of leaf i as it was built.
func leafText(i int, b built) string {
	if b.top != nil && error(b.top) != b.err {
		return fmt.Sprintf("w%d: %s", i, b.text)
	}
	return b.text
}

type SCase struct {
	Kind  string `json:"kind"`
	Name  string `json:"name"`
	Flags Flags  `json:"flags"`
	Cause Cause  `json:"cause"`
}

// statusCase: one error alone (leaf 1 of a one-leaf case) observed on the wire.
func statusCase(c SCase) *Wire {
	l := Leaf{Kind: c.Kind, Name: c.Name, Flags: c.Flags, Cause: c.Cause}
	if c.Kind == "svc" && c.Cause.Ck != "none" {
		l.Kind = "nsvc"
	}
	bs := []built{mkLeaf(l, 1)}
	return wire(bs[0].err, bs[0].top, bs, textsOf(bs))
}

type Vec struct {
	Mode   string `json:"mode"`
	Leaves []Leaf `json:"leaves"`
	Tree   []any  `json:"tree"`
	SCase  *SCase `json:"scase"`
}

// ---- random trees for the trace direction -------------------------------------------------

func randTree(r *rand.Rand, i, j int) []any {
	if i == j {
		return []any{"leaf", i}
	}
	k := i + r.Intn(j-i)
	return []any{"node", randTree(r, i, k), randTree(r, k+1, j)}
}

var gstCodes = []int{2, 4, 5, 13, 14}

// randCause: svc = the cause of a ServiceError (else: what a non-ServiceError leaf is).  gstn is left to the
// exhaustive single-error cases: inside a merge it hides the statuses behind it from status.FromError and
// nothing says which code is right then; a bare gstd likewise (ErrorAlgebra.tla, BareSpace).
func randCause(r *rand.Rand, svc bool) Cause {
	cks := []string{"plain", "plain", "gst", "gst", "gstw", "gsti"}
	if svc {
		cks = append(cks, "gstd", "svc", "svcg")
	}
	ck := cks[r.Intn(len(cks))]
	switch ck {
	case "plain", "svc":
		return Cause{Ck: ck}
	}
	return Cause{Ck: ck, Code: gstCodes[r.Intn(len(gstCodes))]}
}

func randLeaf(r *rand.Rand) Leaf {
	kinds := []string{"svc", "svc", "svcf", "nsvc", "nsvc", "plain", "wrapped", "nil"}
	k := kinds[r.Intn(len(kinds))]
	none := Cause{Ck: "none"}
	switch k {
	case "nil":
		return Leaf{Kind: k, Name: "-", Cause: none}
	case "plain":
		return Leaf{Kind: k, Name: "error", Flags: Flags{false, false, true}, Cause: randCause(r, false)}
	}
	names := []string{"n1", "n2"}
	l := Leaf{Kind: k, Name: names[r.Intn(2)], Flags: Flags{r.Intn(2) == 0, r.Intn(2) == 0, r.Intn(2) == 0}, Cause: none}
	if k == "nsvc" || (k == "wrapped" && r.Intn(2) == 0) {
		l.Cause = randCause(r, true)
	}
	return l
}

func randStatus(r *rand.Rand) SCase {
	names := []string{"n1", "unsupported_media_type", "error", ""}
	switch r.Intn(5) {
	case 0:
		c := randCause(r, false)
		if r.Intn(6) == 0 {
			c = Cause{Ck: "gstn"}
		}
		return SCase{Kind: "plain", Name: "error", Flags: Flags{false, false, true}, Cause: c}
	case 1:
		return SCase{Kind: "wrapped", Name: names[r.Intn(4)], Flags: Flags{r.Intn(2) == 0, r.Intn(2) == 0, r.Intn(2) == 0}, Cause: randCause(r, true)}
	}
	c := randCause(r, true)
	switch r.Intn(6) {
	case 0:
		c = Cause{Ck: "none"}
	case 1:
		c = Cause{Ck: "gstn"}
	}
	return SCase{Kind: "svc", Name: names[r.Intn(4)], Flags: Flags{r.Intn(2) == 0, r.Intn(2) == 0, r.Intn(2) == 0}, Cause: c}
}

func main() {
	nrand := flag.Int("random", 0, "number of random trees (5-8 leaves) to evaluate and log as trace events")
	nstat := flag.Int("random-status", 0, "number of random single errors to observe on the wire and log as trace events")
	flag.Parse()
	w, err := vio.NewWriter()
	if err != nil {
		vio.Die("%v", err)
	}
	defer w.Close()
	err = vio.ReadVectors(func(i int, raw json.RawMessage) error {
		var v Vec
		if err := json.Unmarshal(raw, &v); err != nil {
			return err
		}
		switch v.Mode {
		case "merge":
			bs := make([]built, len(v.Leaves))
			for k, l := range v.Leaves {
				bs[k] = mkLeaf(l, k+1)
			}
			res := evalTree(v.Tree, bs)
			w.Emit(map[string]any{"i": i, "obs": project(res, bs)})
		case "status":
			w.Emit(map[string]any{"i": i, "obs": statusCase(*v.SCase)})
		default:
			return fmt.Errorf("unknown mode %q", v.Mode)
		}
		return nil
	})
	if err != nil {
		vio.Die("%v", err)
	}
	r := rand.New(rand.NewSource(*vio.Seed))
	for c := 0; c < *nrand; c++ {
		n := 5 + r.Intn(4)
		ls := make([]Leaf, n)
		bs := make([]built, n)
		for k := range ls {
			ls[k] = randLeaf(r)
			bs[k] = mkLeaf(ls[k], k+1)
		}
		t := randTree(r, 1, n)
		res := evalTree(t, bs)
		w.Emit(map[string]any{"ev": "case", "leaves": ls, "tree": t, "obs": project(res, bs)})
	}
	for c := 0; c < *nstat; c++ {
		sc := randStatus(r)
		w.Emit(map[string]any{"ev": "status", "scase": sc, "obs": statusCase(sc)})
	}
}
