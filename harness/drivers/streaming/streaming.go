// Package streaming is the driver of the Streaming growth module (spec/Streaming.tla): it replays TLC-generated
// scripts - sequences of client / server stream calls - on the REAL generated WebSocket client and server of one
// fixed design family (checks/streaming.py holds the design), over httptest and real websocket connections, and
// records one event per step with the outcome observed.
//
// It is a library: the generated packages live in a scratch module, so the few lines that name them (the service
// implementation forwarding every method to Hub.Serve, the constructors of the generated server and client) are
// written next to the generated code by checks/streaming.py from glue.go.tmpl and call Main.
//
// A script step is executed to completion before the next one is issued, except the blocking calls, which the
// model splits in a call step (issued, not awaited) and a return step (awaited): the client's endpoint call
// (call / callret), Recv (recvcall / recvret) and CloseAndRecv (carcall / carret).  Every wait has a time limit; a
// step that runs into it is recorded with res "timeout" and ends the script: machinery trouble for the check,
// never a verdict.  The first step whose outcome differs from the model's prediction also ends the script (what
// the model says is available afterwards no longer applies), unless the model itself allows another outcome there.
package streaming

import (
	"context"
	"encoding/json"
	"errors"
	"flag"
	"fmt"
	"io"
	"log"
	"net"
	"net/http"
	"net/http/httptest"
	"net/url"
	"reflect"
	"strings"
	"sync"
	"sync/atomic"
	"time"

	"github.com/gorilla/websocket"
	goahttp "goa.design/goa/v3/http"
	goa "goa.design/goa/v3/pkg"

	"verif/harness/vio"
)

type (
	// CallFunc calls one method of the generated service client: payload class -> client stream or error.
	CallFunc func(ctx context.Context, p int) (any, error)

	// Glue is what the generated-code side provides.
	Glue struct {
		// Mount creates the generated endpoints and HTTP server around a service whose methods all call hub.Serve.
		Mount func(hub *Hub, mux goahttp.Muxer, up goahttp.Upgrader)
		// Client creates the generated client.
		Client func(scheme, host string, doer goahttp.Doer, dialer goahttp.Dialer) map[string]CallFunc
	}

	// Step is one step of a script (inputs and the model's prediction) or of a trace (inputs and the outcome observed).
	Step struct {
		Side  string `json:"side"`
		Op    string `json:"op"`
		V     string `json:"v"`
		View  string `json:"view"`
		Res   string `json:"res"`
		Rv    string `json:"rv"`
		Rview string `json:"rview"`
		Nd    string `json:"nd,omitempty"`
	}
	Script struct {
		ID    int    `json:"id"`
		M     string `json:"m"`
		Steps []Step `json:"steps"`
	}
	// Obs is the outcome of one step on real code.
	Obs struct {
		Res    string  `json:"res"`              // ok | error | eof | invalid | val | stream | panic | timeout | -
		Rv     string  `json:"rv"`               // received value (by its v attribute) or payload class
		Rt     *string `json:"rt,omitempty"`     // received t attribute (nil: not there)
		View   *string `json:"cview,omitempty"`  // callret: the view field of the client stream
		Detail string  `json:"detail,omitempty"` // error text (for reports only)
	}
	Result struct {
		ID      int    `json:"id"`
		M       string `json:"m"`
		Obs     []Obs  `json:"obs"`
		Stopped string `json:"stopped,omitempty"` // "", mismatch, timeout
		Leaked  bool   `json:"leaked,omitempty"`  // the handler was still running after the connections were closed
		Invoked int    `json:"invoked"`           // times the service method ran
	}

	op struct {
		name string
		v    string
		view string
	}

	// Hub is the server side of one script: the service method hands its stream over and executes the server steps.
	Hub struct {
		mu      sync.Mutex
		invoked chan invocation
		ops     chan op
		res     chan Obs
		n       int
		done    chan struct{}
	}
	invocation struct {
		method  string
		payload string
	}
)

// message values of the family: v attribute, t attribute
var values = map[string]struct {
	V int
	T string
}{"a": {1, "a"}, "b": {2, "bb"}, "x": {0, "x"}, "y": {3, "long"}}

var byV = map[int]string{1: "a", 2: "b", 0: "x", 3: "y"}

// payload classes: the p attribute (Minimum(1))
var payloads = map[string]int{"ok": 5, "bad": 0, "none": 0}

var wait = flag.Duration("wait", 3*time.Second, "time limit of every wait")

// Serve is called by every method of the service implementation.
func (h *Hub) Serve(ctx context.Context, method string, payload any, stream any) error {
	h.mu.Lock()
	h.n++
	h.mu.Unlock()
	defer close(h.done)
	pc := "none"
	if payload != nil {
		pv := reflect.ValueOf(payload)
		if pv.Kind() == reflect.Ptr && !pv.IsNil() {
			p := int(pv.Elem().FieldByName("P").Int())
			pc = "?" + fmt.Sprint(p)
			for k, v := range payloads {
				if k != "none" && v == p {
					pc = k
				}
			}
		} else {
			pc = "nil"
		}
	}
	h.invoked <- invocation{method, pc}
	for o := range h.ops {
		if o.name == "return" {
			h.res <- Obs{Res: "ok"}
			return nil
		}
		obs, pnc := execOp(stream, o)
		h.res <- obs
		if pnc != nil {
			panic(pnc) // what the generated code did: let it unwind into net/http like it would
		}
	}
	return nil
}

// execOp calls one method of a generated stream (server or client side) by name.
func execOp(stream any, o op) (obs Obs, pnc any) {
	defer func() {
		if r := recover(); r != nil {
			obs = Obs{Res: "panic", Detail: fmt.Sprint(r)}
			pnc = r
		}
	}()
	sv := reflect.ValueOf(stream)
	call := func(name string, args ...reflect.Value) []reflect.Value {
		m := sv.MethodByName(name)
		if !m.IsValid() {
			vio.Die("%T has no method %s (script and design family disagree)", stream, name)
		}
		return m.Call(args)
	}
	switch o.name {
	case "setview":
		call("SetView", reflect.ValueOf(o.view))
		return Obs{Res: "ok"}, nil
	case "send", "sendandclose":
		name := map[string]string{"send": "Send", "sendandclose": "SendAndClose"}[o.name]
		m := sv.MethodByName(name)
		if !m.IsValid() {
			vio.Die("%T has no method %s", stream, name)
		}
		out := m.Call([]reflect.Value{build(m.Type().In(0), o.v)})
		return errObs(out[0]), nil
	case "close":
		return errObs(call("Close")[0]), nil
	case "recvcall":
		out := call("Recv")
		return recvObs(out), nil
	case "carcall":
		out := call("CloseAndRecv")
		return recvObs(out), nil
	}
	vio.Die("unknown op %q", o.name)
	return
}

// build makes a *Msg / *Res from a value name: fields V (int) and T (string or *string).
func build(t reflect.Type, name string) reflect.Value {
	val, ok := values[name]
	if !ok {
		vio.Die("unknown message value %q", name)
	}
	p := reflect.New(t.Elem())
	e := p.Elem()
	e.FieldByName("V").SetInt(int64(val.V))
	tf := e.FieldByName("T")
	if tf.Kind() == reflect.Ptr {
		s := val.T
		tf.Set(reflect.ValueOf(&s))
	} else {
		tf.SetString(val.T)
	}
	return p
}

func errObs(v reflect.Value) Obs {
	if v.IsNil() {
		return Obs{Res: "ok"}
	}
	return classify(v.Interface().(error))
}

func recvObs(out []reflect.Value) Obs {
	if !out[1].IsNil() {
		return classify(out[1].Interface().(error))
	}
	if out[0].Kind() != reflect.Ptr || out[0].IsNil() {
		return Obs{Res: "val", Rv: "nil"}
	}
	e := out[0].Elem()
	v := int(e.FieldByName("V").Int())
	name, ok := byV[v]
	if !ok {
		name = "?" + fmt.Sprint(v)
	}
	o := Obs{Res: "val", Rv: name}
	tf := e.FieldByName("T")
	if tf.Kind() == reflect.Ptr {
		if !tf.IsNil() {
			s := tf.Elem().String()
			o.Rt = &s
		}
	} else {
		s := tf.String()
		if s != "" {
			o.Rt = &s
		}
	}
	return o
}

// classify maps an error to the classes of the model: io.EOF, a validation error of the design, anything else.
func classify(err error) Obs {
	if errors.Is(err, io.EOF) {
		return Obs{Res: "eof"}
	}
	var se *goa.ServiceError
	if errors.As(err, &se) {
		switch se.Name {
		case "invalid_range", "invalid_length", "missing_field", "invalid_field_type", "invalid_format", "invalid_pattern", "invalid_enum_value":
			return Obs{Res: "invalid", Detail: se.Name + ": " + se.Message}
		}
	}
	var ce *goahttp.ClientError
	if errors.As(err, &ce) && ce.Name == "validation_error" {
		return Obs{Res: "invalid", Detail: ce.Error()}
	}
	return Obs{Res: "error", Detail: fmt.Sprintf("%T: %v", err, err)}
}

// recDialer keeps the connections it made (cleanup) and counts the writes of the client on the wire: CloseAndRecv is
// issued without waiting for its return, and the script may only go on when its end marker has left the client
// (the model appends it to the queue in the call step).
type recDialer struct {
	mu     sync.Mutex
	conns  []*websocket.Conn
	writes atomic.Int64
}

type countConn struct {
	net.Conn
	n *atomic.Int64
}

func (c *countConn) Write(p []byte) (int, error) {
	n, err := c.Conn.Write(p)
	c.n.Add(1)
	return n, err
}

func (d *recDialer) DialContext(ctx context.Context, url string, h http.Header) (*websocket.Conn, *http.Response, error) {
	wd := &websocket.Dialer{
		HandshakeTimeout: 45 * time.Second,
		NetDialContext: func(ctx context.Context, network, addr string) (net.Conn, error) {
			c, err := (&net.Dialer{}).DialContext(ctx, network, addr)
			if err != nil {
				return nil, err
			}
			return &countConn{Conn: c, n: &d.writes}, nil
		},
	}
	c, r, err := wd.DialContext(ctx, url, h)
	if c != nil {
		d.mu.Lock()
		d.conns = append(d.conns, c)
		d.mu.Unlock()
	}
	return c, r, err
}

type recUpgrader struct {
	up    websocket.Upgrader
	mu    sync.Mutex
	conns []*websocket.Conn
}

func (u *recUpgrader) Upgrade(w http.ResponseWriter, r *http.Request, h http.Header) (*websocket.Conn, error) {
	c, err := u.up.Upgrade(w, r, h)
	if c != nil {
		u.mu.Lock()
		u.conns = append(u.conns, c)
		u.mu.Unlock()
	}
	return c, err
}

type silent struct{}

func (silent) Write(p []byte) (int, error) { return len(p), nil }

// runScript executes one script on a fresh server and client.
func runScript(g Glue, sc Script) Result {
	res := Result{ID: sc.ID, M: sc.M}
	hub := &Hub{invoked: make(chan invocation, 4), ops: make(chan op), res: make(chan Obs, 1), done: make(chan struct{})}
	mux := goahttp.NewMuxer()
	up := &recUpgrader{}
	g.Mount(hub, mux, up)
	srv := httptest.NewUnstartedServer(mux)
	srv.Config.ErrorLog = log.New(silent{}, "", 0)
	srv.Start()
	u, _ := url.Parse(srv.URL)
	dialer := &recDialer{}
	calls := g.Client("http", u.Host, srv.Client(), dialer)
	call, ok := calls[sc.M]
	if !ok {
		vio.Die("no client for method %q", sc.M)
	}
	ctx, cancel := context.WithCancel(context.Background())

	// client worker: executes client steps one after the other
	cops := make(chan op)
	cres := make(chan Obs, 1)
	cdone := make(chan struct{})
	go func() {
		defer close(cdone)
		var stream any
		for o := range cops {
			if o.name == "call" {
				st, err := call(ctx, payloads[o.v])
				if err != nil {
					cres <- Obs{Res: "error", Detail: fmt.Sprintf("%T: %v", err, err)}
					continue
				}
				stream = st
				ob := Obs{Res: "stream"}
				if f := reflect.ValueOf(st).Elem().FieldByName("view"); f.IsValid() {
					s := f.String()
					ob.View = &s
				}
				cres <- ob
				continue
			}
			if stream == nil {
				cres <- Obs{Res: "error", Detail: "no client stream"}
				continue
			}
			ob, _ := execOp(stream, o)
			cres <- ob
		}
	}()

	await := func(ch chan Obs) Obs {
		select {
		case o := <-ch:
			return o
		case <-time.After(*wait):
			return Obs{Res: "timeout"}
		}
	}
	serverUp := false // the service method is running and reads hub.ops
	serverBusy, clientBusy := false, ""
	for _, st := range sc.Steps {
		var ob Obs
		switch {
		case st.Side == "c" && (st.Op == "call" || st.Op == "recvcall" || st.Op == "carcall"):
			before := dialer.writes.Load()
			cops <- op{name: st.Op, v: st.V, view: st.View}
			clientBusy = "recv"
			if st.Op == "call" {
				clientBusy = "call"
			}
			ob = Obs{Res: "-"}
			if st.Op == "carcall" {
				// the end marker is on the wire (or the call has already returned) before the script goes on
				for t0 := time.Now(); dialer.writes.Load() == before && len(cres) == 0 && time.Since(t0) < *wait; {
					time.Sleep(20 * time.Microsecond)
				}
			}
		case st.Side == "c" && (st.Op == "callret" || st.Op == "recvret" || st.Op == "carret"):
			ob = await(cres)
			if ob.Res != "timeout" {
				clientBusy = ""
			}
		case st.Side == "c":
			cops <- op{name: st.Op, v: st.V, view: st.View}
			ob = await(cres)
			if ob.Res == "timeout" {
				clientBusy = "op"
			}
		case st.Side == "s" && st.Op == "invoked":
			select {
			case inv := <-hub.invoked:
				ob = Obs{Res: "ok", Rv: inv.payload}
				if inv.method != sc.M {
					ob = Obs{Res: "error", Detail: "method " + inv.method + " ran"}
				}
				serverUp = true
			case <-time.After(*wait):
				ob = Obs{Res: "timeout"}
			}
		case st.Side == "s" && !serverUp:
			ob = Obs{Res: "error", Detail: "service method not running"}
		case st.Side == "s" && st.Op == "recvcall":
			hub.ops <- op{name: st.Op}
			serverBusy = true
			ob = Obs{Res: "-"}
		case st.Side == "s" && st.Op == "recvret":
			ob = await(hub.res)
			serverBusy = ob.Res == "timeout"
		case st.Side == "s":
			hub.ops <- op{name: st.Op, v: st.V, view: st.View}
			ob = await(hub.res)
			serverBusy = ob.Res == "timeout"
			if st.Op == "return" || ob.Res == "panic" {
				serverUp = false
			}
		default:
			vio.Die("bad step %+v", st)
		}
		res.Obs = append(res.Obs, ob)
		if ob.Res == "timeout" {
			res.Stopped = "timeout"
			break
		}
		if st.Nd != "nd" && !(ob.Res == st.Res && (ob.Res != "val" || ob.Rv == st.Rv)) {
			res.Stopped = "mismatch"
			break
		}
	}

	// cleanup: end a pending endpoint call first (so that every connection made is known), then close both ends of
	// every connection, let the handler return, stop the workers
	cancel()
	closeAll := func() {
		dialer.mu.Lock()
		for _, c := range dialer.conns {
			c.Close()
		}
		dialer.mu.Unlock()
		up.mu.Lock()
		for _, c := range up.conns {
			c.Close()
		}
		up.mu.Unlock()
	}
	drain := func(ch chan Obs) bool {
		select {
		case <-ch:
			return true
		case <-time.After(*wait):
			return false
		}
	}
	if !serverUp {
		select {
		case <-hub.invoked: // the service method started and the script never asked
			serverUp = true
		default:
		}
	}
	if clientBusy == "call" {
		// the dial ends when the context is cancelled, when the upgrade arrives or when the handler returns
		if !serverBusy && serverUp {
			select {
			case hub.ops <- op{name: "return"}:
				drain(hub.res)
				serverUp = false
			case <-hub.done:
				serverUp = false
			case <-time.After(*wait):
			}
		}
		if !drain(cres) {
			srv.CloseClientConnections()
			if !drain(cres) {
				res.Leaked = true
			}
		}
		clientBusy = ""
	}
	closeAll()
	if serverBusy && !drain(hub.res) {
		res.Leaked = true
	}
	if serverUp {
		select {
		case hub.ops <- op{name: "return"}:
			drain(hub.res)
		case <-hub.done:
		case <-time.After(*wait):
			res.Leaked = true
		}
	}
	if clientBusy != "" && !drain(cres) {
		res.Leaked = true
	}
	close(cops)
	select {
	case <-cdone:
	case <-time.After(*wait):
		res.Leaked = true
	}
	closeAll()
	hub.mu.Lock()
	res.Invoked = hub.n
	hub.mu.Unlock()
	srv.CloseClientConnections()
	fin := make(chan struct{})
	go func() { srv.Close(); close(fin) }()
	select {
	case <-fin:
	case <-time.After(*wait):
		res.Leaked = true
	}
	close(hub.ops) // a service method starting this late finds nothing to do
	return res
}

// Main reads scripts (-in), runs them (-par at a time) and writes one Result per script (-out).
func Main(g Glue) {
	par := flag.Int("par", 8, "scripts run at the same time")
	flag.Parse()
	var scripts []Script
	if err := vio.ReadVectors(func(i int, raw json.RawMessage) error {
		var s Script
		if err := json.Unmarshal(raw, &s); err != nil {
			return err
		}
		scripts = append(scripts, s)
		return nil
	}); err != nil {
		vio.Die("%v", err)
	}
	results := make([]Result, len(scripts))
	var wg sync.WaitGroup
	sem := make(chan struct{}, *par)
	for i := range scripts {
		wg.Add(1)
		sem <- struct{}{}
		go func(i int) {
			defer wg.Done()
			defer func() { <-sem }()
			results[i] = runScript(g, scripts[i])
		}(i)
	}
	wg.Wait()
	w, err := vio.NewWriter()
	if err != nil {
		vio.Die("%v", err)
	}
	for _, r := range results {
		for i := range r.Obs {
			r.Obs[i].Detail = strings.ToValidUTF8(r.Obs[i].Detail, "?")
			if len(r.Obs[i].Detail) > 300 {
				r.Obs[i].Detail = r.Obs[i].Detail[:300]
			}
		}
		w.Emit(r)
	}
	w.Close()
}
