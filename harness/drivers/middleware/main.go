// Driver for C19: runs cases of spec/Middleware.tla on the real goa request-id, trace, log and
// response-capture middlewares (HTTP) and on the real gRPC unary/stream interceptors, and projects
// what handlers, downstream servers and recorders see onto the observables of the specification.
//
// A case is a configuration plus a list of top-level requests.  Every request goes through a chain
// of cfg.depth in-process servers; the handler of hop i calls hop i+1 through the traced client
// (WrapDoer / UnaryClientTrace / StreamClientTrace).  Nothing crosses a socket: the HTTP "network"
// is a Doer that serves a *new* request (copied headers only) on an httptest recorder, the gRPC
// "network" turns outgoing metadata into the incoming metadata of a fresh context.
package main

import (
	"context"
	"encoding/json"
	"flag"
	"fmt"
	"math/rand"
	"net/http"
	"net/http/httptest"
	"regexp"
	"strings"

	"google.golang.org/grpc"
	"google.golang.org/grpc/metadata"

	grpcm "goa.design/goa/v3/grpc/middleware"
	httpm "goa.design/goa/v3/http/middleware"
	"goa.design/goa/v3/middleware"

	"verif/harness/vio"
)

// ---- the case (as emitted by TLC / by the random generator) ---------------------------------

type Cfg struct {
	Transport string `json:"transport"`
	Trust     string `json:"trust"`
	Limit     int    `json:"limit"`
	Smode     string `json:"smode"`
	Pct       int    `json:"pct"`
	Ssize     int    `json:"ssize"`
	Discards  int    `json:"discards"`
	Depth     int    `json:"depth"`
	Forward   bool   `json:"forward"`
	Fwdmd     bool   `json:"fwdmd"`
	Hname     string `json:"hname"` // spelling of the name given to RequestIDHeaderOption
	// how the option lists are written: "plain" every option once, "rev" the trace options the other way round,
	// "dup" every setter twice (an overridden instance with another value first), discard patterns in between
	Layout string `json:"layout"`
}
type Op struct {
	Op string `json:"op"`
	V  int    `json:"v"`
}
type Req struct {
	RidAt    string `json:"ridAt"`
	RidLen   int    `json:"ridLen"`
	RidSpell string `json:"ridSpell"` // spelling of the header name used by the sender
	Trace    bool   `json:"trace"`
	Parent   bool   `json:"parent"`
	Dmatch   []bool `json:"dmatch"` // one per DiscardFromTrace pattern: does it match the path / method of this request
	Script   []Op   `json:"script"`
}

// ---- observations (field names = record fields of the specification) -------------------------

type Rid struct {
	Kind string `json:"kind"`
	N    int    `json:"n"`
	Len  int    `json:"len"`
}
type Wire struct {
	Rid    Rid    `json:"rid"`
	Ridc   Rid    `json:"ridc"`
	Trace  string `json:"trace"`
	Parent string `json:"parent"`
	Dmatch []bool `json:"dmatch"`
}
type HopObs struct {
	Q      int    `json:"q"`
	Hop    int    `json:"hop"`
	In     Wire   `json:"in"`
	Rid    Rid    `json:"rid"`
	Md     Rid    `json:"md"`
	Trace  string `json:"trace"`
	Span   string `json:"span"`
	Parent string `json:"parent"`
}
type FwdObs struct {
	Q   int  `json:"q"`
	Hop int  `json:"hop"`
	Out Wire `json:"out"`
}
type CapObs struct {
	Q     int `json:"q"`
	Hop   int `json:"hop"`
	St    int `json:"st"`
	By    int `json:"by"`
	Lst   int `json:"lst"`
	Lby   int `json:"lby"`
	Rst   int `json:"rst"`
	Rby   int `json:"rby"`
	Logid Rid `json:"logid"`
}
type Obs struct {
	Hops  []HopObs `json:"hops"`
	Fwds  []FwdObs `json:"fwds"`
	Caps  []CapObs `json:"caps"`
	Panic string   `json:"panic,omitempty"` // the code under test panicked (never a behaviour of the specification)
}
type Event struct {
	Ev string `json:"ev"`
	O  any    `json:"o,omitempty"`
}

const (
	stdHeader    = "X-Request-Id"
	customHeader = "X-Correlation-Id"
	inboundTrace = "T0"
	inboundSpan  = "P0"
	inboundChars = "#$%&()*+:;<=>?@[]^{|}~!#$%&()*+:;<=>?@[]^{|}~!" // none of them occurs in a generated id
	otherHeader  = "X-Overridden-Id"                                // given to an overridden RequestIDHeaderOption; no request carries it
)

// The i-th DiscardFromTrace pattern matches exactly the paths / full methods that carry the marker
// segment "d<i>/" (path = /svc/ [d1/] [d2/] [d3/] Work).  The three patterns are written in three
// styles: partial match, anchored prefix, alternation anchored at the end.
var discardPatterns = []*regexp.Regexp{
	regexp.MustCompile(`/d1/`),
	regexp.MustCompile(`^/svc/(d1/)?d2/`),
	regexp.MustCompile(`^/never$|/d3/Work$`),
}

// ---- one running case ---------------------------------------------------------------------

type run struct {
	cfg    Cfg
	reqs   []Req
	obs    Obs
	events []Event
	nT, nS int
	// request-id projection: every concrete string seen so far and what it stands for
	known  map[string]Rid
	nFresh int
	q      int
	http   []*httpServer
	grpc   []*grpcServer
}

func noRid() Rid { return Rid{Kind: "none"} }

// projHeader projects a received header/metadata value (present tells an empty value from an absent one).
func (r *run) projHeader(v string, present bool) Rid {
	if !present {
		return noRid()
	}
	if v == "" {
		return Rid{Kind: "inbound", N: 0, Len: 0}
	}
	if k, ok := r.known[v]; ok {
		return k
	}
	return Rid{Kind: "unknown", N: 0, Len: len(v)}
}

// projID projects an identifier found in a context / metadata / log entry, given the header values
// that arrived at this hop: a non-empty prefix of one of them is "that value cut at len", a string
// seen before is itself, anything else is a new fresh identifier.
func (r *run) projID(s string, received ...string) Rid {
	if s == "" {
		return noRid()
	}
	for _, v := range received {
		if v != "" && strings.HasPrefix(v, s) {
			if src, ok := r.known[v]; ok {
				k := Rid{Kind: src.Kind, N: src.N, Len: len(s)}
				r.known[s] = k // the latest derivation wins (requests run one after the other)
				return k
			}
		}
	}
	if k, ok := r.known[s]; ok {
		return k
	}
	r.nFresh++
	k := Rid{Kind: "fresh", N: r.nFresh, Len: len(s)}
	r.known[s] = k
	return k
}

func tok(v any) string {
	if v == nil {
		return "none"
	}
	s, ok := v.(string)
	if !ok {
		return "?type"
	}
	if s == "" {
		return "empty"
	}
	return s
}
func hdrTok(s string) string {
	if s == "" {
		return "none"
	}
	return s
}

// spell returns a header name in one of the spellings of the specification (same name, case differs).
func spell(canon, how string) string {
	switch how {
	case "", "canon":
		return canon
	case "lower":
		return strings.ToLower(canon)
	case "mixed":
		return strings.TrimSuffix(canon, "Id") + "ID"
	}
	vio.Die("unknown spelling %q", how)
	return ""
}

func (r *run) customName() string { return spell(customHeader, r.cfg.Hname) }

func (r *run) ridOptions() []middleware.RequestIDOption {
	o := r.ridOptionsOnce()
	if r.cfg.Layout != "dup" {
		return o
	}
	// every setter that is given is given twice: the first instance (another value) is overridden by the later one
	var over []middleware.RequestIDOption
	switch r.cfg.Trust {
	case "on":
		over = append(over, middleware.UseRequestIDOption(false))
	case "off":
		over = append(over, middleware.UseRequestIDOption(true))
	case "custom":
		over = append(over, middleware.RequestIDHeaderOption(otherHeader))
	case "on_custom":
		over = append(over, middleware.UseRequestIDOption(false), middleware.RequestIDHeaderOption(otherHeader))
	case "custom_off":
		over = append(over, middleware.RequestIDHeaderOption(otherHeader), middleware.UseRequestIDOption(true))
	}
	if r.limitGiven() {
		over = append(over, middleware.RequestIDLimitOption(r.cfg.Limit+1))
	}
	return append(over, o...)
}

// limit 0 = "no limit": either the option is not given or it is given with 0
func (r *run) limitGiven() bool { return r.cfg.Limit > 0 || r.cfg.Depth%2 == 0 }

func (r *run) ridOptionsOnce() []middleware.RequestIDOption {
	var o []middleware.RequestIDOption
	switch r.cfg.Trust {
	case "none":
	case "on":
		o = append(o, middleware.UseRequestIDOption(true))
	case "off":
		o = append(o, middleware.UseRequestIDOption(false))
	case "custom":
		o = append(o, middleware.RequestIDHeaderOption(r.customName()))
	case "on_custom":
		o = append(o, middleware.UseRequestIDOption(true), middleware.RequestIDHeaderOption(r.customName()))
	case "custom_off":
		o = append(o, middleware.RequestIDHeaderOption(r.customName()), middleware.UseRequestIDOption(false))
	default:
		vio.Die("unknown trust mode %q", r.cfg.Trust)
	}
	if r.limitGiven() {
		// options are independent setters: the position of the limit among them must not matter (Middleware.tla has
		// no notion of it); it is put first or last depending on the case so that both orders are exercised
		if (r.cfg.Limit+r.cfg.Depth+len(r.cfg.Trust))%2 == 1 {
			o = append([]middleware.RequestIDOption{middleware.RequestIDLimitOption(r.cfg.Limit)}, o...)
		} else {
			o = append(o, middleware.RequestIDLimitOption(r.cfg.Limit))
		}
	}
	return o
}

func (r *run) traceOptions() []middleware.TraceOption {
	type opts = []middleware.TraceOption
	tid := middleware.TraceIDFunc(func() string { r.nT++; return fmt.Sprintf("t%d", r.nT) })
	sid := middleware.SpanIDFunc(func() string { r.nS++; return fmt.Sprintf("s%d", r.nS) })
	// sampling options (SamplingPercent and MaxSamplingRate are documented as mutually exclusive: never both)
	// and the overridden instances a "dup" layout puts in front of them (Middleware.tla: OtherPct, another sample size)
	var samp, over opts
	switch r.cfg.Smode {
	case "default":
	case "percent":
		other := 100
		if r.cfg.Pct == 100 {
			other = 0
		}
		samp = opts{middleware.SamplingPercent(r.cfg.Pct)}
		over = opts{middleware.SamplingPercent(other)}
	case "adaptive":
		samp = opts{middleware.MaxSamplingRate(1), middleware.SampleSize(r.cfg.Ssize)}
		// a SMALLER overridden sample size would end the warm-up early if it were the one in force
		osize := 1
		if r.cfg.Ssize == 1 {
			osize = 2
		}
		over = opts{middleware.SampleSize(osize), middleware.MaxSamplingRate(9)}
	default:
		vio.Die("unknown sampling mode %q", r.cfg.Smode)
	}
	if r.cfg.Discards < 0 || r.cfg.Discards > len(discardPatterns) {
		vio.Die("bad number of discard patterns %d", r.cfg.Discards)
	}
	// the discard patterns, always in the order of their positions
	disc := make(opts, r.cfg.Discards)
	for i := range disc {
		disc[i] = middleware.DiscardFromTrace(discardPatterns[i])
	}
	var o opts
	switch r.cfg.Layout {
	case "", "plain":
		o = append(append(append(o, tid, sid), samp...), disc...)
	case "rev":
		o = append(o, disc...)
		for i := len(samp) - 1; i >= 0; i-- {
			o = append(o, samp[i])
		}
		o = append(o, sid, tid)
	case "dup":
		// the patterns are spread over the list: before, between and after the setters
		take := func(n int) {
			if n > len(disc) {
				n = len(disc)
			}
			o = append(o, disc[:n]...)
			disc = disc[n:]
		}
		o = append(o, middleware.TraceIDFunc(func() string { return "overriddenT" }))
		take(1)
		o = append(o, over...)
		o = append(o, middleware.SpanIDFunc(func() string { return "overriddenS" }), tid)
		take(1)
		o = append(append(o, samp...), sid)
		take(len(disc))
	default:
		vio.Die("unknown option layout %q", r.cfg.Layout)
	}
	return o
}

// path returns the path / full method matched by exactly the patterns at the positions set in dmatch.
func (r *run) path(dmatch []bool) string {
	if len(dmatch) != r.cfg.Discards {
		vio.Die("request says which of %d patterns match it, the configuration has %d", len(dmatch), r.cfg.Discards)
	}
	p := "/svc/"
	for i, m := range dmatch {
		if m {
			p += fmt.Sprintf("d%d/", i+1)
		}
	}
	return p + "Work"
}

// matchOfPath reads the markers back from a path seen by a server (the patterns themselves are not consulted).
func (r *run) matchOfPath(path string) []bool {
	m := make([]bool, r.cfg.Discards)
	for i := range m {
		m[i] = strings.Contains(path, fmt.Sprintf("/d%d/", i+1))
	}
	return m
}
func (r *run) forwardHeader() string {
	if r.cfg.Trust == "custom" || r.cfg.Trust == "on_custom" {
		return r.customName()
	}
	return stdHeader
}
func (r *run) hopEvent(h HopObs) {
	r.obs.Hops = append(r.obs.Hops, h)
	r.events = append(r.events, Event{"hop", h})
}
func (r *run) fwdEvent(f FwdObs) {
	r.obs.Fwds = append(r.obs.Fwds, f)
	r.events = append(r.events, Event{"forward", f})
}
func (r *run) capEvent(c CapObs) {
	r.obs.Caps = append(r.obs.Caps, c)
	r.events = append(r.events, Event{"capture", c})
}

// ---- HTTP binding ---------------------------------------------------------------------------

type logRec struct {
	id     any
	status any
	bytes  any
}

func (l *logRec) Log(keyvals ...any) error {
	for i := 0; i+1 < len(keyvals); i += 2 {
		switch keyvals[i] {
		case "id":
			l.id = keyvals[i+1]
		case "status":
			l.status = keyvals[i+1]
		case "bytes":
			l.bytes = keyvals[i+1]
		}
	}
	return nil
}

type httpServer struct {
	r      *run
	hop    int
	h      http.Handler
	log    *logRec
	in     Wire     // inbound headers of the call being served
	recv   []string // raw request-id header values of the call being served
	direct *httpm.ResponseCapture
}

func (r *run) wireOfHeader(h http.Header, path string) (Wire, []string) {
	get := func(name string) (string, bool) {
		vs, ok := h[http.CanonicalHeaderKey(name)]
		if !ok || len(vs) == 0 {
			return "", false
		}
		return vs[0], true
	}
	sv, sp := get(stdHeader)
	cv, cp := get(customHeader)
	return Wire{Rid: r.projHeader(sv, sp), Ridc: r.projHeader(cv, cp),
		Trace: hdrTok(h.Get(httpm.TraceIDHeader)), Parent: hdrTok(h.Get(httpm.ParentSpanIDHeader)),
		Dmatch: r.matchOfPath(path)}, []string{sv, cv}
}

func (r *run) newHTTPServer(hop int) *httpServer {
	s := &httpServer{r: r, hop: hop, log: &logRec{}}
	user := http.HandlerFunc(func(w http.ResponseWriter, req *http.Request) {
		ctx := req.Context()
		id, _ := ctx.Value(middleware.RequestIDKey).(string)
		s.r.hopEvent(HopObs{Q: r.q, Hop: hop, In: s.in, Rid: r.projID(id, s.recv...), Md: noRid(),
			Trace: tok(ctx.Value(middleware.TraceIDKey)), Span: tok(ctx.Value(middleware.TraceSpanIDKey)),
			Parent: tok(ctx.Value(middleware.TraceParentSpanIDKey))})
		if hop < r.cfg.Depth {
			out, err := http.NewRequestWithContext(ctx, "GET", "http://hop"+req.URL.Path, nil)
			if err != nil {
				vio.Die("%v", err)
			}
			if r.cfg.Fwdmd {
				// the handler passes the trace headers it received on: the traced client must replace them
				for _, name := range []string{httpm.TraceIDHeader, httpm.ParentSpanIDHeader} {
					if vs, ok := req.Header[http.CanonicalHeaderKey(name)]; ok {
						out.Header[http.CanonicalHeaderKey(name)] = append([]string{}, vs...)
					}
				}
			}
			if r.cfg.Forward {
				out.Header.Set(r.forwardHeader(), id)
			}
			doer := httpm.WrapDoer(&inproc{r: r, from: hop, next: r.http[hop]})
			if _, err := doer.Do(out); err != nil {
				vio.Die("%v", err)
			}
		}
		script := r.reqs[r.q-1].Script
		for _, op := range script {
			switch op.Op {
			case "wh":
				w.WriteHeader(op.V)
			case "w":
				if _, err := w.Write(make([]byte, op.V)); err != nil {
					vio.Die("write: %v", err)
				}
			case "fl":
				w.(http.Flusher).Flush()
			default:
				vio.Die("unknown op %q", op.Op)
			}
		}
	})
	direct := func(h http.Handler) http.Handler {
		return http.HandlerFunc(func(w http.ResponseWriter, req *http.Request) {
			s.direct = httpm.CaptureResponse(w)
			h.ServeHTTP(s.direct, req)
		})
	}
	s.h = httpm.RequestID(r.ridOptions()...)(httpm.Trace(r.traceOptions()...)(httpm.Log(s.log)(direct(user))))
	return s
}

// serve is "the network": a new server-side request that shares nothing but the headers.
func (s *httpServer) serve(h http.Header, path string) *http.Response {
	r := s.r
	req := httptest.NewRequest("GET", "http://hop"+path, nil)
	req.Header = h.Clone()
	s.in, s.recv = r.wireOfHeader(req.Header, path)
	*s.log = logRec{}
	s.direct = nil
	rec := httptest.NewRecorder()
	s.h.ServeHTTP(rec, req)
	lst, _ := s.log.status.(int)
	lby, _ := s.log.bytes.(int)
	lid, _ := s.log.id.(string)
	if s.log.status == nil {
		lst = -1
	}
	if s.direct == nil {
		vio.Die("handler of hop %d not reached", s.hop)
	}
	r.capEvent(CapObs{Q: r.q, Hop: s.hop, St: s.direct.StatusCode, By: s.direct.ContentLength, Lst: lst, Lby: lby,
		Rst: rec.Code, Rby: rec.Body.Len(), Logid: r.projID(lid)})
	return rec.Result()
}

type inproc struct {
	r    *run
	from int
	next *httpServer
}

func (d *inproc) Do(req *http.Request) (*http.Response, error) {
	w, _ := d.r.wireOfHeader(req.Header, req.URL.Path)
	d.r.fwdEvent(FwdObs{Q: d.r.q, Hop: d.from, Out: w})
	return d.next.serve(req.Header, req.URL.Path), nil
}

// ---- gRPC binding ---------------------------------------------------------------------------

type grpcServer struct {
	r      *run
	hop    int
	stream bool
	uRid   grpc.UnaryServerInterceptor
	uTrace grpc.UnaryServerInterceptor
	sRid   grpc.StreamServerInterceptor
	sTrace grpc.StreamServerInterceptor
}

type fakeStream struct {
	grpc.ServerStream
	ctx context.Context
}

func (f *fakeStream) Context() context.Context { return f.ctx }

func (r *run) wireOfMD(md metadata.MD, method string) (Wire, []string) {
	get := func(key string) (string, bool) {
		vs := md.Get(key)
		if len(vs) == 0 {
			return "", false
		}
		return vs[0], true
	}
	sv, sp := get(grpcm.RequestIDMetadataKey)
	cv, cp := get(strings.ToLower(customHeader))
	tv, _ := get(grpcm.TraceIDMetadataKey)
	pv, _ := get(grpcm.ParentSpanIDMetadataKey)
	return Wire{Rid: r.projHeader(sv, sp), Ridc: r.projHeader(cv, cp), Trace: hdrTok(tv), Parent: hdrTok(pv),
		Dmatch: r.matchOfPath(method)}, []string{sv, cv}
}

func (r *run) newGRPCServer(hop int, stream bool) *grpcServer {
	s := &grpcServer{r: r, hop: hop, stream: stream}
	if stream {
		s.sRid = grpcm.StreamRequestID(r.ridOptions()...)
		s.sTrace = grpcm.StreamServerTrace(r.traceOptions()...)
	} else {
		s.uRid = grpcm.UnaryRequestID(r.ridOptions()...)
		s.uTrace = grpcm.UnaryServerTrace(r.traceOptions()...)
	}
	return s
}

// serve is "the network": the server context carries the incoming metadata and nothing else.
func (s *grpcServer) serve(md metadata.MD, method string) {
	r := s.r
	in, recv := r.wireOfMD(md, method)
	ctx := metadata.NewIncomingContext(context.Background(), md.Copy())
	user := func(ctx context.Context) error {
		id, _ := ctx.Value(middleware.RequestIDKey).(string)
		hmd, _ := metadata.FromIncomingContext(ctx)
		var mdid string
		if vs := hmd.Get(grpcm.RequestIDMetadataKey); len(vs) > 0 {
			mdid = vs[0]
			if len(vs) > 1 {
				mdid = "?multiple"
			}
		}
		rid := r.projID(id, recv...)
		r.hopEvent(HopObs{Q: r.q, Hop: s.hop, In: in, Rid: rid, Md: r.projID(mdid, recv...),
			Trace: tok(ctx.Value(middleware.TraceIDKey)), Span: tok(ctx.Value(middleware.TraceSpanIDKey)),
			Parent: tok(ctx.Value(middleware.TraceParentSpanIDKey))})
		if s.hop < r.cfg.Depth {
			octx := ctx
			if r.cfg.Fwdmd {
				// the handler forwards its incoming metadata downstream: the traced client must replace the trace keys
				octx = metadata.NewOutgoingContext(octx, hmd.Copy())
			}
			if r.cfg.Forward {
				octx = metadata.AppendToOutgoingContext(octx, grpcm.RequestIDMetadataKey, id)
			}
			next := r.grpc[s.hop]
			network := func(ctx context.Context, method string) {
				omd, _ := metadata.FromOutgoingContext(ctx)
				w, _ := r.wireOfMD(omd, method)
				r.fwdEvent(FwdObs{Q: r.q, Hop: s.hop, Out: w})
				next.serve(omd, method)
			}
			if s.stream {
				_, err := grpcm.StreamClientTrace()(octx, &grpc.StreamDesc{}, nil, method,
					func(ctx context.Context, desc *grpc.StreamDesc, cc *grpc.ClientConn, method string, opts ...grpc.CallOption) (grpc.ClientStream, error) {
						network(ctx, method)
						return nil, nil
					})
				if err != nil {
					vio.Die("%v", err)
				}
			} else {
				err := grpcm.UnaryClientTrace()(octx, method, nil, nil, nil,
					func(ctx context.Context, method string, req, reply any, cc *grpc.ClientConn, opts ...grpc.CallOption) error {
						network(ctx, method)
						return nil
					})
				if err != nil {
					vio.Die("%v", err)
				}
			}
		}
		return nil
	}
	reached := false
	if s.stream {
		info := &grpc.StreamServerInfo{FullMethod: method, IsServerStream: true}
		err := s.sRid(nil, &fakeStream{ctx: ctx}, info, func(srv any, ss grpc.ServerStream) error {
			return s.sTrace(srv, ss, info, func(srv any, ss grpc.ServerStream) error {
				reached = true
				return user(ss.Context())
			})
		})
		if err != nil {
			vio.Die("%v", err)
		}
	} else {
		info := &grpc.UnaryServerInfo{FullMethod: method}
		_, err := s.uRid(ctx, nil, info, func(ctx context.Context, req any) (any, error) {
			return s.uTrace(ctx, req, info, func(ctx context.Context, req any) (any, error) {
				reached = true
				return nil, user(ctx)
			})
		})
		if err != nil {
			vio.Die("%v", err)
		}
	}
	if !reached {
		vio.Die("handler of hop %d not reached", s.hop)
	}
}

// ---- running a case -------------------------------------------------------------------------

func inboundValue(l int) string { return inboundChars[:l] }

func runCase(cfg Cfg, reqs []Req) (r *run) {
	r = &run{cfg: cfg, reqs: reqs, known: map[string]Rid{}, obs: Obs{Hops: []HopObs{}, Fwds: []FwdObs{}, Caps: []CapObs{}}}
	defer func() {
		if p := recover(); p != nil {
			r.obs.Panic = fmt.Sprint(p)
			r.events = append(r.events, Event{"panic", map[string]string{"value": r.obs.Panic}})
		}
	}()
	if cfg.Depth < 1 || cfg.Depth > 8 {
		vio.Die("bad depth %d", cfg.Depth)
	}
	for h := 1; h <= cfg.Depth; h++ {
		switch cfg.Transport {
		case "http":
			r.http = append(r.http, r.newHTTPServer(h))
		case "grpc_unary":
			r.grpc = append(r.grpc, r.newGRPCServer(h, false))
		case "grpc_stream":
			r.grpc = append(r.grpc, r.newGRPCServer(h, true))
		default:
			vio.Die("unknown transport %q", cfg.Transport)
		}
	}
	for i, rq := range reqs {
		r.q = i + 1
		if rq.RidLen > len(inboundChars) {
			vio.Die("inbound request id too long")
		}
		v := inboundValue(rq.RidLen)
		if v != "" {
			r.known[v] = Rid{Kind: "inbound", N: 0, Len: len(v)}
		}
		if cfg.Transport == "http" {
			h := http.Header{}
			switch rq.RidAt {
			// like net/http does for a request read from the wire, Set stores the name in canonical form
			case "std":
				h.Set(spell(stdHeader, rq.RidSpell), v)
			case "custom":
				h.Set(spell(customHeader, rq.RidSpell), v)
			}
			if rq.Trace {
				h.Set(httpm.TraceIDHeader, inboundTrace)
			}
			if rq.Parent {
				h.Set(httpm.ParentSpanIDHeader, inboundSpan)
			}
			r.http[0].serve(h, r.path(rq.Dmatch))
		} else {
			md := metadata.MD{}
			switch rq.RidAt {
			// grpc lower-cases metadata keys
			case "std":
				md.Set(spell(stdHeader, rq.RidSpell), v)
			case "custom":
				md.Set(spell(customHeader, rq.RidSpell), v)
			}
			if rq.Trace {
				md.Set(grpcm.TraceIDMetadataKey, inboundTrace)
			}
			if rq.Parent {
				md.Set(grpcm.ParentSpanIDMetadataKey, inboundSpan)
			}
			r.grpc[0].serve(md, r.path(rq.Dmatch))
		}
	}
	return r
}

// ---- random cases beyond the TLC enumeration ------------------------------------------------

func randCase(rn *rand.Rand) (Cfg, []Req) {
	c := Cfg{Depth: 1 + rn.Intn(4), Pct: 100, Ssize: 1}
	c.Transport = []string{"http", "grpc_unary", "grpc_stream"}[rn.Intn(3)]
	if c.Transport == "http" {
		c.Trust = []string{"none", "on", "off", "custom", "on_custom", "custom_off"}[rn.Intn(6)]
	} else {
		c.Trust = []string{"none", "on", "off"}[rn.Intn(3)]
	}
	if rn.Intn(3) > 0 {
		c.Limit = rn.Intn(12)
	}
	switch rn.Intn(4) {
	case 0:
		c.Smode = "default"
	case 1:
		c.Smode, c.Pct = "percent", []int{0, 100, 1 + rn.Intn(99)}[rn.Intn(3)]
	case 2:
		c.Smode, c.Pct = "percent", []int{0, 100}[rn.Intn(2)]
	default:
		c.Smode, c.Ssize = "adaptive", 1+rn.Intn(5)
	}
	c.Discards = rn.Intn(len(discardPatterns) + 1)
	c.Layout = []string{"plain", "rev", "dup"}[rn.Intn(3)]
	c.Forward = c.Depth > 1 && rn.Intn(2) == 0
	c.Fwdmd = c.Depth > 1 && rn.Intn(2) == 0
	c.Hname = "canon"
	if strings.Contains(c.Trust, "custom") {
		c.Hname = []string{"canon", "lower", "mixed"}[rn.Intn(3)]
	}
	n := 1 + rn.Intn(5)
	reqs := make([]Req, n)
	for i := range reqs {
		q := Req{RidAt: []string{"none", "std", "custom"}[rn.Intn(3)], Trace: rn.Intn(3) == 0, Parent: rn.Intn(3) == 0,
			Dmatch: make([]bool, c.Discards), Script: []Op{}}
		if rn.Intn(2) == 0 { // every second request: each pattern matches with probability 1/2
			for j := range q.Dmatch {
				q.Dmatch[j] = rn.Intn(2) == 0
			}
		}
		q.RidSpell = "canon"
		if q.RidAt != "none" {
			q.RidLen = rn.Intn(c.Limit + 3)
			q.RidSpell = []string{"canon", "lower", "mixed"}[rn.Intn(3)]
		}
		if c.Transport == "http" {
			for k := rn.Intn(6); k > 0; k-- {
				switch rn.Intn(5) {
				case 0, 1:
					q.Script = append(q.Script, Op{"wh", []int{200, 201, 400, 404, 500, 503}[rn.Intn(6)]})
				case 2, 3:
					q.Script = append(q.Script, Op{"w", rn.Intn(21)})
				default:
					q.Script = append(q.Script, Op{"fl", 0})
				}
			}
		}
		reqs[i] = q
	}
	return c, reqs
}

func main() {
	nrand := flag.Int("random", 0, "number of random cases to run and log as trace events")
	events := flag.Bool("events", false, "write the event log of the input cases instead of their observations")
	flag.Parse()
	w, err := vio.NewWriter()
	if err != nil {
		vio.Die("%v", err)
	}
	defer w.Close()
	err = vio.ReadVectors(func(i int, raw json.RawMessage) error {
		var v struct {
			Cfg  Cfg   `json:"cfg"`
			Reqs []Req `json:"reqs"`
		}
		if err := json.Unmarshal(raw, &v); err != nil {
			return err
		}
		r := runCase(v.Cfg, v.Reqs)
		if *events {
			w.Emit(map[string]any{"ev": "reset", "cfg": v.Cfg, "reqs": v.Reqs})
			for _, e := range r.events {
				w.Emit(e)
			}
			w.Emit(map[string]any{"ev": "end"})
			return nil
		}
		w.Emit(map[string]any{"i": i, "obs": r.obs})
		return nil
	})
	if err != nil {
		vio.Die("%v", err)
	}
	rn := rand.New(rand.NewSource(*vio.Seed))
	for c := 0; c < *nrand; c++ {
		cfg, reqs := randCase(rn)
		r := runCase(cfg, reqs)
		w.Emit(map[string]any{"ev": "reset", "cfg": cfg, "reqs": reqs})
		for _, e := range r.events {
			w.Emit(e)
		}
		w.Emit(map[string]any{"ev": "end"})
	}
}
