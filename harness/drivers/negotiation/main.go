// Driver for C15: runs goa's real content negotiation (http.ResponseEncoder, http.SetContentType,
// http.ResponseDecoder, http.RequestEncoder, http.RequestDecoder, http.ErrorEncoder) on cases
// enumerated by TLC from spec/Negotiation.tla (or drawn at random with -random N) and projects what
// happened onto the observables of the specification.
//
// The driver never decides what is right.  It reports
//   - whether the encoder was nil, the format of the bytes actually written (sniffed with the
//     standard library decoders only), the decoder the library picked for the header that was
//     written, and whether that decoder recovered the original value;
//   - the environment facts the specification needs about every string of the case
//     (mime.ParseMediaType results, computed with the standard library only).
// For the hard-coded fact table of the model ("fact"/"codec" vectors) it verifies that the standard
// library still behaves as the table says and exits 3 otherwise.
package main

import (
	"bytes"
	"context"
	"encoding/gob"
	"encoding/json"
	"encoding/xml"
	"flag"
	"fmt"
	"io"
	"math/rand"
	"mime"
	"net/http"
	"net/http/httptest"
	"reflect"
	"sort"
	"strings"

	goahttp "goa.design/goa/v3/http"

	"verif/harness/vio"
)

// ---------------------------------------------------------------- environment facts (stdlib only)

type Fact struct {
	S    string `json:"s"`
	OK   bool   `json:"ok"`
	MT   string `json:"mt"`
	Eff  string `json:"eff"`
	Suf  string `json:"suf"`
	Plus bool   `json:"plus"`
}

func factOf(s string) Fact {
	mt, _, err := mime.ParseMediaType(s)
	f := Fact{S: s, OK: err == nil, MT: mt, Plus: strings.Contains(s, "+")}
	f.Eff = s
	if f.OK {
		f.Eff = mt
	}
	if i := strings.LastIndex(f.Eff, "+"); i >= 0 {
		f.Suf = f.Eff[i:]
	}
	return f
}

var supported = []string{"application/json", "application/xml", "application/gob", "text/html", "text/plain"}

// factClosure returns the facts of every string the specification may ask about in a case: the given
// strings and the media types the parser returns for them; for a pre-set response header also the
// header with a structured suffix appended.
func factClosure(preset string, ss ...string) []Fact {
	seen := map[string]bool{}
	var out []Fact
	add := func(s string) {
		for _, x := range []string{s, factOf(s).MT} {
			if x != "" && !seen[x] {
				seen[x] = true
				out = append(out, factOf(x))
			}
		}
	}
	for _, s := range ss {
		add(s)
	}
	if preset != "" {
		add(preset)
		add(preset + "+json")
		add(preset + "+xml")
	}
	for _, s := range supported {
		add(s)
	}
	sort.Slice(out, func(i, j int) bool { return out[i].S < out[j].S })
	return out
}

// ---------------------------------------------------------------- values

type S struct {
	A string   `json:"a" xml:"a"`
	B int      `json:"b" xml:"b"`
	C []string `json:"c" xml:"c"`
}

type value struct {
	send   any        // what is handed to the encoder
	target func() any // fresh pointer to decode into
	equal  func(got any) bool
	raw    []byte // the text form, nil when the kind has none
}

func mkValue(kind string) value {
	switch kind {
	case "struct":
		v := S{A: "hello, <w&rld>", B: 42, C: []string{"x", "y z"}}
		return value{send: &v, target: func() any { return &S{} }, equal: func(g any) bool { return reflect.DeepEqual(*g.(*S), v) }}
	case "string":
		v := "plain text value"
		return value{send: v, target: func() any { return new(string) }, equal: func(g any) bool { return *g.(*string) == v }, raw: []byte(v)}
	case "strptr":
		v := "pointer text value"
		return value{send: &v, target: func() any { return new(string) }, equal: func(g any) bool { return *g.(*string) == v }, raw: []byte(v)}
	case "bytes":
		v := []byte("raw bytes value")
		return value{send: v, target: func() any { return new([]byte) }, equal: func(g any) bool { return bytes.Equal(*g.(*[]byte), v) }, raw: v}
	case "errresp":
		v := goahttp.ErrorResponse{Name: "bad_thing", ID: "id-1", Message: "it went <wrong>", Temporary: true, Fault: true}
		return value{send: &v, target: func() any { return &goahttp.ErrorResponse{} }, equal: func(g any) bool { return *g.(*goahttp.ErrorResponse) == v }}
	}
	vio.Die("unknown value kind %q", kind)
	return value{}
}

var kinds = []string{"struct", "string", "bytes", "strptr", "errresp"}
var formats = []string{"json", "xml", "gob", "text"}

// stdEncode writes v in the given format with the standard library only ("text" = the raw bytes).
func stdEncode(format string, v value) ([]byte, error) {
	var buf bytes.Buffer
	switch format {
	case "json":
		return json.Marshal(v.send)
	case "xml":
		return xml.Marshal(v.send)
	case "gob":
		err := gob.NewEncoder(&buf).Encode(v.send)
		return buf.Bytes(), err
	case "text":
		if v.raw == nil {
			return nil, fmt.Errorf("no text form")
		}
		return v.raw, nil
	}
	vio.Die("unknown format %q", format)
	return nil, nil
}

// stdDecodes reports whether b is the value in the given format, judged by the standard library only.
func stdDecodes(format string, b []byte, v value) bool {
	t := v.target()
	var err error
	switch format {
	case "json":
		err = json.Unmarshal(b, t)
	case "xml":
		err = xml.Unmarshal(b, t)
	case "gob":
		err = gob.NewDecoder(bytes.NewReader(b)).Decode(t)
	case "text":
		return v.raw != nil && bytes.Equal(b, v.raw)
	}
	return err == nil && v.equal(t)
}

// sniff names the format of the bytes written for v, independently of goa.
func sniff(b []byte, v value) string {
	for _, f := range []string{"gob", "json", "xml", "text"} {
		if stdDecodes(f, b, v) {
			return f
		}
	}
	return "unknown"
}

func decoderFormat(d goahttp.Decoder) string {
	switch d.(type) {
	case *json.Decoder:
		return "json"
	case *xml.Decoder:
		return "xml"
	case *gob.Decoder:
		return "gob"
	}
	if t := fmt.Sprintf("%T", d); strings.HasSuffix(t, ".textDecoder") {
		return "text"
	} else if strings.HasSuffix(t, ".unsupportedDecoder") {
		return "unsupported"
	}
	return "unknown"
}

// ---------------------------------------------------------------- cases

type Case struct {
	Mode   string `json:"mode"`
	AccP   bool   `json:"accP"`
	Acc    string `json:"acc"`
	Des    string `json:"des"`
	Pre    string `json:"pre"`
	Kind   string `json:"kind"`
	Rct    string `json:"rct"`
	Sender string `json:"sender"`
	Sfmt   string `json:"sfmt"`
	// fact vectors
	Fact
	Fmt string `json:"fmt"`
	Can bool   `json:"can"`
}

type ev map[string]any

func runResponse(c Case) (map[string]any, []ev) {
	v := mkValue(c.Kind)
	ctx := context.Background()
	if c.AccP {
		// the generated handler always stores the (possibly empty) Accept header
		ctx = context.WithValue(ctx, goahttp.AcceptTypeKey, c.Acc)
	}
	if c.Des != "" {
		// the generated response encoder stores the designed content type only when there is one
		ctx = context.WithValue(ctx, goahttp.ContentTypeKey, c.Des)
	}
	w := httptest.NewRecorder()
	if c.Pre != "" {
		w.Header().Set("Content-Type", c.Pre)
	}
	enc := goahttp.ResponseEncoder(ctx, w)
	encnil := enc == nil || (reflect.ValueOf(enc).Kind() == reflect.Ptr && reflect.ValueOf(enc).IsNil())
	hdr := w.Header().Get("Content-Type")
	body := "none"
	if !encnil {
		if err := enc.Encode(v.send); err == nil {
			body = sniff(w.Body.Bytes(), v)
		}
	}
	resp := w.Result()
	if got := resp.Header.Get("Content-Type"); got != hdr {
		vio.Die("recorder changed the header: %q -> %q", hdr, got)
	}
	dec := goahttp.ResponseDecoder(resp)
	df := decoderFormat(dec)
	rt := "none"
	if body != "none" {
		t := v.target()
		if err := dec.Decode(t); err == nil && v.equal(t) {
			rt = "equal"
		} else {
			rt = "not_equal"
		}
	}
	obsdec := df
	if body == "none" {
		obsdec = "none" // nothing was written: which decoder the header selects is immaterial
	}
	obs := map[string]any{"encnil": encnil, "body": body, "dec": obsdec, "rt": rt}
	evs := []ev{
		{"ev": "reset", "mode": "response", "accP": c.AccP, "acc": c.Acc, "des": c.Des, "pre": c.Pre, "kind": c.Kind,
			"rct": "", "sender": "", "sfmt": "", "facts": factClosure(c.Pre, c.Acc, c.Des, hdr)},
		{"ev": "encoder", "nil": encnil},
		{"ev": "header", "hdr": hdr},
		{"ev": "body", "fmt": body},
		{"ev": "decoder", "fmt": df},
		{"ev": "decoded", "rt": rt},
	}
	return obs, evs
}

func runRequest(c Case) (map[string]any, []ev) {
	v := mkValue(c.Kind)
	var hdr string
	var sent []byte
	switch c.Sender {
	case "goa":
		r, err := http.NewRequest("POST", "http://example.com/", nil)
		if err != nil {
			vio.Die("%v", err)
		}
		if c.Rct != "" {
			r.Header.Set("Content-Type", c.Rct)
		}
		enc := goahttp.RequestEncoder(r)
		if err := enc.Encode(v.send); err != nil {
			vio.Die("request encoder failed on an encodable value: %v", err)
		}
		hdr = r.Header.Get("Content-Type")
		sent, _ = io.ReadAll(r.Body)
	case "std":
		b, err := stdEncode(c.Sfmt, v)
		if err != nil {
			vio.Die("case outside the envelope: %s cannot be written as %s: %v", c.Kind, c.Sfmt, err)
		}
		hdr, sent = c.Rct, b
	default:
		vio.Die("unknown sender %q", c.Sender)
	}
	body := sniff(sent, v)
	r := httptest.NewRequest("POST", "/", bytes.NewReader(sent))
	r.Header.Del("Content-Type")
	if hdr != "" {
		r.Header.Set("Content-Type", hdr)
	}
	dec := goahttp.RequestDecoder(r)
	t := v.target()
	rt, status := "", 0
	if err := dec.Decode(t); err != nil {
		rt = "error"
		w := httptest.NewRecorder()
		if eerr := goahttp.ErrorEncoder(goahttp.ResponseEncoder, nil)(context.Background(), w, err); eerr != nil {
			status = -1
		} else {
			status = w.Code
			// the error body must itself be readable by the library's response decoder
			var er goahttp.ErrorResponse
			if derr := goahttp.ResponseDecoder(w.Result()).Decode(&er); derr != nil || er.Message == "" {
				status = -status
			}
		}
		// an error must leave the target alone
		if !reflect.DeepEqual(t, v.target()) && status == http.StatusUnsupportedMediaType {
			rt = "error_but_decoded"
		}
	} else if v.equal(t) {
		rt = "equal"
	} else {
		rt = "not_equal"
	}
	obs := map[string]any{"body": body, "rt": rt, "status": status}
	evs := []ev{
		{"ev": "reset", "mode": "request", "accP": false, "acc": "", "des": "", "pre": "", "kind": c.Kind,
			"rct": c.Rct, "sender": c.Sender, "sfmt": c.Sfmt, "facts": factClosure("", c.Rct, hdr)},
		{"ev": "sent", "hdr": hdr, "fmt": body},
		{"ev": "reqdecoded", "rt": rt},
		{"ev": "status", "code": status},
	}
	return obs, evs
}

func checkFact(c Case) {
	got := factOf(c.S)
	if got != c.Fact {
		vio.Die("environment fact changed: the model says %+v, the standard library says %+v", c.Fact, got)
	}
}

// checkCodec verifies the model's table of what the standard encoders can write and read back.
func checkCodec(c Case) string {
	if c.Fmt == "text" {
		return "" // goa's own text encoder: behaviour under test, not an environment fact
	}
	v := mkValue(c.Kind)
	b, err := stdEncode(c.Fmt, v)
	can := err == nil && stdDecodes(c.Fmt, b, v)
	if can != c.Can {
		if c.Kind == "errresp" {
			// goahttp.ErrorResponse brings its own (un)marshalling code: that it survives an encoding is goa's
			// behaviour, not a fact about the environment
			return fmt.Sprintf("goahttp.ErrorResponse does not survive %s: encoded and decoded with the standard %s codec it comes back different (%v)", c.Fmt, c.Fmt, err)
		}
		vio.Die("environment fact changed: model says %s can carry %s = %v, the standard library says %v (%v)", c.Fmt, c.Kind, c.Can, can, err)
	}
	if can && sniff(b, v) != c.Fmt {
		vio.Die("body sniffing is ambiguous for %s/%s", c.Fmt, c.Kind)
	}
	return ""
}

// ---------------------------------------------------------------- random cases

const junk = "abcxyz019 ;;,,==//++**..--__()<>@:[]?%&'~\t"

func pick(r *rand.Rand, xs ...string) string { return xs[r.Intn(len(xs))] }

func randType(r *rand.Rand) string {
	switch r.Intn(12) {
	case 10, 11, 0, 1, 2, 3:
		return pick(r, supported...)
	case 4, 5:
		return pick(r, "application/vnd.goa.thing", "application/vnd.x", "application/problem", "application/ld", "image/svg", "text/vnd.y") +
			pick(r, "+json", "+xml", "+gob", "+html", "+txt", "+foo", "+JSON", "+xml+json", "")
	case 6:
		return pick(r, "image/png", "application/octet-stream", "application/x-www-form-urlencoded", "text/css", "application/jsonx", "xml", "json", "text")
	case 7:
		return pick(r, "*/*", "application/*", "text/*", "*/json", "*")
	case 8:
		n := 1 + r.Intn(12)
		b := make([]byte, n)
		for i := range b {
			b[i] = junk[r.Intn(len(junk))]
		}
		return string(b)
	}
	return strings.ToUpper(pick(r, supported...))
}

func randParams(r *rand.Rand) string {
	switch r.Intn(10) {
	case 0, 1, 2, 3:
		return ""
	case 4:
		return "; charset=utf-8"
	case 5:
		return fmt.Sprintf(";q=0.%d", r.Intn(10))
	case 6:
		return "; charset=utf-8; version=" + pick(r, "1", "2+xml", "a+json")
	case 7:
		return pick(r, ";", "; ", "; charset", ";=", "; q", ";;")
	case 8:
		return "; profile=" + pick(r, "x+json", "y+xml", "z")
	}
	return fmt.Sprintf(" ; q=%d.%d", r.Intn(2), r.Intn(10))
}

func randRange(r *rand.Rand) string {
	s := randType(r) + randParams(r)
	if r.Intn(8) == 0 {
		s = " " + s + pick(r, " ", "\t", "")
	}
	return s
}

func randAccept(r *rand.Rand) (bool, string) {
	switch r.Intn(12) {
	case 0:
		return false, ""
	case 1:
		return true, ""
	case 2, 3, 4:
		n := 2 + r.Intn(3)
		parts := make([]string, n)
		for i := range parts {
			parts[i] = randRange(r)
		}
		return true, strings.Join(parts, pick(r, ",", ", "))
	}
	return true, randRange(r)
}

func randCase(r *rand.Rand) Case {
	if r.Intn(10) < 7 {
		c := Case{Mode: "response", Kind: pick(r, kinds...)}
		c.AccP, c.Acc = randAccept(r)
		if r.Intn(10) < 4 {
			c.Des = randRange(r)
		}
		if r.Intn(10) < 5 {
			c.Pre = strings.TrimSpace(randRange(r)) // net/http would reject surrounding blanks on the wire anyway
		}
		return c
	}
	c := Case{Mode: "request", Kind: pick(r, kinds...), Sender: "std"}
	if r.Intn(8) > 0 {
		c.Rct = strings.TrimSpace(randRange(r))
	}
	if r.Intn(5) == 0 {
		c.Sender, c.Sfmt = "goa", "json"
		return c
	}
	v := mkValue(c.Kind)
	for {
		c.Sfmt = pick(r, formats...)
		if _, err := stdEncode(c.Sfmt, v); err == nil {
			return c
		}
	}
}

func clean(s string) bool { return !strings.ContainsAny(s, "\"\\") }

// ---------------------------------------------------------------- main

func run(c Case) (map[string]any, []ev) {
	switch c.Mode {
	case "response":
		return runResponse(c)
	case "request":
		return runRequest(c)
	}
	vio.Die("unknown mode %q", c.Mode)
	return nil, nil
}

func main() {
	nrand := flag.Int("random", 0, "number of random cases to run and log as trace events")
	tla := flag.Bool("tlafacts", false, "print the fact table (TLA+ text) for the strings given as {\"s\":...} / {\"pre\":...} vectors and exit")
	flag.Parse()
	w, err := vio.NewWriter()
	if err != nil {
		vio.Die("%v", err)
	}
	defer w.Close()
	var tlaStrings, tlaPresets []string
	err = vio.ReadVectors(func(i int, raw json.RawMessage) error {
		var c Case
		if err := json.Unmarshal(raw, &c); err != nil {
			return err
		}
		if *tla {
			if c.Pre != "" {
				tlaPresets = append(tlaPresets, c.Pre)
			} else {
				tlaStrings = append(tlaStrings, c.S)
			}
			return nil
		}
		switch c.Mode {
		case "fact":
			checkFact(c)
			w.Emit(map[string]any{"i": i, "fact": "ok"})
		case "codec":
			if bad := checkCodec(c); bad != "" {
				w.Emit(map[string]any{"i": i, "fact": "goa", "detail": bad, "fmt": c.Fmt, "kind": c.Kind})
			} else {
				w.Emit(map[string]any{"i": i, "fact": "ok"})
			}
		default:
			obs, evs := run(c)
			w.Emit(map[string]any{"i": i, "obs": obs, "events": evs})
		}
		return nil
	})
	if err != nil {
		vio.Die("%v", err)
	}
	if *tla {
		fs := factClosure("", tlaStrings...)
		for _, p := range tlaPresets {
			fs = append(fs, factClosure(p)...)
		}
		sort.Slice(fs, func(i, j int) bool { return fs[i].S < fs[j].S })
		var uniq []Fact
		for i, f := range fs {
			if i == 0 || f.S != fs[i-1].S {
				uniq = append(uniq, f)
			}
		}
		fs = uniq
		for i, f := range fs {
			sep := ","
			if i == len(fs)-1 {
				sep = ""
			}
			fmt.Printf("  [s |-> %q, ok |-> %s, mt |-> %q, eff |-> %q, suf |-> %q, plus |-> %s]%s\n",
				f.S, strings.ToUpper(fmt.Sprint(f.OK)), f.MT, f.Eff, f.Suf, strings.ToUpper(fmt.Sprint(f.Plus)), sep)
		}
		return
	}
	r := rand.New(rand.NewSource(*vio.Seed))
	for n := 0; n < *nrand; {
		c := randCase(r)
		if !clean(c.Acc) || !clean(c.Des) || !clean(c.Pre) || !clean(c.Rct) {
			continue
		}
		obs, evs := run(c)
		w.Emit(map[string]any{"i": -1 - n, "case": c, "obs": obs, "events": evs})
		n++
	}
}
