// Driver for the SkipWriter growth module (C20): seeded scenarios on the real goa.SkipResponseWriter.
// A scenario = chunk sizes the WriterTo writes + a reader script (reads with buffer sizes, a close); the
// events go to a trace validated against spec/SkipWriter.tla. A second mode hammers Read and Close from
// two goroutines (built with -race by the check).
package main

import (
	"errors"
	"flag"
	"io"
	"math/rand"
	"sync"
	"time"

	goa "goa.design/goa/v3/pkg"

	"verif/harness/vio"
)

func errClass(err error) string {
	switch {
	case err == nil:
		return "none"
	case errors.Is(err, io.EOF):
		return "eof"
	case errors.Is(err, io.ErrClosedPipe):
		return "closedpipe"
	}
	return "other:" + err.Error()
}

func main() {
	n := flag.Int("random", 200, "number of scenarios")
	flag.Parse()
	w, err := vio.NewWriter()
	if err != nil {
		vio.Die("%v", err)
	}
	defer w.Close()
	r := rand.New(rand.NewSource(*vio.Seed))
	for c := 0; c < *n; c++ {
		nch := r.Intn(4)
		chunks := make([]int, nch)
		total := 0
		for i := range chunks {
			chunks[i] = 1 + r.Intn(3)
			total += chunks[i]
		}
		var wcount int64
		var werr error
		done := make(chan struct{})
		started := false
		var mu sync.Mutex
		wt := goa.WriterToFunc(func(pw io.Writer) error {
			mu.Lock()
			started = true
			mu.Unlock()
			pos := 0
			for _, sz := range chunks {
				b := make([]byte, sz)
				for i := range b {
					b[i] = byte((pos + i) % 251)
				}
				pos += sz
				if _, err := pw.Write(b); err != nil {
					return err
				}
			}
			return nil
		})
		// wrap to learn what WriteTo reports
		wrapped := writerToFunc(func(pw io.Writer) (int64, error) {
			defer close(done)
			n, err := wt.WriteTo(pw)
			wcount, werr = n, err
			return n, err
		})
		rc := goa.SkipResponseWriter(wrapped)
		w.Emit(map[string]any{"ev": "reset", "chunks": chunks})
		got := 0
		dataok := true
		closed := false
		steps := 1 + r.Intn(6)
		for s := 0; s < steps && !closed; s++ {
			if r.Intn(5) == 0 {
				rc.Close()
				closed = true
				w.Emit(map[string]any{"ev": "close"})
				break
			}
			buf := make([]byte, 1+r.Intn(4))
			k, err := rc.Read(buf)
			for i := 0; i < k; i++ {
				if buf[i] != byte((got+i)%251) {
					dataok = false
				}
			}
			got += k
			w.Emit(map[string]any{"ev": "read", "n": k, "err": errClass(err), "buf": len(buf)})
			if err != nil {
				break
			}
		}
		if !closed {
			rc.Close()
			w.Emit(map[string]any{"ev": "close"})
		}
		leaked := false
		mu.Lock()
		st := started
		mu.Unlock()
		select {
		case <-done:
		case <-time.After(2 * time.Second):
			leaked = true
		}
		_ = st
		w.Emit(map[string]any{"ev": "wdone", "leaked": leaked, "count": wcount, "err": errClass(werr), "dataok": dataok, "total": total, "consumed": got})
	}
	// concurrent Read and Close on one adapter (sync.Once, pipe): the race detector is the judge
	for c := 0; c < *n; c++ {
		rc := goa.SkipResponseWriter(goa.WriterToFunc(func(pw io.Writer) error {
			_, err := pw.Write([]byte("0123456789"))
			return err
		}))
		var wg sync.WaitGroup
		wg.Add(2)
		go func() { defer wg.Done(); b := make([]byte, 4); rc.Read(b) }()
		go func() { defer wg.Done(); rc.Close() }()
		wg.Wait()
	}
	w.Emit(map[string]any{"ev": "concurrent", "rounds": *n})
}

type writerToFunc func(io.Writer) (int64, error)

func (f writerToFunc) WriteTo(w io.Writer) (int64, error) { return f(w) }
