// Driver for C11: runs the real eval.RunDSL on sets of recording roots and
// expressions and projects what happened onto the observables of spec/Eval.tla:
// the sequence of user callbacks <<phase, root, set, index>> (set 0 = the root
// itself) and the value RunDSL returned (ok / error with the reporting
// expressions / cycle).  The engine's observable *is* the order in which it calls
// the interfaces a DSL implements, so no hook is needed.
//
// A behaviour (Eval.tla AllToks / RootToks) says which of Source / Preparer / Validator /
// Finalizer the expression implements (one Go type per interface set) and where and how it
// reports an error: eval.ReportError from its DSL, Prepare, Validate or Finalize,
// eval.Context.Record from Validate, a returned *ValidationErrors (holding an error, empty,
// or a nil pointer), or both.  The messages carry the error tag and the expression:
// E dsl, P prepare, R recorded while validating, V returned by Validate, F finalize.
//
// Vector mode:  one line {"cfg": {...}} in, one line {"i", "obs"} out.
// Random mode (-random N): N seeded cases with 5-6 roots, written as trace events
// reset / cb / return for Trace_Eval.tla.
package main

import (
	"encoding/json"
	"errors"
	"flag"
	"fmt"
	"math/rand"
	"regexp"
	"sort"
	"strconv"
	"strings"

	"goa.design/goa/v3/eval"

	"verif/harness/vio"
)

// Cfg mirrors the cfg record of Eval.tla.
type Cfg struct {
	Reg  []string            `json:"reg"`
	Late []string            `json:"late"`
	Deps map[string][]string `json:"deps"`
	Beh  map[string][]string `json:"beh"`  // behaviours of the initial expressions of set 1
	Beh2 map[string][]string `json:"beh2"` // ... of set 2
	Rb   map[string]string   `json:"rb"`   // behaviour of the root expression itself
}

// Entry is one callback <<phase, root, set, index>> (or one error <<tag, root, set, index>>),
// marshalled as a JSON array.
type Entry struct {
	Phase string
	Root  string
	Set   int
	Idx   int
}

func (e Entry) MarshalJSON() ([]byte, error) {
	return json.Marshal([]any{e.Phase, e.Root, e.Set, e.Idx})
}

type Obs struct {
	Kind string  `json:"kind"` // ok | error | cycle | other | panic
	Errs []Entry `json:"errs"` // which expressions the returned error names
	Log  []Entry `json:"log"`
	Text string  `json:"text,omitempty"` // for humans only, never compared
}

// ---- recording stubs ------------------------------------------------------------------

type run struct {
	cfg        Cfg
	roots      map[string]eval.Root
	nodes      map[string]*node
	registered map[string]bool
	log        []Entry
}

// node is the state shared by the two root types.
type node struct {
	run  *run
	name string
	beh  string
	sets [2][]eval.Expression
}

func (c *run) rec(phase, rootName string, set, idx int) {
	c.log = append(c.log, Entry{phase, rootName, set, idx})
}

func (r *node) EvalName() string   { return "root:" + r.name }
func (r *node) Packages() []string { return nil }
func (r *node) DependsOn() []eval.Root {
	var ds []eval.Root
	for _, d := range r.run.cfg.Deps[r.name] {
		ds = append(ds, r.run.roots[d])
	}
	return ds
}

// WalkSets hands the engine set 1 then set 2; each set is read when it is handed over, like
// goa's own roots, which build the later sets from what the earlier ones produced.
func (r *node) WalkSets(walk eval.SetWalker) {
	walk(eval.ExpressionSet(r.sets[0]))
	walk(eval.ExpressionSet(r.sets[1]))
}

func (r *node) add(set int, beh string) {
	idx := len(r.sets[set-1]) + 1
	r.sets[set-1] = append(r.sets[set-1], newExpr(&core{root: r, set: set, idx: idx, beh: beh}))
}

// rootBare is a root that is neither Preparer nor Validator nor Finalizer ("bare");
// rootPVF is all three, its callbacks behave like those of an expression.
type (
	rootBare struct{ *node }
	rootPVF  struct {
		*node
		c *core
	}
)

func (r rootPVF) Prepare()        { r.c.prepare() }
func (r rootPVF) Validate() error { return r.c.validate() }
func (r rootPVF) Finalize()       { r.c.finalize() }

func newRoot(c *run, name, beh string) (eval.Root, *node) {
	n := &node{run: c, name: name, beh: beh}
	if beh == "bare" {
		return rootBare{n}, n
	}
	r := rootPVF{node: n, c: &core{root: n, set: 0, idx: 0, beh: beh}}
	r.c.self = r
	return r, n
}

// core holds what every expression does when the engine calls it; the expression types below
// expose it under the interfaces their behaviour implements (Eval.tla Ifc).
type core struct {
	root     *node
	set, idx int
	beh      string
	self     eval.Expression
}

func (e *core) id() string       { return fmt.Sprintf("%s:%d:%d", e.root.name, e.set, e.idx) }
func (e *core) EvalName() string { return "x:" + e.id() }

// what the behaviour does in a phase: its suffix after the interface prefix
func (e *core) does(what string) bool {
	b := e.beh
	if i := strings.IndexByte(b, '-'); i >= 0 {
		b = b[i+1:]
	}
	return b == what
}

func (e *core) dsl() func() {
	return func() {
		c := e.root.run
		c.rec("dsl", e.root.name, e.set, e.idx)
		switch {
		case e.does("append"):
			e.root.add(2, "plain")
		case e.does("appendsame"):
			e.root.add(1, "plain")
		case e.does("reg"):
			for _, l := range c.cfg.Late {
				if !c.registered[l] {
					c.registered[l] = true
					if err := eval.Register(c.roots[l]); err != nil {
						vio.Die("Register(%s): %v", l, err)
					}
					break
				}
			}
		case e.does("err"):
			eval.ReportError("E:%s", e.id())
		}
	}
}

func (e *core) prepare() {
	e.root.run.rec("prepare", e.root.name, e.set, e.idx)
	if e.does("perr") {
		eval.ReportError("P:%s", e.id())
	}
}

func (e *core) validate() error {
	e.root.run.rec("validate", e.root.name, e.set, e.idx)
	switch {
	case e.does("verr"):
		verr := new(eval.ValidationErrors)
		verr.Add(e.self, "V:%s", e.id())
		return verr
	case e.does("vrec"):
		eval.Context.Record(&eval.Error{GoError: fmt.Errorf("R:%s", e.id())})
	case e.does("vboth"):
		eval.ReportError("R:%s", e.id())
		verr := new(eval.ValidationErrors)
		verr.Add(e.self, "V:%s", e.id())
		return verr
	case e.does("vempty"):
		return new(eval.ValidationErrors)
	case e.does("vnil"):
		var verr *eval.ValidationErrors
		return verr
	}
	return nil
}

func (e *core) finalize() {
	e.root.run.rec("finalize", e.root.name, e.set, e.idx)
	if e.does("ferr") {
		eval.ReportError("F:%s", e.id())
	}
}

// the expression types: one per set of interfaces
type (
	exprFull struct{ *core } // Source + Preparer + Validator + Finalizer
	exprS    struct{ *core } // Source
	exprPVF  struct{ *core } // Preparer + Validator + Finalizer
	exprV    struct{ *core } // Validator
	exprP    struct{ *core } // Preparer
	exprF    struct{ *core } // Finalizer
)

func (e exprFull) DSL() func()     { return e.dsl() }
func (e exprFull) Prepare()        { e.prepare() }
func (e exprFull) Validate() error { return e.validate() }
func (e exprFull) Finalize()       { e.finalize() }
func (e exprS) DSL() func()        { return e.dsl() }
func (e exprPVF) Prepare()         { e.prepare() }
func (e exprPVF) Validate() error  { return e.validate() }
func (e exprPVF) Finalize()        { e.finalize() }
func (e exprV) Validate() error    { return e.validate() }
func (e exprP) Prepare()           { e.prepare() }
func (e exprF) Finalize()          { e.finalize() }

var fullToks = map[string]bool{"plain": true, "append": true, "appendsame": true, "reg": true, "err": true, "verr": true,
	"perr": true, "vrec": true, "vboth": true, "vempty": true, "vnil": true, "ferr": true}
var otherToks = map[string]bool{"s": true, "s-err": true, "pvf": true, "pvf-perr": true, "pvf-vrec": true, "pvf-verr": true,
	"pvf-ferr": true, "v": true, "v-verr": true, "v-vrec": true, "v-vboth": true, "v-vempty": true, "p-perr": true, "f-ferr": true}
var rootToks = map[string]bool{"plain": true, "perr": true, "vrec": true, "verr": true, "vboth": true, "vempty": true,
	"vnil": true, "ferr": true, "bare": true}

func newExpr(c *core) eval.Expression {
	var x eval.Expression
	switch {
	case c.beh == "nil":
		return nil // a nil entry of the set
	case fullToks[c.beh]:
		x = exprFull{c}
	case !otherToks[c.beh]:
		vio.Die("unknown behaviour %q", c.beh)
	case strings.HasPrefix(c.beh, "pvf"):
		x = exprPVF{c}
	case strings.HasPrefix(c.beh, "s"):
		x = exprS{c}
	case strings.HasPrefix(c.beh, "v"):
		x = exprV{c}
	case strings.HasPrefix(c.beh, "p"):
		x = exprP{c}
	case strings.HasPrefix(c.beh, "f"):
		x = exprF{c}
	}
	c.self = x
	return x
}

// ---- one case ------------------------------------------------------------------------------

var errTok = regexp.MustCompile(`^([EPRVF]):([a-z]+):(\d+):(\d+)`)

// the error tags of Eval.tla, from the first letter of the message
var errTag = map[string]string{"E": "dsl", "P": "prepare", "R": "vrec", "V": "validate", "F": "finalize"}

func token(msg string) Entry {
	m := errTok.FindStringSubmatch(msg)
	if m == nil {
		return Entry{"?", "", 0, 0}
	}
	s, _ := strconv.Atoi(m[3])
	i, _ := strconv.Atoi(m[4])
	return Entry{errTag[m[1]], m[2], s, i}
}

func runCase(cfg Cfg) (obs Obs) {
	eval.Reset()
	c := &run{cfg: cfg, roots: map[string]eval.Root{}, nodes: map[string]*node{}, registered: map[string]bool{}}
	mk := func(n string) {
		if _, ok := c.roots[n]; ok {
			return
		}
		rb := cfg.Rb[n]
		if rb == "" {
			rb = "plain"
		}
		if !rootToks[rb] {
			vio.Die("unknown root behaviour %q", rb)
		}
		r, nd := newRoot(c, n, rb)
		bs, ok := cfg.Beh[n]
		if !ok {
			bs = []string{"plain"}
		}
		for _, b := range bs {
			nd.add(1, b)
		}
		for _, b := range cfg.Beh2[n] {
			nd.add(2, b)
		}
		c.roots[n], c.nodes[n] = r, nd
	}
	for _, n := range cfg.Reg {
		mk(n)
	}
	for _, n := range cfg.Late {
		mk(n)
	}
	for n, ds := range cfg.Deps {
		if len(ds) > 0 {
			mk(n)
		}
		for _, d := range ds {
			mk(d)
		}
	}
	for _, n := range cfg.Reg {
		c.registered[n] = true
		if err := eval.Register(c.roots[n]); err != nil {
			vio.Die("Register(%s): %v", n, err)
		}
	}
	obs.Errs = []Entry{}
	defer func() {
		if p := recover(); p != nil {
			obs.Kind, obs.Text = "panic", fmt.Sprint(p)
		}
		obs.Log = c.log
		if obs.Log == nil {
			obs.Log = []Entry{}
		}
		eval.Reset()
	}()
	err := eval.RunDSL()
	var me eval.MultiError
	switch {
	case err == nil:
		obs.Kind = "ok"
		if n := len(eval.Context.Errors); n > 0 {
			obs.Text = fmt.Sprintf("RunDSL returned nil with %d recorded error(s) left in eval.Context.Errors", n)
		}
	case errors.As(err, &me):
		obs.Kind = "error"
		for _, e := range me {
			var ve *eval.ValidationErrors
			if errors.As(e.GoError, &ve) {
				for _, x := range ve.Errors {
					obs.Errs = append(obs.Errs, token(x.Error()))
				}
			} else if e.GoError != nil {
				obs.Errs = append(obs.Errs, token(e.GoError.Error()))
			} else {
				obs.Errs = append(obs.Errs, Entry{"?", "", 0, 0})
			}
		}
		sort.Slice(obs.Errs, func(i, j int) bool {
			a, b := obs.Errs[i], obs.Errs[j]
			if a.Phase != b.Phase {
				return a.Phase < b.Phase
			}
			if a.Root != b.Root {
				return a.Root < b.Root
			}
			if a.Set != b.Set {
				return a.Set < b.Set
			}
			return a.Idx < b.Idx
		})
		obs.Text = firstLine(err.Error())
	default:
		// the only other errors RunDSL returns are the cycle error of Context.Roots and the
		// "too many generated roots" guard
		if strings.Contains(err.Error(), "cycle") {
			obs.Kind = "cycle"
		} else {
			obs.Kind = "other"
		}
		obs.Text = firstLine(err.Error())
	}
	return obs
}

func firstLine(s string) string {
	if i := strings.IndexByte(s, '\n'); i >= 0 {
		s = s[:i]
	}
	if len(s) > 160 {
		s = s[:160]
	}
	return s
}

// ---- random cases (beyond the TLC enumeration) ------------------------------------------------

var universe = []string{"a", "b", "c", "d", "e", "f"}

func randCfg(r *rand.Rand) Cfg {
	n := 5 + r.Intn(2)
	names := append([]string{}, universe[:n]...)
	r.Shuffle(n, func(i, j int) { names[i], names[j] = names[j], names[i] })
	nlate := []int{0, 0, 1, 1, 2, 2}[r.Intn(6)]
	cfg := Cfg{Reg: names[:n-nlate], Late: append([]string{}, names[n-nlate:]...), Deps: map[string][]string{},
		Beh: map[string][]string{}, Beh2: map[string][]string{}, Rb: map[string]string{}}
	for _, u := range universe {
		cfg.Deps[u] = []string{}
		cfg.Beh[u] = []string{"plain"}
		cfg.Beh2[u] = []string{}
		cfg.Rb[u] = "plain"
	}
	isLate := map[string]int{}
	for i, l := range cfg.Late {
		isLate[l] = i + 1
	}
	oneOf := func(ts ...string) string { return ts[r.Intn(len(ts))] }
	// expressions that report no error but are not the usual Source+Preparer+Validator+Finalizer
	quiet := func() string { return oneOf("nil", "s", "pvf", "v", "vempty", "v-vempty") }
	// errors reported after the DSL phase: where (interfaces) and how
	laterErr := func() string {
		return oneOf("verr", "verr", "perr", "vrec", "vboth", "ferr", "vnil", "pvf-perr", "pvf-vrec", "pvf-verr", "pvf-ferr",
			"v-verr", "v-vrec", "v-vboth", "p-perr", "f-ferr")
	}
	// behaviours: mostly plain; "reg" only when there is something to register
	pick := func(late bool, set int) string {
		x := r.Intn(100)
		switch {
		case x < 46:
			return "plain"
		case x < 55:
			if set == 1 {
				return "append"
			}
			return "plain"
		case x < 64:
			if set == 1 {
				return "appendsame"
			}
			return "plain"
		case x < 73:
			if set == 1 && nlate > 0 && (!late || nlate > 1) {
				return "reg"
			}
			return "plain"
		case x < 80:
			return quiet()
		case x < 90:
			if r.Intn(3) == 0 {
				return oneOf("err", "err", "s-err")
			}
			return "plain"
		default:
			if r.Intn(3) == 0 {
				return laterErr()
			}
			return "plain"
		}
	}
	k0 := 0
	for _, nm := range names[:n] {
		k := 1 + r.Intn(3)
		if r.Intn(12) == 0 {
			k = 0 // an empty first set
		}
		bs := make([]string, k)
		for i := range bs {
			bs[i] = pick(isLate[nm] > 0, 1)
			if bs[i] == "reg" && isLate[nm] == 0 {
				k0++
			}
		}
		cfg.Beh[nm] = bs
		// the second set: mostly empty at the start
		if r.Intn(3) == 0 {
			b2 := make([]string, 1+r.Intn(2))
			for i := range b2 {
				b2[i] = pick(isLate[nm] > 0, 2)
			}
			cfg.Beh2[nm] = b2
		}
		// the root expression itself
		switch x := r.Intn(40); {
		case x == 0:
			cfg.Rb[nm] = "bare"
		case x == 1:
			cfg.Rb[nm] = oneOf("vempty", "vempty", "vnil")
		case x == 2:
			cfg.Rb[nm] = oneOf("perr", "vrec", "verr", "vboth", "ferr")
		}
	}
	if nlate > 0 && k0 == 0 {
		first := cfg.Reg[r.Intn(len(cfg.Reg))]
		if len(cfg.Beh[first]) == 0 {
			cfg.Beh[first] = []string{"plain"}
		}
		cfg.Beh[first][r.Intn(len(cfg.Beh[first]))] = "reg"
		k0 = 1
	}
	if k0 > nlate {
		k0 = nlate
	}
	// the envelope of Eval.tla (AllowedEdges): initial roots depend on initial roots only; late
	// root i may depend on late root j iff j < i or both are registered in the first round
	allowed := func(from, to string) bool {
		if from == to {
			return false
		}
		fi, ti := isLate[from], isLate[to]
		switch {
		case fi == 0:
			return ti == 0
		case ti == 0:
			return true
		default:
			return ti < fi || (fi <= k0 && ti <= k0)
		}
	}
	// mostly acyclic: edges follow a hidden order; sometimes one edge against it
	hidden := append([]string{}, names[:n]...)
	r.Shuffle(n, func(i, j int) { hidden[i], hidden[j] = hidden[j], hidden[i] })
	p := []float64{0.15, 0.3, 0.5}[r.Intn(3)]
	for i := 0; i < n; i++ {
		for j := 0; j < i; j++ {
			if allowed(hidden[i], hidden[j]) && r.Float64() < p {
				cfg.Deps[hidden[i]] = append(cfg.Deps[hidden[i]], hidden[j])
			}
		}
	}
	if r.Intn(6) == 0 {
		i, j := r.Intn(n), r.Intn(n)
		if i < j && allowed(hidden[i], hidden[j]) {
			cfg.Deps[hidden[i]] = append(cfg.Deps[hidden[i]], hidden[j])
		}
	}
	return cfg
}

func emitTrace(w *vio.Writer, cfg Cfg, o Obs) {
	w.Emit(map[string]any{"ev": "reset", "cfg": cfg})
	for _, e := range o.Log {
		w.Emit(map[string]any{"ev": "cb", "phase": e.Phase, "root": e.Root, "set": e.Set, "idx": e.Idx})
	}
	w.Emit(map[string]any{"ev": "return", "kind": o.Kind, "errs": o.Errs})
}

func main() {
	nrand := flag.Int("random", 0, "number of random 5-6-root cases to run and log as trace events")
	flag.Parse()
	w, err := vio.NewWriter()
	if err != nil {
		vio.Die("%v", err)
	}
	defer w.Close()
	err = vio.ReadVectors(func(i int, raw json.RawMessage) error {
		var v struct {
			Cfg Cfg `json:"cfg"`
		}
		if err := json.Unmarshal(raw, &v); err != nil {
			return err
		}
		w.Emit(map[string]any{"i": i, "obs": runCase(v.Cfg)})
		return nil
	})
	if err != nil {
		vio.Die("%v", err)
	}
	r := rand.New(rand.NewSource(*vio.Seed))
	for c := 0; c < *nrand; c++ {
		cfg := randCfg(r)
		emitTrace(w, cfg, runCase(cfg))
	}
}
