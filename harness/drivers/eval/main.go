// Driver for C11: runs the real eval.RunDSL on sets of recording roots and
// expressions and projects what happened onto the observables of spec/Eval.tla:
// the sequence of user callbacks <<phase, root, set, index>> (set 0 = the root
// itself) and the value RunDSL returned (ok / error with the reporting
// expressions / cycle).  The engine's observable *is* the order in which it calls
// the interfaces a DSL implements, so no hook is needed.
//
// Vector mode:  one line {"cfg": {...}} in, one line {"i", "obs"} out.
// Random mode (-random N): N seeded cases with 5-6 roots, written as trace events
// reset / cb / return for Trace_Eval.tla.
package main

import (
	"encoding/json"
	"errors"
	"flag"
	"fmt"
	"math/rand"
	"regexp"
	"sort"
	"strconv"
	"strings"

	"goa.design/goa/v3/eval"

	"verif/harness/vio"
)

// Cfg mirrors the cfg record of Eval.tla.
type Cfg struct {
	Reg  []string            `json:"reg"`
	Late []string            `json:"late"`
	Deps map[string][]string `json:"deps"`
	Beh  map[string][]string `json:"beh"`
}

// Entry is one callback <<phase, root, set, index>>, marshalled as a JSON array.
type Entry struct {
	Phase string
	Root  string
	Set   int
	Idx   int
}

func (e Entry) MarshalJSON() ([]byte, error) {
	return json.Marshal([]any{e.Phase, e.Root, e.Set, e.Idx})
}

type Obs struct {
	Kind string  `json:"kind"` // ok | error | cycle | other | panic
	Errs []Entry `json:"errs"` // which expressions the returned error names
	Log  []Entry `json:"log"`
	Text string  `json:"text,omitempty"` // for humans only, never compared
}

// ---- recording stubs ------------------------------------------------------------------

type run struct {
	cfg        Cfg
	roots      map[string]*root
	registered map[string]bool
	log        []Entry
}

type root struct {
	run  *run
	name string
	sets [2][]eval.Expression
}

type expr struct {
	root     *root
	set, idx int
	beh      string
}

func (c *run) rec(phase, rootName string, set, idx int) {
	c.log = append(c.log, Entry{phase, rootName, set, idx})
}

func (r *root) EvalName() string   { return "root:" + r.name }
func (r *root) Packages() []string { return nil }
func (r *root) DependsOn() []eval.Root {
	var ds []eval.Root
	for _, d := range r.run.cfg.Deps[r.name] {
		ds = append(ds, r.run.roots[d])
	}
	return ds
}

// WalkSets hands the engine set 1 then set 2; each set is read when it is handed over, like
// goa's own roots, which build the later sets from what the earlier ones produced.
func (r *root) WalkSets(walk eval.SetWalker) {
	walk(eval.ExpressionSet(r.sets[0]))
	walk(eval.ExpressionSet(r.sets[1]))
}
func (r *root) Prepare()        { r.run.rec("prepare", r.name, 0, 0) }
func (r *root) Validate() error { r.run.rec("validate", r.name, 0, 0); return nil }
func (r *root) Finalize()       { r.run.rec("finalize", r.name, 0, 0) }

func (r *root) add(set int, beh string) {
	r.sets[set-1] = append(r.sets[set-1], &expr{root: r, set: set, idx: len(r.sets[set-1]) + 1, beh: beh})
}

func (e *expr) id() string       { return fmt.Sprintf("%s:%d:%d", e.root.name, e.set, e.idx) }
func (e *expr) EvalName() string { return "x:" + e.id() }
func (e *expr) DSL() func() {
	return func() {
		c := e.root.run
		c.rec("dsl", e.root.name, e.set, e.idx)
		switch e.beh {
		case "append":
			e.root.add(2, "plain")
		case "appendsame":
			e.root.add(1, "plain")
		case "reg":
			for _, l := range c.cfg.Late {
				if !c.registered[l] {
					c.registered[l] = true
					if err := eval.Register(c.roots[l]); err != nil {
						vio.Die("Register(%s): %v", l, err)
					}
					break
				}
			}
		case "err":
			eval.ReportError("E:%s", e.id())
		}
	}
}
func (e *expr) Prepare() { e.root.run.rec("prepare", e.root.name, e.set, e.idx) }
func (e *expr) Validate() error {
	e.root.run.rec("validate", e.root.name, e.set, e.idx)
	if e.beh == "verr" {
		verr := new(eval.ValidationErrors)
		verr.Add(e, "V:%s", e.id())
		return verr
	}
	return nil
}
func (e *expr) Finalize() { e.root.run.rec("finalize", e.root.name, e.set, e.idx) }

// ---- one case ------------------------------------------------------------------------------

var errTok = regexp.MustCompile(`^([EV]):([a-z]+):(\d+):(\d+)`)

func token(msg string) Entry {
	m := errTok.FindStringSubmatch(msg)
	if m == nil {
		return Entry{"?", "", 0, 0}
	}
	s, _ := strconv.Atoi(m[3])
	i, _ := strconv.Atoi(m[4])
	ph := "dsl"
	if m[1] == "V" {
		ph = "validate"
	}
	return Entry{ph, m[2], s, i}
}

func runCase(cfg Cfg) (obs Obs) {
	eval.Reset()
	c := &run{cfg: cfg, roots: map[string]*root{}, registered: map[string]bool{}}
	mk := func(n string) {
		if _, ok := c.roots[n]; ok {
			return
		}
		r := &root{run: c, name: n}
		bs := cfg.Beh[n]
		if len(bs) == 0 {
			bs = []string{"plain"}
		}
		for _, b := range bs {
			r.add(1, b)
		}
		c.roots[n] = r
	}
	for _, n := range cfg.Reg {
		mk(n)
	}
	for _, n := range cfg.Late {
		mk(n)
	}
	for n, ds := range cfg.Deps {
		if len(ds) > 0 {
			mk(n)
		}
		for _, d := range ds {
			mk(d)
		}
	}
	for _, n := range cfg.Reg {
		c.registered[n] = true
		if err := eval.Register(c.roots[n]); err != nil {
			vio.Die("Register(%s): %v", n, err)
		}
	}
	obs.Errs = []Entry{}
	defer func() {
		if p := recover(); p != nil {
			obs.Kind, obs.Text = "panic", fmt.Sprint(p)
		}
		obs.Log = c.log
		if obs.Log == nil {
			obs.Log = []Entry{}
		}
		eval.Reset()
	}()
	err := eval.RunDSL()
	var me eval.MultiError
	switch {
	case err == nil:
		obs.Kind = "ok"
	case errors.As(err, &me):
		obs.Kind = "error"
		for _, e := range me {
			var ve *eval.ValidationErrors
			if errors.As(e.GoError, &ve) {
				for _, x := range ve.Errors {
					obs.Errs = append(obs.Errs, token(x.Error()))
				}
			} else if e.GoError != nil {
				obs.Errs = append(obs.Errs, token(e.GoError.Error()))
			} else {
				obs.Errs = append(obs.Errs, Entry{"?", "", 0, 0})
			}
		}
		sort.Slice(obs.Errs, func(i, j int) bool {
			a, b := obs.Errs[i], obs.Errs[j]
			if a.Phase != b.Phase {
				return a.Phase < b.Phase
			}
			if a.Root != b.Root {
				return a.Root < b.Root
			}
			if a.Set != b.Set {
				return a.Set < b.Set
			}
			return a.Idx < b.Idx
		})
		obs.Text = firstLine(err.Error())
	default:
		// the only other errors RunDSL returns are the cycle error of Context.Roots and the
		// "too many generated roots" guard
		if strings.Contains(err.Error(), "cycle") {
			obs.Kind = "cycle"
		} else {
			obs.Kind = "other"
		}
		obs.Text = firstLine(err.Error())
	}
	return obs
}

func firstLine(s string) string {
	if i := strings.IndexByte(s, '\n'); i >= 0 {
		s = s[:i]
	}
	if len(s) > 160 {
		s = s[:160]
	}
	return s
}

// ---- random cases (beyond the TLC enumeration) ------------------------------------------------

var universe = []string{"a", "b", "c", "d", "e", "f"}

func randCfg(r *rand.Rand) Cfg {
	n := 5 + r.Intn(2)
	names := append([]string{}, universe[:n]...)
	r.Shuffle(n, func(i, j int) { names[i], names[j] = names[j], names[i] })
	nlate := []int{0, 0, 1, 1, 2, 2}[r.Intn(6)]
	cfg := Cfg{Reg: names[:n-nlate], Late: append([]string{}, names[n-nlate:]...), Deps: map[string][]string{}, Beh: map[string][]string{}}
	for _, u := range universe {
		cfg.Deps[u] = []string{}
		cfg.Beh[u] = []string{"plain"}
	}
	isLate := map[string]int{}
	for i, l := range cfg.Late {
		isLate[l] = i + 1
	}
	// behaviours: mostly plain; "reg" only when there is something to register
	pick := func(late bool) string {
		x := r.Intn(100)
		switch {
		case x < 50:
			return "plain"
		case x < 60:
			return "append"
		case x < 70:
			return "appendsame"
		case x < 80:
			if nlate > 0 && (!late || nlate > 1) {
				return "reg"
			}
			return "plain"
		case x < 90:
			if r.Intn(3) == 0 {
				return "err"
			}
			return "plain"
		default:
			if r.Intn(3) == 0 {
				return "verr"
			}
			return "plain"
		}
	}
	k0 := 0
	for _, nm := range names[:n] {
		k := 1 + r.Intn(3)
		bs := make([]string, k)
		for i := range bs {
			bs[i] = pick(isLate[nm] > 0)
			if bs[i] == "reg" && isLate[nm] == 0 {
				k0++
			}
		}
		cfg.Beh[nm] = bs
	}
	if nlate > 0 && k0 == 0 {
		first := cfg.Reg[r.Intn(len(cfg.Reg))]
		cfg.Beh[first][r.Intn(len(cfg.Beh[first]))] = "reg"
		k0 = 1
	}
	if k0 > nlate {
		k0 = nlate
	}
	// the envelope of Eval.tla (AllowedEdges): initial roots depend on initial roots only; late
	// root i may depend on late root j iff j < i or both are registered in the first round
	allowed := func(from, to string) bool {
		if from == to {
			return false
		}
		fi, ti := isLate[from], isLate[to]
		switch {
		case fi == 0:
			return ti == 0
		case ti == 0:
			return true
		default:
			return ti < fi || (fi <= k0 && ti <= k0)
		}
	}
	// mostly acyclic: edges follow a hidden order; sometimes one edge against it
	hidden := append([]string{}, names[:n]...)
	r.Shuffle(n, func(i, j int) { hidden[i], hidden[j] = hidden[j], hidden[i] })
	p := []float64{0.15, 0.3, 0.5}[r.Intn(3)]
	for i := 0; i < n; i++ {
		for j := 0; j < i; j++ {
			if allowed(hidden[i], hidden[j]) && r.Float64() < p {
				cfg.Deps[hidden[i]] = append(cfg.Deps[hidden[i]], hidden[j])
			}
		}
	}
	if r.Intn(6) == 0 {
		i, j := r.Intn(n), r.Intn(n)
		if i < j && allowed(hidden[i], hidden[j]) {
			cfg.Deps[hidden[i]] = append(cfg.Deps[hidden[i]], hidden[j])
		}
	}
	return cfg
}

func emitTrace(w *vio.Writer, cfg Cfg, o Obs) {
	w.Emit(map[string]any{"ev": "reset", "cfg": cfg})
	for _, e := range o.Log {
		w.Emit(map[string]any{"ev": "cb", "phase": e.Phase, "root": e.Root, "set": e.Set, "idx": e.Idx})
	}
	w.Emit(map[string]any{"ev": "return", "kind": o.Kind, "errs": o.Errs})
}

func main() {
	nrand := flag.Int("random", 0, "number of random 5-6-root cases to run and log as trace events")
	flag.Parse()
	w, err := vio.NewWriter()
	if err != nil {
		vio.Die("%v", err)
	}
	defer w.Close()
	err = vio.ReadVectors(func(i int, raw json.RawMessage) error {
		var v struct {
			Cfg Cfg `json:"cfg"`
		}
		if err := json.Unmarshal(raw, &v); err != nil {
			return err
		}
		w.Emit(map[string]any{"i": i, "obs": runCase(v.Cfg)})
		return nil
	})
	if err != nil {
		vio.Die("%v", err)
	}
	r := rand.New(rand.NewSource(*vio.Seed))
	for c := 0; c < *nrand; c++ {
		cfg := randCfg(r)
		emitTrace(w, cfg, runCase(cfg))
	}
}
