// Shared-state middlewares for C20 (-mw N): the runtime middlewares are created once and serve every request.
// N goroutines drive whole middleware chains mounted on a real goahttp.Muxer - RequestID (trusting the inbound
// header with a length limit / not trusting it), Trace with the adaptive sampler (sample sizes 1-4 and 16, so
// that the rate adjustment is reached while other requests are inside it) and with the fixed-percent sampler,
// Debug and Log (ResponseCapture) writing to one shared sink - and the gRPC unary/stream request-id, trace and
// log interceptors called directly, and hammer the samplers themselves.  Oracle per request: the identifiers its
// handler sees are its own (the inbound ones where the configuration trusts them, otherwise fresh ones nobody
// else was given), the Debug record and the log entries filed under its request id describe its own exchange,
// the reply is the echo of its body; for the sampler the bound the design states: with a maximum sampling rate
// no caller reaches every call is sampled, a fixed 100% samples everything, a fixed 0% nothing.
package main

import (
	"context"
	"fmt"
	"io"
	"net/http"
	"net/http/httptest"
	"strings"
	"sync"
	"sync/atomic"

	"google.golang.org/grpc"
	"google.golang.org/grpc/metadata"

	grpcm "goa.design/goa/v3/grpc/middleware"
	goahttp "goa.design/goa/v3/http"
	httpm "goa.design/goa/v3/http/middleware"
	"goa.design/goa/v3/middleware"

	"verif/harness/vio"
)

// unreachableRate is a maximum sampling rate (requests per second) no caller reaches.
const unreachableRate = 1_000_000_000_000

// sink is the one io.Writer / Logger all requests of a chain share (as a log file is).
type sink struct {
	mu      sync.Mutex
	records map[string][]string // Debug: request id -> records written under it
	logs    map[string][][]any  // Log: request id -> entries
	torn    int                 // Debug records whose lines carry different ids
}

func newSink() *sink { return &sink{records: map[string][]string{}, logs: map[string][][]any{}} }

func (s *sink) Write(b []byte) (int, error) {
	rec := string(b)
	id := ""
	// every line of one record is tagged "[id]": the record belongs to one request
	for _, line := range strings.Split(rec, "\n") {
		i, j := strings.Index(line, "["), strings.Index(line, "]")
		if i < 0 || j < i || i > 2 {
			continue
		}
		tag := line[i+1 : j]
		if id == "" {
			id = tag
		} else if tag != id {
			s.mu.Lock()
			s.torn++
			s.mu.Unlock()
		}
	}
	s.mu.Lock()
	s.records[id] = append(s.records[id], rec)
	s.mu.Unlock()
	return len(b), nil
}

func (s *sink) Log(keyvals ...any) error {
	id := ""
	for i := 0; i+1 < len(keyvals); i += 2 {
		if keyvals[i] == "id" {
			id = fmt.Sprint(keyvals[i+1])
		}
	}
	s.mu.Lock()
	s.logs[id] = append(s.logs[id], keyvals)
	s.mu.Unlock()
	return nil
}

func (s *sink) take(id string) (recs []string, logs [][]any) {
	s.mu.Lock()
	recs, logs = s.records[id], s.logs[id]
	delete(s.records, id)
	delete(s.logs, id)
	s.mu.Unlock()
	return
}

// ids hands out the verdict "nobody else was given this identifier".
type ids struct{ m sync.Map }

func (u *ids) fresh(kind, id string) bool {
	_, dup := u.m.LoadOrStore(kind+"/"+id, true)
	return !dup
}

type chain struct {
	name     string
	mux      goahttp.ResolverMuxer
	sink     *sink
	trust    bool // RequestID trusts X-Request-Id (limit 24)
	traced   int  // 1: every request without an inbound trace id must be traced, 0: none, -1: the sampler decides
	adaptive bool
}

const ridLimit = 24

func newChain(name string, trust bool, traced int, opts ...middleware.TraceOption) *chain {
	c := &chain{name: name, mux: goahttp.NewMuxer(), sink: newSink(), trust: trust, traced: traced}
	if trust {
		c.mux.Use(httpm.RequestID(httpm.UseXRequestIDHeaderOption(true), httpm.XRequestHeaderLimitOption(ridLimit)))
	} else {
		c.mux.Use(httpm.RequestID())
	}
	c.mux.Use(httpm.Trace(opts...))
	c.mux.Use(httpm.Debug(c.mux, c.sink))
	c.mux.Use(httpm.Log(c.sink))
	c.mux.Handle("POST", "/e/{who}", func(w http.ResponseWriter, r *http.Request) {
		ctx := r.Context()
		str := func(k any) string {
			s, _ := ctx.Value(k).(string)
			return s
		}
		b, _ := io.ReadAll(r.Body)
		hold()
		w.Header().Set("X-Seen-Rid", str(middleware.RequestIDKey))
		w.Header().Set("X-Seen-Trace", str(middleware.TraceIDKey))
		w.Header().Set("X-Seen-Span", str(middleware.TraceSpanIDKey))
		w.Header().Set("X-Seen-Parent", str(middleware.TraceParentSpanIDKey))
		w.Header().Set("X-Seen-Who", c.mux.Vars(r)["who"])
		w.WriteHeader(http.StatusOK)
		w.Write(b) // nolint: errcheck
	})
	return c
}

type mwArea struct {
	Area  string         `json:"area"`
	G     int            `json:"goroutines"`
	Ops   int64          `json:"ops"`
	Bad   int64          `json:"echo_failures"`
	Why   map[string]int `json:"failed_checks,omitempty"`
	First map[string]any `json:"first_failure,omitempty"`
	Notes map[string]any `json:"notes,omitempty"`
	// requests without an inbound trace id: how many the sampler let through / kept out
	Sampled   int64 `json:"sampled"`
	Unsampled int64 `json:"unsampled"`
	mu        sync.Mutex
}

func (a *mwArea) fail(why string, detail map[string]any) {
	a.mu.Lock()
	a.Bad++
	if a.Why == nil {
		a.Why = map[string]int{}
	}
	a.Why[why]++
	if a.First == nil {
		detail["check"] = why
		a.First = detail
	}
	a.mu.Unlock()
}

// exchange runs request (g, i) through the chain and checks everything that must be the request's own.
func (c *chain) exchange(a *mwArea, u *ids, g, i int) {
	atomic.AddInt64(&a.Ops, 1)
	who := fmt.Sprintf("g%di%d", g, i)
	body := "<" + c.name + "." + who + ">" + fill("<"+who+">", sizes[(g*7+i)%12])
	req := httptest.NewRequest("POST", "/e/"+who, strings.NewReader(body))
	inRid, inTrace, inParent := "", "", ""
	if i%2 == 0 {
		inRid = "rid-" + who + "-" + c.name + "-0123456789abcdefghij" // longer than the limit, its own within the limit
		req.Header.Set("X-Request-Id", inRid)
	}
	if i%3 == 0 {
		inTrace, inParent = "trace-"+c.name+"-"+who, "parent-"+who
		req.Header.Set(httpm.TraceIDHeader, inTrace)
		req.Header.Set(httpm.ParentSpanIDHeader, inParent)
	}
	rec := httptest.NewRecorder()
	c.mux.ServeHTTP(rec, req)
	d := func(got, want string) map[string]any {
		return map[string]any{"chain": c.name, "request": who, "got": got, "want": want}
	}
	if rec.Code != 200 || rec.Body.String() != body || rec.Header().Get("X-Seen-Who") != who {
		a.fail("reply is not the echo of the request", d(fmt.Sprintf("%d %.60q who=%s", rec.Code, rec.Body.String(), rec.Header().Get("X-Seen-Who")), fmt.Sprintf("200 %.60q", body)))
	}
	// request id
	rid := rec.Header().Get("X-Seen-Rid")
	switch {
	case c.trust && inRid != "":
		if rid != inRid[:ridLimit] {
			a.fail("request id is not the inbound one", d(rid, inRid[:ridLimit]))
		}
	case rid == "" || strings.HasPrefix(rid, "rid-"):
		a.fail("no fresh request id", d(rid, "a generated id"))
	case !u.fresh(c.name+"/rid", rid):
		a.fail("request id given to two requests", d(rid, "an id of its own"))
	}
	// trace
	tr, sp, pa := rec.Header().Get("X-Seen-Trace"), rec.Header().Get("X-Seen-Span"), rec.Header().Get("X-Seen-Parent")
	switch {
	case inTrace != "":
		if tr != inTrace || pa != inParent {
			a.fail("trace/parent span are not the inbound ones", d(tr+" "+pa, inTrace+" "+inParent))
		}
	case tr == "":
		atomic.AddInt64(&a.Unsampled, 1)
		if c.traced == 1 {
			a.fail("request not sampled although the sampler must sample everything", d("", "a trace id"))
		}
	default:
		atomic.AddInt64(&a.Sampled, 1)
		if c.traced == 0 {
			a.fail("request sampled although the sampler must sample nothing", d(tr, ""))
		}
		if strings.HasPrefix(tr, "trace-") || !u.fresh(c.name+"/trace", tr) {
			a.fail("trace id given to two requests", d(tr, "an id of its own"))
		}
		if pa != "" {
			a.fail("parent span of another request", d(pa, ""))
		}
	}
	if tr != "" && (sp == "" || !u.fresh(c.name+"/span", sp)) {
		a.fail("span id given to two requests", d(sp, "an id of its own"))
	}
	// what Debug and Log filed under this request id
	recs, logs := c.sink.take(rid)
	if len(recs) != 1 {
		a.fail("Debug records under the request id", d(fmt.Sprint(len(recs)), "1"))
	} else if r := recs[0]; !strings.Contains(r, "POST /e/"+who+"\n") || strings.Count(r, "] "+body+"\n") != 2 {
		a.fail("Debug record is not about this exchange", d(fmt.Sprintf("%.200q", r), "request line and both bodies of "+who))
	}
	if len(logs) != 2 {
		a.fail("log entries under the request id", d(fmt.Sprint(len(logs)), "2"))
	} else {
		l0, l1 := fmt.Sprint(logs[0]), fmt.Sprint(logs[1])
		if !strings.Contains(l0, "POST /e/"+who+" from") || !strings.Contains(fmt.Sprint(logs[1]), fmt.Sprintf("status 200 bytes %d ", len(body))) {
			a.fail("log entries are not about this exchange", d(l0+" | "+l1, who))
		}
	}
}

type fakeStream struct {
	grpc.ServerStream
	ctx context.Context
}

func (f *fakeStream) Context() context.Context { return f.ctx }

// grpcExchange calls the server interceptors the way a grpc.Server chains them.
func grpcExchange(a *mwArea, u *ids, name string, stream, trust bool, traced int, sv *grpcServer, lg *sink, g, i int) {
	atomic.AddInt64(&a.Ops, 1)
	who := fmt.Sprintf("g%di%d", g, i)
	method := "/svc/" + who
	md := metadata.MD{}
	inRid, inTrace, inParent := "", "", ""
	if i%2 == 0 {
		inRid = "rid-" + who + "-" + name + "-0123456789abcdefghij"
		md.Set(grpcm.RequestIDMetadataKey, inRid)
	}
	if i%3 == 0 {
		inTrace, inParent = "trace-"+name+"-"+who, "parent-"+who
		md.Set(grpcm.TraceIDMetadataKey, inTrace)
		md.Set(grpcm.ParentSpanIDMetadataKey, inParent)
	}
	ctx := metadata.NewIncomingContext(context.Background(), md)
	var seen context.Context
	var outMD metadata.MD
	final := func(ctx context.Context) {
		hold()
		seen = ctx
		// the client interceptors of a downstream call made by this handler
		if stream {
			grpcm.StreamClientTrace()(ctx, &grpc.StreamDesc{}, nil, method, func(ctx context.Context, _ *grpc.StreamDesc, _ *grpc.ClientConn, _ string, _ ...grpc.CallOption) (grpc.ClientStream, error) { // nolint: errcheck
				outMD, _ = metadata.FromOutgoingContext(ctx)
				return nil, nil
			})
		} else {
			grpcm.UnaryClientTrace()(ctx, method, nil, nil, nil, func(ctx context.Context, _ string, _, _ any, _ *grpc.ClientConn, _ ...grpc.CallOption) error { // nolint: errcheck
				outMD, _ = metadata.FromOutgoingContext(ctx)
				return nil
			})
		}
	}
	if stream {
		info := &grpc.StreamServerInfo{FullMethod: method, IsServerStream: true}
		rid, trace, logm := sv.sRid, sv.sTrace, sv.sLog
		rid(nil, &fakeStream{ctx: ctx}, info, func(srv any, ss grpc.ServerStream) error { // nolint: errcheck
			return logm(srv, ss, info, func(srv any, ss grpc.ServerStream) error {
				return trace(srv, ss, info, func(_ any, ss grpc.ServerStream) error { final(ss.Context()); return nil })
			})
		})
	} else {
		info := &grpc.UnaryServerInfo{FullMethod: method}
		rid, trace, logm := sv.uRid, sv.uTrace, sv.uLog
		rid(ctx, nil, info, func(ctx context.Context, req any) (any, error) { // nolint: errcheck
			return logm(ctx, req, info, func(ctx context.Context, req any) (any, error) {
				return trace(ctx, req, info, func(ctx context.Context, _ any) (any, error) { final(ctx); return nil, nil })
			})
		})
	}
	d := func(got, want string) map[string]any {
		return map[string]any{"chain": name, "request": who, "got": got, "want": want}
	}
	if seen == nil {
		a.fail("handler not reached", d("", ""))
		return
	}
	str := func(k any) string {
		s, _ := seen.Value(k).(string)
		return s
	}
	rid := str(middleware.RequestIDKey)
	switch {
	case trust && inRid != "":
		if rid != inRid[:ridLimit] {
			a.fail("request id is not the inbound one", d(rid, inRid[:ridLimit]))
		}
	case rid == "" || strings.HasPrefix(rid, "rid-"):
		a.fail("no fresh request id", d(rid, "a generated id"))
	case !u.fresh(name+"/rid", rid):
		a.fail("request id given to two requests", d(rid, "an id of its own"))
	}
	if smd, _ := metadata.FromIncomingContext(seen); grpcm.MetadataValue(smd, grpcm.RequestIDMetadataKey) != rid {
		a.fail("request id metadata differs from the request id", d(grpcm.MetadataValue(smd, grpcm.RequestIDMetadataKey), rid))
	}
	tr, sp, pa := str(middleware.TraceIDKey), str(middleware.TraceSpanIDKey), str(middleware.TraceParentSpanIDKey)
	switch {
	case inTrace != "":
		if tr != inTrace || pa != inParent {
			a.fail("trace/parent span are not the inbound ones", d(tr+" "+pa, inTrace+" "+inParent))
		}
	case tr == "":
		atomic.AddInt64(&a.Unsampled, 1)
		if traced == 1 {
			a.fail("request not sampled although the sampler must sample everything", d("", "a trace id"))
		}
	default:
		atomic.AddInt64(&a.Sampled, 1)
		if traced == 0 {
			a.fail("request sampled although the sampler must sample nothing", d(tr, ""))
		}
		if strings.HasPrefix(tr, "trace-") || !u.fresh(name+"/trace", tr) {
			a.fail("trace id given to two requests", d(tr, "an id of its own"))
		}
	}
	if tr != "" {
		if sp == "" || !u.fresh(name+"/span", sp) {
			a.fail("span id given to two requests", d(sp, "an id of its own"))
		}
		if grpcm.MetadataValue(outMD, grpcm.TraceIDMetadataKey) != tr || grpcm.MetadataValue(outMD, grpcm.ParentSpanIDMetadataKey) != sp {
			a.fail("downstream call does not carry the trace of this request", d(fmt.Sprint(outMD), tr+" "+sp))
		}
	}
	_, logs := lg.take(rid)
	if len(logs) != 2 || !strings.Contains(fmt.Sprint(logs[0]), method+" ") {
		a.fail("log entries are not about this call", d(fmt.Sprint(logs), "2 entries, the first naming "+method))
	}
}

// grpcServer holds the interceptors of one server: created once, shared by all calls
type grpcServer struct {
	uRid, uTrace, uLog grpc.UnaryServerInterceptor
	sRid, sTrace, sLog grpc.StreamServerInterceptor
}

func middlewareMatrix(w *vio.Writer, n, per int) {
	run := func(a *mwArea, f func(g, i int)) {
		a.G = n
		var wg sync.WaitGroup
		start := make(chan struct{})
		for g := 0; g < n; g++ {
			wg.Add(1)
			go func(g int) {
				defer wg.Done()
				<-start
				for i := 0; i < per; i++ {
					f(g, i)
				}
			}(g)
		}
		close(start)
		wg.Wait()
		w.Emit(a)
	}
	// ---- the samplers themselves
	for _, size := range []int{1, 2, 3, 4, 16} {
		s := middleware.NewAdaptiveSampler(unreachableRate, size)
		a := &mwArea{Area: fmt.Sprintf("mw/sampler/adaptive-unreachable-rate/size=%d", size)}
		run(a, func(g, i int) {
			for k := 0; k < 8; k++ {
				atomic.AddInt64(&a.Ops, 1)
				if !s.Sample() {
					a.fail("call not sampled although the maximum rate is out of reach", map[string]any{"size": size})
				}
			}
		})
		low := middleware.NewAdaptiveSampler(1, size)
		var yes int64
		a = &mwArea{Area: fmt.Sprintf("mw/sampler/adaptive-rate-1/size=%d", size)}
		run(a, func(g, i int) {
			for k := 0; k < 8; k++ {
				atomic.AddInt64(&a.Ops, 1)
				if low.Sample() {
					atomic.AddInt64(&yes, 1)
				}
			}
		})
		_ = yes
	}
	for _, pc := range []int{0, 50, 100} {
		s := middleware.NewFixedSampler(pc)
		a := &mwArea{Area: fmt.Sprintf("mw/sampler/fixed/%d", pc)}
		run(a, func(g, i int) {
			atomic.AddInt64(&a.Ops, 1)
			if v := s.Sample(); (pc == 0 && v) || (pc == 100 && !v) {
				a.fail("fixed sampler outside its percentage", map[string]any{"percent": pc, "sampled": v})
			}
		})
	}
	// ---- HTTP chains
	type cfg struct {
		name   string
		trust  bool
		traced int
		opts   []middleware.TraceOption
	}
	cfgs := []cfg{}
	for _, size := range []int{1, 2, 3, 4, 16} {
		cfgs = append(cfgs, cfg{fmt.Sprintf("adaptive-unreachable-rate/size=%d", size), size%2 == 1, 1, []middleware.TraceOption{httpm.MaxSamplingRate(unreachableRate), httpm.SampleSize(size)}})
	}
	cfgs = append(cfgs,
		cfg{"adaptive-rate-1/size=2", true, -1, []middleware.TraceOption{httpm.MaxSamplingRate(1), httpm.SampleSize(2)}},
		cfg{"fixed/100", false, 1, []middleware.TraceOption{httpm.SamplingPercent(100)}},
		cfg{"fixed/50", true, -1, []middleware.TraceOption{httpm.SamplingPercent(50)}},
		cfg{"fixed/0", false, 0, []middleware.TraceOption{httpm.SamplingPercent(0)}})
	for _, c := range cfgs {
		ch := newChain(c.name, c.trust, c.traced, c.opts...)
		u := &ids{}
		a := &mwArea{Area: "mw/http/" + c.name, Notes: map[string]any{"request_id_trusts_inbound": c.trust, "chain": "RequestID, Trace, Debug, Log(ResponseCapture), echo handler on goahttp.Muxer"}}
		run(a, func(g, i int) { ch.exchange(a, u, g, i) })
		if ch.sink.torn > 0 {
			a.fail("Debug record mixing the ids of several requests", map[string]any{"records": ch.sink.torn})
			w.Emit(&mwArea{Area: a.Area + "/torn-debug-records", G: n, Ops: a.Ops, Bad: int64(ch.sink.torn)})
		}
	}
	// ---- gRPC interceptors, called the way grpc.Server chains them (no network)
	for _, stream := range []bool{false, true} {
		for _, c := range cfgs {
			if strings.Contains(c.name, "size=3") || strings.Contains(c.name, "size=4") || strings.Contains(c.name, "size=16") {
				continue
			}
			kind := map[bool]string{false: "unary", true: "stream"}[stream]
			u, lg := &ids{}, newSink()
			var ropts []middleware.RequestIDOption
			if c.trust {
				ropts = []middleware.RequestIDOption{grpcm.UseXRequestIDMetadataOption(true), grpcm.XRequestMetadataLimitOption(ridLimit)}
			}
			sv := &grpcServer{uRid: grpcm.UnaryRequestID(ropts...), uTrace: grpcm.UnaryServerTrace(c.opts...), uLog: grpcm.UnaryServerLog(lg),
				sRid: grpcm.StreamRequestID(ropts...), sTrace: grpcm.StreamServerTrace(c.opts...), sLog: grpcm.StreamServerLog(lg)}
			a := &mwArea{Area: "mw/grpc-" + kind + "/" + c.name, Notes: map[string]any{"request_id_trusts_inbound": c.trust, "chain": "RequestID, Log, ServerTrace, handler calling ClientTrace"}}
			c := c
			run(a, func(g, i int) { grpcExchange(a, u, kind+"/"+c.name, stream, c.trust, c.traced, sv, lg, g, i) })
		}
	}
}
