// Codec matrix for C20: the request decoders, response encoders, response decoders and the request encoder of
// package goahttp are created per request by factories that every handler and every client share.  Here N
// goroutines run whole exchanges - raw client -> RequestDecoder -> (the "handler" keeps its payload while other
// requests are served) -> ResponseEncoder -> ResponseDecoder -> (the "caller" keeps its result likewise) - over
// every request content type x body kind x response negotiation, every request with a payload of its own
// (content and size).  The oracle is per request: each exchange is first run alone (one goroutine, nothing in
// flight besides it) and its outcome - payload delivered, status, content type and bytes of the reply, result
// decoded by the client, errors - is what the same exchange must produce among the others.
package main

import (
	"bytes"
	"context"
	"crypto/sha1"
	"encoding/base64"
	"encoding/gob"
	"encoding/hex"
	"encoding/json"
	"encoding/xml"
	"fmt"
	"io"
	"math/rand"
	"net/http"
	"net/http/httptest"
	"os"
	"reflect"
	"runtime"
	"strings"
	"sync"

	goahttp "goa.design/goa/v3/http"

	"verif/harness/vio"
)

// Obj is the object body (what a generated body type looks like: exported fields with json/xml tags).
type Obj struct {
	S string   `json:"s" xml:"s"`
	B []byte   `json:"b,omitempty" xml:"b,omitempty"`
	N int      `json:"n" xml:"n"`
	L []string `json:"l,omitempty" xml:"l,omitempty"`
}

var (
	reqCTs = []string{"application/json", "application/json; charset=utf-8", "", "application/xml", "application/gob",
		"text/plain", "text/html; charset=utf-8", "application/vnd.verif+json"}
	bodyKinds = []string{"object", "string", "bytes", "list"}
	// response negotiation: "a:" an Accept value, "c:" a content type fixed by the design (ContentTypeKey)
	respNegs = []string{"a:", "a:application/json", "a:application/xml", "a:application/gob", "a:text/plain", "a:text/html",
		"a:application/xml; q=0.8", "a:*/*", "c:application/vnd.verif+json", "c:application/vnd.verif+xml", "c:text/plain", "c:application/vnd.verif+gob"}
	// body sizes on both sides of the growth steps of the buffers involved (bytes.Buffer: 64, bytes.MinRead 512;
	// io.ReadAll: 512 and up; bufio: 4096) - the large ones are rare
	sizes = []int{1, 7, 63, 64, 65, 200, 511, 512, 513, 1023, 1024, 1025, 1536, 2047, 2048, 2049, 4095, 4096, 4097, 9000, 33000, 70000}
)

func ctClass(ct string) string {
	switch {
	case ct == "":
		return "none"
	case strings.HasSuffix(ct, "+json"):
		return "suffix+json"
	case strings.HasPrefix(ct, "application/json"):
		return "json"
	case strings.HasPrefix(ct, "application/xml"):
		return "xml"
	case strings.HasPrefix(ct, "application/gob"):
		return "gob"
	case strings.HasPrefix(ct, "text/plain"):
		return "text-plain"
	case strings.HasPrefix(ct, "text/html"):
		return "text-html"
	}
	return "other"
}

type exchange struct {
	reqCT, kind, neg string
	size             int
	marker           string
}

func fill(marker string, size int) string {
	var b strings.Builder
	for b.Len() < size {
		b.WriteString(marker)
	}
	return b.String()[:size]
}

// payload builds the value of one request: pairwise distinct between requests (the marker) and of the wanted size.
func (x *exchange) payload() any {
	text := fill(x.marker, x.size)
	if len(text) < len(x.marker) {
		text = x.marker // the marker is always whole: a payload says whose it is
	}
	switch x.kind {
	case "string":
		return text
	case "bytes":
		return []byte(text)
	case "list":
		n := 1 + x.size%5
		l := make([]string, n)
		for i := range l {
			l[i] = fmt.Sprintf("%s#%d/%s", x.marker, i, fill(x.marker, x.size/n))
		}
		return l
	}
	return &Obj{S: text, B: []byte("b:" + text), N: x.size, L: []string{x.marker, "l:" + fill(x.marker, x.size/4)}}
}

// rawEncode is the raw client: it writes the body the way a third-party client of that content type would.
func rawEncode(ct string, v any) []byte {
	var buf bytes.Buffer
	switch ctClass(ct) {
	case "xml":
		if b, ok := v.([]byte); ok { // encoding/xml has no name for a top-level byte string
			buf.WriteString("<bytes>")
			xml.EscapeText(&buf, b) // nolint: errcheck
			buf.WriteString("</bytes>")
			return buf.Bytes()
		}
		if err := xml.NewEncoder(&buf).Encode(v); err != nil {
			vio.Die("raw xml client: %v", err)
		}
	case "gob":
		if err := gob.NewEncoder(&buf).Encode(v); err != nil {
			vio.Die("raw gob client: %v", err)
		}
	case "text-plain", "text-html":
		switch c := v.(type) {
		case string:
			buf.WriteString(c)
		case []byte:
			buf.Write(c)
		default: // not text: the server has to refuse it
			fmt.Fprintf(&buf, "%v", v)
		}
	default:
		if err := json.NewEncoder(&buf).Encode(v); err != nil {
			vio.Die("raw json client: %v", err)
		}
	}
	return buf.Bytes()
}

func target(kind string) any {
	switch kind {
	case "string":
		return new(string)
	case "bytes":
		return new([]byte)
	case "list":
		return new([]string)
	}
	return new(*Obj)
}

func digest(v any) string {
	var s string
	switch c := v.(type) {
	case *string:
		s = "s:" + *c
	case *[]byte:
		s = "b:" + string(*c)
	case *[]string:
		s = fmt.Sprintf("l:%q", *c)
	case **Obj:
		if *c == nil {
			s = "o:nil"
		} else {
			s = fmt.Sprintf("o:%q %q %d %q", (*c).S, (*c).B, (*c).N, (*c).L)
		}
	default:
		s = fmt.Sprintf("?%v", v)
	}
	h := sha1.Sum([]byte(s))
	head := s
	if len(head) > 48 {
		head = head[:48]
	}
	return fmt.Sprintf("%d:%s:%q", len(s), hex.EncodeToString(h[:6]), head)
}

// hold is what a handler (or a caller) does between obtaining a value and using it: other requests get to run.
func hold() {
	runtime.Gosched()
	runtime.Gosched()
}

// run executes one exchange and returns its outcome, component by component.
func (x *exchange) run() (out [4]string) {
	v := x.payload()
	// ---- client: request
	req := httptest.NewRequest("POST", "/echo", nil)
	if x.reqCT == "application/json" {
		// what generated clients do
		if err := goahttp.RequestEncoder(req).Encode(v); err != nil {
			vio.Die("RequestEncoder: %v", err)
		}
		if req.Header.Get("Content-Type") != "application/json" {
			out[0] = "request content type " + req.Header.Get("Content-Type")
		}
	} else {
		if x.reqCT != "" {
			req.Header.Set("Content-Type", x.reqCT)
		}
		req.Body = io.NopCloser(bytes.NewReader(rawEncode(x.reqCT, v)))
	}
	// ---- server: decode, keep the payload while other requests are served, reply with the payload
	tgt := target(x.kind)
	derr := goahttp.RequestDecoder(req).Decode(tgt)
	hold()
	out[0] += "delivered " + digest(tgt)
	rec := httptest.NewRecorder()
	ctx := context.Background()
	if strings.HasPrefix(x.neg, "a:") {
		ctx = context.WithValue(ctx, goahttp.AcceptTypeKey, x.neg[2:])
	} else {
		ctx = context.WithValue(ctx, goahttp.ContentTypeKey, x.neg[2:])
	}
	enc := goahttp.ResponseEncoder(ctx, rec)
	var eerr error
	if derr != nil {
		rec.WriteHeader(http.StatusBadRequest)
		eerr = enc.Encode(derr.Error())
	} else {
		rec.WriteHeader(http.StatusOK)
		eerr = enc.Encode(reflect.ValueOf(tgt).Elem().Interface())
	}
	hold()
	h := sha1.Sum(rec.Body.Bytes())
	out[1] = fmt.Sprintf("reply %d %q %d:%s derr=%v eerr=%v", rec.Code, rec.Header().Get("Content-Type"), rec.Body.Len(), hex.EncodeToString(h[:6]), derr, eerr)
	out[2] = "reply of " + digest(tgt) // the payload the reply was computed from, as it reads after the reply left
	// ---- client: decode the reply, keep the result while other replies are decoded
	resp := rec.Result()
	var res any
	if derr != nil {
		res = new(string)
	} else {
		res = target(x.kind)
	}
	rerr := goahttp.ResponseDecoder(resp).Decode(res)
	hold()
	out[3] = fmt.Sprintf("result %s rerr=%v", digest(res), rerr)
	return out
}

// plan draws the exchanges of goroutine g (the same draw for the solo pass and for the concurrent pass).
func plan(seed int64, g, n int) []*exchange {
	rnd := rand.New(rand.NewSource(seed*1000003 + int64(g)))
	xs := make([]*exchange, n)
	for i := range xs {
		size := sizes[rnd.Intn(len(sizes))]
		if size > 10000 && rnd.Intn(4) != 0 {
			size = sizes[rnd.Intn(12)]
		}
		// walk the matrix (so that every cell is met) from a per-goroutine start, sizes at random
		c := i + g*37
		xs[i] = &exchange{reqCT: reqCTs[c%len(reqCTs)], kind: bodyKinds[(c/len(reqCTs)+g)%len(bodyKinds)],
			neg: respNegs[(c/(len(reqCTs)*len(bodyKinds))+3*g)%len(respNegs)], size: size, marker: fmt.Sprintf("<g%d.i%d>", g, i)}
	}
	return xs
}

var component = [4]string{"payload delivered to the handler", "reply", "payload after the reply was written", "result decoded by the client"}

// codecMatrix runs n goroutines x per exchanges: alone first (the reference), then all at once.
func codecMatrix(w *vio.Writer, n, per int) {
	plans := make([][]*exchange, n)
	want := make([][][4]string, n)
	for g := range plans {
		plans[g] = plan(*vio.Seed, g, per)
		want[g] = make([][4]string, per)
		for i, x := range plans[g] {
			want[g][i] = x.run()
		}
	}
	type cell struct {
		Area     string         `json:"area"`
		G        int            `json:"goroutines"`
		Ops      int            `json:"ops"`
		Bad      int            `json:"echo_failures"`
		Negs     map[string]int `json:"negotiations"`
		Decoded  int            `json:"decoded"`
		MaxSize  int            `json:"max_size"`
		First    map[string]any `json:"first_failure,omitempty"`
		Parts    map[string]int `json:"failed_components,omitempty"`
		cellLock sync.Mutex
	}
	cells := map[string]*cell{}
	for _, ct := range reqCTs {
		for _, k := range bodyKinds {
			a := "codec/" + ctClass(ct) + "/" + k
			cells[a] = &cell{Area: a, G: n, Negs: map[string]int{}, Parts: map[string]int{}}
		}
	}
	var wg sync.WaitGroup
	start := make(chan struct{})
	for g := 0; g < n; g++ {
		wg.Add(1)
		go func(g int) {
			defer wg.Done()
			<-start
			for i, x := range plans[g] {
				got := x.run()
				c := cells["codec/"+ctClass(x.reqCT)+"/"+x.kind]
				c.cellLock.Lock()
				c.Ops++
				c.Negs[x.neg]++
				if x.size > c.MaxSize {
					c.MaxSize = x.size
				}
				if strings.Contains(got[1], "derr=<nil>") {
					c.Decoded++
				}
				if got != want[g][i] {
					c.Bad++
					for k := range got {
						if got[k] != want[g][i][k] {
							c.Parts[component[k]]++
							if c.First == nil {
								c.First = map[string]any{"request": x.marker, "content_type": x.reqCT, "body": x.kind, "response": x.neg, "size": x.size,
									"component": component[k], "alone": want[g][i][k], "among_others": got[k]}
							}
						}
					}
				}
				c.cellLock.Unlock()
			}
		}(g)
	}
	close(start)
	wg.Wait()
	for _, ct := range reqCTs {
		for _, k := range bodyKinds {
			a := "codec/" + ctClass(ct) + "/" + k
			if c := cells[a]; c != nil {
				w.Emit(c)
				delete(cells, a)
			}
		}
	}
}

// gobBodies (-gob FILE): the raw gob client of the rt runner.  Reads {"id", "kind", "s", "l", "n"} lines and writes
// {"id", "b64"}: the gob encoding of the string / byte string / list / object body, base64.
func gobBodies(path string, w *vio.Writer) {
	fh, err := os.ReadFile(path)
	if err != nil {
		vio.Die("%v", err)
	}
	for _, line := range bytes.Split(fh, []byte("\n")) {
		if len(bytes.TrimSpace(line)) == 0 {
			continue
		}
		var in struct {
			ID   string   `json:"id"`
			Kind string   `json:"kind"`
			S    string   `json:"s"`
			L    []string `json:"l"`
			N    int      `json:"n"`
		}
		if err := json.Unmarshal(line, &in); err != nil {
			vio.Die("bad gob request: %v", err)
		}
		var v any
		switch in.Kind {
		case "string":
			v = in.S
		case "bytes":
			v = []byte(in.S)
		case "list":
			v = in.L
		case "object":
			// field names as in the generated body type of the design (checks/c20.py)
			v = struct {
				S string
				B []byte
				N int
				L []string
			}{in.S, []byte("b:" + in.S), in.N, in.L}
		default:
			vio.Die("gob body of unknown kind %q", in.Kind)
		}
		var buf bytes.Buffer
		if err := gob.NewEncoder(&buf).Encode(v); err != nil {
			vio.Die("gob: %v", err)
		}
		w.Emit(map[string]any{"id": in.ID, "b64": base64.StdEncoding.EncodeToString(buf.Bytes())})
	}
}
