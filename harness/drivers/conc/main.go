// Driver for C20 (direct concurrent use of the runtime helpers): N goroutines share one ErrorEncoder, the
// response encoder factory, one mounted muxer, the pattern validator and the samplers. Built with -race by
// the check; every goroutine also verifies that what it got back was computed from what it sent (echo).
package main

import (
	"context"
	"encoding/json"
	"errors"
	"flag"
	"fmt"
	"net/http"
	"net/http/httptest"
	"strings"
	"sync"
	"sync/atomic"

	goahttp "goa.design/goa/v3/http"
	"goa.design/goa/v3/middleware"
	goa "goa.design/goa/v3/pkg"

	"verif/harness/vio"
)

func main() {
	n := flag.Int("goroutines", 16, "goroutines per area")
	iters := flag.Int("iters", 200, "iterations per goroutine")
	codec := flag.Int("codec", 0, "codec matrix: exchanges per goroutine (codecs.go)")
	mw := flag.Int("mw", 0, "shared-state middlewares and samplers: exchanges per goroutine and configuration (middlewares.go)")
	gobIn := flag.String("gob", "", "encode the bodies listed in this file with gob and exit (codecs.go)")
	flag.Parse()
	w, err := vio.NewWriter()
	if err != nil {
		vio.Die("%v", err)
	}
	defer w.Close()
	if *gobIn != "" {
		gobBodies(*gobIn, w)
		return
	}
	if *codec > 0 {
		codecMatrix(w, *n, *codec)
	}
	if *mw > 0 {
		middlewareMatrix(w, *n, *mw)
	}

	run := func(area string, f func(g, i int) bool) {
		var wg sync.WaitGroup
		var bad int64
		for g := 0; g < *n; g++ {
			wg.Add(1)
			go func(g int) {
				defer wg.Done()
				for i := 0; i < *iters; i++ {
					if !f(g, i) {
						atomic.AddInt64(&bad, 1)
					}
				}
			}(g)
		}
		wg.Wait()
		w.Emit(map[string]any{"area": area, "goroutines": *n, "ops": *n * *iters, "echo_failures": bad})
	}

	// one ErrorEncoder shared by all requests of a handler, no custom formatter (what generated servers do)
	encodeError := goahttp.ErrorEncoder(goahttp.ResponseEncoder, nil)
	run("error_encoder", func(g, i int) bool {
		rec := httptest.NewRecorder()
		msg := fmt.Sprintf("e-%d-%d", g, i)
		ctx := context.WithValue(context.Background(), goahttp.AcceptTypeKey, "application/json")
		if err := encodeError(ctx, rec, goa.PermanentError("n", "%s", msg)); err != nil {
			return false
		}
		var body struct{ Name, Message string }
		if json.Unmarshal(rec.Body.Bytes(), &body) != nil {
			return false
		}
		return body.Message == msg && rec.Code == 400
	})

	run("response_encoder", func(g, i int) bool {
		rec := httptest.NewRecorder()
		k := (g + i) % 6
		accept := []string{"application/json", "application/xml", "", "text/plain", "application/xml; q=0.8", "application/gob; q=0.7"}[k]
		wantCT := []string{"application/json", "application/xml", "application/json", "text/plain", "application/xml", "application/gob"}[k]
		ctx := context.WithValue(context.Background(), goahttp.AcceptTypeKey, accept)
		v := fmt.Sprintf("v-%d-%d", g, i)
		if err := goahttp.ResponseEncoder(ctx, rec).Encode(v); err != nil {
			return false
		}
		// the negotiated content type belongs to this request alone
		return strings.Contains(rec.Body.String(), v) && strings.HasPrefix(rec.Header().Get("Content-Type"), wantCT)
	})

	mux := goahttp.NewMuxer()
	// a middleware that asks for the path variables and the pattern before the request is routed (what goa's
	// own debug/log middlewares do): it must see the values of its own request
	var mwBad int64
	mux.Use(func(next http.Handler) http.Handler {
		return http.HandlerFunc(func(rw http.ResponseWriter, r *http.Request) {
			want := r.Header.Get("X-Id")
			if got := mux.Vars(r)["id"]; got != want {
				atomic.AddInt64(&mwBad, 1)
			}
			if p := mux.ResolvePattern(r); p != r.Header.Get("X-Pattern") {
				atomic.AddInt64(&mwBad, 1)
			}
			next.ServeHTTP(rw, r)
		})
	})
	mux.Handle("GET", "/a/{id}", func(rw http.ResponseWriter, r *http.Request) { fmt.Fprint(rw, "a:"+mux.Vars(r)["id"]) })
	mux.Handle("GET", "/b/{id}/x/{*rest}", func(rw http.ResponseWriter, r *http.Request) {
		fmt.Fprint(rw, "b:"+mux.Vars(r)["id"]+":"+mux.Vars(r)["rest"])
	})
	run("muxer", func(g, i int) bool {
		rec := httptest.NewRecorder()
		id := fmt.Sprintf("%d-%d", g, i)
		if (g+i)%2 == 0 {
			req := httptest.NewRequest("GET", "/a/"+id, nil)
			req.Header.Set("X-Id", id)
			req.Header.Set("X-Pattern", "/a/{id}")
			mux.ServeHTTP(rec, req)
			return rec.Body.String() == "a:"+id
		}
		req := httptest.NewRequest("GET", "/b/"+id+"/x/p/q", nil)
		req.Header.Set("X-Id", id)
		req.Header.Set("X-Pattern", "/b/{id}/x/{*rest}")
		mux.ServeHTTP(rec, req)
		return rec.Body.String() == "b:"+id+":p/q"
	})
	w.Emit(map[string]any{"area": "muxer_middleware_lookups", "goroutines": *n, "ops": *n * *iters, "echo_failures": atomic.LoadInt64(&mwBad)})

	pats := []string{"^[a-z]+$", "^[0-9]+$", "^a.*z$", "^(x|y)+$", "^[a-c]{2,3}$"}
	run("validate_pattern", func(g, i int) bool {
		p := pats[(g+i)%len(pats)]
		okv := []string{"abc", "123", "abz", "xyx", "abc"}[(g+i)%len(pats)]
		e1 := goa.ValidatePattern("f", okv, p)
		e2 := goa.ValidatePattern("f", "!!", p)
		return e1 == nil && e2 != nil
	})

	fixed0, fixed100 := middleware.NewFixedSampler(0), middleware.NewFixedSampler(100)
	adaptive := middleware.NewAdaptiveSampler(100, 50)
	run("samplers", func(g, i int) bool {
		adaptive.Sample()
		return !fixed0.Sample() && fixed100.Sample()
	})

	run("merge_errors", func(g, i int) bool {
		a := goa.PermanentError("a", "m%d", g)
		b := errors.New("plain")
		m := goa.MergeErrors(a, b)
		return strings.HasPrefix(m.Error(), fmt.Sprintf("m%d; ", g))
	})
}
