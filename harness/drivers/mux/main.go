// Driver for C16: registers pattern sets and middlewares on the real goahttp.NewMuxer(),
// delivers requests the way a socket would (request line written out, re-read with
// http.ReadRequest so that URL.Path / URL.RawPath are derived by net/http) and projects
// what the real code does onto the observables of spec/Mux.tla:
//   - outcome of every Use call (ok / panic)
//   - order of middleware entry/exit, handler, 404/405 responder
//   - Vars and ResolvePattern as seen by a Use-middleware before and after next, and by the handler
//   - status, content type and well-formedness of the not-found body
//   - URL.Path (as abstract characters) and whether RawPath was kept
// The driver holds no expectation of its own: predictions come from TLC.
package main

import (
	"bufio"
	"encoding/json"
	"encoding/xml"
	"flag"
	"fmt"
	"math/rand"
	"net/http"
	"net/http/httptest"
	"net/url"
	"strings"
	"unicode/utf8"

	goahttp "goa.design/goa/v3/http"

	"verif/harness/vio"
)

// ---- abstract alphabet <-> concrete text ---------------------------------------------------

var concrete = map[string]string{"x": "x", "z": "z", "4": "4", "1": "1", "/": "/", "%": "%", " ": " ", "+": "+", "U": "é", ";": ";"}
var abstract = map[rune]string{'x': "x", 'z': "z", '4': "4", '1': "1", '/': "/", '%': "%", ' ': " ", '+': "+", 'é': "U", ';': ";"}
var sigma = []string{"x", "z", "4", "1", "/", "%", " ", "+", "U", ";"}

// tokens of a wire path: ["l", c] literal, ["e", c] percent-escaped
type Tok [2]string

func target(wire []Tok) string {
	var b strings.Builder
	for _, t := range wire {
		c, ok := concrete[t[1]]
		if !ok {
			vio.Die("unknown abstract character %q", t[1])
		}
		switch t[0] {
		case "l":
			if t[1] == "%" || t[1] == " " || t[1] == "U" {
				vio.Die("character %q cannot be sent literally", t[1])
			}
			b.WriteString(c)
		case "e":
			for _, by := range []byte(c) {
				fmt.Fprintf(&b, "%%%02X", by)
			}
		default:
			vio.Die("bad token tag %q", t[0])
		}
	}
	return b.String()
}

// chars projects a concrete string onto abstract characters; bytes outside the alphabet become "#XX".
func chars(s string) []string {
	out := []string{}
	for i := 0; i < len(s); {
		r, sz := utf8.DecodeRuneInString(s[i:])
		if a, ok := abstract[r]; ok && !(r == utf8.RuneError && sz <= 1) {
			out = append(out, a)
		} else {
			for _, by := range []byte(s[i : i+sz]) {
				out = append(out, fmt.Sprintf("#%02X", by))
			}
		}
		i += sz
	}
	return out
}

// patSegs splits a pattern text into its segment texts: "" -> [], "/" -> [""], "/x/{id}" -> ["x","{id}"].
func patSegs(p string) []string {
	if p == "" {
		return []string{}
	}
	if !strings.HasPrefix(p, "/") {
		return []string{"?" + p}
	}
	return strings.Split(p[1:], "/")
}

// ---- case and observation -------------------------------------------------------------------

type Seg struct {
	K string   `json:"k"`
	V []string `json:"v"`
}
type Op struct {
	Op      string `json:"op"`
	ID      int    `json:"id"`
	Probe   bool   `json:"probe"`
	Method  string `json:"method"`
	Pattern string `json:"pattern"`
	Segs    []Seg  `json:"segs,omitempty"`
}
type Src struct {
	Hid  int        `json:"hid"`
	Vals [][]string `json:"vals"`
	Enc  string     `json:"enc"`
}
type Req struct {
	Method string `json:"method"`
	Wire   []Tok  `json:"wire"`
	Accept string `json:"accept"`
	Src    *Src   `json:"src,omitempty"`
}
type Case struct {
	Plan []Op `json:"plan"`
	Req  Req  `json:"req"`
}
type Probe struct {
	At   []any               `json:"at,omitempty"`
	Res  []string            `json:"res"`
	Vars map[string][]string `json:"vars"`
}
type ObsRec struct {
	Order   [][]any `json:"order"`
	Probes  []Probe `json:"probes"`
	Reached int     `json:"reached"`
	Status  int     `json:"status"`
	CT      string  `json:"ct"`
	WF      bool    `json:"wf"`
}
type URLRec struct {
	Path    []string `json:"path"`
	RawKept bool     `json:"rawkept"`
}
type Out struct {
	Obs    ObsRec   `json:"obs"`
	UseRes []string `json:"useres"`
	URL    URLRec   `json:"url"`
}

// event is one trace line (Appendix B vocabulary for the mux)
type event map[string]any

type run struct {
	mux    goahttp.ResolverMuxer
	events []event
	out    Out
}

func (r *run) probe(req *http.Request) Probe {
	p := Probe{Res: patSegs(r.mux.ResolvePattern(req)), Vars: map[string][]string{"#": {}}}
	for k, v := range r.mux.Vars(req) {
		p.Vars[k] = chars(v)
	}
	return p
}

// statusWriter reports when the response header is written, so that the 404/405 responder has its
// place in the recorded order.
type statusWriter struct {
	http.ResponseWriter
	r     *run
	wrote bool
}

func (s *statusWriter) WriteHeader(code int) {
	if !s.wrote {
		s.wrote = true
		switch code {
		case http.StatusNotFound:
			s.r.out.Obs.Order = append(s.r.out.Obs.Order, []any{"nf", 0})
		case http.StatusMethodNotAllowed:
			s.r.out.Obs.Order = append(s.r.out.Obs.Order, []any{"na", 0})
		}
	}
	s.ResponseWriter.WriteHeader(code)
}
func (s *statusWriter) Write(b []byte) (int, error) {
	if !s.wrote {
		s.WriteHeader(http.StatusOK)
	}
	return s.ResponseWriter.Write(b)
}

func (r *run) middleware(id int, probe bool) func(http.Handler) http.Handler {
	return func(next http.Handler) http.Handler {
		return http.HandlerFunc(func(w http.ResponseWriter, req *http.Request) {
			r.out.Obs.Order = append(r.out.Obs.Order, []any{"in", id})
			ev := event{"ev": "mw", "dir": "in", "id": id}
			if probe {
				p := r.probe(req)
				ev["probe"] = p
				p.At = []any{"pre", id}
				r.out.Obs.Probes = append(r.out.Obs.Probes, p)
			}
			r.events = append(r.events, ev)
			next.ServeHTTP(w, req)
			r.out.Obs.Order = append(r.out.Obs.Order, []any{"out", id})
			ev = event{"ev": "mw", "dir": "out", "id": id}
			if probe {
				p := r.probe(req)
				ev["probe"] = p
				p.At = []any{"post", id}
				r.out.Obs.Probes = append(r.out.Obs.Probes, p)
			}
			r.events = append(r.events, ev)
		})
	}
}

func (r *run) handler(hid int) http.HandlerFunc {
	return func(w http.ResponseWriter, req *http.Request) {
		r.out.Obs.Order = append(r.out.Obs.Order, []any{"h", hid})
		p := r.probe(req)
		r.events = append(r.events, event{"ev": "reached", "id": hid, "probe": p})
		p.At = []any{"h", hid}
		r.out.Obs.Probes = append(r.out.Obs.Probes, p)
		r.out.Obs.Reached = hid
		w.WriteHeader(http.StatusOK)
	}
}

func (r *run) use(o Op) (res string) {
	defer func() {
		if e := recover(); e != nil {
			res = "panic"
		}
	}()
	r.mux.Use(r.middleware(o.ID, o.Probe))
	return "ok"
}

// wellFormed: the body parses under the announced content type and carries a goa error
// (name, id, message and the three flags).
func wellFormed(ct string, body []byte) (string, bool) {
	switch ct {
	case "application/json":
		var m map[string]any
		if err := json.Unmarshal(body, &m); err != nil {
			return "json", false
		}
		for _, k := range []string{"name", "id", "message"} {
			s, ok := m[k].(string)
			if !ok || s == "" {
				return "json", false
			}
		}
		for _, k := range []string{"temporary", "timeout", "fault"} {
			if _, ok := m[k].(bool); !ok {
				return "json", false
			}
		}
		return "json", true
	case "application/xml":
		var e struct {
			Name      string `xml:"name"`
			ID        string `xml:"id"`
			Message   string `xml:"message"`
			Temporary *bool  `xml:"temporary"`
			Timeout   *bool  `xml:"timeout"`
			Fault     *bool  `xml:"fault"`
		}
		if err := xml.Unmarshal(body, &e); err != nil {
			return "xml", false
		}
		return "xml", e.Name != "" && e.ID != "" && e.Message != "" && e.Temporary != nil && e.Timeout != nil && e.Fault != nil
	}
	return "?" + ct, false
}

func execute(c Case) *run {
	r := &run{mux: goahttp.NewMuxer()}
	r.out.Obs = ObsRec{Order: [][]any{}, Probes: []Probe{}, CT: "-"}
	r.out.UseRes = []string{}
	r.events = append(r.events, event{"ev": "reset"})
	for _, o := range c.Plan {
		switch o.Op {
		case "use":
			res := r.use(o)
			r.out.UseRes = append(r.out.UseRes, res)
			r.events = append(r.events, event{"ev": "use", "id": o.ID, "probe": o.Probe, "res": res})
		case "handle":
			r.mux.Handle(o.Method, o.Pattern, r.handler(o.ID))
			r.events = append(r.events, event{"ev": "handle", "id": o.ID, "method": o.Method, "pattern": o.Pattern, "segs": o.Segs})
		default:
			vio.Die("unknown op %q", o.Op)
		}
	}
	// the request as it would arrive on a connection
	tgt := target(c.Req.Wire)
	raw := c.Req.Method + " " + tgt + " HTTP/1.1\r\nHost: verif\r\n"
	if c.Req.Accept != "" {
		raw += "Accept: " + c.Req.Accept + "\r\n"
	}
	raw += "\r\n"
	req, err := http.ReadRequest(bufio.NewReader(strings.NewReader(raw)))
	if err != nil {
		vio.Die("request %q does not parse: %v", tgt, err)
	}
	r.out.URL = URLRec{Path: chars(req.URL.Path), RawKept: req.URL.RawPath != ""}
	ev := event{"ev": "serve", "method": c.Req.Method, "wire": c.Req.Wire, "accept": c.Req.Accept, "target": tgt,
		"path": r.out.URL.Path, "rawkept": r.out.URL.RawKept}
	if c.Req.Src != nil {
		ev["src"] = c.Req.Src
	}
	r.events = append(r.events, ev)
	rec := httptest.NewRecorder()
	r.mux.ServeHTTP(&statusWriter{ResponseWriter: rec, r: r}, req)
	r.out.Obs.Status = rec.Code
	if r.out.Obs.Reached == 0 {
		e := event{"ev": "notfound", "status": rec.Code, "ct": "-", "wf": false}
		if rec.Code == http.StatusNotFound {
			r.out.Obs.CT, r.out.Obs.WF = wellFormed(rec.Header().Get("Content-Type"), rec.Body.Bytes())
			e["ct"], e["wf"] = r.out.Obs.CT, r.out.Obs.WF
		}
		// the responder ran inside the middleware chain: put the event where it happened
		pos := len(r.events)
		for i := len(r.events) - 1; i >= 0 && r.events[i]["ev"] == "mw" && r.events[i]["dir"] == "out"; i-- {
			pos = i
		}
		r.events = append(r.events[:pos], append([]event{e}, r.events[pos:]...)...)
	}
	r.events = append(r.events, event{"ev": "done"})
	return r
}

// ---- random cases (beyond the TLC enumeration) ---------------------------------------------

func randValue(rg *rand.Rand, allowEmpty bool) []string {
	n := rg.Intn(7)
	if n == 0 && !allowEmpty {
		n = 1
	}
	v := []string{}
	for len(v) < n {
		if rg.Intn(5) == 0 { // an escape look-alike
			v = append(v, "%", []string{"4", "1"}[rg.Intn(2)], []string{"4", "1"}[rg.Intn(2)])
			continue
		}
		v = append(v, sigma[rg.Intn(len(sigma))])
	}
	return v
}

func escapeValue(v []string, enc string, wild bool) []Tok {
	if enc == "seg" && !wild {
		enc = "min"
	}
	out := []Tok{}
	for _, c := range v {
		esc := false
		switch enc {
		case "all":
			esc = true
		case "seg":
			esc = c == "%" || c == " " || c == "U" || c == ";"
		default: // the client library's own escaping
			esc = url.PathEscape(concrete[c]) != concrete[c]
		}
		if esc {
			out = append(out, Tok{"e", c})
		} else {
			out = append(out, Tok{"l", c})
		}
	}
	return out
}

func segText(s Seg) string {
	switch s.K {
	case "lit":
		return strings.Join(s.V, "")
	case "var":
		return "{" + s.V[0] + "}"
	}
	return "{*" + s.V[0] + "}"
}

func patText(segs []Seg) string {
	var b strings.Builder
	for _, s := range segs {
		b.WriteString("/" + segText(s))
	}
	return b.String()
}

// variant derives a later Handle call from an earlier one (a registration history): the same pattern again,
// its wildcards renamed, another method, the trailing slash added or dropped - alone or combined.  What the
// muxer must do with it is said by spec/Mux.tla (the trace is validated against it), not here.
func variant(rg *rand.Rand, prev Op, methods []string) ([]Seg, string) {
	segs := make([]Seg, len(prev.Segs))
	for i, s := range prev.Segs {
		segs[i] = Seg{K: s.K, V: append([]string{}, s.V...)}
	}
	m := prev.Method
	if rg.Intn(2) == 0 { // other names (distinct within the pattern)
		names := []string{"uid", "key", "id", "name", "k", "v"}
		rg.Shuffle(len(names), func(i, j int) { names[i], names[j] = names[j], names[i] })
		for i := range segs {
			switch segs[i].K {
			case "var":
				if rg.Intn(3) != 0 {
					segs[i].V = []string{names[i]}
				}
			case "wild":
				segs[i].V = []string{[]string{"rest", "tail", "path"}[rg.Intn(3)]}
			}
		}
		seen := map[string]bool{}
		for _, s := range segs {
			if s.K == "var" {
				if seen[s.V[0]] { // a name used twice: keep the earlier call's names
					for i, p := range prev.Segs {
						if p.K == "var" {
							segs[i].V = append([]string{}, p.V...)
						}
					}
					break
				}
				seen[s.V[0]] = true
			}
		}
	}
	if rg.Intn(3) == 0 {
		m = methods[rg.Intn(2)]
	}
	if rg.Intn(4) == 0 { // trailing slash
		n := len(segs)
		last := segs[n-1]
		switch {
		case last.K == "lit" && len(last.V) == 0 && n > 1:
			segs = segs[:n-1]
		case last.K == "var" || (last.K == "lit" && len(last.V) > 0):
			segs = append(segs, Seg{K: "lit", V: []string{}})
		}
	}
	return segs, m
}

func randPattern(rg *rand.Rand) []Seg {
	if rg.Intn(12) == 0 {
		return []Seg{{K: "lit", V: []string{}}} // "/"
	}
	n := 1 + rg.Intn(4)
	names := []string{"id", "name", "k", "v"}
	rg.Shuffle(len(names), func(i, j int) { names[i], names[j] = names[j], names[i] })
	segs := []Seg{}
	for i := 0; i < n; i++ {
		switch {
		case i == n-1 && rg.Intn(3) == 0:
			segs = append(segs, Seg{K: "wild", V: []string{[]string{"rest", "tail"}[rg.Intn(2)]}})
		case rg.Intn(2) == 0:
			segs = append(segs, Seg{K: "var", V: []string{names[i]}})
		default:
			l := []string{[]string{"x", "z"}[rg.Intn(2)]}
			if rg.Intn(3) == 0 {
				l = append(l, []string{"x", "z", "4"}[rg.Intn(3)])
			}
			segs = append(segs, Seg{K: "lit", V: l})
		}
	}
	if segs[n-1].K == "lit" && rg.Intn(10) == 0 {
		segs = append(segs, Seg{K: "lit", V: []string{}}) // trailing slash
	}
	return segs
}

func randCase(rg *rand.Rand) Case {
	var c Case
	methods := []string{"GET", "POST", "PUT"}
	nmw := rg.Intn(4)
	for i := 1; i <= nmw; i++ {
		c.Plan = append(c.Plan, Op{Op: "use", ID: i, Probe: rg.Intn(2) == 0, Method: "-"})
	}
	np := 1 + rg.Intn(6)
	var handles []Op
	for len(handles) < np {
		segs := randPattern(rg)
		m := methods[rg.Intn(2)]
		if len(handles) > 0 && rg.Intn(5) == 0 {
			segs, m = variant(rg, handles[rg.Intn(len(handles))], methods)
		}
		txt := patText(segs)
		o := Op{Op: "handle", ID: len(handles) + 1, Method: m, Pattern: txt, Segs: segs}
		handles = append(handles, o)
		c.Plan = append(c.Plan, o)
		if rg.Intn(8) == 0 {
			c.Plan = append(c.Plan, Op{Op: "use", ID: 10 + len(handles), Probe: rg.Intn(2) == 0, Method: "-"})
		}
	}
	accepts := []string{"", "application/json", "application/xml", "image/png"}
	c.Req.Accept = accepts[rg.Intn(len(accepts))]
	if rg.Intn(5) == 0 { // a path of literal segments, most often unregistered
		n := 1 + rg.Intn(4)
		w := []Tok{}
		for i := 0; i < n; i++ {
			w = append(w, Tok{"l", "/"}, Tok{"l", []string{"x", "z", "4"}[rg.Intn(3)]})
		}
		if rg.Intn(4) == 0 {
			w = append(w, Tok{"l", "/"})
		}
		c.Req.Method = methods[rg.Intn(3)]
		c.Req.Wire = w
		c.Req.Src = &Src{Hid: 0, Vals: [][]string{}, Enc: "-"}
		return c
	}
	h := handles[rg.Intn(len(handles))]
	enc := []string{"min", "min", "all", "seg"}[rg.Intn(4)]
	src := &Src{Hid: h.ID, Vals: [][]string{}, Enc: enc}
	w := []Tok{}
	for _, s := range h.Segs {
		w = append(w, Tok{"l", "/"})
		switch s.K {
		case "lit":
			for _, ch := range s.V {
				w = append(w, Tok{"l", ch})
			}
		default:
			v := randValue(rg, s.K == "wild")
			src.Vals = append(src.Vals, v)
			w = append(w, escapeValue(v, enc, s.K == "wild")...)
		}
	}
	c.Req.Method = h.Method
	if rg.Intn(10) == 0 {
		c.Req.Method = methods[rg.Intn(3)]
	}
	c.Req.Wire = w
	c.Req.Src = src
	return c
}

func main() {
	nrand := flag.Int("random", 0, "number of random cases to execute and log as trace events")
	events := flag.Bool("events", false, "vector mode: write trace events instead of observation records")
	flag.Parse()
	w, err := vio.NewWriter()
	if err != nil {
		vio.Die("%v", err)
	}
	defer w.Close()
	err = vio.ReadVectors(func(i int, raw json.RawMessage) error {
		var c Case
		if err := json.Unmarshal(raw, &c); err != nil {
			return err
		}
		r := execute(c)
		if *events {
			for _, e := range r.events {
				w.Emit(e)
			}
			return nil
		}
		w.Emit(map[string]any{"i": i, "obs": r.out})
		return nil
	})
	if err != nil {
		vio.Die("%v", err)
	}
	rg := rand.New(rand.NewSource(*vio.Seed))
	for n := 0; n < *nrand; n++ {
		r := execute(randCase(rg))
		for _, e := range r.events {
			w.Emit(e)
		}
	}
}
