// Package smallb is design variant B of the C09 history replays (see package smalla).
package smallb

import . "goa.design/goa/v3/dsl"

var _ = API("small", func() {
	Title("Small service")
	Description("Design variant B")
	Server("small", func() {
		Host("localhost", func() { URI("http://localhost:8088") })
	})
})

var _ = Service("calc", func() {
	Error("div_by_zero")
	Method("add", func() {
		Payload(func() {
			Attribute("a", Int)
			Attribute("b", Int)
			Attribute("c", Int, func() { Default(0) })
			Required("a", "b")
		})
		Result(Int)
		HTTP(func() {
			GET("/add/{a}/{b}")
			Param("c")
		})
	})
	Method("div", func() {
		Payload(func() {
			Attribute("a", Int)
			Attribute("b", Int)
			Required("a", "b")
		})
		Result(Float64)
		HTTP(func() {
			GET("/div/{a}/{b}")
			Response("div_by_zero", StatusBadRequest)
		})
	})
})

var _ = Service("audit", func() {
	Method("log", func() {
		Payload(func() {
			Attribute("msg", String)
			Attribute("meta", MapOf(String, String))
			Required("msg")
		})
		HTTP(func() { POST("/log") })
	})
})
