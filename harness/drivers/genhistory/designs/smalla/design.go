// Package smalla is design variant A of the C09 history replays: API "small" with the
// services calc and store. Variant B (package smallb) keeps the API and the service calc
// (with one more attribute), drops store and adds audit, so that a switch of design over
// the same output directory must remove gen/store, rewrite gen/calc and create gen/audit.
package smalla

import . "goa.design/goa/v3/dsl"

var _ = API("small", func() {
	Title("Small service")
	Description("Design variant A")
	Server("small", func() {
		Host("localhost", func() { URI("http://localhost:8088") })
	})
})

var Item = Type("Item", func() {
	Attribute("id", Int, "identifier", func() { Minimum(1) })
	Attribute("name", String, func() { MaxLength(20); Example("bolt") })
	Attribute("tags", ArrayOf(String))
	Required("id", "name")
})

var _ = Service("calc", func() {
	Error("div_by_zero")
	Method("add", func() {
		Payload(func() {
			Attribute("a", Int)
			Attribute("b", Int)
			Required("a", "b")
		})
		Result(Int)
		HTTP(func() { GET("/add/{a}/{b}") })
	})
	Method("div", func() {
		Payload(func() {
			Attribute("a", Int)
			Attribute("b", Int)
			Required("a", "b")
		})
		Result(Float64)
		HTTP(func() {
			GET("/div/{a}/{b}")
			Response("div_by_zero", StatusBadRequest)
		})
	})
})

var _ = Service("store", func() {
	Method("list", func() {
		Result(ArrayOf(Item))
		HTTP(func() { GET("/items") })
	})
	Method("put", func() {
		Payload(Item)
		HTTP(func() { PUT("/items/{id}") })
	})
})
