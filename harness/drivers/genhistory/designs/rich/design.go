// Package rich is a C09 determinism design: three services, several servers and hosts,
// security schemes, user types carrying two and more struct:field:* / struct:tag:* metas,
// result types with views and collections, unions, maps, a file server, explicit and
// generated examples, OpenAPI metas (tags, extensions) declared in non-alphabetical order.
package rich

import . "goa.design/goa/v3/dsl"

var _ = API("rich", func() {
	Title("Rich API")
	Description("A design that gives every generator several things to order")
	Version("1.2")
	TermsOfService("tos")
	Contact(func() { Name("n"); Email("n@example.com"); URL("http://example.com") })
	License(func() { Name("MIT"); URL("http://example.com/license") })
	Docs(func() { Description("docs"); URL("http://example.com/docs") })
	Meta("openapi:summary", "api summary")
	Meta("swagger:summary", "api summary (deprecated key)")
	Meta("openapi:tag:zeta:desc", "last tag")
	Meta("openapi:tag:alpha:desc", "first tag")
	Meta("openapi:tag:mid:desc", "middle tag")
	Meta("openapi:tag:mid:url", "http://example.com/mid")
	Meta("openapi:tag:omega:desc", "omega")
	Meta("openapi:tag:beta:desc", "beta")
	Meta("openapi:tag:session:desc", "session")
	Meta("openapi:extension:x-bb", `{"q":[1,2,3]}`)
	Meta("openapi:extension:x-yy", `null`)
	Meta("openapi:extension:x-cc", `1.5`)
	Meta("openapi:extension:x-zz", `{"b":1,"a":2}`)
	Meta("openapi:extension:x-aa", `"v"`)
	Meta("openapi:extension:x-mm", `[3,2,1]`)
	Server("zserver", func() {
		Description("z")
		Services("catalog", "orders")
		Host("production", func() {
			Description("prod")
			URI("https://{version}.{zone}.example.com:{port}/{region}/{stage}")
			Variable("version", String, "API version", func() { Default("v1"); Enum("v1", "v2") })
			Variable("region", String, "region", func() { Default("eu") })
			Variable("zone", String, "zone", func() { Default("a"); Enum("a", "b", "c") })
			Variable("port", Int, "port", func() { Default(443) })
			Variable("stage", String, "stage", func() { Default("live") })
		})
		Host("development", func() {
			URI("http://localhost:8000")
			URI("http://localhost:8001/alt")
		})
		Host("canary", func() { URI("https://canary.example.com") })
		Host("backup", func() { URI("https://backup.example.com") })
		Host("zlast", func() { URI("https://zlast.example.com") })
	})
	Server("mserver", func() {
		Services("session", "orders", "admin", "catalog")
		Host("one", func() { URI("http://localhost:8070") })
		Host("two", func() { URI("http://localhost:8071") })
		Host("three", func() { URI("http://localhost:8072") })
	})
	Server("aserver", func() {
		Services("admin", "catalog")
		Host("localhost", func() { URI("http://localhost:8090") })
		Host("staging", func() { URI("https://staging.example.com") })
	})
	HTTP(func() {
		Path("/api")
		Consumes("application/json", "application/xml")
		Produces("application/json", "application/xml", "application/gob")
	})
})

var JWT = JWTSecurity("jwt", func() {
	Description("JWT auth")
	Scope("zz:write", "write")
	Scope("aa:read", "read")
	Scope("mm:admin", "admin")
	Scope("bb:list", "list")
	Scope("yy:purge", "purge")
	Scope("cc:audit", "audit")
})

var KeyAuth = APIKeySecurity("api_key", func() { Description("key") })

var Basic = BasicAuthSecurity("basic", func() { Description("basic") })

var KeyAuth2 = APIKeySecurity("zz_key", func() { Description("second key") })

var JWT2 = JWTSecurity("admin_jwt", func() {
	Scope("root", "everything")
	Scope("audit", "read logs")
	Scope("impersonate", "act as a user")
})

var OAuth = OAuth2Security("oauth", func() {
	AuthorizationCodeFlow("http://example.com/authorize", "http://example.com/token", "http://example.com/refresh")
	ImplicitFlow("http://example.com/authorize", "http://example.com/refresh")
	PasswordFlow("http://example.com/token", "http://example.com/refresh")
	ClientCredentialsFlow("http://example.com/token", "http://example.com/refresh")
	Scope("zz:write", "write")
	Scope("aa:read", "read")
	Scope("mm:admin", "admin")
	Scope("bb:list", "list")
	Scope("yy:purge", "purge")
})

// --- user types with several metas on one attribute
var Money = Type("Money", func() {
	Description("amount and currency")
	Attribute("amount", Int64, func() {
		Meta("struct:field:name", "Units")
		Meta("struct:field:type", "int64")
		Meta("struct:tag:json", "amount,omitempty")
		Meta("struct:tag:xml", "amount,attr")
		Meta("openapi:example", "false")
	})
	Attribute("currency", String, func() {
		Meta("struct:tag:json", "cur")
		Meta("struct:field:name", "Cur")
		Meta("struct:tag:form", "cur")
		Meta("struct:tag:yaml", "cur")
		Enum("EUR", "USD", "CHF")
	})
	Attribute("scale", UInt32, func() {
		Meta("struct:field:name", "Scale10")
		Meta("struct:field:pointer", "true")
		Meta("struct:tag:json", "scale")
		Default(2)
	})
	Required("amount", "currency")
	Meta("openapi:extension:x-money", `{"z":1,"a":[1,2]}`)
	Meta("openapi:typename", "MoneyAmount")
})

var Dimension = Type("Dimension", func() {
	Attribute("w", Float64, func() { Minimum(0); Meta("struct:field:name", "Width"); Meta("struct:tag:json", "w") })
	Attribute("h", Float64, func() { Minimum(0); Meta("struct:field:name", "Height"); Meta("struct:tag:json", "h") })
	Attribute("d", Float32, func() { ExclusiveMinimum(0); ExclusiveMaximum(1000) })
	Attribute("unit", String, func() { Enum("mm", "cm", "in"); Default("mm") })
})

var Category = Type("Category", func() {
	Attribute("name", String, func() { Pattern(`^[a-z][a-z0-9-]*$`); MinLength(1); MaxLength(32) })
	Attribute("parent", "Category")
	Attribute("children", ArrayOf("Category"))
	Attribute("labels", MapOf(String, String), func() { Example(map[string]string{"zk": "zv", "ak": "av", "mk": "mv"}) })
	Required("name")
})

var Shape = Type("Shape", func() {
	OneOf("kind", func() {
		Attribute("circle", Float64)
		Attribute("box", Dimension)
		Attribute("label", String)
		Attribute("code", Int)
	})
	Required("kind")
})

var Related = ResultType("application/vnd.rich.related", func() {
	TypeName("Related")
	Attributes(func() {
		Attribute("id", UInt64)
		Attribute("name", String)
		Attribute("score", Float64)
		Required("id")
	})
	View("default", func() {
		Attribute("id")
		Attribute("name")
		Attribute("score")
	})
	View("tiny", func() {
		Attribute("id")
	})
})

var Product = ResultType("application/vnd.rich.product", func() {
	TypeName("Product")
	Description("A product")
	Attributes(func() {
		Attribute("id", UInt64, func() { Example(42) })
		Attribute("sku", String, func() { Format(FormatUUID) })
		Attribute("name", String, func() { MinLength(1) })
		Attribute("price", Money)
		Attribute("prices", MapOf(String, Money), "price per country", func() { MinLength(0) })
		Attribute("size", Dimension)
		Attribute("category", Category)
		Attribute("shape", Shape)
		Attribute("related", CollectionOf(Related))
		Attribute("attrs", MapOf(String, ArrayOf(String)))
		Attribute("matrix", ArrayOf(ArrayOf(Float64)))
		Attribute("created", String, func() { Format(FormatDateTime) })
		Attribute("blob", Bytes)
		Attribute("extra", Any)
		Attribute("stock", MapOf(Int, UInt))
		Required("id", "sku", "name")
	})
	View("default", func() {
		Attribute("id")
		Attribute("sku")
		Attribute("name")
		Attribute("price")
		Attribute("category")
		Attribute("related", func() { View("tiny") })
	})
	View("tiny", func() {
		Attribute("id")
		Attribute("name")
	})
	View("full", func() {
		Attribute("id")
		Attribute("sku")
		Attribute("name")
		Attribute("price")
		Attribute("prices")
		Attribute("size")
		Attribute("category")
		Attribute("shape")
		Attribute("related")
		Attribute("attrs")
		Attribute("matrix")
		Attribute("created")
		Attribute("blob")
		Attribute("extra")
		Attribute("stock")
	})
})

var Order = ResultType("application/vnd.rich.order", func() {
	TypeName("Order")
	Attributes(func() {
		Attribute("id", String)
		Attribute("lines", ArrayOf(OrderLine), func() { MinLength(1) })
		Attribute("total", Money)
		Attribute("status", String, func() { Enum("open", "paid", "shipped"); Default("open") })
		Attribute("notes", MapOf(String, Any))
		Required("id", "lines")
	})
	View("default", func() {
		Attribute("id")
		Attribute("lines")
		Attribute("total")
		Attribute("status")
	})
	View("summary", func() {
		Attribute("id")
		Attribute("status")
	})
})

var OrderLine = Type("OrderLine", func() {
	Attribute("product", Product, func() { View("tiny") })
	Attribute("qty", UInt, func() { Minimum(1); Maximum(1000) })
	Attribute("price", Money)
	Required("product", "qty")
})

var NotFound = Type("NotFound", func() {
	ErrorName("name", String, "error name")
	Attribute("id", String)
	Attribute("message", String)
	Required("name", "id", "message")
})

var _ = Service("catalog", func() {
	Description("product catalog")
	Security(JWT, func() { Scope("aa:read") })
	Error("not_found", NotFound)
	Error("unauthorized")
	Error("bad_filter", ErrorResult, func() { Temporary(); Fault() })
	Meta("openapi:tag:mid")
	Meta("openapi:tag:alpha")
	HTTP(func() {
		Path("/catalog")
		Response("unauthorized", StatusUnauthorized)
	})
	Method("list", func() {
		Payload(func() {
			Token("token", String)
			Attribute("filter", MapOf(String, ArrayOf(String)))
			Attribute("limit", Int, func() { Default(10); Minimum(1); Maximum(100) })
			Attribute("order", ArrayOf(String), func() { Elem(func() { Enum("name", "price", "id") }) })
			Attribute("view", String, func() { Enum("default", "tiny", "full") })
			Attribute("flags", ArrayOf(Boolean))
			Attribute("session", String)
			Required("token")
		})
		Result(CollectionOf(Product))
		Error("bad_filter")
		Error("not_found")
		Error("gone", NotFound)
		Error("also_bad", ErrorResult)
		Meta("openapi:summary", "list products")
		Meta("swagger:summary", "list products (deprecated key)")
		HTTP(func() {
			GET("/products")
			GET("/items")
			MapParams("filter")
			Param("limit")
			Param("order")
			Param("view")
			Param("flags")
			Header("token:Authorization")
			Cookie("session:SID")
			Response(StatusOK)
			Response("bad_filter", StatusBadRequest)
			Response("also_bad", StatusBadRequest)
			Response("not_found", StatusNotFound)
			Response("gone", StatusNotFound)
		})
	})
	Method("show", func() {
		Payload(func() {
			Token("token", String)
			Attribute("id", UInt64)
			Attribute("view", String)
			Required("token", "id")
		})
		Result(Product)
		Error("not_found")
		HTTP(func() {
			GET("/products/{id}")
			Param("view")
			Header("token:Authorization")
			Response(StatusOK)
			Response("not_found", StatusNotFound, func() { Header("id:X-Id") })
		})
	})
	Method("add", func() {
		Security(JWT, KeyAuth, func() { Scope("zz:write") })
		Payload(func() {
			Token("token", String)
			APIKey("api_key", "key", String)
			Attribute("product", Product)
			Attribute("shape", Shape)
			Attribute("dry", Boolean, func() { Default(false) })
			Required("product")
		})
		Result(Product, func() { View("tiny") })
		HTTP(func() {
			POST("/products")
			PUT("/products")
			Header("token:Authorization")
			Header("key:X-Key")
			Param("dry")
			Body(func() {
				Attribute("product")
				Attribute("shape")
			})
			Response(StatusCreated)
		})
	})
	Method("tags", func() {
		NoSecurity()
		Result(MapOf(String, ArrayOf(Category)))
		HTTP(func() {
			GET("/tags")
			Response(StatusOK)
		})
	})
	Files("/static/{*path}", "public/", func() {
		Meta("swagger:summary", "static files (deprecated key)")
		Meta("openapi:summary", "static files")
	})
	Files("/index.html", "public/index.html")
})

var _ = Service("orders", func() {
	Security(OAuth, func() { Scope("aa:read") })
	Error("not_found", NotFound)
	Meta("swagger:summary", "orders summary (deprecated key)")
	Meta("openapi:summary", "orders summary")
	Meta("openapi:tag:zeta")
	HTTP(func() { Path("/orders") })
	Method("create", func() {
		Security(OAuth, func() { Scope("zz:write") })
		Payload(func() {
			AccessToken("token", String)
			Attribute("lines", ArrayOf(OrderLine))
			Attribute("notes", MapOf(String, Any))
			Attribute("ship_to", func() {
				Attribute("street", String)
				Attribute("zip", String, func() { Pattern(`^[0-9]{4,5}$`) })
				Attribute("geo", func() {
					Attribute("lat", Float64, func() { Minimum(-90); Maximum(90) })
					Attribute("lon", Float64, func() { Minimum(-180); Maximum(180) })
					Required("lat", "lon")
				})
				Required("street")
			})
			Required("token", "lines")
		})
		Result(Order)
		HTTP(func() {
			POST("/")
			Header("token:Authorization")
			Response(StatusCreated, func() { Header("id:Location") })
		})
	})
	Method("get", func() {
		Payload(func() {
			AccessToken("token", String)
			Attribute("id", String)
			Required("token", "id")
		})
		Result(Order)
		Error("not_found")
		HTTP(func() {
			GET("/{id}")
			Header("token:Authorization")
			Response(StatusOK)
			Response("not_found", StatusNotFound)
		})
	})
	Method("watch", func() {
		Payload(func() {
			AccessToken("token", String)
			Attribute("id", String)
			Required("token", "id")
		})
		StreamingResult(Order, func() { View("summary") })
		HTTP(func() {
			GET("/{id}/watch")
			Param("token")
			Response(StatusOK)
		})
	})
})

var _ = Service("admin", func() {
	Security(Basic)
	Error("forbidden", func() { Timeout() })
	Method("stats", func() {
		Payload(func() {
			Username("user", String)
			Password("pass", String)
			Attribute("since", String, func() { Format(FormatDate) })
			Required("user", "pass")
		})
		Result(func() {
			Attribute("counts", MapOf(String, UInt64))
			Attribute("uptime", Float64)
			Attribute("by_day", MapOf(String, MapOf(String, Int)))
			Attribute("top", CollectionOf(Related), func() { View("tiny") })
		})
		HTTP(func() {
			GET("/admin/stats")
			Param("since")
			Response(StatusOK)
			Response("forbidden", StatusForbidden)
		})
	})
	Method("purge", func() {
		Payload(func() {
			Username("user", String)
			Password("pass", String)
			Attribute("ids", ArrayOf(UInt64))
			Required("user", "pass")
		})
		HTTP(func() {
			DELETE("/admin/products")
			Param("ids")
			Response(StatusNoContent)
		})
	})
})
