// Package types is a C09 determinism design centred on the type graph: primitive aliases,
// Extend / Reference inheritance, recursive and mutually recursive types, every validation
// keyword, defaults, the same inline object shape used in several places (name scopes have
// to number them), the same user type reached from several services and through several
// views, custom package locations (struct:pkg:path) and several struct:field:* metas.
package types

import . "goa.design/goa/v3/dsl"

var _ = API("types", func() {
	Title("Type heavy API")
	Server("types", func() {
		// (several schemes on one host: their order in the documents must not depend on a map)
		Host("localhost", func() {
			URI("https://localhost:8443")
			URI("http://localhost:8000")
			URI("https://localhost:9443/alt")
		})
	})
})

var UUID = Type("UUID", String, func() { Format(FormatUUID); Description("identifier") })
var Percent = Type("Percent", Float64, func() { Minimum(0); Maximum(100) })
var Count = Type("Count", UInt32, func() { Maximum(100000) })
var Tags = Type("Tags", ArrayOf(String), func() { MaxLength(8) })
var Scores = Type("Scores", MapOf(String, Percent))

var Base = Type("Base", func() {
	Attribute("id", UUID)
	Attribute("created_at", String, func() { Format(FormatDateTime) })
	Attribute("updated_at", String, func() { Format(FormatDateTime) })
	Attribute("rev", Count, func() { Default(1) })
	Required("id")
})

var Person = Type("Person", func() {
	Extend(Base)
	Attribute("first", String, func() {
		MinLength(1)
		MaxLength(40)
		Meta("struct:field:name", "FirstName")
		Meta("struct:tag:json", "first")
		Meta("struct:tag:db", "first_name")
	})
	Attribute("last", String, func() {
		Meta("struct:tag:db", "last_name")
		Meta("struct:field:name", "LastName")
		Meta("struct:tag:json", "last")
	})
	Attribute("email", String, func() { Format(FormatEmail) })
	Attribute("age", Int, func() { Minimum(0); Maximum(150) })
	Attribute("ratio", Percent)
	Attribute("tags", Tags)
	Attribute("scores", Scores)
	Attribute("manager", "Person")
	Attribute("reports", ArrayOf("Person"))
	Attribute("team", "Team")
	Attribute("address", func() {
		Attribute("street", String)
		Attribute("city", String)
		Attribute("zip", String, func() { Pattern(`^\d{5}$`) })
		Required("street", "city")
	})
	Attribute("billing", func() {
		Attribute("street", String)
		Attribute("city", String)
		Attribute("zip", String, func() { Pattern(`^\d{5}$`) })
		Required("street", "city")
	})
	Attribute("ip", String, func() { Format(FormatIP) })
	Attribute("site", String, func() { Format(FormatURI) })
	Attribute("mac", String, func() { Format(FormatMAC) })
	Attribute("cidr", String, func() { Format(FormatCIDR) })
	Attribute("re", String, func() { Format(FormatRegexp) })
	Attribute("json", String, func() { Format(FormatJSON) })
	Attribute("host", String, func() { Format(FormatHostname) })
	Attribute("born", String, func() { Format(FormatDate) })
	Attribute("level", String, func() { Enum("junior", "senior", "staff"); Default("junior") })
	Attribute("weights", ArrayOf(Float32), func() { MinLength(1); MaxLength(5); Elem(func() { ExclusiveMinimum(0) }) })
	Attribute("flags", MapOf(String, Boolean), func() { Key(func() { MinLength(2) }) })
	Attribute("misc", MapOf(String, Any))
	Required("first", "last")
})

var Team = Type("Team", func() {
	Extend(Base)
	Attribute("name", String)
	Attribute("lead", Person)
	Attribute("members", ArrayOf(Person))
	Attribute("parent", "Team")
	Attribute("budget", func() {
		Attribute("amount", Int64)
		Attribute("currency", String)
	})
	Required("name")
})

var PersonPatch = Type("PersonPatch", func() {
	Reference(Person)
	Attribute("first")
	Attribute("last")
	Attribute("email")
	Attribute("age")
	Attribute("level")
})

var External = Type("External", func() {
	Meta("struct:pkg:path", "ext")
	Attribute("source", String)
	Attribute("ref", String)
})

var ExternalDeep = Type("ExternalDeep", func() {
	Meta("struct:pkg:path", "ext/deep")
	Attribute("depth", Int)
	Attribute("owner", UUID)
})

var PersonResult = ResultType("application/vnd.types.person", func() {
	TypeName("PersonResult")
	Reference(Person)
	Attributes(func() {
		Attribute("id")
		Attribute("first")
		Attribute("last")
		Attribute("email")
		Attribute("age")
		Attribute("tags")
		Attribute("scores")
		Attribute("ext", External)
		Attribute("deep", ExternalDeep)
		Attribute("team", TeamResult)
		Attribute("friends", CollectionOf(FriendResult))
		Required("id", "first", "last")
	})
	View("default", func() {
		Attribute("id")
		Attribute("first")
		Attribute("last")
		Attribute("email")
		Attribute("team", func() { View("link") })
		Attribute("friends")
	})
	View("link", func() {
		Attribute("id")
	})
	View("extended", func() {
		Attribute("id")
		Attribute("first")
		Attribute("last")
		Attribute("email")
		Attribute("age")
		Attribute("tags")
		Attribute("scores")
		Attribute("ext")
		Attribute("team")
		Attribute("friends", func() { View("link") })
	})
})

var FriendResult = ResultType("application/vnd.types.friend", func() {
	TypeName("FriendResult")
	Attributes(func() {
		Attribute("id", UUID)
		Attribute("nick", String)
		Attribute("since", String, func() { Format(FormatDate) })
		Required("id")
	})
	View("default", func() {
		Attribute("id")
		Attribute("nick")
		Attribute("since")
	})
	View("link", func() {
		Attribute("id")
	})
})

var TeamResult = ResultType("application/vnd.types.team", func() {
	TypeName("TeamResult")
	Attributes(func() {
		Attribute("id", UUID)
		Attribute("name", String)
		Attribute("size", Count)
		Attribute("scores", Scores)
		Required("id", "name")
	})
	View("default", func() {
		Attribute("id")
		Attribute("name")
		Attribute("size")
		Attribute("scores")
	})
	View("link", func() {
		Attribute("id")
		Attribute("name")
	})
})

var Problem = Type("Problem", func() {
	ErrorName("kind", String)
	Attribute("detail", String)
	Attribute("fields", MapOf(String, ArrayOf(String)))
	Required("kind")
})

var _ = Service("people", func() {
	Error("invalid", Problem)
	Error("missing", Problem)
	Error("conflict")
	HTTP(func() { Path("/people") })
	Method("create", func() {
		Payload(Person)
		Result(PersonResult)
		Error("invalid")
		Error("conflict")
		HTTP(func() {
			POST("/")
			Response(StatusCreated)
			Response("invalid", StatusUnprocessableEntity)
			Response("conflict", StatusConflict)
		})
	})
	Method("patch", func() {
		Payload(func() {
			Attribute("id", UUID)
			Attribute("patch", PersonPatch)
			Attribute("if_match", String)
			Required("id", "patch")
		})
		Result(PersonResult, func() { View("extended") })
		Error("invalid")
		Error("missing")
		HTTP(func() {
			PATCH("/{id}")
			Header("if_match:If-Match")
			Body("patch")
			Response(StatusOK)
			Response("invalid", StatusUnprocessableEntity)
			Response("missing", StatusNotFound)
		})
	})
	Method("find", func() {
		Payload(func() {
			Attribute("q", String, func() { MinLength(2) })
			Attribute("level", ArrayOf(String), func() { Elem(func() { Enum("junior", "senior", "staff") }) })
			Attribute("min_age", Int, func() { Minimum(0) })
			Attribute("max_age", Int, func() { Maximum(150) })
			Attribute("ratio", Percent)
			Attribute("page", func() {
				Attribute("number", UInt, func() { Default(1) })
				Attribute("size", UInt, func() { Default(20); Maximum(200) })
			})
			Attribute("sort", MapOf(String, String))
		})
		Result(CollectionOf(PersonResult))
		HTTP(func() {
			POST("/search")
			Param("q")
			Param("level")
			Param("min_age")
			Param("max_age")
			Param("ratio")
			Body(func() {
				Attribute("page")
				Attribute("sort")
			})
			Response(StatusOK)
		})
	})
	Method("tree", func() {
		Payload(func() {
			Attribute("id", UUID)
			Required("id")
		})
		Result(Team)
		Error("missing")
		HTTP(func() {
			GET("/{id}/tree")
			Response(StatusOK)
			Response("missing", StatusNotFound)
		})
	})
})

var _ = Service("teams", func() {
	Error("missing", Problem)
	HTTP(func() { Path("/teams") })
	Method("get", func() {
		Payload(func() {
			Attribute("id", UUID)
			Attribute("view", String)
			Required("id")
		})
		Result(TeamResult)
		Error("missing")
		HTTP(func() {
			GET("/{id}")
			Param("view")
			Response(StatusOK)
			Response("missing", StatusNotFound)
		})
	})
	Method("members", func() {
		Payload(func() {
			Attribute("id", UUID)
			Required("id")
		})
		Result(CollectionOf(PersonResult), func() { View("link") })
		HTTP(func() {
			GET("/{id}/members")
			Response(StatusOK)
		})
	})
	Method("put", func() {
		Payload(func() {
			Attribute("id", UUID)
			Attribute("team", Team)
			Attribute("address", func() {
				Attribute("street", String)
				Attribute("city", String)
				Attribute("zip", String, func() { Pattern(`^\d{5}$`) })
				Required("street", "city")
			})
			Required("id", "team")
		})
		Result(func() {
			Attribute("address", func() {
				Attribute("street", String)
				Attribute("city", String)
			})
			Attribute("budget", func() {
				Attribute("amount", Int64)
				Attribute("currency", String)
			})
			Attribute("ext", External)
		})
		HTTP(func() {
			PUT("/{id}")
			Response(StatusOK)
		})
	})
})

// Payloads and results that are not objects: maps keyed by every primitive kind, lists, bare primitives.
// The command line client prints a usage example for each of them (a JSON rendering of a random value).
func wholeMethod(name string, payload, result any) {
	Method(name, func() {
		Payload(payload)
		Result(result)
		HTTP(func() {
			POST("/" + name)
			Response(StatusOK)
		})
	})
}

var _ = Service("wholes", func() {
	HTTP(func() { Path("/wholes") })
	wholeMethod("map_int", MapOf(Int, String), MapOf(Int, Int))
	wholeMethod("map_int32", MapOf(Int32, String), MapOf(Int32, Boolean))
	wholeMethod("map_int64", MapOf(Int64, Float64), MapOf(Int64, String))
	wholeMethod("map_uint", MapOf(UInt, String), MapOf(UInt, UInt))
	wholeMethod("map_uint32", MapOf(UInt32, ArrayOf(String)), MapOf(UInt32, String))
	wholeMethod("map_uint64", MapOf(UInt64, String), MapOf(UInt64, Percent))
	// (maps keyed by Boolean or Float32/64 are accepted by the DSL but `goa gen` fails on them: encoding/json cannot
	//  marshal the OpenAPI example; recorded under C01 as codegen.map_key_not_json_encodable)
	wholeMethod("map_string", MapOf(String, MapOf(Int32, String)), MapOf(String, ArrayOf(Int32)))
	wholeMethod("map_alias", MapOf(Count, String), MapOf(UUID, Percent))
	wholeMethod("list_int32", ArrayOf(Int32), ArrayOf(MapOf(Int32, String)))
	wholeMethod("list_float32", ArrayOf(Float32), ArrayOf(UInt64))
	wholeMethod("list_bytes", ArrayOf(Bytes), Bytes)
	wholeMethod("bare_int32", Int32, UInt32)
	wholeMethod("bare_float32", Float32, Int64)
	wholeMethod("bare_any", Any, Any)
	Method("map_params", func() {
		Payload(func() {
			Attribute("by_int32", MapOf(Int32, String))
			Attribute("by_uint64", MapOf(UInt64, ArrayOf(Int32)))
			Attribute("by_int64", MapOf(Int64, Float32))
			Attribute("h32", ArrayOf(Int32))
			Attribute("body32", MapOf(Int32, MapOf(UInt32, Boolean)))
		})
		Result(MapOf(Int32, MapOf(Int64, String)))
		HTTP(func() {
			POST("/map_params")
			Param("by_int32")
			Param("by_uint64")
			Param("by_int64")
			Header("h32:X-H32")
			Response(StatusOK)
		})
	})
})
