// Package inproc is the in-process half of the C09 driver.  A three line main package written
// into the scratch module imports ONE hand-written design package (blank import, as the goa
// command line does) and calls Main: the design is evaluated once and the real
// generator.Generate runs `rounds` times over the same output directory (gen, then example, each
// round); before every "gen" the sub-directories of gen/ are removed exactly as the goa command line
// removes them (nothing else is).  After every Generate the sha256 and mtime of every file are
// printed as one JSON line.
// Passing `--cmd=$ goa gen <pkg>` makes the headers of the generated files identical to those the
// command line produces, so the trees are comparable byte for byte with the CLI runs.
package inproc

import (
	"crypto/sha256"
	"encoding/hex"
	"encoding/json"
	"flag"
	"fmt"
	"io/fs"
	"os"
	"path/filepath"
	"strings"

	"goa.design/goa/v3/codegen/generator"
	"goa.design/goa/v3/eval"
)

type round struct {
	Ev     string           `json:"ev"`
	Round  int              `json:"round"`
	Cmd    string           `json:"cmd"`
	Listed []string         `json:"listed"`
	Files  map[string]entry `json:"files"`
}

type entry struct {
	Sha   string `json:"sha"`
	Mtime int64  `json:"mtime"`
}

func die(format string, a ...any) {
	fmt.Fprintf(os.Stderr, format+"\n", a...)
	os.Exit(3)
}

// Main runs the rounds. Flags: -out DIR -rounds N -cmds gen,example -skip a,b (top level entries not hashed).
func Main() {
	out := flag.String("out", "", "output directory inside the module")
	rounds := flag.Int("rounds", 2, "number of generations")
	cmds := flag.String("cmds", "gen", "gen | example (the header names one command, as the CLI does)")
	skip := flag.String("skip", "go.mod,go.sum,cmdinproc", "top level entries that are not output")
	_ = flag.String("cmd", "", "command line shown in the generated headers (read by goa itself)")
	flag.Parse()
	if *out == "" {
		die("missing -out")
	}
	if err := eval.RunDSL(); err != nil {
		die("RunDSL: %v", err)
	}
	skipped := map[string]bool{}
	for _, s := range strings.Split(*skip, ",") {
		skipped[s] = true
	}
	enc := json.NewEncoder(os.Stdout)
	for r := 1; r <= *rounds; r++ {
		for _, c := range strings.Split(*cmds, ",") {
			if c == "gen" {
				// cmd/goa/gen.go cleanupDirs + the RemoveAll calls of the temporary main
				ents, _ := os.ReadDir(filepath.Join(*out, "gen"))
				for _, e := range ents {
					if e.IsDir() {
						if err := os.RemoveAll(filepath.Join(*out, "gen", e.Name())); err != nil {
							die("remove: %v", err)
						}
					}
				}
			}
			listed, err := generator.Generate(*out, c)
			if err != nil {
				die("round %d %s: %v", r, c, err)
			}
			files := map[string]entry{}
			err = filepath.WalkDir(*out, func(p string, d fs.DirEntry, err error) error {
				if err != nil {
					return err
				}
				rel, _ := filepath.Rel(*out, p)
				top := strings.Split(filepath.ToSlash(rel), "/")[0]
				if skipped[top] {
					if d.IsDir() {
						return filepath.SkipDir
					}
					return nil
				}
				if d.IsDir() {
					return nil
				}
				b, err := os.ReadFile(p)
				if err != nil {
					return err
				}
				info, err := d.Info()
				if err != nil {
					return err
				}
				h := sha256.Sum256(b)
				files[filepath.ToSlash(rel)] = entry{Sha: hex.EncodeToString(h[:]), Mtime: info.ModTime().UnixNano()}
				return nil
			})
			if err != nil {
				die("walk: %v", err)
			}
			if err := enc.Encode(round{Ev: "round", Round: r, Cmd: c, Listed: listed, Files: files}); err != nil {
				die("encode: %v", err)
			}
		}
	}
}
