package main

import (
	"math/rand"
	"strconv"

	"verif/harness/vio"
)

// Random cases beyond the TLC enumeration (up to 5 nodes, depth 5, 4 attributes, arbitrary
// decorations, shuffled declaration order).  Every step is executed on the real code and logged
// as a trace event; Trace_TypeGraph.tla judges the log.

var attrNames = []string{"a", "b", "c", "d"}
var leafNames = []string{"string", "int", "boolean", "float64", "bytes", "any", "string", "int", "Empty"}

type rgen struct {
	r     *rand.Rand
	g     Graph
	maxN  int
	share int // out of 10: how often a type position refers to a user type that exists already (sharing, recursion)
}

func (x *rgen) users() []int {
	var us []int
	for i, nd := range x.g.Nodes {
		if nd.Kind == "user" || nd.Kind == "result" {
			us = append(us, i+1)
		}
	}
	return us
}

func (x *rgen) attr(name string, depth int, tags bool) Attr {
	r := x.r
	a := Attr{Name: name, Req: []string{}, Meta: []int{}, Enum: []int{}}
	if r.Intn(4) == 0 {
		for k := 1 + r.Intn(2); len(a.Enum) < k; {
			a.Enum = append(a.Enum, len(a.Enum)+1)
		}
	}
	if r.Intn(3) == 0 {
		a.Desc = 1 + r.Intn(2)
	}
	if r.Intn(3) == 0 {
		a.Req = append(a.Req, attrNames[:1+r.Intn(3)]...)
	}
	if r.Intn(4) == 0 {
		a.Val = 2 + r.Intn(2)
	}
	if r.Intn(2) == 0 {
		for k := 1 + r.Intn(3); len(a.Meta) < k; {
			a.Meta = append(a.Meta, len(a.Meta)+1)
		}
	}
	if tags && r.Intn(2) == 0 {
		a.Tags = Tags{Name: r.Intn(3), Type: r.Intn(3)}
	}
	a.Ref = x.term(depth)
	return a
}

func (x *rgen) term(depth int) Ref {
	r := x.r
	canNew := len(x.g.Nodes) < x.maxN && depth < 5
	us := x.users()
	c := r.Intn(10)
	if depth == 0 {
		c = 9
	}
	switch {
	case c < x.share && len(us) > 0:
		return Ref{P: "-", N: us[r.Intn(len(us))]}
	case c < x.share+2 || !canNew:
		return Ref{P: leafNames[r.Intn(len(leafNames))]}
	}
	id := len(x.g.Nodes) + 1
	x.g.Nodes = append(x.g.Nodes, Node{})
	nd := Node{Attrs: []Attr{}}
	namedAttrs := func(m int, tags bool) {
		names := append([]string(nil), attrNames[:m]...)
		r.Shuffle(m, func(i, j int) { names[i], names[j] = names[j], names[i] })
		for _, n := range names {
			nd.Attrs = append(nd.Attrs, x.attr(n, depth+1, tags))
		}
	}
	switch k := r.Intn(10); {
	case k < 1:
		nd.Kind = "array"
		nd.Attrs = append(nd.Attrs, x.attr("elem", depth+1, false))
	case k < 2:
		nd.Kind = "map"
		key := Attr{Name: "key", Req: []string{}, Meta: []int{}, Enum: []int{}, Ref: Ref{P: []string{"string", "int"}[r.Intn(2)]}}
		nd.Attrs = append(nd.Attrs, key, x.attr("elem", depth+1, false))
	case k < 5:
		nd.Kind = "object"
		namedAttrs(r.Intn(5), true)
	case k < 7:
		nd.Kind, nd.Name = "union", "U"+strconv.Itoa(id)
		namedAttrs(1+r.Intn(4), false)
	default:
		nd.Kind, nd.Name = "user", "T"+strconv.Itoa(id)
		if r.Intn(3) == 0 {
			nd.Kind = "result"
		}
		x.g.Nodes[id-1] = Node{Kind: nd.Kind} // referencable from inside its own definition
		nd.Attrs = append(nd.Attrs, x.attr("", depth+1, true))
	}
	x.g.Nodes[id-1] = nd
	return Ref{P: "-", N: id}
}

// every cycle passes through an object (generator-side constraint, see TypeGraph.tla)
func wellFormed(g Graph) bool {
	n := len(g.Nodes)
	succ := func(i int) []int {
		if g.Nodes[i-1].Kind == "object" {
			return nil
		}
		var s []int
		for _, a := range g.Nodes[i-1].Attrs {
			if a.Ref.N > 0 {
				s = append(s, a.Ref.N)
			}
		}
		return s
	}
	for i := 1; i <= n; i++ {
		seen := map[int]bool{}
		todo := succ(i)
		for len(todo) > 0 {
			j := todo[0]
			todo = todo[1:]
			if j == i {
				return false
			}
			if !seen[j] {
				seen[j] = true
				todo = append(todo, succ(j)...)
			}
		}
	}
	return true
}

// a user type that is not recursive and is referenced from two places (TypeGraph!SharedUsers)
func hasDAGSharing(g Graph) bool {
	for i, nd := range g.Nodes {
		if isUserKind(nd.Kind) && refsTo(g, i+1) >= 2 && !onCycle(g, i+1) {
			return true
		}
	}
	return false
}

// every third graph is drawn until it has DAG sharing (the plain distribution yields it in one graph out of
// twenty, and a single node in almost half), every fourth until two of its objects hold the same attributes
func randGraph(r *rand.Rand) Graph {
	mode := r.Intn(12)
	shared, aliased := mode < 4, mode >= 4 && mode < 7 // a quarter: drawn until one object can take over another's attributes (Extend)
	for try := 0; ; try++ {
		x := &rgen{r: r, maxN: 2 + r.Intn(4), share: 2 + 3*r.Intn(2)} // every other graph: many references to the same user types
		if shared || aliased {
			x.maxN, x.share = 3+r.Intn(3), 5
		}
		root := x.term(0)
		x.g.Root = root
		if !wellFormed(x.g) {
			continue
		}
		if aliased && try <= 500 {
			if e, ok := extend(r, x.g); ok {
				return e
			}
			continue
		}
		if !shared || try > 500 || hasDAGSharing(x.g) {
			return x.g
		}
	}
}

// extend is TypeGraph!ExtendG for one pair of objects drawn at random: object o2 gets the very attributes of
// object o1 (whose types are leaves or user types), in the slot of its attribute of that name, else at the
// end.  The result is put into canonical form by building it and projecting it back.
func extend(r *rand.Rand, g Graph) (Graph, bool) {
	type pair struct{ o1, o2 int }
	var ps []pair
	for i, a := range g.Nodes {
		ok := a.Kind == "object" && len(a.Attrs) >= 1
		for _, at := range a.Attrs {
			ok = ok && (at.Ref.N == 0 || isUserKind(g.Nodes[at.Ref.N-1].Kind))
		}
		if !ok {
			continue
		}
		for j, b := range g.Nodes {
			if j != i && b.Kind == "object" {
				ps = append(ps, pair{i, j})
			}
		}
	}
	if len(ps) == 0 {
		return g, false
	}
	p := ps[r.Intn(len(ps))]
	c := cloneGraph(g)
	for k := range c.Nodes[p.o1].Attrs {
		c.Nodes[p.o1].Attrs[k].Al = k + 1
	}
	for _, a := range c.Nodes[p.o1].Attrs {
		at := -1
		for k, b := range c.Nodes[p.o2].Attrs {
			if b.Name == a.Name {
				at = k
			}
		}
		if at >= 0 {
			c.Nodes[p.o2].Attrs[at] = a
		} else {
			c.Nodes[p.o2].Attrs = append(c.Nodes[p.o2].Attrs, a)
		}
	}
	e, _ := canon(build(c).root)
	for _, nd := range e.Nodes {
		for _, a := range nd.Attrs {
			if a.Al != 0 {
				return e, wellFormed(e)
			}
		}
	}
	return g, false
}

// node i lies on a cycle (TypeGraph!OnCycle)
func onCycle(g Graph, i int) bool {
	seen := map[int]bool{}
	var todo []int
	push := func(k int) {
		for _, a := range g.Nodes[k-1].Attrs {
			if a.Ref.N > 0 && !seen[a.Ref.N] {
				seen[a.Ref.N] = true
				todo = append(todo, a.Ref.N)
			}
		}
	}
	push(i)
	for len(todo) > 0 {
		k := todo[0]
		todo = todo[1:]
		push(k)
	}
	return seen[i]
}

// number of references (attributes) that lead to node u
func refsTo(g Graph, u int) int {
	n := 0
	for _, nd := range g.Nodes {
		for _, a := range nd.Attrs {
			if a.Ref.N == u {
				n++
			}
		}
	}
	return n
}

func hasName(nd Node, s string) bool {
	for _, a := range nd.Attrs {
		if a.Name == s {
			return true
		}
	}
	return false
}

// the transformations TypeGraph!Transforms(g, TRUE) allows, one drawn at random; sharing: one of those that
// change the sharing structure, if the graph has any
func randTransform(r *rand.Rand, g Graph, sharing bool) Transform {
	var ts, sh []Transform
	t0 := func(op string, n, i int) Transform { return Transform{Op: op, Node: n, Idx: i, Perm: []int{}} }
	ts = append(ts, t0("copy", 0, 0), t0("copyatt", 0, 0))
	rev, alias := false, false
	for i, nd := range g.Nodes {
		id := i + 1
		isNamed := nd.Kind == "object" || nd.Kind == "union"
		isUser := nd.Kind == "user" || nd.Kind == "result"
		if isNamed && len(nd.Attrs) >= 2 {
			rev = true
			for {
				p := r.Perm(len(nd.Attrs))
				ident := true
				for k := range p {
					p[k]++
					ident = ident && p[k] == k+1
				}
				if !ident {
					t := t0("perm", id, 0)
					t.Perm = p
					ts = append(ts, t, t) // weight
					break
				}
			}
		}
		if isUser {
			ts = append(ts, t0("uname", id, 0))
		}
		if isNamed && !hasName(nd, "z") {
			ts = append(ts, t0("add", id, 0))
		}
		if nd.Kind == "array" || nd.Kind == "map" {
			ts = append(ts, t0("flip", id, 0))
		}
		for k, a := range nd.Attrs {
			ix := k + 1
			if isNamed && !hasName(nd, "z") {
				ts = append(ts, t0("ren", id, ix))
			}
			if nd.Kind == "object" || (nd.Kind == "union" && len(nd.Attrs) >= 2) {
				ts = append(ts, t0("del", id, ix))
			}
			if a.Al != 0 { // held by two objects: the slot can be renamed or removed, the attribute itself is left alone
				alias = true
				continue
			}
			ts = append(ts, t0([]string{"desc", "val", "req", "meta", "deco"}[r.Intn(5)], id, ix))
			if nd.Kind == "object" {
				for {
					tg := []Tags{{0, 0}, {1, 0}, {0, 1}, {1, 1}, {2, 1}}[r.Intn(5)]
					if tg != a.Tags {
						t := t0("tag", id, ix)
						t.Tags = tg
						ts = append(ts, t)
						break
					}
				}
			}
			if a.Ref.N == 0 && a.Ref.P != "Empty" {
				ts = append(ts, t0("prim", id, ix))
			}
			// the transformations that change the sharing structure (weighted: they are few)
			if u := a.Ref.N; u > 0 && isUserKind(g.Nodes[u-1].Kind) {
				sh = append(sh, t0("hollow", id, ix))
				if !onCycle(g, u) && refsTo(g, u) >= 2 {
					sh = append(sh, t0("unshare", id, ix), t0("unshare", id, ix), t0("unshare", id, ix))
				}
				for j, other := range g.Nodes {
					t := t0("redir", id, ix)
					t.To = j + 1
					if j+1 != u && other.Kind == g.Nodes[u-1].Kind && wellFormed(reshare(g, t)) {
						sh = append(sh, t, t)
					}
				}
			}
		}
	}
	if rev {
		ts = append(ts, t0("rev", 0, 0))
	}
	if alias {
		ts = append(ts, t0("unalias", 0, 0), t0("unalias", 0, 0), t0("unalias", 0, 0))
	}
	if sharing && len(sh) > 0 {
		return sh[r.Intn(len(sh))]
	}
	ts = append(ts, sh...)
	return ts[r.Intn(len(ts))]
}

// the steps TypeGraph!StepsOf allows on the graph with projection c
func randStep(r *rand.Rand, c Graph, side string) Step {
	var ss []Step
	for i, nd := range c.Nodes {
		id := i + 1
		for k := range nd.Attrs {
			for _, op := range []string{"meta", "meta", "tag", "req", "vmerge", "type", "desc"} {
				ss = append(ss, Step{side, op, id, k + 1})
			}
			a := nd.Attrs[k]
			if len(a.Meta) >= 1 {
				ss = append(ss, Step{side, "metaset", id, k + 1})
			}
			if len(a.Meta) >= 2 {
				ss = append(ss, Step{side, "metarev", id, k + 1})
			}
			if a.Tags.Name != 0 {
				ss = append(ss, Step{side, "tagset", id, k + 1})
			}
			if len(a.Req) >= 1 {
				ss = append(ss, Step{side, "reqset", id, k + 1})
			}
			if len(a.Enum) >= 1 {
				ss = append(ss, Step{side, "enumset", id, k + 1})
			}
			if nd.Kind == "object" || nd.Kind == "union" {
				ss = append(ss, Step{side, "slot", id, k + 1})
			}
			if nd.Kind == "object" {
				ss = append(ss, Step{side, "set", id, k + 1}, Step{side, "del", id, k + 1})
				if !hasName(nd, "y") {
					ss = append(ss, Step{side, "ren", id, k + 1})
				}
			}
		}
		if nd.Kind == "object" && !hasName(nd, "z") {
			ss = append(ss, Step{side, "set", id, 0})
		}
		if nd.Kind == "user" || nd.Kind == "result" {
			ss = append(ss, Step{side, "setattr", id, 0}, Step{side, "rename", id, 0})
		}
	}
	return ss[r.Intn(len(ss))]
}

func random(w *vio.Writer, r *rand.Rand, n int) {
	for c := 0; c < n; c++ {
		g := randGraph(r)
		w.Emit(map[string]any{"ev": "reset", "g": g})
		orig := build(g)
		base, bst := hashes(orig.root)
		for k := 0; k < 3; k++ {
			t := randTransform(r, g, k == 2)
			o, tg := judge(g, orig, base, bst, t)
			if o.Panic != "" {
				w.Emit(map[string]any{"ev": "panic", "t": t, "panic": o.Panic})
				continue
			}
			w.Emit(map[string]any{"ev": "hash", "t": t, "eq": o.Eq, "st": o.St, "equal": o.Equal, "equals": o.EqualS, "tg": tg})
		}
		run := startDup(g, true)
		if run.obs.Panic != "" {
			w.Emit(map[string]any{"ev": "panic", "panic": run.obs.Panic})
			continue
		}
		o := run.obs
		w.Emit(map[string]any{"ev": "dup", "canC": o.CanC, "copyeq": o.CopyEq, "shared": o.Shared, "hasheq": o.HashEq,
			"equal": o.Equal, "atteq": o.AttEq, "attshared": o.AttShared, "again": o.Again})
		for k, steps := 0, r.Intn(6); k < steps; k++ {
			side := []string{"orig", "copy"}[r.Intn(2)]
			cur := run.obs.CanC
			if side == "orig" {
				cur = run.obs.CanO
			}
			s := randStep(r, cur, side)
			run.step(s)
			if run.obs.Panic != "" {
				w.Emit(map[string]any{"ev": "panic", "step": s, "panic": run.obs.Panic})
				break
			}
			w.Emit(map[string]any{"ev": "mutate", "step": s, "unch": run.obs.Unch[len(run.obs.Unch)-1],
				"canO": run.obs.CanO, "canC": run.obs.CanC})
		}
	}
}
