// Driver for C13: builds real goa expr type graphs from the canonical graphs of
// spec/TypeGraph.tla, runs expr.Hash / expr.Equal / expr.Dup / expr.DupAtt and the
// mutations goa performs on copies, and projects the real graphs back onto the
// canonical form with its own structural walker.  The driver holds no oracle:
// expected verdicts come from the TLA+ model.
package main

import (
	"crypto/sha1"
	"encoding/hex"
	"encoding/json"
	"flag"
	"fmt"
	"math/rand"
	"os"
	"reflect"
	"runtime/debug"
	"strconv"
	"strings"
	"sync"
	"sync/atomic"
	"time"

	"goa.design/goa/v3/expr"

	"verif/harness/vio"
)

// ---- canonical graph (see the header of spec/TypeGraph.tla) -----------------------------------

type Ref struct {
	P string `json:"p"`
	N int    `json:"n"`
}
type Tags struct {
	Name int `json:"name"`
	Type int `json:"type"`
}
type Attr struct {
	Name string   `json:"name"`
	Ref  Ref      `json:"ref"`
	Desc int      `json:"desc"`
	Req  []string `json:"req"`
	Val  int      `json:"val"`
	Enum []int    `json:"enum"`
	Meta []int    `json:"meta"`
	Tags Tags     `json:"tags"`
	X    int      `json:"x"`
	Al   int      `json:"al"` // alias class: the attributes of one class are one *expr.AttributeExpr (0: none)
}
type Node struct {
	Kind  string `json:"kind"`
	Name  string `json:"name"`
	Attrs []Attr `json:"attrs"`
}
type Graph struct {
	Root  Ref    `json:"root"`
	Nodes []Node `json:"nodes"`
}
type Transform struct {
	Op   string `json:"op"`
	Node int    `json:"node"`
	Idx  int    `json:"idx"`
	Perm []int  `json:"perm"`
	Tags Tags   `json:"tags"`
	To   int    `json:"to"` // redir: the user type the reference goes to
}
type Step struct {
	Side string `json:"side"`
	Op   string `json:"op"`
	Node int    `json:"node"`
	Idx  int    `json:"idx"`
}

const (
	metaDoc  = "doc:k"
	metaName = "struct:field:name"
	metaType = "struct:field:type"
)

var leaves = map[string]expr.DataType{
	"boolean": expr.Boolean, "int": expr.Int, "int32": expr.Int32, "int64": expr.Int64, "uint": expr.UInt,
	"uint32": expr.UInt32, "uint64": expr.UInt64, "float32": expr.Float32, "float64": expr.Float64,
	"string": expr.String, "bytes": expr.Bytes, "any": expr.Any, "Empty": expr.Empty,
}

// ---- building a real graph ---------------------------------------------------------------------

type built struct {
	root   expr.DataType
	node   []expr.DataType       // by node id (1-based; [0] unused)
	parent []*expr.AttributeExpr // the attribute whose Type is the node (nil: the root, or a user type reached first elsewhere)
	bases  []expr.DataType       // the user types defined by an object that holds an aliased attribute (what Extend was given)
}

// every other user type without a UID (dsl.Type) is renamed with Meta("struct:type:name", ...), as designs do to
// choose the Go type name: Name() and ID() then differ from TypeName
const metaTypeName = "struct:type:name"

func renamed(id int) bool { return id%4 == 2 }

func build(g Graph) *built {
	n := len(g.Nodes)
	b := &built{node: make([]expr.DataType, n+1), parent: make([]*expr.AttributeExpr, n+1)}
	users := make([]expr.UserType, n+1)
	for i, nd := range g.Nodes {
		id := i + 1
		uid := ""
		if id%2 == 1 { // dsl.Type leaves UID empty (ID = name); generated body types set it
			uid = "svc#" + strconv.Itoa(id)
		}
		switch nd.Kind {
		case "user":
			if renamed(id) { // the name the design reads (UserTypeExpr.Name, ID) comes from the meta, not from TypeName
				users[id] = &expr.UserTypeExpr{TypeName: "Orig" + nd.Name}
			} else {
				users[id] = &expr.UserTypeExpr{TypeName: nd.Name, UID: uid}
			}
		case "result":
			ident := "application/vnd.t" + strconv.Itoa(id)
			users[id] = &expr.ResultTypeExpr{UserTypeExpr: &expr.UserTypeExpr{TypeName: nd.Name, UID: ident}, Identifier: ident}
		}
	}
	done := make([]bool, n+1)
	var mk func(r Ref, holder *expr.AttributeExpr) expr.DataType
	class := map[int]*expr.AttributeExpr{} // alias class -> the one attribute all its holders point to
	mkAttr := func(a Attr) *expr.AttributeExpr {
		if a.Al != 0 {
			if att, ok := class[a.Al]; ok {
				return att
			}
		}
		att := &expr.AttributeExpr{}
		if a.Al != 0 {
			class[a.Al] = att
		}
		att.Type = mk(a.Ref, att)
		decorate(att, a)
		return att
	}
	mk = func(r Ref, holder *expr.AttributeExpr) expr.DataType {
		if r.N == 0 {
			dt, ok := leaves[r.P]
			if !ok {
				vio.Die("unknown leaf %q", r.P)
			}
			return dt
		}
		if r.N < 1 || r.N > n {
			vio.Die("bad node reference %d", r.N)
		}
		nd := g.Nodes[r.N-1]
		if u := users[r.N]; u != nil {
			if !done[r.N] {
				done[r.N] = true
				b.node[r.N] = u
				b.parent[r.N] = holder
				if len(nd.Attrs) != 1 {
					vio.Die("user type node %d needs one attribute", r.N)
				}
				att := mkAttr(nd.Attrs[0])
				if nd.Kind == "user" && renamed(r.N) {
					if att.Meta == nil {
						att.Meta = expr.MetaExpr{}
					}
					att.Meta[metaTypeName] = []string{nd.Name}
				}
				u.SetAttribute(att)
			}
			return u
		}
		if done[r.N] {
			vio.Die("anonymous node %d referenced twice", r.N)
		}
		done[r.N] = true
		b.parent[r.N] = holder
		var dt expr.DataType
		switch nd.Kind {
		case "array":
			a := &expr.Array{}
			b.node[r.N], dt = a, a
			a.ElemType = mkAttr(nd.Attrs[0])
		case "map":
			m := &expr.Map{}
			b.node[r.N], dt = m, m
			m.KeyType = mkAttr(nd.Attrs[0])
			m.ElemType = mkAttr(nd.Attrs[1])
		case "object":
			o := &expr.Object{}
			b.node[r.N], dt = o, o
			for _, a := range nd.Attrs {
				*o = append(*o, &expr.NamedAttributeExpr{Name: a.Name, Attribute: mkAttr(a)})
			}
		case "union":
			u := &expr.Union{TypeName: nd.Name}
			b.node[r.N], dt = u, u
			for _, a := range nd.Attrs {
				u.Values = append(u.Values, &expr.NamedAttributeExpr{Name: a.Name, Attribute: mkAttr(a)})
			}
		default:
			vio.Die("unknown node kind %q", nd.Kind)
		}
		return dt
	}
	b.root = mk(g.Root, nil)
	for i, nd := range g.Nodes {
		if u := users[i+1]; u != nil && done[i+1] && len(nd.Attrs) == 1 && nd.Attrs[0].Ref.N > 0 {
			for _, a := range g.Nodes[nd.Attrs[0].Ref.N-1].Attrs {
				if a.Al != 0 && g.Nodes[nd.Attrs[0].Ref.N-1].Kind == "object" {
					b.bases = append(b.bases, u)
					break
				}
			}
		}
	}
	return b
}

func decorate(att *expr.AttributeExpr, a Attr) {
	if a.Desc > 0 {
		att.Description = "d" + strconv.Itoa(a.Desc)
	}
	if a.Val > 0 || len(a.Req) > 0 || len(a.Enum) > 0 {
		v := &expr.ValidationExpr{}
		for _, e := range a.Enum {
			if v.Values == nil {
				v.Values = make([]any, 0, len(a.Enum))
			}
			v.Values = append(v.Values, "e"+strconv.Itoa(e))
		}
		if a.Val > 0 {
			k := a.Val
			v.MinLength = &k
		}
		for _, r := range a.Req { // one by one: leaves spare capacity the way repeated Required() calls do
			v.Required = append(v.Required, r)
		}
		att.Validation = v
	}
	for _, m := range a.Meta { // one value per call, the way repeated Meta() calls in a design accumulate
		att.AddMeta(metaDoc, "v"+strconv.Itoa(m))
	}
	if a.Tags.Name > 0 {
		att.AddMeta(metaName, "n"+strconv.Itoa(a.Tags.Name))
	}
	if a.Tags.Type > 0 {
		att.AddMeta(metaType, "t"+strconv.Itoa(a.Tags.Type))
	}
}

// ---- the projection: real graph -> canonical graph -----------------------------------------------

type walker struct {
	ids   map[expr.DataType]int
	order []expr.DataType
	nodes []Node
	atts  [][]*expr.AttributeExpr // the attribute objects, parallel to nodes[i].Attrs
}

func canon(root expr.DataType) (Graph, *walker) {
	w := &walker{ids: map[expr.DataType]int{}}
	r := w.ref(root)
	// alias classes: attribute objects met in two places, numbered in the order of their first place
	count := map[*expr.AttributeExpr]int{}
	for _, as := range w.atts {
		for _, p := range as {
			if p != nil {
				count[p]++
			}
		}
	}
	num := map[*expr.AttributeExpr]int{}
	for i, as := range w.atts {
		for k, p := range as {
			if p == nil || count[p] < 2 {
				continue
			}
			if _, ok := num[p]; !ok {
				num[p] = len(num) + 1
			}
			w.nodes[i].Attrs[k].Al = num[p]
		}
	}
	return Graph{Root: r, Nodes: w.nodes}, w
}

func (w *walker) ref(dt expr.DataType) Ref {
	if dt == nil {
		return Ref{P: "?nil"}
	}
	if dt == expr.Empty {
		return Ref{P: "Empty"}
	}
	if p, ok := dt.(expr.Primitive); ok {
		return Ref{P: p.Name()}
	}
	if id, ok := w.ids[dt]; ok {
		return Ref{P: "-", N: id}
	}
	id := len(w.nodes) + 1
	w.ids[dt] = id
	w.order = append(w.order, dt)
	w.nodes = append(w.nodes, Node{})
	w.atts = append(w.atts, nil)
	nd := Node{Attrs: []Attr{}}
	var ptrs []*expr.AttributeExpr
	add := func(name string, att *expr.AttributeExpr) {
		nd.Attrs = append(nd.Attrs, w.attr(name, att))
		ptrs = append(ptrs, att)
	}
	switch t := dt.(type) {
	case *expr.Array:
		nd.Kind = "array"
		add("elem", t.ElemType)
	case *expr.Map:
		nd.Kind = "map"
		add("key", t.KeyType)
		add("elem", t.ElemType)
	case *expr.Object:
		nd.Kind = "object"
		for _, nat := range *t {
			add(nat.Name, nat.Attribute)
		}
	case *expr.Union:
		nd.Kind, nd.Name = "union", t.TypeName
		for _, nat := range t.Values {
			add(nat.Name, nat.Attribute)
		}
	case *expr.ResultTypeExpr:
		nd.Kind, nd.Name = "result", t.TypeName
		add("", t.Attribute())
	case *expr.UserTypeExpr:
		nd.Kind, nd.Name = "user", t.Name()
		add("", t.Attribute())
	default:
		nd.Kind = "?" + fmt.Sprintf("%T", dt)
	}
	w.nodes[id-1] = nd
	w.atts[id-1] = ptrs
	return Ref{P: "-", N: id}
}

func num(s, prefix string) int {
	if !strings.HasPrefix(s, prefix) {
		return -1
	}
	k, err := strconv.Atoi(s[len(prefix):])
	if err != nil {
		return -1
	}
	return k
}

func (w *walker) attr(name string, att *expr.AttributeExpr) Attr {
	a := Attr{Name: name, Req: []string{}, Meta: []int{}, Enum: []int{}}
	if att == nil {
		a.Ref = Ref{P: "?nilattr"}
		return a
	}
	a.Ref = w.ref(att.Type)
	if att.Description != "" {
		a.Desc = num(att.Description, "d")
	}
	if v := att.Validation; v != nil {
		a.Req = append(a.Req, v.Required...)
		if v.MinLength != nil {
			a.Val = *v.MinLength
		}
		for _, e := range v.Values {
			es, _ := e.(string)
			a.Enum = append(a.Enum, num(es, "e"))
		}
		if v.Format != "" || v.Pattern != "" || v.ExclusiveMinimum != nil || v.Minimum != nil ||
			v.Maximum != nil || v.ExclusiveMaximum != nil || v.MaxLength != nil {
			a.X++
		}
	}
	for k, vals := range att.Meta {
		switch k {
		case metaDoc:
			for _, v := range vals {
				a.Meta = append(a.Meta, num(v, "v"))
			}
		case metaName, metaType:
			val := -1
			if len(vals) == 1 {
				val = num(vals[0], map[string]string{metaName: "n", metaType: "t"}[k])
			}
			if k == metaName {
				a.Tags.Name = val
			} else {
				a.Tags.Type = val
			}
		case "name:original", metaTypeName: // left behind by UserTypeExpr.Rename / the type's name (projected as the node's name)
		default:
			a.X++
		}
	}
	return a
}

// every mutable structure reachable from root, by identity
func pointers(root expr.DataType) map[any]bool {
	set := map[any]bool{}
	var visit func(dt expr.DataType)
	att := func(a *expr.AttributeExpr) {
		if a == nil || set[a] {
			return
		}
		set[a] = true
		if a.Validation != nil {
			set[a.Validation] = true
		}
		if a.Meta != nil {
			set[reflect.ValueOf(a.Meta).Pointer()] = true
		}
		visit(a.Type)
	}
	visit = func(dt expr.DataType) {
		if dt == nil || dt == expr.Empty {
			return
		}
		if _, ok := dt.(expr.Primitive); ok {
			return
		}
		if set[dt] {
			return
		}
		set[dt] = true
		switch t := dt.(type) {
		case *expr.Array:
			att(t.ElemType)
		case *expr.Map:
			att(t.KeyType)
			att(t.ElemType)
		case *expr.Object:
			for _, nat := range *t {
				set[nat] = true
				att(nat.Attribute)
			}
		case *expr.Union:
			for _, nat := range t.Values {
				set[nat] = true
				att(nat.Attribute)
			}
		case *expr.ResultTypeExpr:
			set[t.UserTypeExpr] = true
			att(t.Attribute())
		case expr.UserType:
			att(t.Attribute())
		}
	}
	visit(root)
	return set
}

func shared(a, b expr.DataType) int {
	pa, pb := pointers(a), pointers(b)
	n := 0
	for k := range pa {
		if pb[k] {
			n++
		}
	}
	return n
}

func same(a, b Graph) bool { return reflect.DeepEqual(a, b) }

// noAl forgets which attributes are one object: what is left is the structure
func noAl(g Graph) Graph {
	c := cloneGraph(g)
	for i := range c.Nodes {
		for k := range c.Nodes[i].Attrs {
			c.Nodes[i].Attrs[k].Al = 0
		}
	}
	return c
}

// sharedAll counts the mutable structures reachable from one of as and from one of bs
func sharedAll(as, bs []expr.DataType) int {
	pa, pb := map[any]bool{}, map[any]bool{}
	for _, a := range as {
		for k := range pointers(a) {
			pa[k] = true
		}
	}
	for _, b := range bs {
		for k := range pointers(b) {
			pb[k] = true
		}
	}
	n := 0
	for k := range pa {
		if pb[k] {
			n++
		}
	}
	return n
}

// ---- locating things in a real graph -------------------------------------------------------------

func attrAt(dt expr.DataType, idx int) *expr.AttributeExpr {
	switch t := dt.(type) {
	case *expr.Array:
		return t.ElemType
	case *expr.Map:
		if idx == 1 {
			return t.KeyType
		}
		return t.ElemType
	case *expr.Object:
		return (*t)[idx-1].Attribute
	case *expr.Union:
		return t.Values[idx-1].Attribute
	case expr.UserType:
		return t.Attribute()
	}
	vio.Die("no attribute %d in %T", idx, dt)
	return nil
}

func named(dt expr.DataType) *[]*expr.NamedAttributeExpr {
	switch t := dt.(type) {
	case *expr.Object:
		return (*[]*expr.NamedAttributeExpr)(t)
	case *expr.Union:
		return &t.Values
	}
	return nil
}

func setTypeName(dt expr.DataType, n string) {
	switch t := dt.(type) {
	case *expr.UserTypeExpr:
		if _, ok := t.AttributeExpr.Meta[metaTypeName]; ok {
			t.AttributeExpr.Meta[metaTypeName] = []string{n}
		} else {
			t.TypeName = n
		}
	case *expr.ResultTypeExpr:
		t.TypeName = n
	default:
		vio.Die("not a user type: %T", dt)
	}
}

func ensureValidation(att *expr.AttributeExpr) *expr.ValidationExpr {
	if att.Validation == nil {
		att.Validation = &expr.ValidationExpr{}
	}
	return att.Validation
}

// ---- transformations of the hash direction ---------------------------------------------------------

// cloneGraph copies the canonical graph (the node and attribute slices; the slices inside an attribute are
// never written).
func cloneGraph(g Graph) Graph {
	c := Graph{Root: g.Root, Nodes: make([]Node, len(g.Nodes))}
	for i, nd := range g.Nodes {
		c.Nodes[i] = Node{Kind: nd.Kind, Name: nd.Name, Attrs: append([]Attr(nil), nd.Attrs...)}
	}
	return c
}

func isUserKind(k string) bool { return k == "user" || k == "result" }

// reshare applies one of the transformations that change which references lead to the very same user
// type (TypeGraph!ApplyT: unshare, hollow, redir) to the canonical graph; new nodes go to the end.
func reshare(g Graph, t Transform) Graph {
	c := cloneGraph(g)
	if t.Node < 1 || t.Node > len(c.Nodes) || t.Idx < 1 || t.Idx > len(c.Nodes[t.Node-1].Attrs) {
		vio.Die("%s: no attribute %d in node %d", t.Op, t.Idx, t.Node)
	}
	u := c.Nodes[t.Node-1].Attrs[t.Idx-1].Ref.N
	if u < 1 || !isUserKind(c.Nodes[u-1].Kind) {
		vio.Die("%s: attribute %d of node %d does not refer to a user type", t.Op, t.Idx, t.Node)
	}
	var copyAnon func(r Ref) Ref // arrays, maps, objects, unions get a node of their own; leaves and user types stay
	copyAnon = func(r Ref) Ref {
		if r.N == 0 || isUserKind(c.Nodes[r.N-1].Kind) {
			return r
		}
		src := c.Nodes[r.N-1]
		c.Nodes = append(c.Nodes, Node{Kind: src.Kind, Name: src.Name})
		id := len(c.Nodes)
		attrs := make([]Attr, len(src.Attrs))
		for i, a := range src.Attrs {
			attrs[i] = a
			attrs[i].Ref = copyAnon(a.Ref)
		}
		c.Nodes[id-1].Attrs = attrs
		return Ref{P: "-", N: id}
	}
	own := c.Nodes[u-1].Attrs[0]
	id := len(c.Nodes) + 1
	switch t.Op {
	case "unshare": // a type of its own, "Z", with the same definition
		c.Nodes = append(c.Nodes, Node{Kind: c.Nodes[u-1].Kind, Name: "Z"})
		own.Ref = copyAnon(own.Ref)
		c.Nodes[id-1].Attrs = []Attr{own}
	case "hollow": // a new type "Z" defined as an object without attributes
		own.Ref = Ref{P: "-", N: id + 1}
		c.Nodes = append(c.Nodes, Node{Kind: c.Nodes[u-1].Kind, Name: "Z", Attrs: []Attr{own}}, Node{Kind: "object", Attrs: []Attr{}})
	case "redir": // another user type of the graph
		if t.To < 1 || t.To > len(c.Nodes) || !isUserKind(c.Nodes[t.To-1].Kind) {
			vio.Die("redir: node %d is not a user type", t.To)
		}
		id = t.To
	}
	c.Nodes[t.Node-1].Attrs[t.Idx-1].Ref = Ref{P: "-", N: id}
	return c
}

// transform builds a second instance of g and applies t to it (copy/copyatt: to the first instance
// through the real Dup / DupAtt; the sharing transformations: to the canonical graph, which is then built).
func transform(g Graph, orig *built, t Transform) expr.DataType {
	switch t.Op {
	case "copy":
		return expr.Dup(orig.root)
	case "copyatt":
		return expr.DupAtt(&expr.AttributeExpr{Type: orig.root}).Type
	case "unshare", "hollow", "redir":
		return build(reshare(g, t)).root
	case "unalias": // every holder of an aliased attribute gets an attribute of its own
		c := cloneGraph(g)
		for i := range c.Nodes {
			for k := range c.Nodes[i].Attrs {
				c.Nodes[i].Attrs[k].Al = 0
			}
		}
		return build(c).root
	}
	b := build(g)
	var dt expr.DataType
	if t.Node > 0 {
		dt = b.node[t.Node]
	}
	decoOne := func(att *expr.AttributeExpr, op string) {
		if op == "desc" || op == "deco" {
			att.Description = "d7"
		}
		if op == "val" || op == "deco" {
			k := 7
			ensureValidation(att).MinLength = &k
		}
		if op == "req" || op == "deco" {
			ensureValidation(att).AddRequired("y")
		}
		if op == "meta" || op == "deco" {
			att.AddMeta(metaDoc, "v7")
		}
	}
	switch t.Op {
	case "perm":
		s := named(dt)
		old := append([]*expr.NamedAttributeExpr(nil), (*s)...)
		for i := range *s {
			(*s)[i] = old[t.Perm[i]-1]
		}
	case "rev":
		for id := 1; id < len(b.node); id++ {
			if s := named(b.node[id]); s != nil {
				for i, j := 0, len(*s)-1; i < j; i, j = i+1, j-1 {
					(*s)[i], (*s)[j] = (*s)[j], (*s)[i]
				}
			}
		}
	case "desc", "val", "req", "meta", "deco":
		decoOne(attrAt(dt, t.Idx), t.Op)
	case "uname":
		setTypeName(dt, "Z")
	case "tag":
		att := attrAt(dt, t.Idx)
		if att.Meta == nil {
			att.Meta = expr.MetaExpr{}
		}
		delete(att.Meta, metaName)
		delete(att.Meta, metaType)
		if t.Tags.Name > 0 {
			att.Meta[metaName] = []string{"n" + strconv.Itoa(t.Tags.Name)}
		}
		if t.Tags.Type > 0 {
			att.Meta[metaType] = []string{"t" + strconv.Itoa(t.Tags.Type)}
		}
	case "ren":
		(*named(dt))[t.Idx-1].Name = "z"
	case "add":
		s := named(dt)
		*s = append(*s, &expr.NamedAttributeExpr{Name: "z", Attribute: &expr.AttributeExpr{Type: expr.String}})
	case "del":
		s := named(dt)
		*s = append(append([]*expr.NamedAttributeExpr(nil), (*s)[:t.Idx-1]...), (*s)[t.Idx:]...)
	case "prim":
		att := attrAt(dt, t.Idx)
		if att.Type == expr.String {
			att.Type = expr.Int
		} else {
			att.Type = expr.String
		}
	case "flip":
		var repl expr.DataType
		switch x := dt.(type) {
		case *expr.Array:
			repl = &expr.Map{KeyType: &expr.AttributeExpr{Type: expr.String}, ElemType: x.ElemType}
		case *expr.Map:
			repl = &expr.Array{ElemType: x.ElemType}
		default:
			vio.Die("flip on %T", dt)
		}
		if p := b.parent[t.Node]; p != nil {
			p.Type = repl
		} else {
			b.root = repl
		}
	default:
		vio.Die("unknown transformation %q", t.Op)
	}
	return b.root
}

var reps = flag.Int("reps", 20, "repetitions of every Hash / Equal call")

type HashObs struct {
	Eq     int    `json:"eq"`           // bit i-1: Hash(g) == Hash(T(g)) under flag combination i
	St     int    `json:"st"`           // bit i-1: 20 repetitions on g and on T(g) all gave the first answer
	Equal  bool   `json:"equal"`        // expr.Equal(g, T(g))
	EqualS bool   `json:"equals"`       // ... the same answer 20 times
	Dig    string `json:"dig"`          // digest of the 16 hash strings (compared across fresh processes)
	Tg     *Graph `json:"tg,omitempty"` // -full: projection of T(g)
	Panic  string `json:"panic,omitempty"`
}

func flagsOf(i int) (bool, bool, bool) { return (i/4)%2 == 1, (i/2)%2 == 1, i%2 == 1 }

// hashes returns the first answer per flag combination and whether all repetitions agreed
func hashes(dt expr.DataType) ([8]string, int) {
	var first [8]string
	st := 0
	for i := 0; i < 8; i++ {
		f, n, tg := flagsOf(i)
		first[i] = expr.Hash(dt, f, n, tg)
		ok := true
		for r := 1; r < *reps; r++ {
			if expr.Hash(dt, f, n, tg) != first[i] {
				ok = false
			}
		}
		if ok {
			st |= 1 << i
		}
	}
	return first, st
}

func judge(g Graph, orig *built, base [8]string, bst int, t Transform) (o HashObs, tgc Graph) {
	defer func() {
		if r := recover(); r != nil {
			o = HashObs{Panic: fmt.Sprint(r)}
		}
	}()
	tg := transform(g, orig, t)
	hs, st := hashes(tg)
	o.St = bst & st
	d := sha1.New()
	for i := 0; i < 8; i++ {
		if base[i] == hs[i] {
			o.Eq |= 1 << i
		}
		d.Write([]byte(base[i]))
		d.Write([]byte{0})
		d.Write([]byte(hs[i]))
		d.Write([]byte{0})
	}
	o.Dig = hex.EncodeToString(d.Sum(nil))[:16]
	o.Equal = expr.Equal(orig.root, tg)
	o.EqualS = true
	for r := 1; r < *reps; r++ {
		if expr.Equal(orig.root, tg) != o.Equal {
			o.EqualS = false
		}
	}
	tgc, _ = canon(tg)
	return o, tgc
}

// ---- the copy direction ----------------------------------------------------------------------------

type DupObs struct {
	Wide      bool      `json:"wide"`      // shared ... again were observed (they do not depend on the script)
	CopyEq    bool      `json:"copyeq"`    // projection of Dup(g) == projection of g
	Shared    int       `json:"shared"`    // mutable structures reachable from both
	HashEq    int       `json:"hasheq"`    // bit i-1: Hash(copy) == Hash(g) under flag combination i
	Equal     bool      `json:"equal"`     // expr.Equal(g, copy)
	AttEq     bool      `json:"atteq"`     // the same through DupAtt
	AttShared int       `json:"attshared"` //
	Again     bool      `json:"again"`     // a second Dup gives the same projection
	Unch      []bool    `json:"unch"`      // per step: the other side's projection did not change
	CanO      Graph     `json:"canO"`
	CanC      Graph     `json:"canC"`
	CanC0     *Graph    `json:"canC0,omitempty"` // -full: projection of the copy before any step
	Steps     []StepObs `json:"steps,omitempty"` // -full: both projections after every step
	Panic     string    `json:"panic,omitempty"`
}

type StepObs struct {
	Unch bool  `json:"unch"`
	CanO Graph `json:"canO"`
	CanC Graph `json:"canC"`
}

func applyStep(root expr.DataType, s Step) {
	_, w := canon(root)
	if s.Node < 1 || s.Node > len(w.order) {
		vio.Die("step %+v: no node %d", s, s.Node)
	}
	dt := w.order[s.Node-1]
	fresh := func() *expr.AttributeExpr { return &expr.AttributeExpr{Type: expr.String} }
	switch s.Op {
	case "set":
		o := dt.(*expr.Object)
		if s.Idx == 0 {
			o.Set("z", fresh())
		} else {
			o.Set((*o)[s.Idx-1].Name, fresh())
		}
	case "del":
		o := dt.(*expr.Object)
		o.Delete((*o)[s.Idx-1].Name)
	case "ren":
		o := dt.(*expr.Object)
		o.Rename((*o)[s.Idx-1].Name, "y")
	case "meta":
		v := "v9"
		if s.Side == "orig" {
			v = "v8"
		}
		attrAt(dt, s.Idx).AddMeta(metaDoc, v)
	case "metaset": // writes into what exists: element assignment, in-place reordering, slot reassignment
		v := "v9"
		if s.Side == "orig" {
			v = "v8"
		}
		attrAt(dt, s.Idx).Meta[metaDoc][0] = v
	case "metarev":
		m := attrAt(dt, s.Idx).Meta[metaDoc]
		for i, j := 0, len(m)-1; i < j; i, j = i+1, j-1 {
			m[i], m[j] = m[j], m[i]
		}
	case "tagset":
		attrAt(dt, s.Idx).Meta[metaName][0] = "n3"
	case "reqset":
		attrAt(dt, s.Idx).Validation.Required[0] = map[string]string{"orig": "o3", "copy": "c3"}[s.Side]
	case "enumset":
		attrAt(dt, s.Idx).Validation.Values[0] = map[string]string{"orig": "e8", "copy": "e9"}[s.Side]
	case "slot":
		sl := named(dt)
		(*sl)[s.Idx-1] = &expr.NamedAttributeExpr{Name: (*sl)[s.Idx-1].Name, Attribute: fresh()}
	case "tag":
		att := attrAt(dt, s.Idx)
		if att.Meta == nil {
			att.Meta = expr.MetaExpr{}
		}
		att.Meta[metaName] = []string{"n2"}
	case "req": // the two sides add different names (like "meta"), so a shared backing array shows
		ensureValidation(attrAt(dt, s.Idx)).AddRequired(map[string]string{"orig": "o1", "copy": "c1"}[s.Side])
	case "vmerge":
		one := 1
		ensureValidation(attrAt(dt, s.Idx)).Merge(&expr.ValidationExpr{MinLength: &one, Required: []string{map[string]string{"orig": "o2", "copy": "c2"}[s.Side]}})
	case "setattr":
		ut, att := dt.(expr.UserType), fresh()
		if old := ut.Attribute(); old != nil { // the new attribute keeps the type's name
			if v, ok := old.Meta[metaTypeName]; ok && len(v) > 0 {
				if att.Meta == nil {
					att.Meta = expr.MetaExpr{}
				}
				att.Meta[metaTypeName] = []string{v[0]}
			}
		}
		ut.SetAttribute(att)
	case "rename":
		dt.(expr.UserType).Rename("Z")
	case "type":
		attrAt(dt, s.Idx).Type = expr.Int
	case "desc":
		attrAt(dt, s.Idx).Description = "d9"
	default:
		vio.Die("unknown step %q", s.Op)
	}
}

type dupRun struct {
	orig, cp expr.DataType
	obs      DupObs
}

// startDup copies the graph; the observations that do not depend on the script (sharing, hash of
// the copy, DupAtt, repeated Dup) are taken when wide is set (the vector with the empty script).
func startDup(g Graph, wide bool) (r *dupRun) {
	r = &dupRun{}
	defer func() {
		if p := recover(); p != nil {
			r.obs.Panic = fmt.Sprint(p)
		}
	}()
	b := build(g)
	r.orig = b.root
	snap, _ := canon(r.orig)
	r.cp = expr.Dup(r.orig)
	cc, _ := canon(r.cp)
	r.obs.CopyEq = same(noAl(snap), noAl(cc)) // the structure; which attributes of the copy are one object shows in canC
	r.obs.Unch = []bool{}
	r.obs.CanO, r.obs.CanC = snap, cc
	if *full {
		r.obs.CanC0 = &cc
	}
	r.obs.Wide = wide
	if !wide {
		return r
	}
	r.obs.Shared = shared(r.orig, r.cp)
	for i := 0; i < 8; i++ {
		f, n, tg := flagsOf(i)
		if expr.Hash(r.orig, f, n, tg) == expr.Hash(r.cp, f, n, tg) {
			r.obs.HashEq |= 1 << i
		}
	}
	r.obs.Equal = expr.Equal(r.orig, r.cp)
	// DupAtt of an attribute of this type; the user types whose attributes the type took over (Extend) are its
	// Bases, as on a finalized attribute: DupAtt copies them with the same memo, before the attribute
	att := expr.DupAtt(&expr.AttributeExpr{Type: r.orig, Bases: b.bases})
	ac, _ := canon(att.Type)
	// the same structure as the original, and the same attributes in one as in the copy made by Dup
	like := func(x Graph) bool { return same(noAl(snap), noAl(x)) && (!same(noAl(cc), noAl(x)) || same(cc, x)) }
	r.obs.AttEq = like(ac) && len(att.Bases) == len(b.bases)
	for i := range b.bases {
		if i < len(att.Bases) {
			bo, _ := canon(b.bases[i])
			bc, _ := canon(att.Bases[i])
			r.obs.AttEq = r.obs.AttEq && same(noAl(bo), noAl(bc))
		}
	}
	r.obs.AttShared = sharedAll(append([]expr.DataType{r.orig}, b.bases...), append([]expr.DataType{att.Type}, att.Bases...))
	again, _ := canon(expr.Dup(r.orig))
	after, _ := canon(r.orig)
	r.obs.Again = like(again) && same(after, snap)
	return r
}

func (r *dupRun) step(s Step) {
	defer func() {
		if p := recover(); p != nil {
			r.obs.Panic = fmt.Sprint(p)
		}
	}()
	target, other := r.cp, r.orig
	if s.Side == "orig" {
		target, other = r.orig, r.cp
	}
	before, _ := canon(other)
	applyStep(target, s)
	after, _ := canon(other)
	r.obs.Unch = append(r.obs.Unch, same(before, after))
	r.obs.CanO, _ = canon(r.orig)
	r.obs.CanC, _ = canon(r.cp)
	if *full {
		r.obs.Steps = append(r.obs.Steps, StepObs{Unch: same(before, after), CanO: r.obs.CanO, CanC: r.obs.CanC})
	}
}

// ---- vectors ---------------------------------------------------------------------------------------

type Vec struct {
	Mode   string      `json:"mode"`
	G      Graph       `json:"g"`
	Ts     []Transform `json:"ts"`
	Script []Step      `json:"script"`
}

var (
	progress *os.File
	full     = flag.Bool("full", false, "also report the projection of every transformed graph and of both sides after every step")
	started  atomic.Int64 // unix nanoseconds at which the current vector started
	current  atomic.Int64
)

func mark(i int) {
	current.Store(int64(i))
	started.Store(time.Now().UnixNano())
	if progress != nil {
		progress.WriteAt([]byte(fmt.Sprintf("%012d", i)), 0)
	}
}

func main() {
	nrand := flag.Int("random", 0, "number of random graphs (up to 5 nodes, depth 5) to exercise and log as trace events")
	prog := flag.String("progress", "", "file that always holds the index of the vector being evaluated")
	workers := flag.Int("workers", 1, "vectors evaluated concurrently")
	flag.Parse()
	debug.SetMaxStack(256 << 20) // a hash or copy that never ends dies quickly instead of eating the machine
	if *prog != "" {
		f, err := os.Create(*prog)
		if err != nil {
			vio.Die("%v", err)
		}
		progress = f
	}
	w, err := vio.NewWriter()
	if err != nil {
		vio.Die("%v", err)
	}
	defer w.Close()
	started.Store(time.Now().UnixNano())
	go func() { // a case that does not come back within 30 s is reported by index (exit 4), not waited for
		for range time.Tick(time.Second) {
			if time.Since(time.Unix(0, started.Load())) > 30*time.Second {
				fmt.Fprintf(os.Stderr, "driver: vector %d does not terminate\n", current.Load())
				os.Exit(4)
			}
		}
	}()
	// -workers n > 1: vectors are independent (every one builds its own graphs), so they are evaluated
	// concurrently; progress/watchdog then only say that *some* vector hangs and the orchestrator
	// re-runs sequentially to name it.
	type job struct {
		i   int
		raw json.RawMessage
	}
	var (
		jobs = make(chan job, 64)
		wg   sync.WaitGroup
		mu   sync.Mutex
		bad  atomic.Value
	)
	eval := func(j job) {
		var v Vec
		if err := json.Unmarshal(j.raw, &v); err != nil {
			bad.Store(fmt.Sprintf("vector %d: %v", j.i, err))
			return
		}
		i := j.i
		var res map[string]any
		switch v.Mode {
		case "hash":
			orig := build(v.G)
			base, bst := hashes(orig.root)
			out := make([]HashObs, len(v.Ts))
			for k, t := range v.Ts {
				var tg Graph
				out[k], tg = judge(v.G, orig, base, bst, t)
				if *full && out[k].Panic == "" {
					out[k].Tg = &tg
				}
			}
			res = map[string]any{"i": i, "obs": map[string]any{"trs": out}}
		case "dup":
			r := startDup(v.G, len(v.Script) == 0 || *full)
			for _, s := range v.Script {
				if r.obs.Panic != "" {
					break
				}
				r.step(s)
			}
			res = map[string]any{"i": i, "obs": r.obs}
		default:
			bad.Store(fmt.Sprintf("vector %d: unknown mode %q", i, v.Mode))
			return
		}
		mu.Lock()
		w.Emit(res)
		mu.Unlock()
	}
	for k := 0; k < *workers; k++ {
		wg.Add(1)
		go func() {
			defer wg.Done()
			for j := range jobs {
				if *workers == 1 {
					mark(j.i)
				} else {
					started.Store(time.Now().UnixNano()) // some vector finished recently: not hanging
				}
				eval(j)
			}
		}()
	}
	err = vio.ReadVectors(func(i int, raw json.RawMessage) error {
		jobs <- job{i, raw}
		return nil
	})
	close(jobs)
	wg.Wait()
	if err != nil {
		vio.Die("%v", err)
	}
	if m := bad.Load(); m != nil {
		vio.Die("%v", m)
	}
	if *nrand > 0 {
		random(w, rand.New(rand.NewSource(*vio.Seed)), *nrand)
	}
}
