// Driver for C17 (formats): calls the real goa.ValidateFormat.
//   - vector mode: a vector carries the token sequence that Formats.tla rendered for an instance
//     (strings, or numbers standing for a code point); the driver concatenates the tokens, asks
//     goa about every format listed in "ask" and reports accept / reject.
//   - random mode (-random N): instances with random field values (wider than the boundary sets
//     TLC enumerates) for the field-structured formats, rendered here by a purely syntactic
//     renderer, logged as trace events {render, verdict}; Trace_Formats.tla re-renders the
//     instance and recomputes the verdict.
// No validity logic lives here: the renderer only concatenates fields.
package main

import (
	"encoding/json"
	"flag"
	"fmt"
	"math/rand"
	"strconv"
	"strings"
	"time"

	goa "goa.design/goa/v3/pkg"

	"verif/harness/vio"
)

type Vec struct {
	Fmt  string   `json:"fmt"`
	Toks []any    `json:"toks"`
	Ask  []string `json:"ask"`
}

func cat(toks []any) string {
	var b strings.Builder
	for _, t := range toks {
		switch x := t.(type) {
		case string:
			b.WriteString(x)
		case float64:
			b.WriteRune(rune(int(x)))
		case int:
			b.WriteRune(rune(x))
		default:
			vio.Die("bad token %v", t)
		}
	}
	return b.String()
}

// observe projects the result of ValidateFormat: true = accepted, false = rejected with an
// "invalid_format" service error, anything else is reported as such.
func observe(s, f string) any {
	err := goa.ValidateFormat("x", s, goa.Format(f))
	if err == nil {
		return true
	}
	if se, ok := err.(*goa.ServiceError); ok && se.Name == goa.InvalidFormat {
		return false
	}
	return fmt.Sprintf("unexpected error %T", err)
}

func verdicts(s string, ask []string) map[string]any {
	m := map[string]any{}
	for _, a := range ask {
		m[a] = observe(s, a)
	}
	return m
}

// ---- random instances -----------------------------------------------------------------------

type tok = string
type M = map[string]any

func pad(n, w int) string { return fmt.Sprintf("%0*d", w, n) }
func dec(n int) string    { return strconv.Itoa(n) }

func join(xs []string, sep string) []tok {
	out := []tok{}
	for i, x := range xs {
		if i > 0 {
			out = append(out, sep)
		}
		out = append(out, x)
	}
	return out
}

type corr struct {
	K string `json:"k"`
	I int    `json:"i"`
}

func sepIdx(t []tok, seps ...string) []int {
	var out []int
	for i, x := range t {
		for _, s := range seps {
			if x == s {
				out = append(out, i+1)
			}
		}
	}
	return out
}

func applyGeneric(t []tok, c corr, ill string) []tok {
	switch c.K {
	case "dropsep":
		return append(append([]tok{}, t[:c.I-1]...), t[c.I:]...)
	case "badsep":
		o := append([]tok{}, t...)
		o[c.I-1] = "_"
		return o
	case "insert":
		o := append([]tok{}, t[:c.I]...)
		o = append(o, ill)
		return append(o, t[c.I:]...)
	}
	return t
}

// pickGeneric chooses none / insert / dropsep / badsep.
func pickGeneric(r *rand.Rand, t []tok, drop, bad []string) corr {
	switch r.Intn(4) {
	case 1:
		pos := []int{0, len(t) / 2, len(t)}
		return corr{"insert", pos[r.Intn(3)]}
	case 2:
		if ix := sepIdx(t, drop...); len(ix) > 0 {
			return corr{"dropsep", ix[r.Intn(len(ix))]}
		}
	case 3:
		if ix := sepIdx(t, bad...); len(ix) > 0 {
			return corr{"badsep", ix[r.Intn(len(ix))]}
		}
	}
	return corr{"none", 0}
}

var hexGroups = []string{"0", "1", "ffff", "FFFF", "0db8", "abcd", "a", "00ab"}
var macBytes = []string{"00", "5e", "ff", "a0", "01", "53", "10", "9c", "de", "7b"}
var hexRun = strings.Split("6ba7b8109dad11d180b400c04fd430c8e25f", "")
var dayNames = []string{"Sun", "Mon", "Tue", "Wed", "Thu", "Fri", "Sat"}
var monNames = []string{"Jan", "Feb", "Mar", "Apr", "May", "Jun", "Jul", "Aug", "Sep", "Oct", "Nov", "Dec"}

func octTok(o int) string {
	if o < 0 {
		return ""
	}
	return dec(o)
}

func randOctet(r *rand.Rand) int {
	switch r.Intn(6) {
	case 0:
		return 256 + r.Intn(744)
	case 1:
		return []int{0, 9, 10, 99, 100, 255}[r.Intn(6)]
	}
	return r.Intn(256)
}

func v4Inst(r *rand.Rand) (M, []tok) {
	n := 4
	if r.Intn(8) == 0 {
		n = []int{1, 3, 5, 6}[r.Intn(4)]
	}
	oct := make([]int, n)
	s := make([]string, n)
	for i := range oct {
		oct[i] = randOctet(r)
		if r.Intn(3) > 0 {
			oct[i] = r.Intn(256)
		}
		s[i] = octTok(oct[i])
	}
	return M{"oct": oct}, join(s, ".")
}

func v6Inst(r *rand.Rand) (M, []tok, bool) {
	e := r.Intn(3) > 0
	var la, lb int
	if e {
		la, lb = r.Intn(8), r.Intn(8)
		for la+lb > 8 {
			lb = r.Intn(8)
		}
	} else {
		la = []int{8, 8, 8, 6, 6, 7, 9, 1, 5}[r.Intn(9)]
	}
	grp := func(n int) []string {
		g := make([]string, n)
		for i := range g {
			g[i] = hexGroups[r.Intn(len(hexGroups))]
		}
		return g
	}
	a, b := grp(la), grp(lb)
	t := []int{}
	if r.Intn(3) == 0 {
		t = []int{r.Intn(256), r.Intn(256), r.Intn(256), randOctet(r)}
		if r.Intn(10) == 0 {
			t = t[:3]
		}
	}
	inst := M{"a": a, "e": e, "b": b, "t": t, "bg": 0, "bv": ""}
	ts := make([]string, len(t))
	for i := range t {
		ts[i] = octTok(t[i])
	}
	tail := join(ts, ".")
	var body []tok
	if e {
		body = append(join(a, ":"), "::")
		body = append(body, join(b, ":")...)
		if len(tail) > 0 {
			if len(b) > 0 {
				body = append(body, ":")
			}
			body = append(body, tail...)
		}
	} else {
		body = join(a, ":")
		if len(tail) > 0 {
			body = append(append(body, ":"), tail...)
		}
	}
	return inst, body, e
}

func labChars(n int, k, hy string) []tok {
	base := make([]tok, n)
	for i := 1; i <= n; i++ {
		switch {
		case k == "digits":
			base[i-1] = []string{"2", "4"}[i%2]
		case k == "digit1" && i == 1:
			base[i-1] = "7"
		case k == "mixed":
			base[i-1] = []string{"x", "7", "y", "2"}[(i-1)%4]
		case i == 1:
			base[i-1] = "a"
		case i == n:
			base[i-1] = "c"
		default:
			base[i-1] = "b"
		}
	}
	mid := (n + 1) / 2
	switch hy {
	case "mid":
		base[mid-1] = "-"
	case "mid2":
		base[mid-1], base[mid] = "-", "-"
	case "lead":
		base[0] = "-"
	case "trail":
		base[n-1] = "-"
	}
	return base
}

func randomCase(r *rand.Rand) (string, M, corr, []tok, []string) {
	fams := []string{"date", "date-time", "rfc1123", "ipv4", "ipv6", "cidr", "mac", "uuid", "hostname"}
	f := fams[r.Intn(len(fams))]
	ask := []string{f}
	ill := "!"
	short := func(v int, idx int, c *corr) bool { // write a fixed-width field short (only meaningful below 10)
		if c.K == "none" && v < 10 && r.Intn(12) == 0 {
			*c = corr{"short", idx}
			return true
		}
		return false
	}
	p2 := func(v int, sh bool) string {
		if sh {
			return dec(v)
		}
		return pad(v, 2)
	}
	rdate := func() (int, int, int) {
		y, m, d := r.Intn(10000), 1+r.Intn(12), 1+r.Intn(28)
		switch r.Intn(6) {
		case 0:
			d = 28 + r.Intn(6)
		case 1:
			m = r.Intn(15)
		case 2:
			y, m, d = []int{1900, 2000, 2024, 2023, 2100, 1600}[r.Intn(6)], 2, 28+r.Intn(3)
		case 3:
			d = 0
		}
		return y, m, d
	}
	rtime := func() (int, int, int) {
		h, mi, s := r.Intn(24), r.Intn(60), r.Intn(60)
		switch r.Intn(8) {
		case 0:
			h = 24 + r.Intn(3)
		case 1:
			mi = 60 + r.Intn(3)
		case 2:
			s = 61 + r.Intn(3)
		}
		return h, mi, s
	}
	wellFormedDate := func(y, m, d int) bool { // only used to pick the weekday NAME that the text carries
		if m < 1 || m > 12 || d < 1 {
			return false
		}
		t := time.Date(y, time.Month(m), d, 0, 0, 0, 0, time.UTC)
		return t.Day() == d && int(t.Month()) == m
	}
	switch f {
	case "date":
		y, m, d := rdate()
		inst := M{"y": y, "m": m, "d": d}
		base := []tok{pad(y, 4), "-", pad(m, 2), "-", pad(d, 2)}
		c := pickGeneric(r, base, []string{"-"}, []string{"-"})
		sm := short(m, 3, &c)
		sd := !sm && short(d, 5, &c)
		t := []tok{pad(y, 4), "-", p2(m, sm), "-", p2(d, sd)}
		return f, inst, c, applyGeneric(t, c, ill), ask
	case "date-time":
		y, m, d := rdate()
		h, mi, s := rtime()
		frac := []string{"", "", "5", "123456789", "000", "25"}[r.Intn(6)]
		zone := M{"z": true, "sg": "+", "zh": 0, "zm": 0}
		ztoks := []tok{"Z"}
		if r.Intn(2) == 0 {
			zh, zm := r.Intn(24), r.Intn(60)
			switch r.Intn(8) {
			case 0:
				zh = 25 + r.Intn(3)
			case 1:
				zm = 61 + r.Intn(3)
			}
			sg := []string{"+", "-"}[r.Intn(2)]
			zone = M{"z": false, "sg": sg, "zh": zh, "zm": zm}
			ztoks = []tok{sg, pad(zh, 2), ":", pad(zm, 2)}
		}
		inst := M{"date": M{"y": y, "m": m, "d": d}, "h": h, "mi": mi, "s": s, "frac": frac, "zone": zone}
		mk := func(c corr) []tok {
			t := []tok{pad(y, 4), "-", pad(m, 2), "-", pad(d, 2), "T", p2(h, c == corr{"short", 7}), ":", p2(mi, c == corr{"short", 9}), ":", p2(s, c == corr{"short", 11})}
			if frac != "" {
				t = append(t, ".", frac)
			}
			return append(t, ztoks...)
		}
		seps := []string{"-", "T", ":", "."}
		c := pickGeneric(r, mk(corr{"none", 0}), seps, seps)
		_ = short(h, 7, &c) || short(mi, 9, &c) || short(s, 11, &c)
		return f, inst, c, applyGeneric(mk(c), c, ill), ask
	case "rfc1123":
		y, m, d := rdate()
		h, mi, s := rtime()
		zone := []string{"GMT", "EST", "PDT", "MST", "CDT", "EDT", "CST", "PST", "MDT"}[r.Intn(9)]
		inst := M{"date": M{"y": y, "m": m, "d": d}, "h": h, "mi": mi, "s": s, "zone": zone}
		wd := "Mon"
		if wellFormedDate(y, m, d) {
			wd = dayNames[int(time.Date(y, time.Month(m), d, 0, 0, 0, 0, time.UTC).Weekday())]
		}
		mon := "Xyz"
		if m >= 1 && m <= 12 {
			mon = monNames[m-1]
		}
		mk := func(c corr) []tok {
			return []tok{wd, ", ", pad(d, 2), " ", mon, " ", pad(y, 4), " ", p2(h, c == corr{"short", 9}), ":", p2(mi, c == corr{"short", 11}), ":", p2(s, c == corr{"short", 13}), " ", zone}
		}
		seps := []string{", ", " ", ":"}
		c := pickGeneric(r, mk(corr{"none", 0}), seps, seps)
		_ = short(h, 9, &c) || short(mi, 11, &c) || short(s, 13, &c)
		return f, inst, c, applyGeneric(mk(c), c, ill), ask
	case "ipv4":
		inst, t := v4Inst(r)
		c := pickGeneric(r, t, []string{"."}, []string{"."})
		return f, inst, c, applyGeneric(t, c, ill), []string{"ipv4", "ipv6", "ip"}
	case "ipv6":
		inst, t, e := v6Inst(r)
		drop := []string{":"}
		if e {
			drop = nil
		}
		c := pickGeneric(r, t, drop, []string{":"})
		return f, inst, c, applyGeneric(t, c, ill), []string{"ipv4", "ipv6", "ip"}
	case "cidr":
		var ip M
		var t []tok
		fam := "v4"
		ln := r.Intn(34)
		if r.Intn(2) == 0 {
			ip, t = v4Inst(r)
		} else {
			fam = "v6"
			ip, t, _ = v6Inst(r)
			ln = r.Intn(131)
		}
		if r.Intn(10) == 0 {
			ln = 129 + r.Intn(900)
		}
		inst := M{"fam": fam, "ip": ip, "len": ln}
		t = append(append(t, "/"), dec(ln))
		c := pickGeneric(r, t, []string{"/"}, []string{"/", "."})
		return f, inst, c, applyGeneric(t, c, ill), ask
	case "mac":
		sep := []string{":", "-", "."}[r.Intn(3)]
		n := []int{6, 8, 6, 8, 5, 7, 9, 4, 10, 3, 12}[r.Intn(11)]
		if sep == "." {
			n = []int{6, 8, 6, 8, 4, 10, 2, 12}[r.Intn(8)]
		}
		up, k := r.Intn(2) == 0, r.Intn(10)
		inst := M{"n": n, "sep": sep, "up": up, "k": k}
		bs := make([]string, n)
		for i := 1; i <= n; i++ {
			b := macBytes[(i+k)%10]
			if up {
				b = strings.ToUpper(b)
			}
			bs[i-1] = b
		}
		var t []tok
		if sep == "." {
			g := make([]string, n/2)
			for j := range g {
				g[j] = bs[2*j] + bs[2*j+1]
			}
			t = join(g, ".")
		} else {
			t = join(bs, sep)
		}
		c := pickGeneric(r, t, []string{sep}, []string{sep})
		return f, inst, c, applyGeneric(t, c, ill), ask
	case "uuid":
		form := []string{"plain", "plain", "urn", "brace", "bare"}[r.Intn(5)]
		ver := hexRun[r.Intn(36)]
		vr := []string{"8", "9", "a", "b"}[r.Intn(4)]
		up, k := r.Intn(2) == 0, r.Intn(36)
		inst := M{"form": form, "ver": ver, "var": vr, "up": up, "k": k}
		offs, lens := []int{0, 8, 12, 16, 20}, []int{8, 4, 4, 4, 12}
		gs := make([]string, 5)
		for gi := 0; gi < 5; gi++ {
			var b strings.Builder
			for j := 1; j <= lens[gi]; j++ {
				d := hexRun[(offs[gi]+j+k)%36]
				if gi == 2 && j == 1 {
					d = ver
				}
				if gi == 3 && j == 1 {
					d = vr
				}
				if up {
					d = strings.ToUpper(d)
				}
				b.WriteString(d)
			}
			gs[gi] = b.String()
		}
		core := join(gs, "-")
		if form == "bare" {
			core = gs
		}
		t := core
		switch form {
		case "urn":
			t = append([]tok{"urn:uuid:"}, core...)
		case "brace":
			t = append(append([]tok{"{"}, core...), "}")
		}
		seps := []string{"-"}
		if form == "bare" {
			seps = nil
		}
		c := pickGeneric(r, t, seps, seps)
		return f, inst, c, applyGeneric(t, c, ill), ask
	default: // hostname
		nl := 1 + r.Intn(5)
		labels := make([]M, nl)
		var t []tok
		total := 0
		for i := 0; i < nl; i++ {
			n := 1 + r.Intn(12)
			switch r.Intn(8) {
			case 0:
				n = 60 + r.Intn(8)
			case 1:
				n = 63
			}
			if total+n > 300 {
				n = 2
			}
			total += n + 1
			k := []string{"alpha", "digit1", "mixed", "digits"}[r.Intn(4)]
			if i == nl-1 && (k == "digits" || (k == "digit1" && n < 2)) {
				k = "alpha" // the last label always has a letter
			}
			hy := "none"
			switch r.Intn(8) {
			case 0:
				if n >= 3 {
					hy = "mid"
				}
			case 1:
				if n >= 4 {
					hy = "mid2"
				}
			case 2:
				if r.Intn(2) == 0 {
					hy = "lead"
				} else {
					hy = "trail"
				}
			}
			labels[i] = M{"n": n, "k": k, "hy": hy}
			if i > 0 {
				t = append(t, ".")
			}
			t = append(t, labChars(n, k, hy)...)
		}
		abs := r.Intn(3) == 0 // the absolute form: trailing dot
		if abs {
			t = append(t, ".")
		}
		inst := M{"labels": labels, "abs": abs}
		c := corr{"none", 0}
		switch r.Intn(5) {
		case 0:
			pos := []int{0, len(t) / 2, len(t)}[r.Intn(3)]
			j := r.Intn(3)
			c = corr{"insert", 3*pos + j}
			o := append([]tok{}, t[:pos]...)
			o = append(o, []string{"!", " ", "_"}[j])
			t = append(o, t[pos:]...)
		case 1:
			if ix := sepIdx(t, "."); len(ix) > 0 {
				c = corr{"badsep", ix[r.Intn(len(ix))]}
				t = applyGeneric(t, c, "")
			}
		}
		return f, inst, c, t, ask
	}
}

func main() {
	nrand := flag.Int("random", 0, "number of random instances to validate and log as trace events")
	flag.Parse()
	w, err := vio.NewWriter()
	if err != nil {
		vio.Die("%v", err)
	}
	defer w.Close()
	err = vio.ReadVectors(func(i int, raw json.RawMessage) error {
		var v Vec
		if err := json.Unmarshal(raw, &v); err != nil {
			return err
		}
		s := cat(v.Toks)
		w.Emit(map[string]any{"i": i, "str": s, "verdicts": verdicts(s, v.Ask)})
		return nil
	})
	if err != nil {
		vio.Die("%v", err)
	}
	r := rand.New(rand.NewSource(*vio.Seed))
	for n := 0; n < *nrand; n++ {
		f, inst, c, toks, ask := randomCase(r)
		s := strings.Join(toks, "")
		w.Emit(map[string]any{"ev": "render", "fmt": f, "inst": inst, "corr": c, "str": s})
		w.Emit(map[string]any{"ev": "verdict", "verdicts": verdicts(s, ask)})
	}
}
