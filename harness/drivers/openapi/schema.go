package main

import (
	"context"
	"io"
	"net/http"
	"os"
	"path/filepath"
	"sort"
	"strings"

	"github.com/getkin/kin-openapi/openapi3"
	"github.com/getkin/kin-openapi/openapi3filter"
	"github.com/getkin/kin-openapi/routers"
	"github.com/getkin/kin-openapi/routers/legacy"
)

type (
	wireReq struct {
		Method  string              `json:"method"`
		URI     string              `json:"uri"`
		Headers map[string][]string `json:"headers"`
		Body    string              `json:"body"`
	}
	wireResp struct {
		Status  int                 `json:"status"`
		Headers map[string][]string `json:"headers"`
		Body    string              `json:"body"`
	}
	exchange struct {
		ID   string    `json:"id"`
		Req  *wireReq  `json:"req"`
		Resp *wireResp `json:"resp,omitempty"`
	}
)

func init() {
	// goa's error media type is JSON on the wire
	openapi3filter.RegisterBodyDecoder("application/vnd.goa.error", openapi3filter.JSONBodyDecoder)
}

// schema asks kin-openapi whether each recorded request / response conforms to the generated
// OpenAPI 3 document.  Verdict per exchange: req = ok | invalid | noroute, resp = ok | invalid | none.
func schema(v *vector) []event {
	js := readFile(v, "openapi3.json")
	if js == nil {
		js, _ = os.ReadFile(filepath.Join(v.Dir, "openapi3.json"))
	}
	fail := func(stage, msg string) []event {
		out := make([]event, 0, len(v.Exchanges))
		for _, x := range v.Exchanges {
			out = append(out, event{"id": x.ID, "req": "unloadable", "resp": "unloadable", "stage": stage, "err": trunc(msg)})
		}
		return out
	}
	loader := openapi3.NewLoader()
	doc, err := loader.LoadFromData(js)
	if err != nil {
		return fail("load", err.Error())
	}
	doc.Servers = nil // requests are matched on their path alone
	for _, it := range doc.Paths.Map() {
		it.Servers = nil
		for _, op := range it.Operations() {
			op.Servers = nil
		}
	}
	var router routers.Router
	func() {
		defer func() {
			if r := recover(); r != nil {
				err = &panicErr{r}
			}
		}()
		router, err = legacy.NewRouter(doc, openapi3.DisableExamplesValidation())
	}()
	if err != nil {
		return fail("validate", err.Error())
	}
	opts := &openapi3filter.Options{AuthenticationFunc: openapi3filter.NoopAuthenticationFunc, IncludeResponseStatus: true, SkipSettingDefaults: true}
	out := make([]event, 0, len(v.Exchanges))
	for _, x := range v.Exchanges {
		ev := event{"id": x.ID, "req": "ok", "resp": "none"}
		func() {
			defer func() {
				if r := recover(); r != nil {
					ev["req"], ev["err"] = "panic", trunc((&panicErr{r}).Error())
				}
			}()
			req, err := http.NewRequest(x.Req.Method, "http://verif.test"+x.Req.URI, strings.NewReader(x.Req.Body))
			if err != nil {
				ev["req"], ev["err"] = "unbuildable", trunc(err.Error())
				return
			}
			for k, vs := range x.Req.Headers {
				addHeader(req.Header, k, vs)
			}
			route, pathParams, err := router.FindRoute(req)
			if err != nil {
				ev["req"], ev["err"] = "noroute", trunc(err.Error())
				return
			}
			in := &openapi3filter.RequestValidationInput{Request: req, PathParams: pathParams, Route: route, Options: opts}
			if err := openapi3filter.ValidateRequest(context.Background(), in); err != nil {
				ev["req"], ev["err"] = "invalid", trunc(err.Error())
			}
			if x.Resp == nil {
				return
			}
			h := http.Header{}
			for k, vs := range x.Resp.Headers {
				addHeader(h, k, vs)
			}
			rin := &openapi3filter.ResponseValidationInput{RequestValidationInput: in, Status: x.Resp.Status, Header: h,
				Body: io.NopCloser(strings.NewReader(x.Resp.Body)), Options: opts}
			if err := openapi3filter.ValidateResponse(context.Background(), rin); err != nil {
				ev["resp"], ev["rerr"] = "invalid", trunc(err.Error())
				// facts about the exchange and the document that locate the disagreement
				ev["respCT"] = mediaType(h.Get("Content-Type"))
				cts := []string{}
				if r := route.Operation.Responses.Status(x.Resp.Status); r != nil && r.Value != nil {
					for ct := range r.Value.Content {
						cts = append(cts, ct)
					}
				}
				sort.Strings(cts)
				ev["docCTs"] = cts
			} else {
				ev["resp"] = "ok"
			}
		}()
		out = append(out, ev)
	}
	return out
}

// addHeader sets a header field.  Several field lines with the same name are the same message as one line
// with the values joined by commas (RFC 9110 section 5.3); kin-openapi only looks at the first line, so the
// combined form is handed over (Cookie / Set-Cookie keep their lines).
func addHeader(h http.Header, k string, vs []string) {
	ck := http.CanonicalHeaderKey(k)
	if len(vs) > 1 && ck != "Set-Cookie" && ck != "Cookie" {
		h.Set(k, strings.Join(vs, ","))
		return
	}
	for _, s := range vs {
		h.Add(k, s)
	}
}

func mediaType(ct string) string {
	if i := strings.Index(ct, ";"); i >= 0 {
		ct = ct[:i]
	}
	return strings.ToLower(strings.TrimSpace(ct))
}

type panicErr struct{ v any }

func (p *panicErr) Error() string { return "panic: " + strings.TrimSpace(strings.ReplaceAll(stringify(p.v), "\n", " ")) }

func stringify(v any) string {
	if e, ok := v.(error); ok {
		return e.Error()
	}
	if s, ok := v.(string); ok {
		return s
	}
	return "non-string panic value"
}
