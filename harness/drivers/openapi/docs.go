package main

import (
	"bytes"
	"context"
	"encoding/json"
	"fmt"
	"math/big"
	"os"
	"path/filepath"
	"sort"
	"strconv"
	"strings"

	"github.com/getkin/kin-openapi/openapi2"
	"github.com/getkin/kin-openapi/openapi2conv"
	"github.com/getkin/kin-openapi/openapi3"
	"gopkg.in/yaml.v3"

	"verif/harness/vio"
)

func unmarshalStrict(raw []byte, v any) error {
	dec := json.NewDecoder(bytes.NewReader(raw))
	dec.DisallowUnknownFields()
	return dec.Decode(v)
}

type (
	seg struct {
		K string `json:"k"` // lit | var | wild
		S string `json:"s"`
	}
	param struct {
		Name     string `json:"name"`
		In       string `json:"in"`
		Required bool   `json:"required"`
	}
	scheme struct {
		Name string `json:"name"` // scheme name as in the design (prefix of the document key)
		Kind string `json:"kind"` // basic | apikey | jwt | oauth2 | undefined
	}
	requirement struct {
		Schemes []scheme `json:"schemes"`
		Scopes  []string `json:"scopes"`
	}
	event map[string]any
)

var verbs = []string{"get", "put", "post", "delete", "options", "head", "patch", "trace", "connect"}

// segments projects a path template onto the segment sequence of the specification.
func segments(p string) []seg {
	out := []seg{}
	if p == "" || p == "/" {
		return out
	}
	parts := strings.Split(strings.TrimPrefix(p, "/"), "/")
	for _, s := range parts {
		switch {
		case strings.HasPrefix(s, "{*") && strings.HasSuffix(s, "}"):
			out = append(out, seg{"wild", s[2 : len(s)-1]})
		case strings.HasPrefix(s, "{") && strings.HasSuffix(s, "}"):
			out = append(out, seg{"var", s[1 : len(s)-1]})
		default:
			out = append(out, seg{"lit", s})
		}
	}
	return out
}

func readFile(v *vector, name string) []byte {
	if s, ok := v.Files[name]; ok {
		return []byte(s)
	}
	b, err := os.ReadFile(filepath.Join(v.Dir, "gen", "http", name))
	if err != nil {
		return nil
	}
	return b
}

func docs(v *vector) []event {
	var evs []event
	for _, ver := range []int{3, 2} {
		base := "openapi"
		if ver == 3 {
			base = "openapi3"
		}
		js, ym := readFile(v, base+".json"), readFile(v, base+".yaml")
		if js == nil || ym == nil {
			evs = append(evs, event{"ev": "docmissing", "version": ver, "json": js != nil, "yaml": ym != nil})
			continue
		}
		var jdoc any
		dec := json.NewDecoder(bytes.NewReader(js))
		dec.UseNumber()
		if err := dec.Decode(&jdoc); err != nil {
			evs = append(evs, event{"ev": "docvalid", "version": ver, "ok": false, "stage": "json", "err": err.Error()})
			continue
		}
		root, _ := jdoc.(map[string]any)
		if root == nil {
			evs = append(evs, event{"ev": "docvalid", "version": ver, "ok": false, "stage": "json", "err": "document is not an object"})
			continue
		}
		// operations
		evs = append(evs, docops(ver, root)...)
		evs = append(evs, event{"ev": "end_doc", "version": ver})
		// external validators
		evs = append(evs, validate(ver, js))
		// structural rules of the specification text that kin-openapi does not enforce
		evs = append(evs, event{"ev": "docfact", "version": ver, "facts": facts(ver, root)})
		// JSON = YAML
		var ydoc any
		if err := yaml.Unmarshal(ym, &ydoc); err != nil {
			evs = append(evs, event{"ev": "json_eq_yaml", "version": ver, "ok": false, "diff": "yaml: " + err.Error()})
		} else {
			d := diff(norm(jdoc), norm(ydoc), "")
			evs = append(evs, event{"ev": "json_eq_yaml", "version": ver, "ok": d == "", "diff": d})
		}
	}
	return evs
}

// ---- operations -------------------------------------------------------------------------------

func obj(x any) map[string]any { m, _ := x.(map[string]any); return m }
func arr(x any) []any          { a, _ := x.([]any); return a }
func str(x any) string         { s, _ := x.(string); return s }

func schemeKind(ver int, def map[string]any) string {
	if def == nil {
		return "undefined"
	}
	switch str(def["type"]) {
	case "basic":
		return "basic"
	case "apiKey":
		return "apikey"
	case "oauth2":
		return "oauth2"
	case "http":
		switch strings.ToLower(str(def["scheme"])) {
		case "basic":
			return "basic"
		case "bearer":
			return "jwt"
		}
	}
	return "other"
}

func requirements(ver int, root map[string]any, op map[string]any) []requirement {
	var defs map[string]any
	if ver == 3 {
		defs = obj(obj(root["components"])["securitySchemes"])
	} else {
		defs = obj(root["securityDefinitions"])
	}
	raw, ok := op["security"]
	if !ok {
		raw = root["security"] // the operation inherits the top-level requirement list
	}
	out := []requirement{}
	for _, r := range arr(raw) {
		req := requirement{Schemes: []scheme{}, Scopes: []string{}}
		seen := map[string]bool{}
		names := make([]string, 0)
		for k := range obj(r) {
			names = append(names, k)
		}
		sort.Strings(names)
		for _, k := range names {
			name := k
			if i := strings.Index(k, "_"); i >= 0 {
				name = k[:i]
			}
			req.Schemes = append(req.Schemes, scheme{Name: name, Kind: schemeKind(ver, obj(defs[k]))})
			for _, sc := range arr(obj(r)[k]) {
				if s := str(sc); !seen[s] {
					seen[s] = true
					req.Scopes = append(req.Scopes, s)
				}
			}
		}
		sort.Strings(req.Scopes)
		out = append(out, req)
	}
	return out
}

func docops(ver int, root map[string]any) []event {
	var evs []event
	basePath := ""
	if ver == 2 {
		basePath = strings.TrimSuffix(str(root["basePath"]), "/")
	}
	paths := obj(root["paths"])
	keys := make([]string, 0, len(paths))
	for k := range paths {
		keys = append(keys, k)
	}
	sort.Strings(keys)
	for _, key := range keys {
		if strings.HasPrefix(key, "x-") {
			continue
		}
		item := obj(paths[key])
		full := basePath + key
		for _, verb := range verbs {
			op := obj(item[verb])
			if op == nil {
				continue
			}
			ps := []param{}
			hasBody := false
			all := append(append([]any{}, arr(item["parameters"])...), arr(op["parameters"])...)
			for _, p := range all {
				po := obj(p)
				if ref := str(po["$ref"]); ref != "" {
					po = resolve(root, ref)
				}
				in := str(po["in"])
				if ver == 2 && (in == "body" || in == "formData") {
					hasBody = true
					continue
				}
				req, _ := po["required"].(bool)
				ps = append(ps, param{Name: str(po["name"]), In: in, Required: req})
			}
			if ver == 3 && op["requestBody"] != nil {
				hasBody = true
			}
			statuses := []int{}
			for k := range obj(op["responses"]) {
				n, err := strconv.Atoi(k)
				if err != nil {
					n = 0 // "default"
				}
				statuses = append(statuses, n)
			}
			sort.Ints(statuses)
			evs = append(evs, event{"ev": "docop", "version": ver, "method": strings.ToUpper(verb), "path": segments(full), "raw": full,
				"params": ps, "hasBody": hasBody, "statuses": statuses, "security": requirements(ver, root, op)})
		}
	}
	return evs
}

func resolve(root map[string]any, ref string) map[string]any {
	if !strings.HasPrefix(ref, "#/") {
		return nil
	}
	var cur any = root
	for _, part := range strings.Split(ref[2:], "/") {
		part = strings.NewReplacer("~1", "/", "~0", "~").Replace(part)
		cur = obj(cur)[part]
	}
	return obj(cur)
}

// ---- validity ---------------------------------------------------------------------------------

func validate(ver int, js []byte) (ev event) {
	ev = event{"ev": "docvalid", "version": ver, "ok": false}
	defer func() {
		if r := recover(); r != nil {
			ev["stage"] = "panic"
			ev["err"] = fmt.Sprint(r)
		}
	}()
	if ver == 3 {
		doc, err := openapi3.NewLoader().LoadFromData(js)
		if err != nil {
			ev["stage"], ev["err"] = "load", trunc(err.Error())
			return ev
		}
		// (examples SHOULD match their schema, they need not: not part of validity)
		if err := doc.Validate(context.Background(), openapi3.DisableExamplesValidation()); err != nil {
			ev["stage"], ev["err"] = "validate", trunc(err.Error())
			return ev
		}
		ev["ok"] = true
		return ev
	}
	var d2 openapi2.T
	if err := json.Unmarshal(js, &d2); err != nil {
		ev["stage"], ev["err"] = "load", trunc(err.Error())
		return ev
	}
	d3, err := openapi2conv.ToV3(&d2)
	if err != nil {
		ev["stage"], ev["err"] = "convert", trunc(err.Error())
		return ev
	}
	if err := d3.Validate(context.Background(), openapi3.DisableExamplesValidation()); err != nil {
		ev["stage"], ev["err"] = "validate", trunc(err.Error())
		return ev
	}
	ev["ok"] = true
	return ev
}

func trunc(s string) string {
	if len(s) > 400 {
		return s[:400]
	}
	return s
}

// facts counts departures from rules stated in the OpenAPI specification texts that the external
// validator does not check.  Every count is 0 for a document that follows the rules.
func facts(ver int, root map[string]any) map[string]int {
	f := map[string]int{"xbound_not_boolean": 0, "allow_empty_value_not_query": 0, "security_undefined": 0,
		"path_params_differ": 0, "param_untyped": 0, "operation_id_duplicate": 0, "method_not_in_spec": 0}
	// exclusiveMinimum / exclusiveMaximum are booleans in OpenAPI 2.0 and 3.0.x (JSON Schema draft 4/5)
	var walk func(x any)
	walk = func(x any) {
		switch t := x.(type) {
		case map[string]any:
			for k, v := range t {
				if k == "exclusiveMinimum" || k == "exclusiveMaximum" {
					if _, ok := v.(bool); !ok {
						if _, isObj := v.(map[string]any); !isObj { // a property that happens to be called exclusiveMinimum
							f["xbound_not_boolean"]++
						}
					}
				}
				if k == "example" || k == "examples" || k == "default" || k == "enum" {
					continue
				}
				walk(v)
			}
		case []any:
			for _, v := range t {
				walk(v)
			}
		}
	}
	walk(root)
	var defs map[string]any
	if ver == 3 {
		defs = obj(obj(root["components"])["securitySchemes"])
	} else {
		defs = obj(root["securityDefinitions"])
	}
	undefined := func(raw any) {
		for _, r := range arr(raw) {
			for k := range obj(r) {
				if defs[k] == nil {
					f["security_undefined"]++
				}
			}
		}
	}
	undefined(root["security"])
	ids := map[string]int{}
	basePath := ""
	if ver == 2 {
		basePath = str(root["basePath"])
	}
	for key, it := range obj(root["paths"]) {
		if strings.HasPrefix(key, "x-") {
			continue
		}
		tvars := map[string]bool{}
		for _, s := range segments(basePath + key) {
			switch s.K {
			case "var":
				tvars[s.S] = true
			case "wild":
				tvars["*"+s.S] = true // not a template expression of the specification
			}
		}
		for verb, o := range obj(it) {
			op := obj(o)
			if op == nil || verb == "parameters" || strings.HasPrefix(verb, "x-") {
				continue
			}
			if verb == "connect" || (ver == 2 && verb == "trace") {
				f["method_not_in_spec"]++
			}
			undefined(op["security"])
			if id := str(op["operationId"]); id != "" {
				ids[id]++
			}
			pvars := map[string]bool{}
			for _, p := range append(append([]any{}, arr(obj(it)["parameters"])...), arr(op["parameters"])...) {
				po := obj(p)
				in := str(po["in"])
				if in == "path" {
					pvars[str(po["name"])] = true
					if req, _ := po["required"].(bool); !req {
						f["path_params_differ"]++
					}
				}
				if _, has := po["allowEmptyValue"]; has && in != "query" {
					f["allow_empty_value_not_query"]++
				}
				if ver == 3 && po["schema"] == nil && po["content"] == nil && po["$ref"] == nil {
					f["param_untyped"]++
				}
				if ver == 2 && in != "body" && po["type"] == nil && po["$ref"] == nil {
					f["param_untyped"]++
				}
			}
			if len(pvars) != len(tvars) {
				f["path_params_differ"]++
			} else {
				for n := range pvars {
					if !tvars[n] {
						f["path_params_differ"]++
						break
					}
				}
			}
		}
	}
	for _, n := range ids {
		if n > 1 {
			f["operation_id_duplicate"]++
		}
	}
	return f
}

// ---- JSON = YAML ------------------------------------------------------------------------------

// norm maps both decodings onto one representation: numbers become canonical decimal strings.
func norm(x any) any {
	switch t := x.(type) {
	case map[string]any:
		m := make(map[string]any, len(t))
		for k, v := range t {
			m[k] = norm(v)
		}
		return m
	case map[any]any:
		m := make(map[string]any, len(t))
		for k, v := range t {
			m[fmt.Sprint(k)] = norm(v)
		}
		return m
	case []any:
		a := make([]any, len(t))
		for i, v := range t {
			a[i] = norm(v)
		}
		return a
	case json.Number:
		return num(string(t))
	case int:
		return num(strconv.Itoa(t))
	case int64:
		return num(strconv.FormatInt(t, 10))
	case uint64:
		return num(strconv.FormatUint(t, 10))
	case float64:
		return num(strconv.FormatFloat(t, 'g', -1, 64))
	}
	return x
}

type num string

func (n num) canon() string {
	s := string(n)
	if i, ok := new(big.Int).SetString(s, 10); ok {
		return i.String()
	}
	f, err := strconv.ParseFloat(s, 64)
	if err != nil {
		return s
	}
	if f == float64(int64(f)) && f > -1e15 && f < 1e15 {
		return strconv.FormatInt(int64(f), 10)
	}
	return strconv.FormatFloat(f, 'g', -1, 64)
}

func diff(a, b any, path string) string {
	switch x := a.(type) {
	case map[string]any:
		y, ok := b.(map[string]any)
		if !ok {
			return fmt.Sprintf("%s: object vs %T", path, b)
		}
		keys := map[string]bool{}
		for k := range x {
			keys[k] = true
		}
		for k := range y {
			keys[k] = true
		}
		ks := make([]string, 0, len(keys))
		for k := range keys {
			ks = append(ks, k)
		}
		sort.Strings(ks)
		for _, k := range ks {
			xv, okx := x[k]
			yv, oky := y[k]
			if !okx || !oky {
				return fmt.Sprintf("%s/%s: only in %s", path, k, map[bool]string{true: "json", false: "yaml"}[okx])
			}
			if d := diff(xv, yv, path+"/"+k); d != "" {
				return d
			}
		}
		return ""
	case []any:
		y, ok := b.([]any)
		if !ok || len(x) != len(y) {
			return fmt.Sprintf("%s: array of %d vs %T", path, len(x), b)
		}
		for i := range x {
			if d := diff(x[i], y[i], fmt.Sprintf("%s/%d", path, i)); d != "" {
				return d
			}
		}
		return ""
	case num:
		y, ok := b.(num)
		if !ok || x.canon() != y.canon() {
			return fmt.Sprintf("%s: %v vs %v", path, a, b)
		}
		return ""
	}
	if a != b {
		return fmt.Sprintf("%s: %v (%T) vs %v (%T)", path, a, a, b, b)
	}
	return ""
}

var _ = vio.Die
