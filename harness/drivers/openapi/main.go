// Driver for C07 / C14.
//
// Mode "docs" (C07): for one generated tree (gen/http/openapi3.json|.yaml, openapi.json|.yaml) it
// projects the documents onto the observables of spec/OpenAPIOps.tla: one `docop` event per documented
// operation (method, path segments, parameters, hasBody, statuses, security), `docvalid` (verdict of the
// external validators: kin-openapi openapi3 Loader + Validate; v2 via openapi2 + openapi2conv.ToV3 +
// Validate), `docfact` (structural rules of the OpenAPI specifications kin-openapi does not enforce,
// counted on the raw JSON) and `json_eq_yaml` (deep equality of the two renderings).
//
// Mode "schema" (C14): rebuilds the exact http.Request / http.Response recorded by the runner's tap and
// asks kin-openapi openapi3filter (routers/legacy) whether they conform to the generated openapi3.json.
//
// The driver holds no expectation: it only reads documents and reports what an independent OpenAPI
// implementation says about them.
package main

import (
	"encoding/json"
	"flag"

	"verif/harness/vio"
)

type vector struct {
	Mode string `json:"mode"` // docs | schema
	ID   string `json:"id"`
	Dir  string `json:"dir"` // directory that contains gen/http/openapi*.{json,yaml}
	// schema mode
	Exchanges []exchange `json:"exchanges,omitempty"`
	// docs mode: files may be given explicitly (self-tests)
	Files map[string]string `json:"files,omitempty"`
}

func main() {
	flag.Parse()
	w, err := vio.NewWriter()
	if err != nil {
		vio.Die("%v", err)
	}
	defer w.Close()
	err = vio.ReadVectors(func(i int, raw json.RawMessage) error {
		var v vector
		if err := unmarshalStrict(raw, &v); err != nil {
			return err
		}
		switch v.Mode {
		case "docs":
			w.Emit(map[string]any{"i": i, "id": v.ID, "events": docs(&v)})
		case "schema":
			w.Emit(map[string]any{"i": i, "id": v.ID, "verdicts": schema(&v)})
		default:
			vio.Die("vector %d: unknown mode %q", i, v.Mode)
		}
		return nil
	})
	if err != nil {
		vio.Die("%v", err)
	}
}
