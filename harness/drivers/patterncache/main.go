// Driver for C17 (pattern cache): runs the real goa.ValidatePattern
//   - replay direction: one vector = the calls of one TLC behaviour of
//     PatternCache.tla plus its schedule (sequence of (call, label)); the gates
//     of the verif hook force exactly that interleaving; observed verdicts,
//     hit/miss and final cache content are reported;
//   - trace direction (-trace N): N batches of free-running concurrent calls
//     (1-16 goroutines), every hook point logged as an event for
//     Trace_PatternCache.tla.
// The driver holds no expectations: what is right is decided by the specification.
package main

import (
	"encoding/json"
	"flag"
	"fmt"
	"math/rand"
	"os"
	"regexp"
	"runtime"
	"sort"
	"strings"
	"sync"
	"time"

	goa "goa.design/goa/v3/pkg"

	"verif/harness/vio"
)

// ---- goroutine identity ---------------------------------------------------------------------

func goid() int64 {
	var buf [64]byte
	n := runtime.Stack(buf[:], false)
	// "goroutine 123 [running]:"
	s := string(buf[:n])
	s = strings.TrimPrefix(s, "goroutine ")
	var id int64
	for i := 0; i < len(s) && s[i] >= '0' && s[i] <= '9'; i++ {
		id = id*10 + int64(s[i]-'0')
	}
	return id
}

type callCtx struct {
	c      int // call id (1-based)
	g      int // goroutine number (1-based)
	seq    *int
	passed []string
	arrive chan string
	resume chan struct{}
	rnd    *rand.Rand
}

var (
	current sync.Map // goid -> *callCtx
	mode    = "off"  // "gate" | "free" | "log" | "off"
	modeMu  sync.RWMutex
	logMu   sync.Mutex
	out     *vio.Writer
)

func getMode() string { modeMu.RLock(); defer modeMu.RUnlock(); return mode }
func setMode(m string) { modeMu.Lock(); mode = m; modeMu.Unlock() }

func hook(point, pattern string) {
	v, ok := current.Load(goid())
	if !ok {
		return
	}
	cc := v.(*callCtx)
	switch getMode() {
	case "gate":
		cc.passed = append(cc.passed, point)
		cc.arrive <- point
		<-cc.resume
	case "free":
		cc.passed = append(cc.passed, point)
	case "log":
		if point == "match" {
			return // the driver logs the match event itself, with the verdict
		}
		logMu.Lock()
		*cc.seq++
		out.Emit(map[string]any{"ev": point, "c": cc.c, "g": cc.g, "seq": *cc.seq})
		logMu.Unlock()
		if cc.rnd.Intn(3) == 0 {
			runtime.Gosched()
		}
	}
}

// ---- replay direction -----------------------------------------------------------------------

type Call struct {
	P    int      `json:"p"`
	V    int      `json:"v"`
	Ptxt string   `json:"ptxt"`
	Val  []string `json:"val"`
}
type Vec struct {
	Calls []Call `json:"calls"`
	Sched [][]any `json:"sched"`
}

func verdictOf(err error) string {
	if err == nil {
		return "ok"
	}
	return "err"
}

func replay(i int, v Vec) map[string]any {
	goa.VerifResetPatterns()
	n := len(v.Calls)
	ccs := make([]*callCtx, n)
	verdicts := make([]string, n)
	errnames := make([]string, n)
	var wg sync.WaitGroup
	setMode("gate")
	for k := range v.Calls {
		seq := 0
		cc := &callCtx{c: k + 1, g: k + 1, seq: &seq, arrive: make(chan string, 1), resume: make(chan struct{}, 1)}
		ccs[k] = cc
		wg.Add(1)
		go func(k int, cc *callCtx) {
			defer wg.Done()
			id := goid()
			current.Store(id, cc)
			defer current.Delete(id)
			<-cc.resume // start gate
			err := goa.ValidatePattern("x", strings.Join(v.Calls[k].Val, ""), v.Calls[k].Ptxt)
			verdicts[k] = verdictOf(err)
			if err != nil {
				if se, ok := err.(*goa.ServiceError); ok {
					errnames[k] = se.Name
				} else {
					errnames[k] = "?"
				}
			}
			cc.arrive <- "ret"
		}(k, cc)
	}
	at := make([]string, n) // where each call is parked
	for k := range at {
		at[k] = "start"
	}
	diverged := ""
	// release call k and wait for it to park again
	step := func(k int, want string) bool {
		ccs[k].resume <- struct{}{}
		select {
		case got := <-ccs[k].arrive:
			at[k] = got
			if got != want {
				diverged = fmt.Sprintf("call %d reached %q, schedule expects %q", k+1, got, want)
				return false
			}
			return true
		case <-time.After(3 * time.Second):
			diverged = fmt.Sprintf("call %d blocked on the way to %q", k+1, want)
			at[k] = "blocked"
			return false
		}
	}
	expectAt := func(k int, where string, label string) bool {
		if at[k] != where {
			diverged = fmt.Sprintf("schedule step %s of call %d: call is at %q, not at %q", label, k+1, at[k], where)
			return false
		}
		return true
	}
sched:
	for _, st := range v.Sched {
		k := int(st[0].(float64)) - 1
		label := st[1].(string)
		ok := true
		switch label {
		case "RLock":
			ok = expectAt(k, "start", label) && step(k, "rlock")
		case "RUnlock":
			ok = expectAt(k, "rlock", label) && step(k, "runlock")
		case "Compile":
			ok = expectAt(k, "runlock", label) && step(k, "compile")
		case "WLock":
			ok = expectAt(k, "compile", label) && step(k, "write")
		case "WUnlock":
			ok = expectAt(k, "write", label) && step(k, "match")
		case "Match":
			if at[k] == "runlock" { // cache hit: no fill
				ok = step(k, "match")
			}
			ok = ok && expectAt(k, "match", label) && step(k, "ret")
		}
		if !ok {
			break sched
		}
	}
	if diverged == "" {
		for k := range at {
			if at[k] != "ret" {
				diverged = fmt.Sprintf("call %d has not returned at the end of the schedule (at %q)", k+1, at[k])
				break
			}
		}
	}
	if diverged != "" {
		// let everything run to completion so that no lock stays held
		setMode("free")
		for k := range ccs {
			if at[k] != "ret" {
				go func(cc *callCtx) {
					for {
						select {
						case cc.resume <- struct{}{}:
						case <-cc.arrive:
						case <-time.After(200 * time.Millisecond):
							return
						}
					}
				}(ccs[k])
			}
		}
	}
	done := make(chan struct{})
	go func() { wg.Wait(); close(done) }()
	select {
	case <-done:
	case <-time.After(10 * time.Second):
		vio.Die("calls of vector %d never returned (%s)", i, diverged)
	}
	setMode("off")
	hits := make([]bool, n)
	std := make([]string, n)
	for k, cc := range ccs {
		hits[k] = true
		for _, p := range cc.passed {
			if p == "compile" {
				hits[k] = false
			}
		}
		m, err := regexp.MatchString(v.Calls[k].Ptxt, strings.Join(v.Calls[k].Val, ""))
		if err != nil {
			std[k] = "invalid"
		} else if m {
			std[k] = "ok"
		} else {
			std[k] = "err"
		}
	}
	cache := goa.VerifKnownPatterns()
	sort.Strings(cache)
	return map[string]any{"i": i, "verdicts": verdicts, "errnames": errnames, "hits": hits, "std": std, "cache": cache, "diverged": diverged}
}

// ---- trace direction ------------------------------------------------------------------------

type Table struct {
	Pats []string   `json:"pats"`
	Vals [][]string `json:"vals"`
}

func traceBatch(r *rand.Rand, tab Table, first bool) {
	G := 1 + r.Intn(16)
	if r.Intn(4) == 0 {
		G = 16
	}
	K := 1 + r.Intn(3)
	n := G * K // <= 48
	keep := !first && r.Intn(3) == 0
	// a small pool of patterns so that calls contend for the same entries
	pool := make([]int, 1+r.Intn(4))
	for k := range pool {
		pool[k] = 1 + r.Intn(len(tab.Pats))
	}
	type cv struct {
		P int `json:"p"`
		V int `json:"v"`
	}
	calls := make([]cv, n)
	for k := range calls {
		calls[k] = cv{pool[r.Intn(len(pool))], 1 + r.Intn(len(tab.Vals))}
	}
	if !keep {
		goa.VerifResetPatterns()
	}
	out.Emit(map[string]any{"ev": "reset", "n": n, "calls": calls, "keep": keep})
	setMode("log")
	start := make(chan struct{})
	var wg sync.WaitGroup
	for g := 0; g < G; g++ {
		wg.Add(1)
		seed := r.Int63()
		go func(g int) {
			defer wg.Done()
			id := goid()
			defer current.Delete(id)
			seq := 0
			rnd := rand.New(rand.NewSource(seed))
			<-start
			for k := 0; k < K; k++ {
				c := g*K + k // 0-based call id: the calls of one goroutine are consecutive
				cc := &callCtx{c: c + 1, g: g + 1, seq: &seq, rnd: rnd}
				current.Store(id, cc)
				err := goa.ValidatePattern("x", strings.Join(tab.Vals[calls[c].V-1], ""), tab.Pats[calls[c].P-1])
				logMu.Lock()
				seq++
				out.Emit(map[string]any{"ev": "match", "c": c + 1, "g": g + 1, "seq": seq, "verdict": verdictOf(err)})
				logMu.Unlock()
			}
		}(g)
	}
	close(start)
	wg.Wait()
	setMode("off")
	cache := goa.VerifKnownPatterns()
	sort.Strings(cache)
	out.Emit(map[string]any{"ev": "done", "cache": cache})
}

func main() {
	ntrace := flag.Int("trace", 0, "number of free-running batches to log as a trace")
	tabPath := flag.String("table", "", "JSON file with the pattern/value table of the specification (trace direction)")
	flag.Parse()
	w, err := vio.NewWriter()
	if err != nil {
		vio.Die("%v", err)
	}
	out = w
	defer w.Close()
	goa.VerifPatternHook = hook
	err = vio.ReadVectors(func(i int, raw json.RawMessage) error {
		var v Vec
		if err := json.Unmarshal(raw, &v); err != nil {
			return err
		}
		w.Emit(replay(i, v))
		return nil
	})
	if err != nil {
		vio.Die("%v", err)
	}
	if *ntrace > 0 {
		b, err := os.ReadFile(*tabPath)
		if err != nil {
			vio.Die("%v", err)
		}
		var tab Table
		if err := json.Unmarshal(b, &tab); err != nil {
			vio.Die("%v", err)
		}
		r := rand.New(rand.NewSource(*vio.Seed))
		for b := 0; b < *ntrace; b++ {
			traceBatch(r, tab, b == 0)
		}
	}
}
