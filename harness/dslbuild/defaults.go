package dslbuild

import (
	"reflect"
	"strconv"
	"strings"

	ad "verif/harness/design"
)

// Typed Go values for the Default(...) of list and map attributes: goa's generators print a default with %#v, so the
// DSL has to be given []int32{3} / map[string]float64{"k1": 3.5}, not the []any / map[string]any encoding/json yields.

var goKinds = map[string]reflect.Type{
	"bool": reflect.TypeOf(false), "string": reflect.TypeOf(""),
	"int": reflect.TypeOf(int(0)), "int32": reflect.TypeOf(int32(0)), "int64": reflect.TypeOf(int64(0)),
	"uint": reflect.TypeOf(uint(0)), "uint32": reflect.TypeOf(uint32(0)), "uint64": reflect.TypeOf(uint64(0)),
	"float32": reflect.TypeOf(float32(0)), "float64": reflect.TypeOf(float64(0)),
}

// typedScalar converts a decoded JSON scalar (or, for map keys, its text) to the Go type of the primitive kind.
func typedScalar(kind string, v any) (reflect.Value, bool) {
	t, ok := goKinds[kind]
	if !ok {
		return reflect.Value{}, false
	}
	out := reflect.New(t).Elem()
	switch x := v.(type) {
	case bool:
		if t.Kind() != reflect.Bool {
			return out, false
		}
		out.SetBool(x)
	case string:
		switch t.Kind() {
		case reflect.String:
			out.SetString(x)
		case reflect.Bool:
			out.SetBool(x == "true")
		case reflect.Float32, reflect.Float64:
			f, err := strconv.ParseFloat(x, 64)
			if err != nil {
				return out, false
			}
			out.SetFloat(f)
		case reflect.Uint, reflect.Uint32, reflect.Uint64:
			n, err := strconv.ParseUint(x, 10, 64)
			if err != nil {
				return out, false
			}
			out.SetUint(n)
		default:
			n, err := strconv.ParseInt(x, 10, 64)
			if err != nil {
				return out, false
			}
			out.SetInt(n)
		}
	case float64:
		switch t.Kind() {
		case reflect.Float32, reflect.Float64:
			out.SetFloat(x)
		case reflect.Uint, reflect.Uint32, reflect.Uint64:
			out.SetUint(uint64(x))
		case reflect.Int, reflect.Int32, reflect.Int64:
			out.SetInt(int64(x))
		default:
			return out, false
		}
	default:
		return out, false
	}
	return out, true
}

// typedSlice: kind "array:<elem kind>".
func typedSlice(kind string, xs []any) (any, bool) {
	ek := strings.TrimPrefix(kind, "array:")
	t, ok := goKinds[ek]
	if !ok {
		return nil, false
	}
	out := reflect.MakeSlice(reflect.SliceOf(t), 0, len(xs))
	for _, x := range xs {
		v, ok := typedScalar(ek, x)
		if !ok {
			return nil, false
		}
		out = reflect.Append(out, v)
	}
	return out.Interface(), true
}

// typedMap: kind "map:<key kind>:<elem kind>".
func typedMap(kind string, m map[string]any) (any, bool) {
	parts := strings.Split(kind, ":")
	if len(parts) != 3 || parts[0] != "map" {
		return nil, false
	}
	kt, ok1 := goKinds[parts[1]]
	et, ok2 := goKinds[parts[2]]
	if !ok1 || !ok2 {
		return nil, false
	}
	out := reflect.MakeMapWithSize(reflect.MapOf(kt, et), len(m))
	for k, x := range m {
		kv, ok := typedScalar(parts[1], k)
		if !ok {
			return nil, false
		}
		ev, ok := typedScalar(parts[2], x)
		if !ok {
			return nil, false
		}
		out.SetMapIndex(kv, ev)
	}
	return out.Interface(), true
}

// defaultKind is kindOf, looking through a reference to a named list / map type (Type("L", ArrayOf(Int))): its default
// has to be given as the typed value of the underlying collection.
func (b *builder) defaultKind(t ad.TRef) string {
	if t.Kind == "user" {
		for _, ut := range b.d.Types {
			if ut.Name == t.Ref && (ut.Kind == "array" || ut.Kind == "map") && ut.Base != nil {
				return kindOf(*ut.Base)
			}
		}
	}
	return kindOf(t)
}
