package dslbuild

import (
	"encoding/json"
	"fmt"
	"sort"
	"strings"

	. "goa.design/goa/v3/dsl"

	ad "verif/harness/design"
	"goa.design/goa/v3/expr"
)

// Build executes the public goa DSL for the abstract design. It must be called once
// per process, before eval.RunDSL.
func Build(d *ad.Design) {
	b := &builder{d: d, types: map[string]expr.DataType{}}
	b.build()
}

type builder struct {
	d     *ad.Design
	types map[string]expr.DataType
}

var prims = map[string]expr.DataType{
	"bool": Boolean, "int": Int, "int32": Int32, "int64": Int64, "uint": UInt, "uint32": UInt32,
	"uint64": UInt64, "float32": Float32, "float64": Float64, "string": String, "bytes": Bytes, "any": Any,
}

func sortedKeys(m map[string]string) []string {
	ks := make([]string, 0, len(m))
	for k := range m {
		ks = append(ks, k)
	}
	sort.Strings(ks)
	return ks
}

func (b *builder) build() {
	d := b.d
	for _, s := range d.Schemes {
		s := s
		fn := func() {
			for _, sc := range s.Scopes {
				Scope(sc, "scope "+sc)
			}
		}
		switch s.Kind {
		case "basic":
			BasicAuthSecurity(s.Name)
		case "apikey":
			APIKeySecurity(s.Name)
		case "jwt":
			JWTSecurity(s.Name, fn)
		case "oauth2":
			OAuth2Security(s.Name, func() {
				ClientCredentialsFlow("http://token.example/tok", "http://token.example/ref")
				fn()
			})
		}
	}
	API(d.API.Name, func() {
		Title("API " + d.API.Name)
		for _, e := range d.API.Errors {
			b.errorDecl(e)
		}
		b.security(d.API.Security, false)
		if d.API.Path != "" {
			HTTP(func() { Path(d.API.Path) })
		}
		if len(d.API.HTTPErrors) > 0 { // API-level error responses (C05); HTTP may appear several times in API
			HTTP(func() {
				for _, e := range d.API.HTTPErrors {
					b.httpError(e)
				}
			})
		}
		for i := 0; i < d.API.Servers; i++ {
			Server(fmt.Sprintf("srv%d", i+1), func() {
				Host("localhost", func() { URI("http://localhost:8080") })
			})
		}
	})
	for _, t := range d.Types {
		b.declareType(t)
	}
	for _, s := range d.Services {
		b.service(s)
	}
}

func (b *builder) security(reqs []ad.Requirement, nosec bool) {
	if nosec {
		NoSecurity()
		return
	}
	for _, r := range reqs {
		r := r
		args := []any{}
		for _, s := range r.Schemes {
			args = append(args, s)
		}
		if len(r.Scopes) > 0 {
			args = append(args, func() {
				for _, sc := range r.Scopes {
					Scope(sc)
				}
			})
		}
		Security(args...)
	}
}

func (b *builder) errorDecl(e ad.ErrorDecl) {
	fn := func() {
		if e.Temporary {
			Temporary()
		}
		if e.Timeout {
			Timeout()
		}
		if e.Fault {
			Fault()
		}
	}
	if e.Type != nil {
		Error(e.Name, b.tref(*e.Type), fn)
		return
	}
	if e.Temporary || e.Timeout || e.Fault {
		Error(e.Name, fn)
		return
	}
	Error(e.Name)
}

func (b *builder) declareType(t ad.Type) {
	switch t.Kind {
	case "object":
		b.types[t.Name] = Type(t.Name, func() {
			if t.Extend != "" {
				Extend(b.types[t.Extend])
			}
			if t.Reference != "" {
				Reference(b.types[t.Reference])
			}
			b.attrs(t.Attrs)
		})
	case "alias", "array", "map":
		b.types[t.Name] = Type(t.Name, b.lazy(*t.Base), func() {
			b.val(t.Val)
			if len(t.Default) > 0 { // a default declared on the type itself
				Default(jsonValue(t.Default, kindOf(*t.Base)))
			}
		})
	case "union":
		b.types[t.Name] = Type(t.Name, func() {
			b.attrs(t.Attrs)
		})
	case "result":
		id := t.MediaType
		if id == "" {
			id = "application/vnd." + strings.ToLower(t.Name)
		}
		b.types[t.Name] = ResultType(id, func() {
			TypeName(t.Name)
			if t.Extend != "" {
				Extend(b.types[t.Extend])
			}
			if t.Reference != "" {
				Reference(b.types[t.Reference])
			}
			Attributes(func() { b.attrs(t.Attrs) })
			for _, v := range t.Views {
				v := v
				View(v.Name, func() {
					for _, a := range v.Attrs {
						if a.View != "" {
							a := a
							Attribute(a.Name, func() { View(a.View) })
						} else {
							Attribute(a.Name)
						}
					}
				})
			}
		})
	case "collection":
		if t.Coll == nil {
			b.types[t.Name] = CollectionOf(b.types[t.Base.Ref])
		} else {
			b.types[t.Name] = CollectionOf(b.types[t.Base.Ref], func() {
				if t.Coll.Desc != "" {
					Description(t.Coll.Desc)
				}
				for _, v := range t.Coll.Views {
					View(v)
				}
			})
		}
	}
}

// lazy resolves a type reference that may not be declared yet when a top-level Type() call is made
// (alias of a user type declared later is not supported: aliases only use primitives, arrays, maps).
func (b *builder) lazy(t ad.TRef) expr.DataType { return b.tref(t) }

func (b *builder) tref(t ad.TRef) expr.DataType {
	if p, ok := prims[t.Kind]; ok {
		return p
	}
	switch t.Kind {
	case "user":
		if dt, ok := b.types[t.Ref]; ok {
			return dt
		}
		// forward or self reference: resolved by name when the enclosing DSL runs
		if ut := expr.Root.UserType(t.Ref); ut != nil {
			return ut
		}
		panic("genhost: unknown user type " + t.Ref)
	case "array":
		return ArrayOf(b.tref(*t.Elem), func() { b.val(t.Elem.Val) })
	case "map":
		return MapOf(b.tref(*t.Key), b.tref(*t.Elem), func() {
			if t.Key.Val != nil {
				Key(func() { b.val(t.Key.Val) })
			}
			if t.Elem.Val != nil {
				Elem(func() { b.val(t.Elem.Val) })
			}
		})
	}
	panic("genhost: unknown type kind " + t.Kind)
}

func jsonValue(raw json.RawMessage, kind string) any {
	var v any
	if err := json.Unmarshal(raw, &v); err != nil {
		panic(err)
	}
	return coerce(v, kind)
}

// coerce turns a decoded JSON value into the Go type the DSL expects for the attribute kind.
func coerce(v any, kind string) any {
	switch x := v.(type) {
	case float64:
		switch kind {
		case "int", "int32", "int64", "uint", "uint32", "uint64":
			return int(x)
		case "float32", "float64":
			return x
		}
		if x == float64(int(x)) {
			return int(x)
		}
		return x
	case []any:
		switch kind {
		case "array:string":
			out := make([]string, len(x))
			for i := range x {
				out[i] = x[i].(string)
			}
			return out
		case "array:int":
			out := make([]int, len(x))
			for i := range x {
				out[i] = int(x[i].(float64))
			}
			return out
		}
		if strings.HasPrefix(kind, "array:") { // typed default of a list of any primitive kind (defaults.go)
			if t, ok := typedSlice(kind, x); ok {
				return t
			}
		}
		return x
	case map[string]any:
		if t, ok := typedMap(kind, x); ok { // typed default of a map (defaults.go)
			return t
		}
		return x
	}
	return v
}

func kindOf(t ad.TRef) string {
	if t.Kind == "array" && t.Elem != nil {
		return "array:" + t.Elem.Kind
	}
	if t.Kind == "map" && t.Key != nil && t.Elem != nil {
		return "map:" + t.Key.Kind + ":" + t.Elem.Kind
	}
	return t.Kind
}

func (b *builder) val(v *ad.Val) {
	if v == nil {
		return
	}
	num := func(f float64) any {
		if f == float64(int(f)) {
			return int(f)
		}
		return f
	}
	if v.Min != nil {
		Minimum(num(*v.Min))
	}
	if v.Max != nil {
		Maximum(num(*v.Max))
	}
	if v.ExclMin != nil {
		ExclusiveMinimum(num(*v.ExclMin))
	}
	if v.ExclMax != nil {
		ExclusiveMaximum(num(*v.ExclMax))
	}
	if v.MinLen != nil {
		MinLength(*v.MinLen)
	}
	if v.MaxLen != nil {
		MaxLength(*v.MaxLen)
	}
	if len(v.Enum) > 0 {
		vals := make([]any, len(v.Enum))
		for i, r := range v.Enum {
			vals[i] = jsonValue(r, "")
		}
		Enum(vals...)
	}
	if v.Pattern != "" {
		Pattern(v.Pattern)
	}
	if v.Format != "" {
		Format(expr.ValidationFormat(v.Format))
	}
}

func (b *builder) attrs(as []ad.Attr) {
	var req []string
	for _, a := range as {
		a := a
		body := func() {
			b.val(a.Val)
			if len(a.Default) > 0 {
				Default(jsonValue(a.Default, b.defaultKind(a.Type)))
			}
			for _, m := range a.Meta {
				Meta(m[0], m[1:]...)
			}
			if a.View != "" {
				View(a.View)
			}
			if a.Type.Kind == "object" {
				b.attrs(a.Type.Attrs)
			}
			if a.Type.Kind == "union" {
				b.attrs(a.Type.Alts)
			}
		}
		var args []any
		switch a.Type.Kind {
		case "object":
			args = []any{body}
		case "union":
			// OneOf(name, func(){ Attribute(...) ... })
			if a.Tag > 0 {
				OneOf(a.Name, func() { b.unionAlts(a.Type.Alts) })
			} else {
				OneOf(a.Name, func() { b.unionAlts(a.Type.Alts) })
			}
			if a.Required {
				req = append(req, a.Name)
			}
			continue
		default:
			args = []any{b.tref(a.Type)}
			if a.Desc != "" {
				args = append(args, a.Desc)
			}
			args = append(args, body)
		}
		switch {
		case a.Sec == "username":
			b.secAttr(func(args ...any) { Username(a.Name, args...) }, func(args ...any) { UsernameField(a.Tag, a.Name, args...) }, a, args)
		case a.Sec == "password":
			b.secAttr(func(args ...any) { Password(a.Name, args...) }, func(args ...any) { PasswordField(a.Tag, a.Name, args...) }, a, args)
		case a.Sec == "token":
			b.secAttr(func(args ...any) { Token(a.Name, args...) }, func(args ...any) { TokenField(a.Tag, a.Name, args...) }, a, args)
		case a.Sec == "accesstoken":
			b.secAttr(func(args ...any) { AccessToken(a.Name, args...) }, func(args ...any) { AccessTokenField(a.Tag, a.Name, args...) }, a, args)
		case strings.HasPrefix(a.Sec, "apikey:"):
			sch := strings.TrimPrefix(a.Sec, "apikey:")
			b.secAttr(func(args ...any) { APIKey(sch, a.Name, args...) }, func(args ...any) { APIKeyField(a.Tag, sch, a.Name, args...) }, a, args)
		case a.Tag > 0:
			Field(a.Tag, a.Name, args...)
		default:
			Attribute(a.Name, args...)
		}
		if a.Required {
			req = append(req, a.Name)
		}
	}
	if len(req) > 0 {
		Required(req...)
	}
}

func (b *builder) unionAlts(alts []ad.Attr) {
	for _, a := range alts {
		a := a
		var extra []any
		if a.Val != nil {
			// validations attached to a OneOf member (added for C10; members without `val` are declared as before)
			extra = append(extra, func() { b.val(a.Val) })
		}
		if a.Tag > 0 {
			Field(a.Tag, a.Name, append([]any{b.tref(a.Type)}, extra...)...)
		} else {
			Attribute(a.Name, append([]any{b.tref(a.Type)}, extra...)...)
		}
	}
}

func (b *builder) secAttr(plain, field func(args ...any), a ad.Attr, args []any) {
	if a.Tag > 0 {
		field(args...)
		return
	}
	plain(args...)
}

func (b *builder) shape(s *ad.Shape, set func(val any, args ...any)) {
	if s == nil {
		return
	}
	if s.Type != nil {
		if s.Type.Kind == "object" {
			set(func() { b.attrs(s.Type.Attrs) })
			return
		}
		dt := b.tref(*s.Type)
		if len(s.Attrs) > 0 {
			// Payload(Type, func(){ extra attributes }) customisation
			set(dt, func() { b.attrs(s.Attrs) })
			return
		}
		if s.Type.Val != nil {
			set(dt, func() { b.val(s.Type.Val) })
			return
		}
		set(dt)
		return
	}
	set(func() { b.attrs(s.Attrs) })
}

func (b *builder) service(s ad.Service) {
	Service(s.Name, func() {
		for _, e := range s.Errors {
			b.errorDecl(e)
		}
		b.security(s.Security, s.NoSecurity)
		if !s.NoHTTP && (s.Path != "" || len(s.HTTPErrors) > 0) {
			HTTP(func() {
				if s.Path != "" {
					Path(s.Path)
				}
				for _, e := range s.HTTPErrors {
					b.httpError(e)
				}
			})
		}
		for _, f := range s.Files {
			Files(f.Path, f.File)
		}
		for _, m := range s.Methods {
			b.method(s, m)
		}
	})
}

// httpErrorForm writes the error response with its status in the given form (C05).
func (b *builder) httpErrorForm(e ad.HTTPError) {
	note := func() { Description("response of error " + e.Name) }
	switch e.Form {
	case "argfn":
		Response(e.Name, e.Status, note)
	case "code":
		Response(e.Name, func() {
			Code(e.Status)
			note()
		})
	case "default":
		Response(e.Name, note)
	case "swapped":
		Response(e.Status, e.Name)
	case "bare":
		Response(e.Name)
	default:
		panic("unknown error response form " + e.Form)
	}
}

func (b *builder) httpError(e ad.HTTPError) {
	if e.Form != "" && e.Form != "arg" {
		b.httpErrorForm(e)
		return
	}
	if len(e.Headers) == 0 {
		Response(e.Name, e.Status)
		return
	}
	Response(e.Name, e.Status, func() {
		for _, a := range sortedKeys(e.Headers) {
			Header(a + ":" + e.Headers[a])
		}
	})
}

func (b *builder) method(s ad.Service, m ad.Method) {
	Method(m.Name, func() {
		b.security(m.Security, m.NoSecurity)
		b.shape(m.Payload, Payload)
		if m.Result != nil {
			if m.ResultView != "" {
				b.shape(m.Result, func(val any, args ...any) {
					Result(val, append(args, func() { View(m.ResultView) })...)
				})
			} else {
				b.shape(m.Result, Result)
			}
		}
		b.shape(m.StreamP, StreamingPayload)
		b.shape(m.StreamR, StreamingResult)
		for _, e := range m.Errors {
			b.errorDecl(e)
		}
		if h := m.HTTP; h != nil && !s.NoHTTP {
			HTTP(func() {
				for _, r := range h.Routes {
					switch r.Verb {
					case "GET":
						GET(r.Path)
					case "HEAD":
						HEAD(r.Path)
					case "POST":
						POST(r.Path)
					case "PUT":
						PUT(r.Path)
					case "DELETE":
						DELETE(r.Path)
					case "OPTIONS":
						OPTIONS(r.Path)
					case "TRACE":
						TRACE(r.Path)
					case "CONNECT":
						CONNECT(r.Path)
					case "PATCH":
						PATCH(r.Path)
					}
				}
				for _, a := range sortedKeys(h.Params) {
					Param(mapped(a, h.Params[a]))
				}
				for _, a := range sortedKeys(h.Headers) {
					Header(mapped(a, h.Headers[a]))
				}
				for _, a := range sortedKeys(h.Cookies) {
					Cookie(mapped(a, h.Cookies[a]))
				}
				if len(h.ParamsRequired) > 0 { // required in the transport only
					Params(func() { Required(h.ParamsRequired...) })
				}
				if len(h.HeadersRequired) > 0 {
					Headers(func() { Required(h.HeadersRequired...) })
				}
				if h.MapParams != nil {
					if *h.MapParams == "" {
						MapParams()
					} else {
						MapParams(*h.MapParams)
					}
				}
				switch {
				case h.Body == "-":
					Body(Empty)
				case h.Body != "":
					Body(h.Body)
				case len(h.BodyAttrs) > 0:
					Body(func() {
						for _, a := range h.BodyAttrs {
							Attribute(a)
						}
					})
				}
				if h.Multipart {
					MultipartRequest()
				}
				if h.SkipReq {
					SkipRequestBodyEncodeDecode()
				}
				if h.SkipResp {
					SkipResponseBodyEncodeDecode()
				}
				for _, r := range h.Responses {
					r := r
					Response(r.Status, func() {
						if r.TagName != "" {
							Tag(r.TagName, r.TagValue)
						}
						for _, a := range sortedKeys(r.Headers) {
							Header(mapped(a, r.Headers[a]))
						}
						for _, a := range sortedKeys(r.Cookies) {
							Cookie(mapped(a, r.Cookies[a]))
						}
						if len(r.HeadersRequired) > 0 { // required in the transport only
							Headers(func() { Required(r.HeadersRequired...) })
						}
						switch {
						case r.Body == "-":
							Body(Empty)
						case r.Body != "":
							Body(r.Body)
						}
						if r.ContentType != "" {
							ContentType(r.ContentType)
						}
					})
				}
				for _, e := range h.Errors {
					b.httpError(e)
				}
			})
		}
		if g := m.GRPC; g != nil && s.GRPC {
			GRPC(func() {
				if len(g.Metadata) > 0 {
					Metadata(func() {
						for _, a := range g.Metadata {
							Attribute(a)
						}
					})
				}
				if len(g.Message) > 0 {
					Message(func() {
						for _, a := range g.Message {
							Attribute(a)
						}
					})
				}
				if len(g.ResponseHeaders) > 0 || len(g.Trailers) > 0 || len(g.ResponseMessage) > 0 {
					Response(CodeOK, func() {
						if len(g.ResponseMessage) > 0 {
							Message(func() {
								for _, a := range g.ResponseMessage {
									Attribute(a)
								}
							})
						}
						if len(g.ResponseHeaders) > 0 {
							Headers(func() {
								for _, a := range g.ResponseHeaders {
									Attribute(a)
								}
							})
						}
						if len(g.Trailers) > 0 {
							Trailers(func() {
								for _, a := range g.Trailers {
									Attribute(a)
								}
							})
						}
					})
				} else {
					Response(CodeOK)
				}
				for _, e := range g.Errors {
					Response(e.Name, e.Code)
				}
			})
		}
	})
}

func mapped(attr, elem string) string {
	if elem == "" || elem == attr {
		return attr
	}
	return attr + ":" + elem
}
