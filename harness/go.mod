module verif/harness

go 1.22.0

require (
	goa.design/goa/v3 v3.0.0
	google.golang.org/grpc v1.67.1
)

require (
	github.com/go-chi/chi/v5 v5.1.0 // indirect
	github.com/google/uuid v1.6.0 // indirect
	github.com/gorilla/websocket v1.5.3 // indirect
	golang.org/x/net v0.30.0 // indirect
	golang.org/x/sys v0.26.0 // indirect
	golang.org/x/text v0.19.0 // indirect
	google.golang.org/genproto/googleapis/rpc v0.0.0-20240903143218-8af14fe29dc1 // indirect
	google.golang.org/protobuf v1.35.1 // indirect
)

replace goa.design/goa/v3 => /repo
