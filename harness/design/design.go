// Package design is the abstract design language shared by the orchestrator (which
// assembles designs from TLC-generated shapes), genhost (which turns a design into
// real goa DSL calls) and the runner runtime (which needs to know where each
// attribute is supposed to travel).  It deliberately knows nothing about goa's expr
// or codegen packages: it only *calls* the public DSL.
package design

import "encoding/json"

type (
	Design struct {
		API      API       `json:"api"`
		Schemes  []Scheme  `json:"schemes,omitempty"`
		Types    []Type    `json:"types,omitempty"`
		Services []Service `json:"services"`
	}
	API struct {
		Name     string        `json:"name"`
		Path     string        `json:"path,omitempty"` // API-level HTTP base path
		Security []Requirement `json:"security,omitempty"`
		Errors   []ErrorDecl   `json:"errors,omitempty"`
		Servers  int           `json:"servers,omitempty"`
		// HTTPErrors are the Response(name, status) mappings of the API-level HTTP expression (added for C05).
		HTTPErrors []HTTPError `json:"httpErrors,omitempty"`
	}
	Scheme struct {
		Name   string   `json:"name"`
		Kind   string   `json:"kind"` // basic | apikey | jwt | oauth2
		Scopes []string `json:"scopes,omitempty"`
	}
	Requirement struct {
		Schemes []string `json:"schemes"`
		Scopes  []string `json:"scopes,omitempty"`
	}
	// Type is a top-level user type, result type or primitive alias.
	Type struct {
		Name      string  `json:"name"`
		Kind      string  `json:"kind"` // object | result | alias | array | map | collection | union
		Base      *TRef   `json:"base,omitempty"` // alias/array/map: the underlying type; collection: the element result type
		Attrs     []Attr  `json:"attrs,omitempty"`
		Views     []View  `json:"views,omitempty"`
		Extend    string  `json:"extend,omitempty"`
		Reference string  `json:"reference,omitempty"`
		Val       *Val    `json:"val,omitempty"` // alias validations
		// Default declared on the alias / named list / named map TYPE itself: Type("Score", Int, func(){ Default(10) }) (optional)
		Default json.RawMessage `json:"default,omitempty"`
		MediaType string  `json:"mediaType,omitempty"`
		// Coll says how a collection is declared (kind == "collection", added for C08): nil = CollectionOf(elem);
		// otherwise CollectionOf(elem, func() { [Description(Desc)] [View(v) for v in Views] })
		Coll *CollDecl `json:"coll,omitempty"`
	}
	CollDecl struct {
		Desc  string   `json:"desc,omitempty"`
		Views []string `json:"views,omitempty"`
	}
	View struct {
		Name  string     `json:"name"`
		Attrs []ViewAttr `json:"attrs"`
	}
	ViewAttr struct {
		Name string `json:"name"`
		View string `json:"view,omitempty"` // view used to render a nested result type
	}
	// TRef is a (possibly inline) data type.
	TRef struct {
		Kind  string `json:"kind"` // bool int int32 int64 uint uint32 uint64 float32 float64 string bytes any array map object user
		Elem  *TRef  `json:"elem,omitempty"`
		Key   *TRef  `json:"key,omitempty"`
		Attrs []Attr `json:"attrs,omitempty"` // inline object
		Ref   string `json:"ref,omitempty"`   // user type name
		Val   *Val   `json:"val,omitempty"`   // validations on array elem / map key / map elem
		// OneOf alternatives for kind == "union"
		Alts []Attr `json:"alts,omitempty"`
	}
	Attr struct {
		Name     string          `json:"name"`
		Type     TRef            `json:"type"`
		Required bool            `json:"required,omitempty"`
		Default  json.RawMessage `json:"default,omitempty"`
		Val      *Val            `json:"val,omitempty"`
		Desc     string          `json:"desc,omitempty"`
		Meta     [][]string      `json:"meta,omitempty"`
		View     string          `json:"view,omitempty"`
		Tag      int             `json:"tag,omitempty"`    // gRPC field number (Field DSL) when > 0
		Sec      string          `json:"sec,omitempty"`    // username | password | apikey:<scheme> | token | accesstoken
	}
	Val struct {
		Min     *float64          `json:"min,omitempty"`
		Max     *float64          `json:"max,omitempty"`
		ExclMin *float64          `json:"exclMin,omitempty"`
		ExclMax *float64          `json:"exclMax,omitempty"`
		MinLen  *int              `json:"minLen,omitempty"`
		MaxLen  *int              `json:"maxLen,omitempty"`
		Enum    []json.RawMessage `json:"enum,omitempty"`
		Pattern string            `json:"pattern,omitempty"`
		Format  string            `json:"format,omitempty"`
	}
	ErrorDecl struct {
		Name      string `json:"name"`
		Type      *TRef  `json:"type,omitempty"` // nil = ErrorResult
		Temporary bool   `json:"temporary,omitempty"`
		Timeout   bool   `json:"timeout,omitempty"`
		Fault     bool   `json:"fault,omitempty"`
	}
	Service struct {
		Name       string        `json:"name"`
		Path       string        `json:"path,omitempty"`
		Security   []Requirement `json:"security,omitempty"`
		NoSecurity bool          `json:"noSecurity,omitempty"`
		Errors     []ErrorDecl   `json:"errors,omitempty"`
		HTTPErrors []HTTPError   `json:"httpErrors,omitempty"`
		Methods    []Method      `json:"methods"`
		Files      []FileServer  `json:"files,omitempty"`
		NoHTTP     bool          `json:"noHTTP,omitempty"`
		GRPC       bool          `json:"grpc,omitempty"`
	}
	FileServer struct {
		Path string `json:"path"`
		File string `json:"file"`
	}
	Method struct {
		Name       string        `json:"name"`
		Payload    *Shape        `json:"payload,omitempty"`
		Result     *Shape        `json:"result,omitempty"`
		ResultView string        `json:"resultView,omitempty"` // fixed in the design
		Errors     []ErrorDecl   `json:"errors,omitempty"`
		Security   []Requirement `json:"security,omitempty"`
		NoSecurity bool          `json:"noSecurity,omitempty"`
		Stream     string        `json:"stream,omitempty"` // "", client, server, bidi
		StreamP    *Shape        `json:"streamPayload,omitempty"`
		StreamR    *Shape        `json:"streamResult,omitempty"`
		HTTP       *HTTP         `json:"http,omitempty"`
		GRPC       *GRPC         `json:"grpc,omitempty"`
	}
	// Shape is a payload / result: either a reference to a type or an inline object.
	Shape struct {
		Type  *TRef  `json:"type,omitempty"`
		Attrs []Attr `json:"attrs,omitempty"`
	}
	HTTP struct {
		Routes    []Route           `json:"routes"`
		Params    map[string]string `json:"params,omitempty"`  // attribute -> query key
		Headers   map[string]string `json:"headers,omitempty"` // attribute -> header name
		Cookies   map[string]string `json:"cookies,omitempty"` // attribute -> cookie name
		Body      string            `json:"body,omitempty"`    // Body("attr") when set; "-" = explicit empty body
		BodyAttrs []string          `json:"bodyAttrs,omitempty"` // Body(func(){Attribute(..)}) when set
		Responses []Response        `json:"responses,omitempty"`
		Errors    []HTTPError       `json:"errors,omitempty"`
		Multipart bool              `json:"multipart,omitempty"`
		SkipReq   bool              `json:"skipRequestBody,omitempty"`
		SkipResp  bool              `json:"skipResponseBody,omitempty"`
		// attributes made Required only inside the HTTP mapping: Params(func(){ Required(..) }) / Headers(func(){ Required(..) })
		// (optional, added for C01/C02/C04: "required in the transport only")
		ParamsRequired  []string `json:"paramsRequired,omitempty"`
		HeadersRequired []string `json:"headersRequired,omitempty"`
		// MapParams: nil = not used; "" = MapParams() (the whole payload is the query string); "a1" = MapParams("a1")
		MapParams *string `json:"mapParams,omitempty"`
	}
	Route struct {
		Verb string `json:"verb"`
		Path string `json:"path"`
	}
	Response struct {
		Status      int               `json:"status"`
		TagName     string            `json:"tagName,omitempty"`
		TagValue    string            `json:"tagValue,omitempty"`
		Headers     map[string]string `json:"headers,omitempty"`
		Cookies     map[string]string `json:"cookies,omitempty"`
		Body        string            `json:"body,omitempty"`
		ContentType string            `json:"contentType,omitempty"`
		// result attributes made Required only inside the response mapping: Headers(func(){ Required(..) }) (optional)
		HeadersRequired []string `json:"headersRequired,omitempty"`
	}
	HTTPError struct {
		Name    string            `json:"name"`
		Status  int               `json:"status"`
		Headers map[string]string `json:"headers,omitempty"`
		// Form is the way the status is written (added for C05): "" or "arg" Response(name, status); "argfn"
		// Response(name, status, func(){..}); "code" Response(name, func(){ Code(status) }); "default"
		// Response(name, func(){..}) with no status at all (Status is ignored); "swapped" Response(status, name);
		// "bare" Response(name)
		Form string `json:"form,omitempty"`
	}
	GRPC struct {
		Metadata        []string    `json:"metadata,omitempty"`
		ResponseHeaders []string    `json:"responseHeaders,omitempty"`
		Trailers        []string    `json:"trailers,omitempty"`
		Errors          []GRPCError `json:"errors,omitempty"`
		// Message lists the payload attributes of an explicit request Message(func(){ Attribute(..) }) mapping;
		// ResponseMessage does the same for the success response (both optional, added for C10).
		Message         []string `json:"message,omitempty"`
		ResponseMessage []string `json:"responseMessage,omitempty"`
	}
	GRPCError struct {
		Name string `json:"name"`
		Code int    `json:"code"`
	}
)
