// Package vio is the vector/observation I/O shared by all drivers: ndjson in, ndjson out.
package vio

import (
	"bufio"
	"encoding/json"
	"flag"
	"fmt"
	"os"
)

var (
	In   = flag.String("in", "", "vectors (ndjson); empty = none")
	Out  = flag.String("out", "out.ndjson", "observations (ndjson)")
	Seed = flag.Int64("seed", 1, "seed for every random choice")
)

// ReadVectors calls f for every line of the input file.
func ReadVectors(f func(i int, raw json.RawMessage) error) error {
	if *In == "" {
		return nil
	}
	fh, err := os.Open(*In)
	if err != nil {
		return err
	}
	defer fh.Close()
	sc := bufio.NewScanner(fh)
	sc.Buffer(make([]byte, 1<<20), 1<<28)
	i := 0
	for sc.Scan() {
		b := sc.Bytes()
		if len(b) == 0 {
			continue
		}
		cp := make([]byte, len(b))
		copy(cp, b)
		if err := f(i, cp); err != nil {
			return fmt.Errorf("vector %d: %w", i, err)
		}
		i++
	}
	return sc.Err()
}

// Writer writes one JSON object per line.
type Writer struct {
	f *os.File
	w *bufio.Writer
}

func NewWriter() (*Writer, error) {
	f, err := os.Create(*Out)
	if err != nil {
		return nil, err
	}
	return &Writer{f: f, w: bufio.NewWriterSize(f, 1<<20)}, nil
}

func (w *Writer) Emit(v any) {
	b, err := json.Marshal(v)
	if err != nil {
		panic(err)
	}
	w.w.Write(b)
	w.w.WriteByte('\n')
}

func (w *Writer) Close() {
	w.w.Flush()
	w.f.Close()
}

// Die reports machinery trouble (exit 3: the orchestrator maps it to "infra", never to a violation).
func Die(format string, a ...any) {
	fmt.Fprintf(os.Stderr, "driver: "+format+"\n", a...)
	os.Exit(3)
}
