package main

import (
	"fmt"
	"strconv"
	"strings"
	"unicode"
)

// ---- parse tree -------------------------------------------------------------------------------

type (
	protoFile struct {
		Syntax    string
		Package   string
		GoPackage string
		Imports   []string
		Messages  []*message // top level, in declaration order
		Services  []*service
	}
	message struct {
		Name   string     `json:"name"`     // dotted for nested messages: Outer.Inner
		Fields []*field   `json:"fields"`   // in declaration order, oneof members included
		Oneofs []string   `json:"oneofs"`   // oneof group names in declaration order
		Nested []*message `json:"-"`
		parent *message
		short  string
	}
	field struct {
		Name   string `json:"name"`
		Number int64  `json:"number"`
		// Label is singular | optional | repeated | map | oneof | required
		Label string `json:"label"`
		// Type is the proto type as written (scalar name or message name); for maps "map<K, V>"
		Type  string `json:"type"`
		Oneof string `json:"oneof"` // group name when Label == oneof
		Key   string `json:"key,omitempty"`
		Value string `json:"value,omitempty"`
		Line  int    `json:"line"`
	}
	service struct {
		Name string `json:"name"`
		Rpcs []*rpc `json:"rpcs"`
	}
	rpc struct {
		Name         string `json:"name"`
		Request      string `json:"request"`
		Response     string `json:"response"`
		ClientStream bool   `json:"clientStream"`
		ServerStream bool   `json:"serverStream"`
	}
)

func (f *protoFile) allMessages() []*message {
	var out []*message
	var walk func(ms []*message)
	walk = func(ms []*message) {
		for _, m := range ms {
			out = append(out, m)
			walk(m.Nested)
		}
	}
	walk(f.Messages)
	if out == nil {
		out = []*message{}
	}
	return out
}

var scalars = map[string]bool{"double": true, "float": true, "int32": true, "int64": true, "uint32": true, "uint64": true,
	"sint32": true, "sint64": true, "fixed32": true, "fixed64": true, "sfixed32": true, "sfixed64": true,
	"bool": true, "string": true, "bytes": true}

// ---- lexer -------------------------------------------------------------------------------------

type token struct {
	kind string // ident | int | string | sym | eof
	text string
	line int
}

func lex(src string) ([]token, error) {
	var toks []token
	line := 1
	rs := []rune(src)
	for i := 0; i < len(rs); {
		c := rs[i]
		switch {
		case c == '\n':
			line++
			i++
		case unicode.IsSpace(c):
			i++
		case c == '/' && i+1 < len(rs) && rs[i+1] == '/':
			for i < len(rs) && rs[i] != '\n' {
				i++
			}
		case c == '/' && i+1 < len(rs) && rs[i+1] == '*':
			j := i + 2
			for ; j+1 < len(rs) && !(rs[j] == '*' && rs[j+1] == '/'); j++ {
				if rs[j] == '\n' {
					line++
				}
			}
			if j+1 >= len(rs) {
				return nil, fmt.Errorf("line %d: unterminated comment", line)
			}
			i = j + 2
		case c == '"' || c == '\'':
			j := i + 1
			var sb strings.Builder
			for ; j < len(rs) && rs[j] != c; j++ {
				if rs[j] == '\n' {
					return nil, fmt.Errorf("line %d: newline in string literal", line)
				}
				if rs[j] == '\\' && j+1 < len(rs) {
					j++
					switch rs[j] {
					case 'n':
						sb.WriteRune('\n')
					case 't':
						sb.WriteRune('\t')
					default:
						sb.WriteRune(rs[j])
					}
					continue
				}
				sb.WriteRune(rs[j])
			}
			if j >= len(rs) {
				return nil, fmt.Errorf("line %d: unterminated string literal", line)
			}
			toks = append(toks, token{"string", sb.String(), line})
			i = j + 1
		case unicode.IsLetter(c) || c == '_':
			j := i
			for j < len(rs) && (unicode.IsLetter(rs[j]) || unicode.IsDigit(rs[j]) || rs[j] == '_' || rs[j] == '.') {
				j++
			}
			toks = append(toks, token{"ident", string(rs[i:j]), line})
			i = j
		case unicode.IsDigit(c) || (c == '-' && i+1 < len(rs) && unicode.IsDigit(rs[i+1])):
			j := i + 1
			for j < len(rs) && (unicode.IsDigit(rs[j]) || unicode.IsLetter(rs[j]) || rs[j] == '.') {
				j++
			}
			toks = append(toks, token{"int", string(rs[i:j]), line})
			i = j
		case strings.ContainsRune("{}()<>=;,[].", c):
			toks = append(toks, token{"sym", string(c), line})
			i++
		default:
			return nil, fmt.Errorf("line %d: unexpected character %q", line, c)
		}
	}
	toks = append(toks, token{"eof", "", line})
	return toks, nil
}

// ---- parser ------------------------------------------------------------------------------------

type parser struct {
	toks []token
	pos  int
}

type parseError struct{ msg string }

func (e *parseError) Error() string { return e.msg }

func (p *parser) fail(format string, a ...any) {
	panic(&parseError{fmt.Sprintf("line %d: ", p.peek().line) + fmt.Sprintf(format, a...)})
}
func (p *parser) peek() token { return p.toks[p.pos] }
func (p *parser) next() token {
	t := p.toks[p.pos]
	if t.kind != "eof" {
		p.pos++
	}
	return t
}
func (p *parser) isSym(s string) bool { t := p.peek(); return t.kind == "sym" && t.text == s }
func (p *parser) sym(s string) {
	t := p.next()
	if t.kind != "sym" || t.text != s {
		p.pos--
		p.fail("expected %q, found %q", s, t.text)
	}
}
func (p *parser) ident() string {
	t := p.next()
	if t.kind != "ident" {
		p.pos--
		p.fail("expected an identifier, found %q", t.text)
	}
	return t.text
}

// simple identifier: letters, digits, underscores, starting with a letter (proto3 grammar: letter { letter | decimalDigit | "_" })
func (p *parser) simpleIdent(what string) string {
	id := p.ident()
	if strings.Contains(id, ".") {
		p.pos--
		p.fail("%s name %q must not contain '.'", what, id)
	}
	r := rune(id[0])
	if !(r >= 'a' && r <= 'z' || r >= 'A' && r <= 'Z') {
		p.pos--
		p.fail("%s name %q must start with a letter", what, id)
	}
	for _, c := range id {
		if c > unicode.MaxASCII {
			p.pos--
			p.fail("%s name %q contains a non-ASCII character", what, id)
		}
	}
	return id
}

func (p *parser) str() string {
	t := p.next()
	if t.kind != "string" {
		p.pos--
		p.fail("expected a string literal, found %q", t.text)
	}
	return t.text
}

func (p *parser) number() int64 {
	t := p.next()
	if t.kind != "int" {
		p.pos--
		p.fail("expected a field number, found %q", t.text)
	}
	n, err := strconv.ParseInt(t.text, 0, 64)
	if err != nil {
		p.pos--
		p.fail("bad field number %q", t.text)
	}
	return n
}

func parseProto(src string) (f *protoFile, err error) {
	toks, lerr := lex(src)
	if lerr != nil {
		return nil, lerr
	}
	p := &parser{toks: toks}
	defer func() {
		if r := recover(); r != nil {
			if pe, ok := r.(*parseError); ok {
				f, err = nil, pe
				return
			}
			panic(r)
		}
	}()
	f = &protoFile{}
	first := true
	for p.peek().kind != "eof" {
		if p.isSym(";") {
			p.next()
			continue
		}
		kw := p.ident()
		switch kw {
		case "syntax":
			if !first {
				p.fail("syntax must be the first statement")
			}
			p.sym("=")
			f.Syntax = p.str()
			p.sym(";")
		case "package":
			if f.Package != "" {
				p.fail("multiple package statements")
			}
			f.Package = p.ident()
			p.sym(";")
		case "import":
			if t := p.peek(); t.kind == "ident" && (t.text == "public" || t.text == "weak") {
				p.next()
			}
			f.Imports = append(f.Imports, p.str())
			p.sym(";")
		case "option":
			name, val := p.option()
			if name == "go_package" {
				f.GoPackage = val
			}
		case "message":
			f.Messages = append(f.Messages, p.message(nil))
		case "service":
			f.Services = append(f.Services, p.service())
		case "enum", "extend":
			p.fail("%s declarations are not supported by this stand-in", kw)
		default:
			p.fail("unexpected %q at top level", kw)
		}
		first = false
	}
	if f.Syntax == "" {
		return nil, &parseError{"no syntax statement (proto2 is not supported by this stand-in)"}
	}
	if f.Syntax != "proto3" {
		return nil, &parseError{fmt.Sprintf("syntax %q is not supported by this stand-in", f.Syntax)}
	}
	if f.Imports == nil {
		f.Imports = []string{}
	}
	if f.Services == nil {
		f.Services = []*service{}
	}
	return f, nil
}

// option name = constant ;   (the `option` keyword has been consumed)
func (p *parser) option() (string, string) {
	var name string
	if p.isSym("(") {
		p.next()
		name = "(" + p.ident() + ")"
		p.sym(")")
		if t := p.peek(); t.kind == "ident" && strings.HasPrefix(t.text, ".") {
			name += p.ident()
		}
	} else {
		name = p.ident()
	}
	p.sym("=")
	t := p.next()
	if t.kind == "eof" || t.kind == "sym" {
		p.pos--
		p.fail("expected an option value")
	}
	p.sym(";")
	return name, t.text
}

func (p *parser) fieldOptions() {
	if !p.isSym("[") {
		return
	}
	depth := 0
	for {
		t := p.next()
		if t.kind == "eof" {
			p.fail("unterminated field options")
		}
		if t.kind == "sym" && t.text == "[" {
			depth++
		}
		if t.kind == "sym" && t.text == "]" {
			depth--
			if depth == 0 {
				return
			}
		}
	}
}

func (p *parser) message(parent *message) *message {
	short := p.simpleIdent("message")
	m := &message{Name: short, short: short, parent: parent, Fields: []*field{}, Oneofs: []string{}}
	if parent != nil {
		m.Name = parent.Name + "." + short
	}
	p.sym("{")
	for !p.isSym("}") {
		if p.peek().kind == "eof" {
			p.fail("unterminated message %s", m.Name)
		}
		if p.isSym(";") {
			p.next()
			continue
		}
		t := p.peek()
		if t.kind != "ident" {
			p.fail("unexpected %q in message %s", t.text, m.Name)
		}
		switch t.text {
		case "message":
			p.next()
			m.Nested = append(m.Nested, p.message(m))
		case "option":
			p.next()
			p.option()
		case "reserved", "extensions", "enum", "extend", "group":
			p.fail("%s is not supported by this stand-in", t.text)
		case "oneof":
			p.next()
			g := p.simpleIdent("oneof")
			m.Oneofs = append(m.Oneofs, g)
			p.sym("{")
			n := 0
			for !p.isSym("}") {
				if p.peek().kind == "eof" {
					p.fail("unterminated oneof %s", g)
				}
				if p.isSym(";") {
					p.next()
					continue
				}
				if tt := p.peek(); tt.kind == "ident" && tt.text == "option" {
					p.next()
					p.option()
					continue
				}
				fl := p.field(true)
				fl.Label, fl.Oneof = "oneof", g
				m.Fields = append(m.Fields, fl)
				n++
			}
			p.sym("}")
		default:
			m.Fields = append(m.Fields, p.field(false))
		}
	}
	p.sym("}")
	return m
}

// [label] type name = number [options] ;
func (p *parser) field(inOneof bool) *field {
	fl := &field{Label: "singular", Line: p.peek().line}
	t := p.ident()
	switch t {
	case "optional", "repeated", "required":
		if inOneof {
			p.pos--
			p.fail("a oneof member cannot have the label %q", t)
		}
		// `optional`, `repeated` are labels only when a type follows; a message could be called "optional"
		if nt := p.peek(); nt.kind == "ident" {
			fl.Label = t
			t = p.ident()
		}
	}
	if t == "map" && p.isSym("<") {
		if inOneof {
			p.fail("a oneof member cannot be a map")
		}
		if fl.Label != "singular" {
			p.fail("a map field cannot have the label %q", fl.Label)
		}
		p.sym("<")
		fl.Key = p.ident()
		p.sym(",")
		fl.Value = p.ident()
		p.sym(">")
		fl.Label = "map"
		fl.Type = "map<" + fl.Key + ", " + fl.Value + ">"
	} else {
		fl.Type = t
	}
	fl.Name = p.simpleIdent("field")
	p.sym("=")
	fl.Number = p.number()
	p.fieldOptions()
	p.sym(";")
	return fl
}

func (p *parser) service() *service {
	s := &service{Name: p.simpleIdent("service"), Rpcs: []*rpc{}}
	p.sym("{")
	for !p.isSym("}") {
		if p.peek().kind == "eof" {
			p.fail("unterminated service %s", s.Name)
		}
		if p.isSym(";") {
			p.next()
			continue
		}
		kw := p.ident()
		switch kw {
		case "option":
			p.option()
		case "rpc":
			r := &rpc{Name: p.simpleIdent("rpc")}
			p.sym("(")
			if t := p.peek(); t.kind == "ident" && t.text == "stream" {
				p.next()
				if p.peek().kind == "ident" { // a message could be called "stream"
					r.ClientStream = true
				} else {
					p.pos--
				}
			}
			r.Request = p.ident()
			p.sym(")")
			if kw := p.ident(); kw != "returns" {
				p.pos--
				p.fail("expected \"returns\", found %q", kw)
			}
			p.sym("(")
			if t := p.peek(); t.kind == "ident" && t.text == "stream" {
				p.next()
				if p.peek().kind == "ident" {
					r.ServerStream = true
				} else {
					p.pos--
				}
			}
			r.Response = p.ident()
			p.sym(")")
			if p.isSym("{") {
				p.next()
				for !p.isSym("}") {
					if p.peek().kind == "eof" {
						p.fail("unterminated rpc body")
					}
					if p.isSym(";") {
						p.next()
						continue
					}
					if kw := p.ident(); kw != "option" {
						p.pos--
						p.fail("unexpected %q in rpc body", kw)
					}
					p.option()
				}
				p.sym("}")
			} else {
				p.sym(";")
			}
			s.Rpcs = append(s.Rpcs, r)
		default:
			p.pos--
			p.fail("unexpected %q in service %s", kw, s.Name)
		}
	}
	p.sym("}")
	return s
}
