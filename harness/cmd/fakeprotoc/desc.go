package main

import (
	"fmt"
	"strings"
	"unicode"

	"google.golang.org/protobuf/proto"
	"google.golang.org/protobuf/reflect/protodesc"
	"google.golang.org/protobuf/reflect/protoregistry"
	"google.golang.org/protobuf/types/descriptorpb"
)

var scalarType = map[string]descriptorpb.FieldDescriptorProto_Type{
	"double": descriptorpb.FieldDescriptorProto_TYPE_DOUBLE, "float": descriptorpb.FieldDescriptorProto_TYPE_FLOAT,
	"int32": descriptorpb.FieldDescriptorProto_TYPE_INT32, "int64": descriptorpb.FieldDescriptorProto_TYPE_INT64,
	"uint32": descriptorpb.FieldDescriptorProto_TYPE_UINT32, "uint64": descriptorpb.FieldDescriptorProto_TYPE_UINT64,
	"sint32": descriptorpb.FieldDescriptorProto_TYPE_SINT32, "sint64": descriptorpb.FieldDescriptorProto_TYPE_SINT64,
	"fixed32": descriptorpb.FieldDescriptorProto_TYPE_FIXED32, "fixed64": descriptorpb.FieldDescriptorProto_TYPE_FIXED64,
	"sfixed32": descriptorpb.FieldDescriptorProto_TYPE_SFIXED32, "sfixed64": descriptorpb.FieldDescriptorProto_TYPE_SFIXED64,
	"bool": descriptorpb.FieldDescriptorProto_TYPE_BOOL, "string": descriptorpb.FieldDescriptorProto_TYPE_STRING,
	"bytes": descriptorpb.FieldDescriptorProto_TYPE_BYTES,
}

// resolve finds the message a type name written inside `scope` refers to (innermost scope first,
// as protoc does). It returns the dotted name relative to the package, or "".
func (f *protoFile) resolve(scope *message, name string) *message {
	byName := map[string]*message{}
	for _, m := range f.allMessages() {
		byName[m.Name] = m
	}
	if strings.HasPrefix(name, ".") {
		n := strings.TrimPrefix(name, ".")
		if f.Package != "" {
			if !strings.HasPrefix(n, f.Package+".") {
				return nil
			}
			n = strings.TrimPrefix(n, f.Package+".")
		}
		return byName[n]
	}
	for s := scope; s != nil; s = s.parent {
		if m, ok := byName[s.Name+"."+name]; ok {
			return m
		}
	}
	if m, ok := byName[name]; ok {
		return m
	}
	if f.Package != "" && strings.HasPrefix(name, f.Package+".") {
		return byName[strings.TrimPrefix(name, f.Package+".")]
	}
	return nil
}

func (f *protoFile) fq(m *message) string {
	if f.Package == "" {
		return "." + m.Name
	}
	return "." + f.Package + "." + m.Name
}

func (f *protoFile) fqUnresolved(name string) string {
	if strings.HasPrefix(name, ".") {
		return name
	}
	if f.Package == "" {
		return "." + name
	}
	return "." + f.Package + "." + name
}

func mapEntryName(s string) string {
	var b []rune
	upperNext := true
	for _, c := range s {
		switch {
		case c == '_':
			upperNext = true
		case upperNext:
			b = append(b, unicode.ToUpper(c))
			upperNext = false
		default:
			b = append(b, c)
		}
	}
	return string(b) + "Entry"
}

func (f *protoFile) typed(scope *message, typ string, fd *descriptorpb.FieldDescriptorProto) {
	if t, ok := scalarType[typ]; ok {
		fd.Type = t.Enum()
		return
	}
	fd.Type = descriptorpb.FieldDescriptorProto_TYPE_MESSAGE.Enum()
	if m := f.resolve(scope, typ); m != nil {
		fd.TypeName = proto.String(f.fq(m))
	} else {
		fd.TypeName = proto.String(f.fqUnresolved(typ))
	}
}

func (f *protoFile) messageDesc(m *message) (*descriptorpb.DescriptorProto, error) {
	md := &descriptorpb.DescriptorProto{Name: proto.String(m.short)}
	oneofIdx := map[string]int32{}
	for _, g := range m.Oneofs {
		if _, dup := oneofIdx[g]; dup {
			return nil, fmt.Errorf("message %q declares oneof %q twice", m.Name, g)
		}
		oneofIdx[g] = int32(len(md.OneofDecl))
		md.OneofDecl = append(md.OneofDecl, &descriptorpb.OneofDescriptorProto{Name: proto.String(g)})
	}
	var synthetic []*descriptorpb.FieldDescriptorProto
	for _, fl := range m.Fields {
		if fl.Number > 1<<31-1 || fl.Number < -(1<<31) {
			return nil, fmt.Errorf("message field %q.%s has an invalid number: %d", m.Name, fl.Name, fl.Number)
		}
		if fl.Number >= 19000 && fl.Number <= 19999 {
			// protoc refuses these itself (protodesc does not): reserved for the protocol buffer implementation
			return nil, fmt.Errorf("message field %q.%s: field numbers 19000 through 19999 are reserved for the protocol buffer library implementation", m.Name, fl.Name)
		}
		fd := &descriptorpb.FieldDescriptorProto{Name: proto.String(fl.Name), Number: proto.Int32(int32(fl.Number)),
			Label: descriptorpb.FieldDescriptorProto_LABEL_OPTIONAL.Enum()}
		switch fl.Label {
		case "singular":
			f.typed(m, fl.Type, fd)
		case "optional":
			f.typed(m, fl.Type, fd)
			fd.Proto3Optional = proto.Bool(true)
			synthetic = append(synthetic, fd)
		case "required":
			f.typed(m, fl.Type, fd)
			fd.Label = descriptorpb.FieldDescriptorProto_LABEL_REQUIRED.Enum()
		case "repeated":
			f.typed(m, fl.Type, fd)
			fd.Label = descriptorpb.FieldDescriptorProto_LABEL_REPEATED.Enum()
		case "oneof":
			f.typed(m, fl.Type, fd)
			fd.OneofIndex = proto.Int32(oneofIdx[fl.Oneof])
		case "map":
			entry := mapEntryName(fl.Name)
			kd := &descriptorpb.FieldDescriptorProto{Name: proto.String("key"), Number: proto.Int32(1), Label: descriptorpb.FieldDescriptorProto_LABEL_OPTIONAL.Enum()}
			vd := &descriptorpb.FieldDescriptorProto{Name: proto.String("value"), Number: proto.Int32(2), Label: descriptorpb.FieldDescriptorProto_LABEL_OPTIONAL.Enum()}
			f.typed(m, fl.Key, kd)
			f.typed(m, fl.Value, vd)
			if _, ok := scalarType[fl.Key]; !ok || fl.Key == "double" || fl.Key == "float" || fl.Key == "bytes" {
				return nil, fmt.Errorf("message field %q.%s: map key type %q is not an integral or string type", m.Name, fl.Name, fl.Key)
			}
			md.NestedType = append(md.NestedType, &descriptorpb.DescriptorProto{Name: proto.String(entry),
				Field: []*descriptorpb.FieldDescriptorProto{kd, vd}, Options: &descriptorpb.MessageOptions{MapEntry: proto.Bool(true)}})
			fd.Label = descriptorpb.FieldDescriptorProto_LABEL_REPEATED.Enum()
			fd.Type = descriptorpb.FieldDescriptorProto_TYPE_MESSAGE.Enum()
			fd.TypeName = proto.String(f.fq(m) + "." + entry)
		default:
			return nil, fmt.Errorf("unknown label %q", fl.Label)
		}
		md.Field = append(md.Field, fd)
	}
	for _, fd := range synthetic {
		fd.OneofIndex = proto.Int32(int32(len(md.OneofDecl)))
		md.OneofDecl = append(md.OneofDecl, &descriptorpb.OneofDescriptorProto{Name: proto.String("_" + fd.GetName())})
	}
	for _, n := range m.Nested {
		nd, err := f.messageDesc(n)
		if err != nil {
			return nil, err
		}
		md.NestedType = append(md.NestedType, nd)
	}
	return md, nil
}

// checkDescriptor builds the FileDescriptorProto and lets protodesc.NewFile judge it.
func checkDescriptor(name string, f *protoFile) (err error) {
	defer func() {
		if r := recover(); r != nil {
			err = fmt.Errorf("protodesc panicked: %v", r)
		}
	}()
	fdp := &descriptorpb.FileDescriptorProto{Name: proto.String(name), Syntax: proto.String(f.Syntax)}
	if f.Package != "" {
		fdp.Package = proto.String(f.Package)
	}
	if f.GoPackage != "" {
		fdp.Options = &descriptorpb.FileOptions{GoPackage: proto.String(f.GoPackage)}
	}
	fdp.Dependency = append(fdp.Dependency, f.Imports...)
	for _, m := range f.Messages {
		md, err := f.messageDesc(m)
		if err != nil {
			return err
		}
		fdp.MessageType = append(fdp.MessageType, md)
	}
	for _, s := range f.Services {
		sd := &descriptorpb.ServiceDescriptorProto{Name: proto.String(s.Name)}
		for _, r := range s.Rpcs {
			mdp := &descriptorpb.MethodDescriptorProto{Name: proto.String(r.Name)}
			for _, side := range []struct {
				typ string
				dst **string
			}{{r.Request, &mdp.InputType}, {r.Response, &mdp.OutputType}} {
				if _, isScalar := scalarType[side.typ]; isScalar {
					return fmt.Errorf("rpc %s.%s: %q is not a message type", s.Name, r.Name, side.typ)
				}
				if m := f.resolve(nil, side.typ); m != nil {
					*side.dst = proto.String(f.fq(m))
				} else {
					*side.dst = proto.String(f.fqUnresolved(side.typ))
				}
			}
			if r.ClientStream {
				mdp.ClientStreaming = proto.Bool(true)
			}
			if r.ServerStream {
				mdp.ServerStreaming = proto.Bool(true)
			}
			sd.Method = append(sd.Method, mdp)
		}
		fdp.Service = append(fdp.Service, sd)
	}
	_, err = protodesc.NewFile(fdp, protoregistry.GlobalFiles)
	return err
}
