// fakeprotoc is a stand-in for `protoc` with the protoc-gen-go / protoc-gen-go-grpc plugins, used
// because the sandbox has no protoc.  It is installed under the name `protoc` in a scratch bin
// directory that is put on the PATH of the genhost child process only.
//
// It does three things for the .proto file goa generated:
//  1. parses it with its own small proto3 parser (parse.go),
//  2. builds a descriptorpb.FileDescriptorProto from the parse tree and asks protodesc.NewFile
//     (google.golang.org/protobuf) whether it is a well-formed descriptor: an independent oracle for
//     "the generated protocol buffer file is well-formed proto3".  The verdict and the parsed
//     field / rpc tables are written as JSON next to the .proto file (<file>.proto.json),
//  3. emits stand-in <name>.pb.go and <name>_grpc.pb.go with protoc-gen-go naming (emit.go) so that
//     the goa-generated gRPC server and client packages type-check and can be executed in process.
//     The stand-in structs are NOT protobuf messages: there is no wire format here.
//
// Like protoc it exits 1 (message on stderr) when the file is not acceptable.
package main

import (
	"encoding/json"
	"fmt"
	"os"
	"path/filepath"
	"strings"
)

type verdict struct {
	File         string     `json:"file"`
	ParseOK      bool       `json:"parseOK"`
	ParseError   string     `json:"parseError,omitempty"`
	DescriptorOK bool       `json:"descriptorOK"`
	DescError    string     `json:"descriptorError,omitempty"`
	Syntax       string     `json:"syntax"`
	Package      string     `json:"package"`
	GoPackage    string     `json:"goPackage"`
	Imports      []string   `json:"imports"`
	Messages     []*message `json:"messages"`
	Services     []*service `json:"services"`
	Emitted      []string   `json:"emitted"`
}

func main() {
	var (
		protoPath, goOut, grpcOut string
		files                     []string
		args                      = os.Args[1:]
	)
	for i := 0; i < len(args); i++ {
		a := args[i]
		val := func(name string) (string, bool) {
			if a == name && i+1 < len(args) {
				i++
				return args[i], true
			}
			if strings.HasPrefix(a, name+"=") {
				return strings.TrimPrefix(a, name+"="), true
			}
			return "", false
		}
		if v, ok := val("--proto_path"); ok {
			protoPath = v
		} else if v, ok := val("-I"); ok {
			_ = v // include directories: goa only emits imports when the design asks for them; not supported
		} else if v, ok := val("--go_out"); ok {
			goOut = v
		} else if v, ok := val("--go-grpc_out"); ok {
			grpcOut = v
		} else if strings.HasPrefix(a, "--go_opt") || strings.HasPrefix(a, "--go-grpc_opt") {
			// paths=source_relative is the only mode goa uses and the only one implemented
		} else if a == "--version" {
			fmt.Println("fakeprotoc 0 (verif stand-in, not protoc)")
			return
		} else if strings.HasPrefix(a, "-") {
			fmt.Fprintf(os.Stderr, "fakeprotoc: unsupported flag %s\n", a)
			os.Exit(2)
		} else {
			files = append(files, a)
		}
	}
	if len(files) != 1 {
		fmt.Fprintf(os.Stderr, "fakeprotoc: exactly one .proto file expected, got %d\n", len(files))
		os.Exit(2)
	}
	path := files[0]
	src, err := os.ReadFile(path)
	if err != nil {
		fmt.Fprintf(os.Stderr, "fakeprotoc: %v\n", err)
		os.Exit(2)
	}
	rel := filepath.Base(path)
	if protoPath != "" {
		if ap, e1 := filepath.Abs(path); e1 == nil {
			if pp, e2 := filepath.Abs(protoPath); e2 == nil {
				if r, e3 := filepath.Rel(pp, ap); e3 == nil && !strings.HasPrefix(r, "..") {
					rel = r
				}
			}
		}
	}
	v := &verdict{File: rel}
	f, perr := parseProto(string(src))
	if perr != nil {
		v.ParseError = perr.Error()
	} else {
		v.ParseOK = true
		v.Syntax, v.Package, v.GoPackage, v.Imports = f.Syntax, f.Package, f.GoPackage, f.Imports
		v.Messages, v.Services = f.allMessages(), f.Services
		if derr := checkDescriptor(rel, f); derr != nil {
			v.DescError = derr.Error()
		} else {
			v.DescriptorOK = true
		}
	}
	if v.ParseOK {
		// the stand-in Go files are emitted whenever the file parses: a descriptor that protodesc refuses
		// is reported through the verdict (and the exit code); emitting anyway lets the caller look at
		// the rest of the generated code
		base := strings.TrimSuffix(rel, ".proto")
		if goOut != "" {
			if code, e := emitMessages(f, rel); e == nil {
				p := filepath.Join(goOut, base+".pb.go")
				if e := writeFile(p, code); e == nil {
					v.Emitted = append(v.Emitted, p)
				}
			} else {
				v.DescError += " | emit: " + e.Error()
			}
		}
		if grpcOut != "" && len(f.Services) > 0 {
			if code, e := emitServices(f, rel); e == nil {
				p := filepath.Join(grpcOut, base+"_grpc.pb.go")
				if e := writeFile(p, code); e == nil {
					v.Emitted = append(v.Emitted, p)
				}
			} else {
				v.DescError += " | emit: " + e.Error()
			}
		}
	}
	js, _ := json.MarshalIndent(v, "", " ")
	if e := os.WriteFile(path+".json", js, 0o644); e != nil {
		fmt.Fprintf(os.Stderr, "fakeprotoc: %v\n", e)
		os.Exit(2)
	}
	if !v.ParseOK {
		fmt.Fprintf(os.Stderr, "%s: %s\n", rel, v.ParseError)
		os.Exit(1)
	}
	if !v.DescriptorOK {
		fmt.Fprintf(os.Stderr, "%s: %s\n", rel, v.DescError)
		os.Exit(1)
	}
}

func writeFile(p string, code []byte) error {
	if err := os.MkdirAll(filepath.Dir(p), 0o755); err != nil {
		return err
	}
	return os.WriteFile(p, code, 0o644)
}
