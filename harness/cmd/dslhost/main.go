// dslhost runs abstract DSL programs on the real goa `dsl`/`eval`/`expr` packages, one program per CHILD
// PROCESS (goa keeps process-global state; a panic, a fatal stack overflow or a hang must be attributed to
// exactly one program), and reports for each program the outcome observed:
//
//	accepted | rejected (nErrs, allNamed, errors) | panic (stage, value, stack) | timeout
//
// Parent:  dslhost -in programs.ndjson -out out.ndjson [-workers 16] [-limit 10s] [-random N] [-gen DIR]
// Child:   dslhost -child [-gen DIR]      (program JSON on stdin, one result JSON on stdout)
// Table:   dslhost -table                 (the (f, n, t, v) pools the interpreter understands)
//
// With -random N the parent derives N further programs from the input programs by seeded mutation
// (splicing sub-trees between programs, moving calls into other contexts, replacing tokens) and appends them
// to the output; every output line carries the program itself, so the lines are trace events.
package main

import (
	"bufio"
	"bytes"
	"context"
	"encoding/json"
	"errors"
	"flag"
	"fmt"
	"math/rand"
	"os"
	"os/exec"
	"path/filepath"
	"runtime/debug"
	"sort"
	"strings"
	"sync"
	"time"

	"goa.design/goa/v3/codegen/generator"
	"goa.design/goa/v3/eval"

	"verif/harness/vio"
)

// ErrInfo is one reported error, projected on what the property speaks about.
type ErrInfo struct {
	Msg     string `json:"msg"`
	Located bool   `json:"located"` // carries a file and a line (errors recorded while the DSL executes)
	Named   bool   `json:"named"`   // names the expression(s) it is about (validation errors)
	N       int    `json:"n"`       // number of individual validation errors folded into this entry
}

// Result is the observation for one program.
type Result struct {
	ID       int       `json:"id"`
	Outcome  string    `json:"outcome"` // accepted | rejected | panic | timeout
	Stage    string    `json:"stage,omitempty"`
	NErrs    int       `json:"nErrs"`
	AllNamed bool      `json:"allNamed"`
	Errors   []ErrInfo `json:"errors,omitempty"`
	Panic    string    `json:"panic,omitempty"`
	Stack    string    `json:"stack,omitempty"`
	Calls    int       `json:"calls"`
	Gen      string    `json:"gen,omitempty"` // ok | error | panic (only with -gen, only when accepted)
	GenInfo  string    `json:"genInfo,omitempty"`
	Millis   int64     `json:"ms"`
}

// Line is one output line: the program and what the real code did with it.
type Line struct {
	I      int     `json:"i"`
	Origin string  `json:"origin"` // tlc | mutant
	Prog   Program `json:"prog"`
	Res    Result  `json:"res"`
}

var (
	child   = flag.Bool("child", false, "run one program read from stdin")
	tableF  = flag.Bool("table", false, "print the function table")
	workers = flag.Int("workers", 16, "parallel child processes")
	limit   = flag.Duration("limit", 20*time.Second, "wall-clock limit per program")
	random  = flag.Int("random", 0, "derive N programs from the input by seeded mutation")
	genDir  = flag.String("gen", "", "after acceptance run generator.Generate(<dir>/p<id>, \"gen\")")
	maxN    = flag.Int("maxnodes", 60, "size limit of a mutated program")
)

func main() {
	flag.Parse()
	switch {
	case *tableF:
		b, _ := json.Marshal(tableJSON())
		fmt.Println(string(b))
	case *child:
		runChild()
	default:
		runParent()
	}
}

// ------------------------------------------------------------------------------------------------ child

func link(p *Program) ([]*Node, error) {
	var top []*Node
	for i, nd := range p.Nodes {
		nd.kids = nil
		if nd.P < 0 || nd.P > i {
			return nil, fmt.Errorf("node %d: parent %d is not an earlier node", i+1, nd.P)
		}
	}
	for _, nd := range p.Nodes {
		if nd.P == 0 {
			top = append(top, nd)
		} else {
			par := p.Nodes[nd.P-1]
			par.kids = append(par.kids, nd)
		}
	}
	return top, nil
}

func runChild() {
	debug.SetMaxStack(64 << 20) // a runaway recursion dies in about a second instead of eating 1 GB
	raw, err := bufio.NewReader(os.Stdin).ReadBytes('\n')
	if err != nil && len(raw) == 0 {
		vio.Die("child: no program on stdin: %v", err)
	}
	var p Program
	if err := json.Unmarshal(raw, &p); err != nil {
		vio.Die("child: bad program: %v", err)
	}
	top, err := link(&p)
	if err != nil {
		vio.Die("child: %v", err)
	}
	t0 := time.Now()
	res := Result{ID: p.ID}
	x := newInterp()
	// stage "dsl": the top-level calls run (what `import _ "design"` does)
	if pv, st := protect(func() {
		for _, nd := range top {
			x.run(nd)
		}
	}); pv != nil {
		if m, ok := pv.(machinery); ok {
			vio.Die("child: %s", m.msg)
		}
		res.Outcome, res.Stage, res.Panic, res.Stack = "panic", "dsl", fmt.Sprint(pv), st
		finish(&res, x, t0)
		return
	}
	// stage "eval": errors recorded so far are reported by RunDSL together with the rest
	var runErr error
	if pv, st := protect(func() { runErr = eval.RunDSL() }); pv != nil {
		if m, ok := pv.(machinery); ok {
			vio.Die("child: %s", m.msg)
		}
		res.Outcome, res.Stage, res.Panic, res.Stack = "panic", "eval", fmt.Sprint(pv), st
		finish(&res, x, t0)
		return
	}
	if runErr == nil {
		res.Outcome, res.AllNamed = "accepted", true
		if *genDir != "" {
			dir := filepath.Join(*genDir, fmt.Sprintf("p%d", p.ID))
			if err := os.MkdirAll(dir, 0o755); err != nil {
				vio.Die("child: %v", err)
			}
			var gerr error
			if pv, st := protect(func() { _, gerr = generator.Generate(dir, "gen") }); pv != nil {
				res.Gen, res.GenInfo = "panic", fmt.Sprint(pv)+"\n"+st
			} else if gerr != nil {
				res.Gen, res.GenInfo = "error", gerr.Error()
			} else {
				res.Gen = "ok"
			}
		}
		finish(&res, x, t0)
		return
	}
	// stage "report": turning the errors into text is part of what a caller of RunDSL does
	if pv, st := protect(func() { describe(runErr, &res) }); pv != nil {
		res.Outcome, res.Stage, res.Panic, res.Stack = "panic", "report", fmt.Sprint(pv), st
		finish(&res, x, t0)
		return
	}
	res.Outcome = "rejected"
	finish(&res, x, t0)
}

func protect(f func()) (pv any, stack string) {
	defer func() {
		if r := recover(); r != nil {
			pv, stack = r, trimStack(string(debug.Stack()))
		}
	}()
	f()
	return nil, ""
}

func trimStack(s string) string {
	if len(s) > 6000 {
		s = s[:6000]
	}
	return s
}

func finish(res *Result, x *interp, t0 time.Time) {
	res.Calls = x.calls
	res.Millis = time.Since(t0).Milliseconds()
	b, err := json.Marshal(res)
	if err != nil {
		vio.Die("child: %v", err)
	}
	os.Stdout.Write(append(b, '\n'))
}

// describe projects the error returned by RunDSL: how many errors, and does each name its expression.
func describe(err error, res *Result) {
	var me eval.MultiError
	if !errors.As(err, &me) {
		// dependency cycle between roots and the like: a plain error
		res.NErrs, res.AllNamed = 1, err.Error() != ""
		res.Errors = []ErrInfo{{Msg: clip(err.Error()), Named: err.Error() != "", N: 1}}
		return
	}
	res.AllNamed = true
	for _, e := range me {
		info := ErrInfo{N: 1}
		if e == nil || e.GoError == nil {
			info.Msg = "<nil error>"
			res.AllNamed = false
			res.NErrs++
			res.Errors = append(res.Errors, info)
			continue
		}
		info.Msg = clip(e.Error())
		var verr *eval.ValidationErrors
		if errors.As(e.GoError, &verr) {
			info.N = len(verr.Errors)
			info.Named = len(verr.Errors) > 0
			for i, ge := range verr.Errors {
				if ge == nil || ge.Error() == "" || i >= len(verr.Expressions) || verr.Expressions[i] == nil || verr.Expressions[i].EvalName() == "" {
					info.Named = false
				}
			}
		} else {
			info.Located = e.File != "" && e.Line > 0
			info.Named = info.Located && e.GoError.Error() != ""
		}
		if !info.Named {
			res.AllNamed = false
		}
		res.NErrs += info.N
		if len(res.Errors) < 8 {
			res.Errors = append(res.Errors, info)
		}
	}
	if res.NErrs == 0 {
		res.AllNamed = false
	}
}

func clip(s string) string {
	if len(s) > 400 {
		return s[:400] + "..."
	}
	return s
}

// ------------------------------------------------------------------------------------------------ parent

func runParent() {
	var progs []Program
	var origin []string
	err := vio.ReadVectors(func(i int, raw json.RawMessage) error {
		var p Program
		if err := json.Unmarshal(raw, &p); err != nil {
			return err
		}
		progs = append(progs, p)
		origin = append(origin, "tlc")
		return nil
	})
	if err != nil {
		vio.Die("%v", err)
	}
	if *random > 0 {
		rng := rand.New(rand.NewSource(*vio.Seed))
		corpus := progs
		nextID := 1
		for _, p := range progs {
			if p.ID >= nextID {
				nextID = p.ID + 1
			}
		}
		for k := 0; k < *random; k++ {
			p := mutate(rng, corpus)
			p.ID = nextID
			nextID++
			progs = append(progs, p)
			origin = append(origin, "mutant")
		}
	}
	self, err := os.Executable()
	if err != nil {
		vio.Die("%v", err)
	}
	results := make([]Result, len(progs))
	var wg sync.WaitGroup
	jobs := make(chan int)
	for w := 0; w < *workers; w++ {
		wg.Add(1)
		go func() {
			defer wg.Done()
			for i := range jobs {
				results[i] = runOne(self, &progs[i])
			}
		}()
	}
	for i := range progs {
		jobs <- i
	}
	close(jobs)
	wg.Wait()
	w, err := vio.NewWriter()
	if err != nil {
		vio.Die("%v", err)
	}
	for i := range progs {
		w.Emit(Line{I: i, Origin: origin[i], Prog: progs[i], Res: results[i]})
	}
	w.Close()
}

func runOne(self string, p *Program) Result {
	in, _ := json.Marshal(p)
	ctx, cancel := context.WithTimeout(context.Background(), *limit)
	defer cancel()
	args := []string{"-child"}
	if *genDir != "" {
		args = append(args, "-gen", *genDir)
	}
	cmd := exec.CommandContext(ctx, self, args...)
	cmd.Stdin = bytes.NewReader(append(in, '\n'))
	var stdout, stderr bytes.Buffer
	cmd.Stdout, cmd.Stderr = &stdout, &limited{max: 1 << 16, buf: &stderr}
	t0 := time.Now()
	err := cmd.Run()
	ms := time.Since(t0).Milliseconds()
	if ctx.Err() == context.DeadlineExceeded {
		return Result{ID: p.ID, Outcome: "timeout", Stage: "?", Millis: ms}
	}
	if err != nil {
		var ee *exec.ExitError
		if errors.As(err, &ee) && ee.ExitCode() == 3 {
			vio.Die("child reported machinery trouble on program %d: %s", p.ID, stderr.String())
		}
		// the Go runtime killed the process: fatal error (stack overflow, concurrent map access, ...) or an
		// unrecovered panic on another goroutine
		se := stderr.String()
		head := se
		if i := strings.Index(head, "\n\n"); i > 0 {
			head = head[:i]
		}
		return Result{ID: p.ID, Outcome: "panic", Stage: "fatal", Panic: clip(head), Stack: trimStack(se), Millis: ms}
	}
	var r Result
	if jerr := json.Unmarshal(bytes.TrimSpace(stdout.Bytes()), &r); jerr != nil {
		vio.Die("child output for program %d not understood: %v: %q %q", p.ID, jerr, stdout.String(), stderr.String())
	}
	return r
}

type limited struct {
	max int
	buf *bytes.Buffer
}

func (l *limited) Write(b []byte) (int, error) {
	if room := l.max - l.buf.Len(); room > 0 {
		if len(b) > room {
			l.buf.Write(b[:room])
		} else {
			l.buf.Write(b)
		}
	}
	return len(b), nil
}

// ------------------------------------------------------------------------------------------------ mutation

// subtree returns the indices (0-based) of node i and its descendants, in program order.
func subtree(p *Program, i int) []int {
	in := map[int]bool{i: true}
	out := []int{i}
	for j := i + 1; j < len(p.Nodes); j++ {
		if pp := p.Nodes[j].P - 1; pp >= 0 && in[pp] {
			in[j] = true
			out = append(out, j)
		}
	}
	return out
}

// graft appends a copy of the sub-tree of src rooted at i under node `under` (1-based, 0 = top) of dst.
func graft(dst *Program, src *Program, i int, under int) {
	idx := subtree(src, i)
	remap := map[int]int{}
	for _, j := range idx {
		c := *src.Nodes[j]
		c.kids = nil
		if j == i {
			c.P = under
		} else {
			c.P = remap[src.Nodes[j].P-1] + 1
		}
		dst.Nodes = append(dst.Nodes, &c)
		remap[j] = len(dst.Nodes) - 1
	}
}

func clone(p *Program) Program {
	q := Program{ID: p.ID}
	for _, nd := range p.Nodes {
		c := *nd
		c.kids = nil
		q.Nodes = append(q.Nodes, &c)
	}
	return q
}

// normalize re-orders nodes so that program order is a pre-order walk (children of a node keep their
// relative order and follow it), which is the order the interpreter executes them in.
func normalize(p *Program) {
	kids := map[int][]int{}
	for i, nd := range p.Nodes {
		kids[nd.P] = append(kids[nd.P], i)
	}
	var order []int
	var walk func(par int)
	walk = func(par int) {
		for _, i := range kids[par] {
			order = append(order, i)
			walk(i + 1)
		}
	}
	walk(0)
	pos := map[int]int{}
	for k, i := range order {
		pos[i] = k
	}
	nodes := make([]*Node, len(order))
	for k, i := range order {
		c := *p.Nodes[i]
		if c.P > 0 {
			c.P = pos[c.P-1] + 1
		}
		nodes[k] = &c
	}
	p.Nodes = nodes
}

func opens(nd *Node) bool { return nd.V == "fn" || nd.V == "descfn" || nd.V == "summaryfn" }

func mutate(rng *rand.Rand, corpus []Program) Program {
	fnames := make([]string, 0, len(table))
	for f := range table {
		fnames = append(fnames, f)
	}
	sort.Strings(fnames)
	var p Program
	if len(corpus) > 0 {
		p = clone(&corpus[rng.Intn(len(corpus))])
	}
	steps := 1 + rng.Intn(6)
	for s := 0; s < steps; s++ {
		if len(p.Nodes) >= *maxN {
			break
		}
		switch op := rng.Intn(10); {
		case op < 4 && len(corpus) > 0: // splice a sub-tree of another program: same place (top) or any open node
			src := &corpus[rng.Intn(len(corpus))]
			if len(src.Nodes) == 0 {
				continue
			}
			i := rng.Intn(len(src.Nodes))
			if len(subtree(src, i))+len(p.Nodes) > *maxN {
				continue
			}
			under := 0
			if src.Nodes[i].P != 0 || rng.Intn(4) == 0 {
				var open []int
				for j, nd := range p.Nodes {
					if opens(nd) {
						open = append(open, j+1)
					}
				}
				if len(open) > 0 {
					under = open[rng.Intn(len(open))]
				}
			}
			graft(&p, src, i, under)
		case op < 6 && len(p.Nodes) > 0: // replace one token by another one of the same pool
			nd := p.Nodes[rng.Intn(len(p.Nodes))]
			sp := table[nd.F]
			switch rng.Intn(3) {
			case 0:
				nd.N = sp.names[rng.Intn(len(sp.names))]
			case 1:
				nd.T = sp.types[rng.Intn(len(sp.types))]
			default:
				nd.V = sp.vars[rng.Intn(len(sp.vars))]
			}
		case op < 8: // a fresh call of any function anywhere (mostly misplaced)
			f := fnames[rng.Intn(len(fnames))]
			sp := table[f]
			nd := &Node{F: f, N: sp.names[rng.Intn(len(sp.names))], T: sp.types[rng.Intn(len(sp.types))], V: sp.vars[rng.Intn(len(sp.vars))]}
			if has(sp.vars, "fn") && rng.Intn(2) == 0 {
				nd.V = "fn"
			}
			var open []int
			for j, o := range p.Nodes {
				if opens(o) {
					open = append(open, j+1)
				}
			}
			if len(open) > 0 && rng.Intn(5) > 0 {
				nd.P = open[rng.Intn(len(open))]
			}
			p.Nodes = append(p.Nodes, nd)
		case len(p.Nodes) > 1: // duplicate a sub-tree next to itself (repeated declarations)
			i := rng.Intn(len(p.Nodes))
			if 2*len(subtree(&p, i)) > *maxN {
				continue
			}
			q := clone(&p)
			graft(&p, &q, i, p.Nodes[i].P)
		}
		normalize(&p)
	}
	// children only run under a node that passes a func(): re-hang orphans on the nearest ancestor that does
	for _, nd := range p.Nodes {
		for nd.P > 0 && !opens(p.Nodes[nd.P-1]) {
			nd.P = p.Nodes[nd.P-1].P
		}
	}
	normalize(&p)
	return p
}
