// The DSL interpreter of dslhost: abstract call (f, n, t, v) -> one real call of the goa `dsl` package.
//
// An abstract program is a flat list of nodes {f, n, t, v, p}: function, name token, type/value token,
// variant token, index of the parent node (0 = top level).  Children run, in order, inside the func()
// argument of their parent.  Nothing here consults expr/ or eval/ to decide what to call or whether a call is
// legal: every node is executed exactly as written, goa decides what it means.
package main

import (
	"fmt"
	"sort"
	"strconv"

	"goa.design/goa/v3/dsl"
	"goa.design/goa/v3/expr"
)

// Node is one abstract call.
type Node struct {
	F string `json:"f"`
	N string `json:"n"`
	T string `json:"t"`
	V string `json:"v"`
	P int    `json:"p"`

	kids []*Node
}

// Program is what TLC (or the mutator) emits.
type Program struct {
	ID    int     `json:"id"`
	Nodes []*Node `json:"nodes"`
}

type fnSpec struct {
	names []string // admissible name tokens
	types []string // admissible type/value tokens
	vars  []string // admissible variant tokens
	call  func(x *interp, nd *Node)
}

type interp struct {
	types   map[string]expr.UserType        // first value returned by Type("T1"...) etc. (what `var T1 = Type(...)` holds)
	rtypes  map[string]*expr.ResultTypeExpr // same for ResultType
	schemes map[string]*expr.SchemeExpr
	calls   int
}

func newInterp() *interp {
	return &interp{types: map[string]expr.UserType{}, rtypes: map[string]*expr.ResultTypeExpr{}, schemes: map[string]*expr.SchemeExpr{}}
}

type machinery struct{ msg string }

func bad(format string, a ...any) { panic(machinery{fmt.Sprintf(format, a...)}) }

func (x *interp) run(nd *Node) {
	sp, ok := table[nd.F]
	if !ok {
		bad("unknown function %q", nd.F)
	}
	if !has(sp.names, nd.N) || !has(sp.types, nd.T) || !has(sp.vars, nd.V) {
		bad("token outside the table: %s(n=%q t=%q v=%q)", nd.F, nd.N, nd.T, nd.V)
	}
	x.calls++
	sp.call(x, nd)
}

func has(pool []string, s string) bool {
	for _, p := range pool {
		if p == s {
			return true
		}
	}
	return false
}

// body is the func() argument that runs the children of nd.
func (x *interp) body(nd *Node) func() {
	return func() {
		for _, k := range nd.kids {
			x.run(k)
		}
	}
}

// fnArgs renders the variant as trailing arguments: fn | nilfn | plain | desc | descfn | many.
func (x *interp) tail(nd *Node) []any {
	switch nd.V {
	case "fn":
		return []any{x.body(nd)}
	case "nilfn":
		return []any{(func())(nil)}
	case "plain", "few":
		return nil
	case "desc":
		return []any{"a description"}
	case "descfn":
		return []any{"a description", x.body(nd)}
	case "many":
		return []any{"a description", x.body(nd), "one too many", 7}
	}
	bad("variant %q", nd.V)
	return nil
}

// fns renders the variant for functions declared with a trailing `fn ...func()`.
func (x *interp) fns(nd *Node) []func() {
	switch nd.V {
	case "fn":
		return []func(){x.body(nd)}
	case "nilfn":
		return []func(){nil}
	case "plain":
		return nil
	case "many":
		return []func(){x.body(nd), func() {}}
	}
	bad("variant %q", nd.V)
	return nil
}

func (x *interp) fn1(nd *Node) func() {
	if nd.V == "nilfn" {
		return nil
	}
	return x.body(nd)
}

// userType resolves a reference by Go value: what the variable holds at the time of the call.
func (x *interp) userType(name string) any {
	if t, ok := x.types[name]; ok && t != nil {
		return t
	}
	if rt, ok := x.rtypes[name]; ok && rt != nil {
		return rt
	}
	return nil // the variable was never assigned (or the declaration failed and returned nil)
}

type convTarget struct {
	A string
	B *int
	Zz []string
}

// typ maps a type/value token to the Go value passed to the DSL.
func (x *interp) typ(tok string) any {
	switch tok {
	case "String":
		return dsl.String
	case "Int":
		return dsl.Int
	case "Int32":
		return dsl.Int32
	case "Int64":
		return dsl.Int64
	case "UInt":
		return dsl.UInt
	case "Float32":
		return dsl.Float32
	case "Float64":
		return dsl.Float64
	case "Boolean":
		return dsl.Boolean
	case "Bytes":
		return dsl.Bytes
	case "Any":
		return dsl.Any
	case "Empty":
		return dsl.Empty
	case "ErrorResult":
		return dsl.ErrorResult
	case "T1", "T2", "R1", "R2":
		return x.userType(tok)
	case "nT1":
		return "T1"
	case "nT2":
		return "T2"
	case "nR1":
		return "R1"
	case "nNoSuch":
		return "NoSuchType"
	case "ArrS":
		return dsl.ArrayOf(dsl.String)
	case "ArrInt":
		return dsl.ArrayOf(dsl.Int)
	case "ArrT1":
		return dsl.ArrayOf(x.userType("T1"))
	case "ArrnT1":
		return dsl.ArrayOf("T1")
	case "ArrT2":
		return dsl.ArrayOf(x.userType("T2"))
	case "ArrnT2":
		return dsl.ArrayOf("T2")
	case "ArrArrS":
		return dsl.ArrayOf(dsl.ArrayOf(dsl.String))
	case "ArrNil":
		return dsl.ArrayOf(nil)
	case "ArrFn":
		return dsl.ArrayOf(dsl.String, func() { dsl.MinLength(2) })
	case "MapSS":
		return dsl.MapOf(dsl.String, dsl.String)
	case "MapIntS":
		return dsl.MapOf(dsl.Int, dsl.String)
	case "MapST1":
		return dsl.MapOf(dsl.String, x.userType("T1"))
	case "MapSnT1":
		return dsl.MapOf(dsl.String, "T1")
	case "MapSnT2":
		return dsl.MapOf(dsl.String, "T2")
	case "MapSArrS":
		return dsl.MapOf(dsl.String, dsl.ArrayOf(dsl.String))
	case "MapT1S":
		return dsl.MapOf(x.userType("T1"), dsl.String)
	case "MapMapKey":
		return dsl.MapOf(dsl.MapOf(dsl.String, dsl.String), dsl.String)
	case "MapNilV":
		return dsl.MapOf(dsl.String, nil)
	case "MapFn":
		return dsl.MapOf(dsl.String, dsl.Int, func() { dsl.Key(func() { dsl.MinLength(1) }); dsl.Elem(func() { dsl.Minimum(0) }) })
	case "CollR1":
		return dsl.CollectionOf(x.userType("R1"))
	case "CollR2":
		return dsl.CollectionOf(x.userType("R2"))
	case "CollnR1":
		return dsl.CollectionOf("application/vnd.r1")
	case "CollT1":
		return dsl.CollectionOf(x.userType("T1"))
	case "CollNil":
		return dsl.CollectionOf(nil)
	case "CollBad":
		return dsl.CollectionOf("no such; ; type")
	case "CollCollR1":
		return dsl.CollectionOf(dsl.CollectionOf(x.userType("R1")))
	case "CollFn":
		return dsl.CollectionOf(x.userType("R1"), func() { dsl.View("default"); dsl.View("tiny") })
	case "nil":
		return nil
	case "wrongInt":
		return 42
	case "wrongStruct":
		return struct{ X int }{1}
	}
	bad("type token %q", tok)
	return nil
}

// val maps a value token (defaults, examples, enum members, bounds) to a Go value.
func val(tok string) any {
	switch tok {
	case "s":
		return "x"
	case "i":
		return 1
	case "f":
		return 1.5
	case "b":
		return true
	case "u":
		return uint(3)
	case "sn":
		return "2"
	case "sbad":
		return "not a number"
	case "nil":
		return nil
	case "arr":
		return []any{"x", "y"}
	case "arrI":
		return []int{1, 2}
	case "bytes":
		return []byte("x")
	case "map":
		return map[string]any{"a": "x"}
	case "val":
		return expr.Val{"a": "x"}
	case "mapval":
		return expr.MapVal{"a": "x"}
	case "arrval":
		return expr.ArrayVal{"x"}
	case "struct":
		return struct{ X int }{1}
	}
	bad("value token %q", tok)
	return nil
}

func atoi(s string) int {
	i, err := strconv.Atoi(s)
	if err != nil {
		bad("number token %q", s)
	}
	return i
}

// str maps a string token to the text passed to the DSL ("" stays empty).
var strs = map[string]string{
	"": "", "txt": "some text", "odd": "o\x00dd {}%/\\\" \n{", "long": "xxxxxxxxxxxxxxxxxxxxxxxxxxxxxxxxxxxxxxxxxxxxxxxxxxxxxxxxxxxxxxxxxxxxxxxxxxxxxxxxxxxxxxxxxxxxxxxxxxxxxxxxx",
	"url": "https://goa.design", "email": "a@b.c",
}

func str(tok string) string {
	if s, ok := strs[tok]; ok {
		return s
	}
	return tok
}

var (
	attrNames = []string{"a", "b", "zz", "", "a:X-A", "zz:X-Z"}
	attrTypes = []string{"-", "String", "Int", "Int32", "Int64", "UInt", "Float32", "Float64", "Boolean", "Bytes", "Any", "Empty", "ErrorResult", "T1", "T2", "R1", "R2",
		"nT1", "nT2", "nR1", "nNoSuch", "ArrS", "ArrInt", "ArrT1", "ArrnT1", "ArrT2", "ArrnT2", "ArrArrS", "ArrNil", "ArrFn", "MapSS", "MapIntS", "MapST1", "MapSnT1", "MapSnT2", "MapSArrS", "MapT1S", "MapMapKey", "MapNilV", "MapFn",
		"CollR1", "CollR2", "CollnR1", "CollT1", "CollNil", "CollBad", "CollCollR1", "CollFn", "nil", "wrongInt", "wrongStruct"}
	attrVars  = []string{"fn", "plain", "desc", "descfn", "nilfn", "many"}
	fieldVars = []string{"fn", "plain", "desc", "descfn", "nilfn", "many", "badtag", "niltag"}
	none      = []string{"-"}
	fnOnly    = []string{"fn", "nilfn"}
	fnsVars   = []string{"fn", "plain", "nilfn", "many"}
	texts     = []string{"txt", "", "odd", "long"}
	valToks   = []string{"s", "i", "f", "b", "u", "sn", "sbad", "nil", "arr", "arrI", "bytes", "map", "val", "mapval", "arrval", "struct"}
	paths     = []string{"/", "/x", "/x/{a}", "/x/{b}", "/{zz}", "/{a}/{a}", "/{*w}", "/x/{*a}", "", "//abs/{a}", "/{", "x", "/{a:A}", "/x/"}
	codes     = []string{"-", "200", "201", "204", "301", "304", "400", "404", "500", "0", "5", "16", "-1", "99999", "wrong"}
)

func tagOf(nd *Node) any {
	switch nd.V {
	case "badtag":
		return "not-a-number"
	case "niltag":
		return nil
	}
	switch nd.N {
	case "a", "a:X-A":
		return 1
	case "b":
		return 2
	case "zz", "zz:X-Z":
		return 3
	}
	return 4
}

// attrArgs renders [type] [desc] [fn] for Attribute-like functions.
func (x *interp) attrArgs(nd *Node) []any {
	var args []any
	if nd.T != "-" {
		args = append(args, x.typ(nd.T))
	}
	v := nd.V
	if v == "badtag" || v == "niltag" {
		v = "plain"
	}
	return append(args, x.tail(&Node{V: v, kids: nd.kids})...)
}

func attrLike(f func(name string, args ...any)) fnSpec {
	return fnSpec{attrNames, attrTypes, attrVars, func(x *interp, nd *Node) { f(nd.N, x.attrArgs(nd)...) }}
}

func fieldLike(f func(tag any, name string, args ...any)) fnSpec {
	return fnSpec{attrNames, attrTypes, fieldVars, func(x *interp, nd *Node) { f(tagOf(nd), nd.N, x.attrArgs(nd)...) }}
}

func textFn(f func(string), pool ...string) fnSpec {
	if len(pool) == 0 {
		pool = texts
	}
	return fnSpec{pool, none, []string{"plain"}, func(x *interp, nd *Node) { f(str(nd.N)) }}
}

func noArg(f func()) fnSpec {
	return fnSpec{none, none, []string{"plain"}, func(x *interp, nd *Node) { f() }}
}

func blockFn(f func(func())) fnSpec {
	return fnSpec{none, none, fnOnly, func(x *interp, nd *Node) { f(x.fn1(nd)) }}
}

func boundFn(f func(any)) fnSpec {
	return fnSpec{none, valToks, []string{"plain"}, func(x *interp, nd *Node) { f(val(nd.T)) }}
}

func schemeFn(f func(string, ...func()) *expr.SchemeExpr) fnSpec {
	return fnSpec{[]string{"sc1", "sc2", ""}, none, fnsVars, func(x *interp, nd *Node) {
		s := f(nd.N, x.fns(nd)...)
		if _, seen := x.schemes[nd.N]; !seen {
			x.schemes[nd.N] = s
		}
	}}
}

func routeFn(f func(string) *expr.RouteExpr) fnSpec {
	return fnSpec{paths, none, []string{"plain"}, func(x *interp, nd *Node) { f(nd.N) }}
}

func flow3(f func(a, b, c string)) fnSpec {
	return fnSpec{[]string{"url", "", "odd"}, none, []string{"plain"}, func(x *interp, nd *Node) { f(str(nd.N), str(nd.N), str(nd.N)) }}
}

func flow2(f func(a, b string)) fnSpec {
	return fnSpec{[]string{"url", "", "odd"}, none, []string{"plain"}, func(x *interp, nd *Node) { f(str(nd.N), str(nd.N)) }}
}

// methodTypeArgs renders Payload/Result style arguments: (val, [desc], [fn]).
func (x *interp) methodTypeCall(f func(any, ...any), nd *Node) {
	if nd.T == "-" {
		// the documented (func) form; other variants of it are degenerate forms
		switch nd.V {
		case "fn":
			f(x.body(nd))
		case "nilfn":
			f((func())(nil))
		case "descfn":
			f(x.body(nd), "a description")
		case "desc":
			f("a description")
		case "many":
			f(x.body(nd), "a description", x.body(nd), 7)
		default:
			f(nil)
		}
		return
	}
	f(x.typ(nd.T), x.tail(nd)...)
}

var methodTypes = append([]string{}, attrTypes...)

var table map[string]fnSpec

func init() {
	table = map[string]fnSpec{
		// ---------------------------------------------------------------- top level
		"API": {[]string{"api1", ""}, none, fnOnly, func(x *interp, nd *Node) { dsl.API(nd.N, x.fn1(nd)) }},
		"Service": {[]string{"s1", "s2", "s3", ""}, none, fnOnly, func(x *interp, nd *Node) { dsl.Service(nd.N, x.fn1(nd)) }},
		"Type": {[]string{"T1", "T2", ""}, attrTypes, []string{"fn", "plain", "nilfn", "many", "desc"}, func(x *interp, nd *Node) {
			var args []any
			if nd.T != "-" {
				args = append(args, x.typ(nd.T))
			}
			args = append(args, x.tail(nd)...)
			t := dsl.Type(nd.N, args...)
			if _, seen := x.types[nd.N]; !seen {
				x.types[nd.N] = t
			}
		}},
		"ResultType": {[]string{"R1", "R2", "bad", "", "plain"}, []string{"-", "name", "wrongInt", "nil"}, []string{"fn", "plain", "nilfn", "many"}, func(x *interp, nd *Node) {
			id := map[string]string{"R1": "application/vnd.r1", "R2": "application/vnd.r2+json; type=x", "bad": "not a ; ; media type", "": "", "plain": "r1"}[nd.N]
			var args []any
			switch nd.T {
			case "name":
				args = append(args, nd.N+"Named")
			case "wrongInt":
				args = append(args, 42)
			case "nil":
				args = append(args, nil)
			}
			switch nd.V {
			case "fn":
				args = append(args, x.body(nd))
			case "nilfn":
				args = append(args, (func())(nil))
			case "many":
				args = append(args, x.body(nd), x.body(nd), 1)
			}
			rt := dsl.ResultType(id, args...)
			if _, seen := x.rtypes[nd.N]; !seen {
				x.rtypes[nd.N] = rt
			}
		}},
		"BasicAuthSecurity": schemeFn(dsl.BasicAuthSecurity),
		"APIKeySecurity":    schemeFn(dsl.APIKeySecurity),
		"OAuth2Security":    schemeFn(dsl.OAuth2Security),
		"JWTSecurity":       schemeFn(dsl.JWTSecurity),

		// ---------------------------------------------------------------- API
		"Title":          textFn(dsl.Title),
		"Version":        textFn(dsl.Version),
		"TermsOfService": textFn(dsl.TermsOfService),
		"Description":    textFn(dsl.Description),
		"Contact":        blockFn(dsl.Contact),
		"License":        blockFn(dsl.License),
		"Docs":           blockFn(dsl.Docs),
		"Name":           textFn(dsl.Name),
		"Email":          textFn(dsl.Email, "email", "", "odd"),
		"URL":            textFn(dsl.URL, "url", "", "odd"),
		"Randomizer": {none, []string{"det", "faker", "nil"}, []string{"plain"}, func(x *interp, nd *Node) {
			switch nd.T {
			case "det":
				dsl.Randomizer(expr.NewDeterministicRandomizer())
			case "faker":
				dsl.Randomizer(expr.NewFakerRandomizer("seed"))
			default:
				dsl.Randomizer(nil)
			}
		}},
		"Server": {[]string{"srv1", "s1", ""}, none, fnsVars, func(x *interp, nd *Node) { dsl.Server(nd.N, x.fns(nd)...) }},
		"Services": {[]string{"s1", "s2", "nosuch", "", "-", "two"}, none, []string{"plain"}, func(x *interp, nd *Node) {
			switch nd.N {
			case "-":
				dsl.Services()
			case "two":
				dsl.Services("s1", "s1")
			default:
				dsl.Services(nd.N)
			}
		}},
		"Host": {[]string{"h1", "h2", ""}, none, fnOnly, func(x *interp, nd *Node) { dsl.Host(nd.N, x.fn1(nd)) }},
		"URI": textFn(dsl.URI, "http://localhost:8080", "https://{v1}.goa.design/{zz}", "grpc://localhost:8080", "", "::bad", "{v1}", "http://{", "ftp://x"),
		"Variable": {[]string{"v1", "zz", ""}, attrTypes, attrVars, func(x *interp, nd *Node) { dsl.Variable(nd.N, x.attrArgs(nd)...) }},

		// ---------------------------------------------------------------- transports
		"HTTP":            {none, none, fnsVars, func(x *interp, nd *Node) { dsl.HTTP(x.fns(nd)...) }},
		"GRPC":            blockFn(dsl.GRPC),
		"Path":            textFn(dsl.Path, paths...),
		"Parent":          textFn(dsl.Parent, "s1", "s2", "s3", "nosuch", ""),
		"CanonicalMethod": textFn(dsl.CanonicalMethod, "m1", "m2", "show", "nosuch", ""),
		"Package":         textFn(dsl.Package, "pkg", "", "odd", "a.b"),
		"Consumes": {[]string{"application/json", "application/xml", "", "odd", "-"}, none, []string{"plain"}, func(x *interp, nd *Node) {
			if nd.N == "-" {
				dsl.Consumes()
			} else {
				dsl.Consumes(str(nd.N))
			}
		}},
		"Produces": {[]string{"application/json", "application/xml", "", "odd", "-"}, none, []string{"plain"}, func(x *interp, nd *Node) {
			if nd.N == "-" {
				dsl.Produces()
			} else {
				dsl.Produces(str(nd.N))
			}
		}},
		"GET": routeFn(dsl.GET), "HEAD": routeFn(dsl.HEAD), "POST": routeFn(dsl.POST), "PUT": routeFn(dsl.PUT), "DELETE": routeFn(dsl.DELETE),
		"OPTIONS": routeFn(dsl.OPTIONS), "TRACE": routeFn(dsl.TRACE), "CONNECT": routeFn(dsl.CONNECT), "PATCH": routeFn(dsl.PATCH),
		"Header": attrLike(dsl.Header),
		"Cookie": attrLike(dsl.Cookie),
		"Param":  attrLike(dsl.Param),
		"Params": {none, []string{"-", "wrongInt", "nil"}, fnOnly, func(x *interp, nd *Node) {
			switch nd.T {
			case "wrongInt":
				dsl.Params(42)
			case "nil":
				dsl.Params(nil)
			default:
				dsl.Params(x.fn1(nd))
			}
		}},
		"Headers": {none, []string{"-", "wrongInt", "nil"}, fnOnly, func(x *interp, nd *Node) {
			switch nd.T {
			case "wrongInt":
				dsl.Headers(42)
			case "nil":
				dsl.Headers(nil)
			default:
				dsl.Headers(x.fn1(nd))
			}
		}},
		"MapParams": {[]string{"-", "a", "b", "zz", "", "wrong"}, none, []string{"plain", "many"}, func(x *interp, nd *Node) {
			var args []any
			switch nd.N {
			case "-":
			case "wrong":
				args = append(args, 42)
			default:
				args = append(args, nd.N)
			}
			if nd.V == "many" {
				args = append(args, "x", "y")
			}
			dsl.MapParams(args...)
		}},
		"MultipartRequest":             noArg(dsl.MultipartRequest),
		"SkipRequestBodyEncodeDecode":  noArg(dsl.SkipRequestBodyEncodeDecode),
		"SkipResponseBodyEncodeDecode": noArg(dsl.SkipResponseBodyEncodeDecode),
		"Deprecated":                   noArg(dsl.Deprecated),
		"Body": {[]string{"-", "a", "b", "zz", ""}, []string{"-", "T1", "T2", "R1", "String", "ArrS", "Empty", "nil", "wrongInt"}, []string{"fn", "plain", "nilfn", "few", "many"}, func(x *interp, nd *Node) {
			var args []any
			if nd.N != "-" {
				args = append(args, nd.N)
			}
			if nd.T != "-" {
				args = append(args, x.typ(nd.T))
			}
			args = append(args, x.tail(nd)...)
			dsl.Body(args...)
		}},
		"Response": {[]string{"-", "e1", "e2", "zz", ""}, codes, []string{"fn", "plain", "nilfn", "many", "few"}, func(x *interp, nd *Node) {
			var args []any
			if nd.N != "-" {
				args = append(args, nd.N)
			}
			switch nd.T {
			case "-":
			case "wrong":
				args = append(args, "not a code", 3.5)
			default:
				args = append(args, atoi(nd.T))
			}
			switch nd.V {
			case "fn":
				args = append(args, x.body(nd))
			case "nilfn":
				args = append(args, (func())(nil))
			case "many":
				args = append(args, x.body(nd), x.body(nd))
			}
			if len(args) == 0 {
				dsl.Response(nil)
				return
			}
			dsl.Response(args[0], args[1:]...)
		}},
		"Code": {[]string{"200", "201", "204", "404", "0", "-1", "5", "16"}, none, []string{"plain"}, func(x *interp, nd *Node) { dsl.Code(atoi(nd.N)) }},
		"Tag": {[]string{"a", "b", "zz", ""}, none, []string{"plain"}, func(x *interp, nd *Node) { dsl.Tag(nd.N, "v") }},
		"ContentType":    textFn(dsl.ContentType, "application/json", "text/plain", "text/html", "application/vnd.r1", "", "odd"),
		"CookieMaxAge":   {[]string{"3600", "0", "-1"}, none, []string{"plain"}, func(x *interp, nd *Node) { dsl.CookieMaxAge(atoi(nd.N)) }},
		"CookieDomain":   textFn(dsl.CookieDomain),
		"CookiePath":     textFn(dsl.CookiePath),
		"CookieSecure":   noArg(dsl.CookieSecure),
		"CookieHTTPOnly": noArg(dsl.CookieHTTPOnly),
		"CookieSameSite": {[]string{"strict", "lax", "none", "default", "", "odd"}, none, []string{"plain"}, func(x *interp, nd *Node) { dsl.CookieSameSite(expr.CookieSameSiteValue(str(nd.N))) }},
		"Redirect": {[]string{"/r", "", "odd", "https://goa.design"}, []string{"301", "308", "200", "0", "-1"}, []string{"plain"}, func(x *interp, nd *Node) { dsl.Redirect(str(nd.N), atoi(nd.T)) }},
		"Files": {[]string{"/f", "", "/f/{*p}", "/{a}", "f", "/f/{*p}/x"}, []string{"file.txt", "", "dir/"}, fnsVars, func(x *interp, nd *Node) { dsl.Files(nd.N, nd.T, x.fns(nd)...) }},
		"Message":  blockFn(dsl.Message),
		"Metadata": blockFn(dsl.Metadata),
		"Trailers": blockFn(dsl.Trailers),

		// ---------------------------------------------------------------- methods
		"Method": {[]string{"m1", "m2", "show", ""}, none, fnOnly, func(x *interp, nd *Node) { dsl.Method(nd.N, x.fn1(nd)) }},
		"Payload":          {none, methodTypes, attrVars, func(x *interp, nd *Node) { x.methodTypeCall(dsl.Payload, nd) }},
		"StreamingPayload": {none, methodTypes, attrVars, func(x *interp, nd *Node) { x.methodTypeCall(dsl.StreamingPayload, nd) }},
		"Result":           {none, methodTypes, attrVars, func(x *interp, nd *Node) { x.methodTypeCall(dsl.Result, nd) }},
		"StreamingResult":  {none, methodTypes, attrVars, func(x *interp, nd *Node) { x.methodTypeCall(dsl.StreamingResult, nd) }},
		"Error": {[]string{"e1", "e2", "zz", ""}, attrTypes, attrVars, func(x *interp, nd *Node) { dsl.Error(nd.N, x.attrArgs(nd)...) }},
		"ErrorName": {[]string{"a", "b", "", "-"}, []string{"-", "String", "Int", "T1"}, []string{"fn", "plain", "nilfn", "pos", "posfew", "badpos"}, func(x *interp, nd *Node) {
			var args []any
			switch nd.V {
			case "pos":
				args = append(args, 1)
			case "posfew":
				dsl.ErrorName(1)
				return
			case "badpos":
				args = append(args, 1, 2)
			}
			if nd.N == "-" {
				if len(args) == 0 {
					dsl.ErrorName()
					return
				}
			} else {
				args = append(args, nd.N)
			}
			if nd.T != "-" {
				args = append(args, x.typ(nd.T))
			}
			switch nd.V {
			case "fn":
				args = append(args, x.body(nd))
			case "nilfn":
				args = append(args, (func())(nil))
			}
			dsl.ErrorName(args...)
		}},
		"Temporary": noArg(dsl.Temporary), "Timeout": noArg(dsl.Timeout), "Fault": noArg(dsl.Fault),
		"Security": {[]string{"sc1", "sc2", "nosuch", "", "-", "vsc1", "vsc2", "vnil", "wrong", "two"}, none, []string{"fn", "plain", "nilfn"}, func(x *interp, nd *Node) {
			var args []any
			switch nd.N {
			case "-":
			case "vsc1":
				args = append(args, x.schemes["sc1"])
			case "vsc2":
				args = append(args, x.schemes["sc2"])
			case "vnil":
				args = append(args, nil)
			case "wrong":
				args = append(args, 42)
			case "two":
				args = append(args, "sc1", "sc2")
			default:
				args = append(args, nd.N)
			}
			switch nd.V {
			case "fn":
				args = append(args, x.body(nd))
			case "nilfn":
				args = append(args, (func())(nil))
			}
			dsl.Security(args...)
		}},
		"NoSecurity": noArg(dsl.NoSecurity),
		"Scope": {[]string{"api:read", "api:write", "nosuch", ""}, none, []string{"plain", "desc", "many"}, func(x *interp, nd *Node) {
			switch nd.V {
			case "desc":
				dsl.Scope(nd.N, "a description")
			case "many":
				dsl.Scope(nd.N, "a description", "another")
			default:
				dsl.Scope(nd.N)
			}
		}},
		"AuthorizationCodeFlow": flow3(dsl.AuthorizationCodeFlow),
		"ImplicitFlow":          flow2(dsl.ImplicitFlow),
		"PasswordFlow":          flow2(dsl.PasswordFlow),
		"ClientCredentialsFlow": flow2(dsl.ClientCredentialsFlow),

		// ---------------------------------------------------------------- attributes and types
		"Attribute":   attrLike(dsl.Attribute),
		"Field":       fieldLike(dsl.Field),
		"Username":    attrLike(dsl.Username),
		"Password":    attrLike(dsl.Password),
		"AccessToken": attrLike(dsl.AccessToken),
		"Token":       attrLike(dsl.Token),
		"APIKey": {attrNames, attrTypes, append([]string{"badscheme"}, attrVars...), func(x *interp, nd *Node) {
			scheme := "sc1"
			v := nd.V
			if v == "badscheme" {
				scheme, v = "nosuch", "plain"
			}
			dsl.APIKey(scheme, nd.N, x.attrArgs(&Node{N: nd.N, T: nd.T, V: v, kids: nd.kids})...)
		}},
		"UsernameField":    fieldLike(dsl.UsernameField),
		"PasswordField":    fieldLike(dsl.PasswordField),
		"AccessTokenField": fieldLike(dsl.AccessTokenField),
		"TokenField":       fieldLike(dsl.TokenField),
		"APIKeyField": {attrNames, attrTypes, fieldVars, func(x *interp, nd *Node) { dsl.APIKeyField(tagOf(nd), "sc1", nd.N, x.attrArgs(nd)...) }},
		"OneOf": {[]string{"a", "b", "u", ""}, none, []string{"fn", "descfn", "nilfn", "few", "many", "desc", "baddesc"}, func(x *interp, nd *Node) {
			switch nd.V {
			case "baddesc":
				dsl.OneOf(nd.N, 42, x.body(nd))
			default:
				dsl.OneOf(nd.N, x.tail(nd)...)
			}
		}},
		"Required": {[]string{"a", "b", "zz", "", "-", "two"}, none, []string{"plain"}, func(x *interp, nd *Node) {
			switch nd.N {
			case "-":
				dsl.Required()
			case "two":
				dsl.Required("a", "zz")
			default:
				dsl.Required(nd.N)
			}
		}},
		"Default": boundFn(dsl.Default),
		"Value":   boundFn(dsl.Value),
		"Example": {none, valToks, []string{"plain", "summary", "fn", "summaryfn", "nilfn", "few", "many", "badsummary"}, func(x *interp, nd *Node) {
			switch nd.V {
			case "plain":
				dsl.Example(val(nd.T))
			case "summary":
				dsl.Example("a summary", val(nd.T))
			case "fn":
				dsl.Example(x.body(nd))
			case "summaryfn":
				dsl.Example("a summary", x.body(nd))
			case "nilfn":
				dsl.Example((func())(nil))
			case "few":
				dsl.Example()
			case "many":
				dsl.Example("a summary", val(nd.T), 3)
			case "badsummary":
				dsl.Example(42, val(nd.T))
			}
		}},
		"Enum": {none, []string{"s", "i", "f", "mixed", "none", "nil", "arr", "bytes", "map", "dup", "mapval", "arrval"}, []string{"plain"}, func(x *interp, nd *Node) {
			switch nd.T {
			case "s":
				dsl.Enum("x", "y")
			case "i":
				dsl.Enum(1, 2)
			case "f":
				dsl.Enum(1.5, 2.5)
			case "mixed":
				dsl.Enum("x", 1, nil)
			case "none":
				dsl.Enum()
			case "nil":
				dsl.Enum(nil)
			case "dup":
				dsl.Enum("x", "x")
			default:
				dsl.Enum(val(nd.T))
			}
		}},
		"Format": textFn(func(s string) { dsl.Format(expr.ValidationFormat(s)) }, "date", "date-time", "uuid", "email", "hostname", "ipv4", "ipv6", "ip", "uri", "mac", "cidr", "regexp", "json", "rfc1123", "nosuch", ""),
		"Pattern":          textFn(dsl.Pattern, "^a+$", "(", "", "odd", "[z-a]"),
		"Minimum":          boundFn(dsl.Minimum),
		"Maximum":          boundFn(dsl.Maximum),
		"ExclusiveMinimum": boundFn(dsl.ExclusiveMinimum),
		"ExclusiveMaximum": boundFn(dsl.ExclusiveMaximum),
		"MinLength": {[]string{"1", "0", "-1", "5"}, none, []string{"plain"}, func(x *interp, nd *Node) { dsl.MinLength(atoi(nd.N)) }},
		"MaxLength": {[]string{"1", "0", "-1", "5"}, none, []string{"plain"}, func(x *interp, nd *Node) { dsl.MaxLength(atoi(nd.N)) }},
		"Meta": {[]string{"k", "", "struct:pkg:path", "struct:field:name", "struct:field:type", "struct:field:external", "struct:field:proto", "struct:name:proto", "struct:tag:json", "struct:error:name", "struct:type:name",
			"type:generate:force", "protoc:include", "openapi:generate", "openapi:summary", "openapi:operationId", "openapi:tag:x", "openapi:example", "openapi:json:schema",
			"openapi:extension:x-api", "openapi:typename", "swagger:generate", "swagger:example", "swagger:extension:x-api", "swagger:tag:x", "view", "rpc:tag"},
			[]string{"v", "-", "two", "false", "types", "json", "int", "empty"}, []string{"plain"}, func(x *interp, nd *Node) {
				switch nd.T {
				case "-":
					dsl.Meta(nd.N)
				case "two":
					dsl.Meta(nd.N, "v1", "v2")
				case "false":
					dsl.Meta(nd.N, "false")
				case "types":
					dsl.Meta(nd.N, "types")
				case "json":
					dsl.Meta(nd.N, `{"x":1}`)
				case "int":
					dsl.Meta(nd.N, "int64", "time", "time.Time")
				case "empty":
					dsl.Meta(nd.N, "")
				default:
					dsl.Meta(nd.N, "v")
				}
			}},
		"Extend":    {none, []string{"T1", "T2", "R1", "R2", "String", "ArrS", "MapSS", "Empty", "ErrorResult", "nil", "CollR1"}, []string{"plain"}, func(x *interp, nd *Node) { dsl.Extend(dt(x.typ(nd.T))) }},
		"Reference": {none, []string{"T1", "T2", "R1", "R2", "String", "ArrS", "MapSS", "Empty", "ErrorResult", "nil", "CollR1"}, []string{"plain"}, func(x *interp, nd *Node) { dsl.Reference(dt(x.typ(nd.T))) }},
		"ConvertTo":  {none, []string{"struct", "ptr", "nil", "int", "string", "slice", "map", "func"}, []string{"plain"}, func(x *interp, nd *Node) { dsl.ConvertTo(convVal(nd.T)) }},
		"CreateFrom": {none, []string{"struct", "ptr", "nil", "int", "string", "slice", "map", "func"}, []string{"plain"}, func(x *interp, nd *Node) { dsl.CreateFrom(convVal(nd.T)) }},
		"TypeName":   textFn(dsl.TypeName, "Renamed", "", "T2", "odd", "R1"),
		"View": {[]string{"default", "tiny", "nov", ""}, none, fnsVars, func(x *interp, nd *Node) { dsl.View(nd.N, x.fns(nd)...) }},
		"Attributes": blockFn(dsl.Attributes),
		"Key":        blockFn(dsl.Key),
		"Elem":       blockFn(dsl.Elem),
	}
	for _, sp := range table {
		if sp.call == nil {
			panic("table entry without call")
		}
	}
}

// dt converts the value of a type token to the static parameter type expr.DataType of Extend/Reference
// (a non-DataType token cannot be written in Go for these functions and is outside the table).
func dt(v any) expr.DataType {
	if v == nil {
		return nil
	}
	d, ok := v.(expr.DataType)
	if !ok {
		bad("not a DataType: %T", v)
	}
	return d
}

func convVal(tok string) any {
	one := 1
	switch tok {
	case "struct":
		return convTarget{}
	case "ptr":
		return &convTarget{B: &one}
	case "nil":
		return nil
	case "int":
		return 42
	case "string":
		return "a string"
	case "slice":
		return []convTarget{}
	case "map":
		return map[string]convTarget{}
	case "func":
		return func() {}
	}
	bad("conversion token %q", tok)
	return nil
}

// tableJSON describes the table (for the consistency check against the TLA+ function table).
func tableJSON() map[string]map[string][]string {
	out := map[string]map[string][]string{}
	for f, sp := range table {
		out[f] = map[string][]string{"n": sorted(sp.names), "t": sorted(sp.types), "v": sorted(sp.vars)}
	}
	return out
}

func sorted(s []string) []string {
	c := append([]string{}, s...)
	sort.Strings(c)
	return c
}
