// genhost: abstract design JSON -> real goa DSL calls -> eval.RunDSL -> generator.Generate.
// One design per process (goa keeps process-global state). Prints one JSON event per stage on stdout.
package main

import (
	"encoding/json"
	"flag"
	"fmt"
	"os"
	"runtime/debug"

	"goa.design/goa/v3/codegen/generator"
	"goa.design/goa/v3/eval"

	"verif/harness/design"
	"verif/harness/dslbuild"
)

type event struct {
	Ev      string   `json:"ev"`
	Outcome string   `json:"outcome"` // ok | errors | error | panic
	NErrs   int      `json:"nErrs,omitempty"`
	Errors  []string `json:"errors,omitempty"`
	Detail  string   `json:"detail,omitempty"`
	Files   []string `json:"files,omitempty"`
}

func emit(e event) {
	b, _ := json.Marshal(e)
	fmt.Println(string(b))
}

func stage(name string, f func() ([]string, error)) (ok bool) {
	defer func() {
		if r := recover(); r != nil {
			emit(event{Ev: name, Outcome: "panic", Detail: fmt.Sprintf("%v\n%s", r, debug.Stack())})
			ok = false
		}
	}()
	files, err := f()
	if err != nil {
		emit(event{Ev: name, Outcome: "error", Detail: err.Error()})
		return false
	}
	emit(event{Ev: name, Outcome: "ok", Files: files})
	return true
}

func main() {
	in := flag.String("design", "", "abstract design JSON file")
	out := flag.String("out", "", "output directory (inside a Go module)")
	cmds := flag.String("cmds", "gen", "comma separated: gen,example")
	flag.Parse()
	raw, err := os.ReadFile(*in)
	if err != nil {
		fmt.Fprintln(os.Stderr, err)
		os.Exit(3)
	}
	var d design.Design
	if err := json.Unmarshal(raw, &d); err != nil {
		fmt.Fprintln(os.Stderr, "bad design:", err)
		os.Exit(3)
	}
	okDSL := stage("dsl", func() ([]string, error) { dslbuild.Build(&d); return nil, nil })
	if !okDSL {
		return
	}
	evalOK := false
	func() {
		defer func() {
			if r := recover(); r != nil {
				emit(event{Ev: "eval", Outcome: "panic", Detail: fmt.Sprintf("%v\n%s", r, debug.Stack())})
			}
		}()
		if err := eval.RunDSL(); err != nil {
			var msgs []string
			n := 1
			if me, ok := err.(eval.MultiError); ok {
				n = len(me)
				for _, e := range me {
					msgs = append(msgs, e.Error())
				}
			} else {
				msgs = []string{err.Error()}
			}
			emit(event{Ev: "eval", Outcome: "errors", NErrs: n, Errors: msgs})
			return
		}
		emit(event{Ev: "eval", Outcome: "ok"})
		evalOK = true
	}()
	if !evalOK {
		return
	}
	if err := os.MkdirAll(*out, 0o755); err != nil {
		fmt.Fprintln(os.Stderr, err)
		os.Exit(3)
	}
	for _, c := range splitComma(*cmds) {
		c := c
		if !stage(c, func() ([]string, error) { return generator.Generate(*out, c) }) {
			return
		}
	}
}

func splitComma(s string) []string {
	var out []string
	cur := ""
	for _, r := range s {
		if r == ',' {
			if cur != "" {
				out = append(out, cur)
			}
			cur = ""
			continue
		}
		cur += string(r)
	}
	if cur != "" {
		out = append(out, cur)
	}
	return out
}
