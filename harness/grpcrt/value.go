// Package grpcrt is the runner runtime linked with goa-generated gRPC code: it builds concrete Go
// values by reflection from JSON data, drives the generated client through an in-process connection
// into the generated server (no network, no wire format: the pb types are fakeprotoc stand-ins) and
// records what happens as plain JSON.  It contains no goa logic: it only fills structs, calls
// functions and dumps values.
package grpcrt

import (
	"encoding/base64"
	"encoding/json"
	"fmt"
	"math"
	"reflect"
	"sort"
	"strconv"
	"strings"
)

func norm(s string) string { return strings.ToLower(strings.ReplaceAll(s, "_", "")) }

// union alternatives (named types of the service packages that carry an unexported marker method)
var unionAlts []reflect.Type

// UnionAlt registers a named type that implements some union marker interface.
func UnionAlt(t reflect.Type) { unionAlts = append(unionAlts, t) }

// Dump converts any Go value into JSON-like data: structs become maps keyed by the normalised field
// name, nil pointers become nil, []byte becomes {"$bytes": base64}, maps {"$map": {...}}, values held
// in a non-empty interface (goa unions, protobuf oneof wrappers) {"$union": TypeName, "value": ...}.
func Dump(v any) any {
	if v == nil {
		return nil
	}
	return dump(reflect.ValueOf(v), 0)
}

func dump(v reflect.Value, depth int) any {
	if depth > 14 {
		return "$deep"
	}
	switch v.Kind() {
	case reflect.Invalid:
		return nil
	case reflect.Interface:
		if v.IsNil() {
			return nil
		}
		if v.Type().NumMethod() > 0 {
			e := v.Elem()
			t := e.Type()
			for t.Kind() == reflect.Ptr {
				t = t.Elem()
			}
			return map[string]any{"$union": t.Name(), "value": dump(e, depth+1)}
		}
		return dump(v.Elem(), depth+1)
	case reflect.Ptr:
		if v.IsNil() {
			return nil
		}
		return dump(v.Elem(), depth+1)
	case reflect.Struct:
		m := map[string]any{}
		t := v.Type()
		for i := 0; i < t.NumField(); i++ {
			if !t.Field(i).IsExported() {
				continue
			}
			m[norm(t.Field(i).Name)] = dump(v.Field(i), depth+1)
		}
		return m
	case reflect.Slice:
		if v.IsNil() {
			return nil
		}
		if v.Type().Elem().Kind() == reflect.Uint8 {
			return map[string]any{"$bytes": base64.StdEncoding.EncodeToString(v.Bytes())}
		}
		out := make([]any, v.Len())
		for i := range out {
			out[i] = dump(v.Index(i), depth+1)
		}
		return out
	case reflect.Array:
		out := make([]any, v.Len())
		for i := range out {
			out[i] = dump(v.Index(i), depth+1)
		}
		return out
	case reflect.Map:
		if v.IsNil() {
			return nil
		}
		m := map[string]any{}
		it := v.MapRange()
		for it.Next() {
			m[keyString(it.Key())] = dump(it.Value(), depth+1)
		}
		return map[string]any{"$map": m}
	case reflect.Bool:
		return v.Bool()
	case reflect.Int, reflect.Int8, reflect.Int16, reflect.Int32, reflect.Int64:
		return json.Number(strconv.FormatInt(v.Int(), 10))
	case reflect.Uint, reflect.Uint8, reflect.Uint16, reflect.Uint32, reflect.Uint64:
		return json.Number(strconv.FormatUint(v.Uint(), 10))
	case reflect.Float32, reflect.Float64:
		f := v.Float()
		if math.IsNaN(f) || math.IsInf(f, 0) {
			return fmt.Sprint(f)
		}
		if v.Kind() == reflect.Float32 {
			return json.Number(strconv.FormatFloat(f, 'g', -1, 32))
		}
		return json.Number(strconv.FormatFloat(f, 'g', -1, 64))
	case reflect.String:
		return v.String()
	}
	return fmt.Sprintf("$unsupported:%s", v.Kind())
}

func keyString(k reflect.Value) string {
	switch x := dump(k, 0).(type) {
	case string:
		return x
	case json.Number:
		return x.String()
	case bool:
		return strconv.FormatBool(x)
	default:
		b, _ := json.Marshal(x)
		return string(b)
	}
}

// Fill sets v (addressable) from JSON-like data (encoding/json with UseNumber) following the
// conventions of Dump.  A nil datum leaves pointers / slices / maps / unions nil and values zero.
func Fill(v reflect.Value, data any) error {
	if data == nil {
		return nil
	}
	switch v.Kind() {
	case reflect.Ptr:
		if v.IsNil() {
			v.Set(reflect.New(v.Type().Elem()))
		}
		return Fill(v.Elem(), data)
	case reflect.Interface:
		if v.Type().NumMethod() == 0 {
			return fmt.Errorf("cannot fill an empty interface")
		}
		m, ok := data.(map[string]any)
		if !ok {
			return fmt.Errorf("union %s needs {\"$union\":..,\"value\":..}, got %T", v.Type(), data)
		}
		name, _ := m["$union"].(string)
		var found []reflect.Type
		for _, t := range unionAlts {
			tn := t.Name()
			if t.Kind() == reflect.Ptr {
				tn = t.Elem().Name()
			}
			if t.Implements(v.Type()) && strings.HasSuffix(norm(tn), norm(name)) {
				found = append(found, t)
			}
		}
		if len(found) != 1 {
			return fmt.Errorf("union %s: %d registered alternatives match %q", v.Type(), len(found), name)
		}
		alt := reflect.New(found[0]).Elem()
		if err := Fill(alt, m["value"]); err != nil {
			return err
		}
		v.Set(alt)
		return nil
	case reflect.Struct:
		m, ok := data.(map[string]any)
		if !ok {
			return fmt.Errorf("struct %s needs an object, got %T", v.Type(), data)
		}
		t := v.Type()
		used := 0
		for i := 0; i < t.NumField(); i++ {
			if !t.Field(i).IsExported() {
				continue
			}
			d, ok := m[norm(t.Field(i).Name)]
			if !ok {
				continue
			}
			used++
			if err := Fill(v.Field(i), d); err != nil {
				return fmt.Errorf("%s.%s: %w", t.Name(), t.Field(i).Name, err)
			}
		}
		if used != len(m) {
			ks := make([]string, 0, len(m))
			for k := range m {
				ks = append(ks, k)
			}
			sort.Strings(ks)
			return fmt.Errorf("struct %s: %d of %d keys matched a field (%v)", t, used, len(m), ks)
		}
		return nil
	case reflect.Slice:
		if v.Type().Elem().Kind() == reflect.Uint8 {
			if m, ok := data.(map[string]any); ok {
				s, _ := m["$bytes"].(string)
				b, err := base64.StdEncoding.DecodeString(s)
				if err != nil {
					return err
				}
				if b == nil {
					b = []byte{}
				}
				v.SetBytes(b)
				return nil
			}
		}
		l, ok := data.([]any)
		if !ok {
			return fmt.Errorf("slice %s needs an array, got %T", v.Type(), data)
		}
		s := reflect.MakeSlice(v.Type(), len(l), len(l))
		for i := range l {
			if err := Fill(s.Index(i), l[i]); err != nil {
				return err
			}
		}
		v.Set(s)
		return nil
	case reflect.Map:
		mm, ok := data.(map[string]any)
		if !ok {
			return fmt.Errorf("map %s needs {\"$map\":{}}, got %T", v.Type(), data)
		}
		inner, ok := mm["$map"].(map[string]any)
		if !ok {
			return fmt.Errorf("map %s needs {\"$map\":{}}", v.Type())
		}
		out := reflect.MakeMapWithSize(v.Type(), len(inner))
		for k, d := range inner {
			kv := reflect.New(v.Type().Key()).Elem()
			if err := fillKey(kv, k); err != nil {
				return err
			}
			ev := reflect.New(v.Type().Elem()).Elem()
			if err := Fill(ev, d); err != nil {
				return err
			}
			out.SetMapIndex(kv, ev)
		}
		v.Set(out)
		return nil
	case reflect.Bool:
		b, ok := data.(bool)
		if !ok {
			return fmt.Errorf("bool needs a boolean, got %T", data)
		}
		v.SetBool(b)
		return nil
	case reflect.Int, reflect.Int8, reflect.Int16, reflect.Int32, reflect.Int64:
		n, err := strconv.ParseInt(numString(data), 10, v.Type().Bits())
		if err != nil {
			return err
		}
		v.SetInt(n)
		return nil
	case reflect.Uint, reflect.Uint8, reflect.Uint16, reflect.Uint32, reflect.Uint64:
		n, err := strconv.ParseUint(numString(data), 10, v.Type().Bits())
		if err != nil {
			return err
		}
		v.SetUint(n)
		return nil
	case reflect.Float32, reflect.Float64:
		f, err := strconv.ParseFloat(numString(data), 64)
		if err != nil {
			return err
		}
		v.SetFloat(f)
		return nil
	case reflect.String:
		s, ok := data.(string)
		if !ok {
			return fmt.Errorf("string needs a string, got %T", data)
		}
		v.SetString(s)
		return nil
	}
	return fmt.Errorf("cannot fill %s", v.Kind())
}

func fillKey(kv reflect.Value, k string) error {
	switch kv.Kind() {
	case reflect.String:
		kv.SetString(k)
		return nil
	case reflect.Int, reflect.Int8, reflect.Int16, reflect.Int32, reflect.Int64:
		n, err := strconv.ParseInt(k, 10, 64)
		kv.SetInt(n)
		return err
	case reflect.Uint, reflect.Uint8, reflect.Uint16, reflect.Uint32, reflect.Uint64:
		n, err := strconv.ParseUint(k, 10, 64)
		kv.SetUint(n)
		return err
	case reflect.Bool:
		kv.SetBool(k == "true")
		return nil
	case reflect.Float32, reflect.Float64:
		f, err := strconv.ParseFloat(k, 64)
		kv.SetFloat(f)
		return err
	}
	return fmt.Errorf("unsupported map key kind %s", kv.Kind())
}

func numString(d any) string {
	switch x := d.(type) {
	case json.Number:
		return x.String()
	case float64:
		return strconv.FormatFloat(x, 'f', -1, 64)
	case string:
		return x
	}
	return fmt.Sprint(d)
}
