package grpcrt

import (
	"bufio"
	"bytes"
	"context"
	"encoding/json"
	"errors"
	"flag"
	"fmt"
	"os"
	"reflect"
	"sort"
	"strings"
	"sync"
	"time"

	goagrpc "goa.design/goa/v3/grpc"
	goapb "goa.design/goa/v3/grpc/pb"
	goa "goa.design/goa/v3/pkg"
	"google.golang.org/grpc"
	"google.golang.org/grpc/codes"
	"google.golang.org/grpc/metadata"
	"google.golang.org/grpc/status"
)

type (
	// Service is what the generated glue registers for one goa service.
	Service struct {
		Name         string
		Stub         any                                         // implements <svc>.Service
		NewEndpoints func(stub any) any                          // <svc>.NewEndpoints
		NewServer    func(eps any) any                           // <svc>server.New(eps, nil...)
		Register     func(reg grpc.ServiceRegistrar, srv any)    // <svc>pb.Register<Svc>Server
		SetConn      func(cc grpc.ClientConnInterface)           // <svc>pb.VerifConn = cc
		link         *link
		NewClient    func() any                                  // <svc>client.NewClient(nil)
		MakeErr      map[string]func(error) *goa.ServiceError    // <svc>.Make<Name>
		Methods      []string                                    // Go method names of the Service interface
	}

	// Scenario is one exchange to run.
	Scenario struct {
		ID      string          `json:"id"`
		Service string          `json:"service"`
		Method  string          `json:"method"` // Go method name
		Payload json.RawMessage `json:"payload,omitempty"`
		Outcome *Outcome        `json:"outcome,omitempty"`
		// Raw, when set, is sent instead of calling the generated client: a request message (field data for the
		// stand-in pb request type, unset fields simply missing) and metadata handed straight to the server side.
		Raw *RawRequest `json:"raw,omitempty"`
	}
	RawRequest struct {
		Msg      json.RawMessage     `json:"msg,omitempty"`
		Metadata map[string][]string `json:"metadata,omitempty"`
	}
	rawArgs struct{ data any }
	Outcome struct {
		Kind    string          `json:"kind"` // result | error
		Value   json.RawMessage `json:"value,omitempty"`
		ErrKind string          `json:"errKind,omitempty"` // make | service | plain
		ErrName string          `json:"errName,omitempty"`
		Msg     string          `json:"msg,omitempty"`
	}

	Event map[string]any

	scnState struct {
		scn    *Scenario
		mu     sync.Mutex
		events []Event
	}
	ctxKey int

	registered struct {
		desc *grpc.ServiceDesc
		impl any
	}
	// Runtime holds the registered services.
	Runtime struct {
		services map[string]*Service
		clients  map[string]any
	}
	// link is the in-process "transport" of one service: it implements grpc.ServiceRegistrar (server side)
	// and grpc.ClientConnInterface (client side).
	link struct {
		byName map[string]*registered // proto service full name -> descriptor + implementation
	}
)

const scnKey ctxKey = 1

var theRT = &Runtime{services: map[string]*Service{}, clients: map[string]any{}}

func (s *scnState) add(e Event) {
	s.mu.Lock()
	s.events = append(s.events, e)
	s.mu.Unlock()
}

func stateOf(ctx context.Context) *scnState {
	s, _ := ctx.Value(scnKey).(*scnState)
	return s
}

func Fatal(format string, a ...any) {
	fmt.Fprintf(os.Stderr, "grpcrunner: "+format+"\n", a...)
	os.Exit(3)
}

func Register(s *Service) { theRT.services[s.Name] = s }

// ---- stub side ---------------------------------------------------------------------------------

// Invoked is called by the generated stub methods: records the delivered payload, returns the scripted outcome.
func Invoked(ctx context.Context, svc, method string, payload any, resType reflect.Type) (res any, err error) {
	st := stateOf(ctx)
	if st == nil {
		return nil, errors.New("verif: no scenario in context")
	}
	ev := Event{"ev": "invoke", "service": svc, "method": method}
	if payload != nil {
		ev["payload"] = Dump(payload)
		ev["hasPayload"] = true
	}
	st.add(ev)
	o := st.scn.Outcome
	if o == nil {
		o = &Outcome{Kind: "result"}
	}
	switch o.Kind {
	case "result":
		if resType != nil && len(o.Value) > 0 && string(o.Value) != "null" {
			v := reflect.New(resType).Elem()
			if e := Fill(v, decodeJSON(o.Value)); e != nil {
				Fatal("scenario %s: cannot build result %s: %v", st.scn.ID, resType, e)
			}
			res = v.Interface()
		} else if resType != nil && resType.Kind() == reflect.Ptr {
			res = reflect.New(resType.Elem()).Interface()
		}
		st.add(Event{"ev": "service_return", "kind": "result", "value": Dump(res)})
		return res, nil
	case "error":
		msg := o.Msg
		if msg == "" {
			msg = "boom"
		}
		switch o.ErrKind {
		case "make":
			mk, ok := theRT.services[svc].MakeErr[norm(o.ErrName)]
			if !ok {
				Fatal("no Make function for error %q", o.ErrName)
			}
			err = mk(errors.New(msg))
		case "service":
			err = &goa.ServiceError{Name: o.ErrName, ID: "id1", Message: msg}
		default:
			err = errors.New(msg)
		}
		st.add(Event{"ev": "service_return", "kind": "error", "errKind": o.ErrKind, "errName": o.ErrName})
		return nil, err
	}
	Fatal("unknown outcome kind %q", o.Kind)
	return nil, nil
}

func decodeJSON(raw []byte) any {
	var data any
	dec := json.NewDecoder(bytes.NewReader(raw))
	dec.UseNumber()
	if err := dec.Decode(&data); err != nil {
		Fatal("bad JSON: %v", err)
	}
	return data
}

// ---- in-process transport ----------------------------------------------------------------------

// RegisterService implements grpc.ServiceRegistrar.
func (rt *link) RegisterService(desc *grpc.ServiceDesc, impl any) {
	rt.byName[desc.ServiceName] = &registered{desc: desc, impl: impl}
}

type transportStream struct {
	method  string
	mu      sync.Mutex
	header  metadata.MD
	trailer metadata.MD
	sent    int
}

func (t *transportStream) Method() string { return t.method }
func (t *transportStream) SetHeader(md metadata.MD) error {
	t.mu.Lock()
	t.header = metadata.Join(t.header, md)
	t.mu.Unlock()
	return nil
}
func (t *transportStream) SendHeader(md metadata.MD) error {
	t.mu.Lock()
	t.header = metadata.Join(t.header, md)
	t.sent++
	t.mu.Unlock()
	return nil
}
func (t *transportStream) SetTrailer(md metadata.MD) error {
	t.mu.Lock()
	t.trailer = metadata.Join(t.trailer, md)
	t.mu.Unlock()
	return nil
}

func mdMap(md metadata.MD) map[string][]string {
	out := map[string][]string{}
	for k, v := range md {
		out[k] = append([]string{}, v...)
	}
	return out
}

func statusInfo(err error) map[string]any {
	info := map[string]any{"message": err.Error(), "type": fmt.Sprintf("%T", err)}
	if st, ok := status.FromError(err); ok {
		info["code"] = st.Code().String()
		info["statusMessage"] = st.Message()
		if d := goagrpc.DecodeError(err); d != nil {
			if er, ok := d.(*goapb.ErrorResponse); ok {
				info["name"] = er.Name
				info["detail"] = map[string]any{"name": er.Name, "id": er.Id, "msg": er.Msg, "timeout": er.Timeout, "temporary": er.Temporary, "fault": er.Fault}
			}
		}
	}
	var se *goa.ServiceError
	if errors.As(err, &se) {
		info["name"] = se.Name
		info["service"] = map[string]any{"name": se.Name, "message": se.Message, "timeout": se.Timeout, "temporary": se.Temporary, "fault": se.Fault}
	}
	return info
}

// Invoke implements grpc.ClientConnInterface: the request message and the outgoing metadata are handed
// to the registered service implementation through the handler of its service descriptor, exactly as
// grpc.Server would after reading them from the wire; the response message, headers and trailers come
// back the same way.
func (rt *link) Invoke(ctx context.Context, method string, args any, reply any, opts ...grpc.CallOption) error {
	st := stateOf(ctx)
	if st == nil {
		return status.Error(codes.Internal, "verif: no scenario in context")
	}
	md, _ := metadata.FromOutgoingContext(ctx)
	raw, isRaw := args.(*rawArgs)
	if !isRaw {
		st.add(Event{"ev": "client_encode", "fullMethod": method, "msgType": fmt.Sprintf("%T", args), "msg": Dump(args), "metadata": mdMap(md)})
	}
	parts := strings.Split(strings.TrimPrefix(method, "/"), "/")
	if len(parts) != 2 {
		return status.Errorf(codes.Unimplemented, "malformed method name %q", method)
	}
	reg := rt.byName[parts[0]]
	if reg == nil {
		return status.Errorf(codes.Unimplemented, "unknown service %s", parts[0])
	}
	var mdesc *grpc.MethodDesc
	for i := range reg.desc.Methods {
		if reg.desc.Methods[i].MethodName == parts[1] {
			mdesc = &reg.desc.Methods[i]
		}
	}
	if mdesc == nil {
		return status.Errorf(codes.Unimplemented, "unknown method %s for service %s", parts[1], parts[0])
	}
	ts := &transportStream{method: method}
	sctx := context.WithValue(context.Background(), scnKey, st)
	sctx = metadata.NewIncomingContext(sctx, md.Copy())
	sctx = grpc.NewContextWithServerTransportStream(sctx, ts)
	dec := func(v any) error {
		if isRaw {
			// a raw request: the handler's own (zero) request message is filled from the scenario data
			if err := Fill(reflect.ValueOf(v).Elem(), raw.data); err != nil {
				Fatal("scenario %s: cannot build raw request %T: %v", st.scn.ID, v, err)
			}
			st.add(Event{"ev": "client_encode", "raw": true, "fullMethod": method, "msgType": fmt.Sprintf("%T", v), "msg": Dump(v), "metadata": mdMap(md)})
			return nil
		}
		src := reflect.ValueOf(args)
		dst := reflect.ValueOf(v)
		if src.Type() != dst.Type() || src.Kind() != reflect.Ptr {
			return status.Errorf(codes.Internal, "verif: request type %T does not match handler type %T", args, v)
		}
		if !src.IsNil() {
			dst.Elem().Set(src.Elem())
		}
		return nil
	}
	var (
		resp any
		err  error
	)
	func() {
		defer func() {
			if r := recover(); r != nil {
				st.add(Event{"ev": "server_panic", "detail": fmt.Sprint(r)})
				err = status.Errorf(codes.Internal, "panic: %v", r)
			}
		}()
		resp, err = mdesc.Handler(reg.impl, sctx, dec, nil)
	}()
	for _, o := range opts {
		switch x := o.(type) {
		case grpc.HeaderCallOption:
			if x.HeaderAddr != nil {
				*x.HeaderAddr = ts.header.Copy()
			}
		case grpc.TrailerCallOption:
			if x.TrailerAddr != nil {
				*x.TrailerAddr = ts.trailer.Copy()
			}
		}
	}
	if err != nil {
		st.add(Event{"ev": "server_return", "kind": "error", "err": statusInfo(err), "headers": mdMap(ts.header), "trailers": mdMap(ts.trailer)})
		if _, ok := status.FromError(err); !ok {
			err = status.Error(codes.Unknown, err.Error())
		}
		return err
	}
	st.add(Event{"ev": "server_encode", "msgType": fmt.Sprintf("%T", resp), "msg": Dump(resp), "headers": mdMap(ts.header), "trailers": mdMap(ts.trailer), "sendHeaderCalls": ts.sent})
	if reply == nil {
		return nil
	}
	src, dst := reflect.ValueOf(resp), reflect.ValueOf(reply)
	if src.IsValid() && src.Kind() == reflect.Ptr && !src.IsNil() {
		if src.Type() != dst.Type() {
			return status.Errorf(codes.Internal, "verif: response type %T does not match reply type %T", resp, reply)
		}
		dst.Elem().Set(src.Elem())
	}
	return nil
}

// NewStream implements grpc.ClientConnInterface. Streams are not wired in this stand-in transport.
func (rt *link) NewStream(ctx context.Context, desc *grpc.StreamDesc, method string, opts ...grpc.CallOption) (grpc.ClientStream, error) {
	if st := stateOf(ctx); st != nil {
		st.add(Event{"ev": "stream_unsupported", "fullMethod": method})
	}
	return nil, status.Error(codes.Unimplemented, "verif: streams are not wired in the stand-in transport")
}

// ---- running -----------------------------------------------------------------------------------

func (rt *Runtime) mount() {
	names := make([]string, 0, len(rt.services))
	for n := range rt.services {
		names = append(names, n)
	}
	sort.Strings(names)
	for _, n := range names {
		s := rt.services[n]
		eps := s.NewEndpoints(s.Stub)
		srv := s.NewServer(eps)
		l := &link{byName: map[string]*registered{}}
		s.link = l
		s.Register(l, srv)
		s.SetConn(l)
		rt.clients[n] = s.NewClient()
	}
}

func errInfo(err error) any {
	if err == nil {
		return nil
	}
	info := statusInfo(err)
	var namer goa.GoaErrorNamer
	if errors.As(err, &namer) {
		info["name"] = namer.GoaErrorName()
	}
	return info
}

func payloadType(s *Service, method string) reflect.Type {
	m, ok := reflect.TypeOf(s.Stub).MethodByName(method)
	if !ok {
		Fatal("stub of %s has no method %s", s.Name, method)
	}
	for i := 2; i < m.Type.NumIn(); i++ { // receiver, ctx, [payload], [stream]
		t := m.Type.In(i)
		if t.Kind() == reflect.Interface && t.NumMethod() > 0 {
			continue
		}
		return t
	}
	return nil
}

func (rt *Runtime) runOne(scn *Scenario) map[string]any {
	st := &scnState{scn: scn}
	func() {
		defer func() {
			if r := recover(); r != nil {
				st.add(Event{"ev": "client_panic", "detail": fmt.Sprint(r)})
			}
		}()
		s, ok := rt.services[scn.Service]
		if !ok {
			Fatal("scenario %s: unknown service %q", scn.ID, scn.Service)
		}
		if scn.Raw != nil {
			var data any = map[string]any{}
			if len(scn.Raw.Msg) > 0 && string(scn.Raw.Msg) != "null" {
				data = decodeJSON(scn.Raw.Msg)
			}
			ctx := metadata.NewOutgoingContext(context.WithValue(context.Background(), scnKey, st), metadata.MD(scn.Raw.Metadata).Copy())
			st.add(Event{"ev": "client_call", "method": scn.Method, "raw": true})
			for name := range s.link.byName {
				err := s.link.Invoke(ctx, "/"+name+"/"+scn.Method, &rawArgs{data}, nil)
				st.add(Event{"ev": "client_return", "raw": true, "res": nil, "err": errInfo(err)})
			}
			return
		}
		m := reflect.ValueOf(rt.clients[scn.Service]).MethodByName(scn.Method)
		if !m.IsValid() {
			Fatal("scenario %s: client has no endpoint method %q", scn.ID, scn.Method)
		}
		ep := m.Call(nil)[0].Interface().(goa.Endpoint)
		var payload any
		if len(scn.Payload) > 0 && string(scn.Payload) != "null" {
			pt := payloadType(s, scn.Method)
			if pt == nil {
				Fatal("scenario %s: method %s takes no payload", scn.ID, scn.Method)
			}
			v := reflect.New(pt).Elem()
			if err := Fill(v, decodeJSON(scn.Payload)); err != nil {
				Fatal("scenario %s: cannot build payload %s: %v", scn.ID, pt, err)
			}
			payload = v.Interface()
		}
		st.add(Event{"ev": "client_call", "method": scn.Method, "payload": Dump(payload)})
		ctx := context.WithValue(context.Background(), scnKey, st)
		res, err := ep(ctx, payload)
		st.add(Event{"ev": "client_return", "res": Dump(res), "resType": fmt.Sprintf("%T", res), "err": errInfo(err)})
	}()
	return map[string]any{"id": scn.ID, "events": st.events}
}

// Main is called by the generated glue after registering the services.
func Main() {
	in := flag.String("in", "", "scenarios (ndjson)")
	out := flag.String("out", "out.ndjson", "observations (ndjson)")
	flag.Parse()
	theRT.mount()
	fh, err := os.Open(*in)
	if err != nil {
		Fatal("%v", err)
	}
	of, err := os.Create(*out)
	if err != nil {
		Fatal("%v", err)
	}
	w := bufio.NewWriterSize(of, 1<<20)
	sc := bufio.NewScanner(fh)
	sc.Buffer(make([]byte, 1<<20), 1<<28)
	start, n := time.Now(), 0
	for sc.Scan() {
		if len(bytes.TrimSpace(sc.Bytes())) == 0 {
			continue
		}
		var s Scenario
		if err := json.Unmarshal(sc.Bytes(), &s); err != nil {
			Fatal("bad scenario: %v", err)
		}
		b, err := json.Marshal(theRT.runOne(&s))
		if err != nil {
			Fatal("cannot marshal observation: %v", err)
		}
		w.Write(b)
		w.WriteByte('\n')
		n++
	}
	fh.Close()
	w.Flush()
	of.Close()
	fmt.Fprintf(os.Stderr, "grpcrunner: %d scenarios in %s\n", n, time.Since(start))
}
