package rt

// ADD-ONLY extension for C07: `-mounts FILE` records every (service, method, pattern) the generated
// Mount functions hand to the muxer, by wrapping the real goahttp muxer.  Serving is unaffected.

import (
	"encoding/json"
	"flag"
	"net/http"
	"os"
	"sync"

	goahttp "goa.design/goa/v3/http"
)

var mountsOut = flag.String("mounts", "", "write every (service, method, pattern) mounted on the muxer to this file (JSON array)")

type mountRec struct {
	Service string `json:"service"`
	Method  string `json:"method"`
	Pattern string `json:"pattern"`
}

var (
	mountMu   sync.Mutex
	mountRecs = []mountRec{}
)

// recMux records Handle calls and forwards them to the wrapped muxer.
type recMux struct {
	goahttp.Muxer
	svc string
}

func (m *recMux) Handle(method, pattern string, h http.HandlerFunc) {
	mountMu.Lock()
	mountRecs = append(mountRecs, mountRec{Service: m.svc, Method: method, Pattern: pattern})
	mountMu.Unlock()
	m.Muxer.Handle(method, pattern, h)
}

// mountTarget returns the muxer handed to the generated Mount function of service svc.
func mountTarget(mux goahttp.Muxer, svc string) goahttp.Muxer {
	if *mountsOut == "" {
		return mux
	}
	return &recMux{Muxer: mux, svc: svc}
}

func dumpMounts() {
	if *mountsOut == "" {
		return
	}
	b, err := json.Marshal(mountRecs)
	if err != nil {
		Fatal("cannot marshal mounts: %v", err)
	}
	if err := os.WriteFile(*mountsOut, b, 0o644); err != nil {
		Fatal("%v", err)
	}
}
