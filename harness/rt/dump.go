// Package rt is the runner runtime linked with generated goa code: it builds concrete Go
// values by reflection from JSON data, drives the generated client through a tap into the
// generated server mounted on a real goa muxer, and records what happens as plain JSON.
// It contains no goa logic: it only fills structs, calls functions and dumps values.
package rt

import (
	"encoding/base64"
	"encoding/json"
	"fmt"
	"math"
	"reflect"
	"sort"
	"strconv"
	"strings"
)

// norm maps a Go field name or a design attribute name to a common key.
func norm(s string) string {
	return strings.ToLower(strings.ReplaceAll(s, "_", ""))
}

// Dump converts any Go value into JSON-like data: structs become maps keyed by the normalised
// field name, nil pointers become nil, []byte becomes {"$bytes": base64}, nil slices/maps stay nil.
func Dump(v any) any {
	if v == nil {
		return nil
	}
	return dump(reflect.ValueOf(v), 0)
}

func dump(v reflect.Value, depth int) any {
	if depth > 12 {
		return "$deep"
	}
	switch v.Kind() {
	case reflect.Invalid:
		return nil
	case reflect.Ptr, reflect.Interface:
		if v.IsNil() {
			return nil
		}
		return dump(v.Elem(), depth+1)
	case reflect.Struct:
		m := map[string]any{}
		t := v.Type()
		for i := 0; i < t.NumField(); i++ {
			if !t.Field(i).IsExported() {
				continue
			}
			m[norm(t.Field(i).Name)] = dump(v.Field(i), depth+1)
		}
		return m
	case reflect.Slice:
		if v.IsNil() {
			return nil
		}
		if v.Type().Elem().Kind() == reflect.Uint8 {
			return map[string]any{"$bytes": base64.StdEncoding.EncodeToString(v.Bytes())}
		}
		out := make([]any, v.Len())
		for i := range out {
			out[i] = dump(v.Index(i), depth+1)
		}
		return out
	case reflect.Array:
		out := make([]any, v.Len())
		for i := range out {
			out[i] = dump(v.Index(i), depth+1)
		}
		return out
	case reflect.Map:
		if v.IsNil() {
			return nil
		}
		type kv struct {
			k string
			v any
		}
		var kvs []kv
		it := v.MapRange()
		for it.Next() {
			kvs = append(kvs, kv{keyString(it.Key()), dump(it.Value(), depth+1)})
		}
		sort.Slice(kvs, func(i, j int) bool { return kvs[i].k < kvs[j].k })
		m := map[string]any{}
		for _, e := range kvs {
			m[e.k] = e.v
		}
		return map[string]any{"$map": m}
	case reflect.Bool:
		return v.Bool()
	case reflect.Int, reflect.Int8, reflect.Int16, reflect.Int32, reflect.Int64:
		return json.Number(strconv.FormatInt(v.Int(), 10))
	case reflect.Uint, reflect.Uint8, reflect.Uint16, reflect.Uint32, reflect.Uint64:
		return json.Number(strconv.FormatUint(v.Uint(), 10))
	case reflect.Float32, reflect.Float64:
		f := v.Float()
		if math.IsNaN(f) || math.IsInf(f, 0) {
			return fmt.Sprint(f)
		}
		if v.Kind() == reflect.Float32 {
			return json.Number(strconv.FormatFloat(f, 'g', -1, 32))
		}
		return json.Number(strconv.FormatFloat(f, 'g', -1, 64))
	case reflect.String:
		return v.String()
	}
	return fmt.Sprintf("$unsupported:%s", v.Kind())
}

func keyString(k reflect.Value) string {
	d := dump(k, 0)
	switch x := d.(type) {
	case string:
		return x
	case json.Number:
		return x.String()
	}
	b, _ := json.Marshal(d)
	return string(b)
}

// Fill sets v (addressable) from JSON-like data produced by encoding/json (UseNumber) following the
// conventions of Dump.  A nil datum leaves pointers/slices/maps nil and values zero.
func Fill(v reflect.Value, data any) error {
	if data == nil {
		return nil
	}
	switch v.Kind() {
	case reflect.Ptr:
		if v.IsNil() {
			v.Set(reflect.New(v.Type().Elem()))
		}
		return Fill(v.Elem(), data)
	case reflect.Interface:
		// `any` attributes: store the plain JSON value
		v.Set(reflect.ValueOf(plain(data)))
		return nil
	case reflect.Struct:
		m, ok := data.(map[string]any)
		if !ok {
			return fmt.Errorf("struct %s needs an object, got %T", v.Type(), data)
		}
		t := v.Type()
		used := 0
		for i := 0; i < t.NumField(); i++ {
			if !t.Field(i).IsExported() {
				continue
			}
			d, ok := m[norm(t.Field(i).Name)]
			if !ok {
				continue
			}
			used++
			if err := Fill(v.Field(i), d); err != nil {
				return fmt.Errorf("%s.%s: %w", t.Name(), t.Field(i).Name, err)
			}
		}
		if used != len(m) {
			return fmt.Errorf("struct %s: %d of %d keys matched a field (%v)", t, used, len(m), keysOf(m))
		}
		return nil
	case reflect.Slice:
		if v.Type().Elem().Kind() == reflect.Uint8 {
			if m, ok := data.(map[string]any); ok {
				b, err := base64.StdEncoding.DecodeString(m["$bytes"].(string))
				if err != nil {
					return err
				}
				v.SetBytes(b)
				return nil
			}
		}
		l, ok := data.([]any)
		if !ok {
			return fmt.Errorf("slice %s needs an array, got %T", v.Type(), data)
		}
		s := reflect.MakeSlice(v.Type(), len(l), len(l))
		for i := range l {
			if err := Fill(s.Index(i), l[i]); err != nil {
				return err
			}
		}
		v.Set(s)
		return nil
	case reflect.Map:
		mm, ok := data.(map[string]any)
		if !ok {
			return fmt.Errorf("map %s needs {\"$map\":{}}, got %T", v.Type(), data)
		}
		inner, ok := mm["$map"].(map[string]any)
		if !ok {
			return fmt.Errorf("map %s needs {\"$map\":{}}", v.Type())
		}
		out := reflect.MakeMapWithSize(v.Type(), len(inner))
		for k, d := range inner {
			kv := reflect.New(v.Type().Key()).Elem()
			if err := fillKey(kv, k); err != nil {
				return err
			}
			ev := reflect.New(v.Type().Elem()).Elem()
			if err := Fill(ev, d); err != nil {
				return err
			}
			out.SetMapIndex(kv, ev)
		}
		v.Set(out)
		return nil
	case reflect.Bool:
		b, ok := data.(bool)
		if !ok {
			return fmt.Errorf("bool needs a boolean, got %T", data)
		}
		v.SetBool(b)
		return nil
	case reflect.Int, reflect.Int8, reflect.Int16, reflect.Int32, reflect.Int64:
		n, err := strconv.ParseInt(numString(data), 10, 64)
		if err != nil {
			return err
		}
		v.SetInt(n)
		return nil
	case reflect.Uint, reflect.Uint8, reflect.Uint16, reflect.Uint32, reflect.Uint64:
		n, err := strconv.ParseUint(numString(data), 10, 64)
		if err != nil {
			return err
		}
		v.SetUint(n)
		return nil
	case reflect.Float32, reflect.Float64:
		f, err := strconv.ParseFloat(numString(data), 64)
		if err != nil {
			return err
		}
		v.SetFloat(f)
		return nil
	case reflect.String:
		s, ok := data.(string)
		if !ok {
			return fmt.Errorf("string needs a string, got %T", data)
		}
		v.SetString(s)
		return nil
	}
	return fmt.Errorf("cannot fill %s", v.Kind())
}

func fillKey(kv reflect.Value, k string) error {
	switch kv.Kind() {
	case reflect.String:
		kv.SetString(k)
		return nil
	case reflect.Int, reflect.Int8, reflect.Int16, reflect.Int32, reflect.Int64:
		n, err := strconv.ParseInt(k, 10, 64)
		kv.SetInt(n)
		return err
	case reflect.Uint, reflect.Uint8, reflect.Uint16, reflect.Uint32, reflect.Uint64:
		n, err := strconv.ParseUint(k, 10, 64)
		kv.SetUint(n)
		return err
	case reflect.Bool:
		kv.SetBool(k == "true")
		return nil
	case reflect.Float32, reflect.Float64:
		f, err := strconv.ParseFloat(k, 64)
		kv.SetFloat(f)
		return err
	}
	var d any
	if err := json.Unmarshal([]byte(k), &d); err != nil {
		return err
	}
	return Fill(kv, d)
}

func numString(d any) string {
	switch x := d.(type) {
	case json.Number:
		return x.String()
	case float64:
		return strconv.FormatFloat(x, 'f', -1, 64)
	case string:
		return x
	}
	return fmt.Sprint(d)
}

func plain(d any) any {
	switch x := d.(type) {
	case json.Number:
		if i, err := x.Int64(); err == nil {
			return float64(i)
		}
		f, _ := x.Float64()
		return f
	case map[string]any:
		out := map[string]any{}
		for k, v := range x {
			out[k] = plain(v)
		}
		return out
	case []any:
		out := make([]any, len(x))
		for i := range x {
			out[i] = plain(x[i])
		}
		return out
	}
	return d
}

func keysOf(m map[string]any) []string {
	ks := make([]string, 0, len(m))
	for k := range m {
		ks = append(ks, k)
	}
	sort.Strings(ks)
	return ks
}
